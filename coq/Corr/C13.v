(* Correspondence cases for C13/C14: a REPP program, an input string, the
   regex matches the real engine produced for every (rule, string) pair met,
   and the verbose trace, result and tokens the implementation returned. *)
From Coq Require Import List NArith ZArith Bool.
From PyD Require Export Base.Str Base.PySlice Model.Repp Corr.Common.
Import ListNotations.

(* surface program: templates still as text *)
Inductive sop :=
| SRule (rid ngroups : nat) (tmpl : str)
| SMask (rid : nat)
| SIter (l : list sop)
| SExt (name : str) (l : list sop).

Fixpoint compile (o : sop) : option op :=
  match o with
  | SRule rid ng tmpl =>
      match parse_tmpl ng tmpl [] with
      | Some segs => let '(tr, un) := get_segments segs in Some (ORule rid tr un)
      | None => None
      end
  | SMask rid => Some (OMask rid)
  | SIter l =>
      option_map OIter ((fix cl (l : list sop) : option (list op) :=
                           match l with
                           | [] => Some []
                           | x :: l' => match compile x, cl l' with
                                        | Some y, Some r => Some (y :: r)
                                        | _, _ => None
                                        end
                           end) l)
  | SExt name l =>
      option_map (OExt name) ((fix cl (l : list sop) : option (list op) :=
                           match l with
                           | [] => Some []
                           | x :: l' => match compile x, cl l' with
                                        | Some y, Some r => Some (y :: r)
                                        | _, _ => None
                                        end
                           end) l)
  end.

Fixpoint compile_list (l : list sop) : option (list op) :=
  match l with
  | [] => Some []
  | x :: l' => match compile x, compile_list l' with
               | Some y, Some r => Some (y :: r)
               | _, _ => None
               end
  end.

Definition zlist_eqb : list Z -> list Z -> bool := list_eqb Z.eqb.

Definition step_eqb (a b : step) : bool :=
  str_eqb (st_in a) (st_in b) && str_eqb (st_out a) (st_out b) &&
  Bool.eqb (st_applied a) (st_applied b) &&
  zlist_eqb (st_smap a) (st_smap b) && zlist_eqb (st_emap a) (st_emap b).

Definition result_eqb (a b : result) : bool :=
  str_eqb (res_string a) (res_string b) && zlist_eqb (res_smap a) (res_smap b) &&
  zlist_eqb (res_emap a) (res_emap b).

Definition tok_eqb (a b : Z * Z * str) : bool :=
  Z.eqb (fst (fst a)) (fst (fst b)) && Z.eqb (snd (fst a)) (snd (fst b)) && str_eqb (snd a) (snd b).

Inductive case :=
| CRepp (prog : list sop) (active : list str) (s : str) (orc : oracle) (tms : list mtch)
        (steps : list step) (res : result) (toks : list (Z * Z * str))
| CTmplBad (ngroups : nat) (tmpl : str).      (* the implementation rejected the template *)

Definition check_case (c : case) : bool :=
  match c with
  | CRepp prog active s orc tms steps res toks =>
      match compile_list prog with
      | None => false
      | Some ops =>
          match trace orc active 400 ops s with
          | None => false
          | Some (steps', res') =>
              list_eqb step_eqb steps' steps && result_eqb res' res &&
              option_eqb (list_eqb tok_eqb) (tokenize res' tms) (Some toks)
          end
      end
  | CTmplBad ng tmpl => match parse_tmpl ng tmpl [] with None => true | Some _ => false end
  end.
