(* Correspondence cases for C08: each constructor carries an input and what
   the real delphin.tsdb / delphin.itsdb returned for it. *)
From Coq Require Import List NArith ZArith Bool.
From PyD Require Export Base.Str Base.Dec Base.PySlice Model.Tsdb Model.TsdbDate Corr.Common.
Import ListNotations.

Definition value_eqb (a b : value) : bool :=
  match a, b with
  | VNone, VNone => true
  | VInt x, VInt y => Z.eqb x y
  | VStr x, VStr y => str_eqb x y
  | _, _ => false
  end.

Definition raw_eqb : raw -> raw -> bool := option_eqb str_eqb.

Definition cast_opt (c : castres) : option value :=
  match c with COk v => Some v | CErr => None end.

(* Python raises at the first element that fails to cast *)
Definition collapse (l : list castres) : option (list value) := sequence (map cast_opt l).

Definition bind_cast (o : option castres) : option value :=
  match o with Some (COk v) => Some v | _ => None end.
Definition bind_casts (o : option (list castres)) : option (list value) :=
  match o with Some l => collapse l | None => None end.

Inductive case :=
| CEscape (s out : str)
| CUnescape (t : str) (out : option str)
| CSplit (line : str) (out : option (list raw))
| CJoin (vs : list raw) (out : str)
| CCast (t : dtype) (r : raw) (out : option value)
| CFormat (t : dtype) (v : value) (d : option str) (out : str)
| CDefault (name : str) (t : dtype) (out : str)
| CJoinT (fs : list field) (vs : list value) (out : option str)
| CRowIter (fs : list field) (vs : list value) (out : option (list value))
| CRowInt (fs : list field) (vs : list value) (i : Z) (out : option value)
| CRowSlice (fs : list field) (vs : list value) (s : pyslice) (out : option (list value))
| CRowName (fs : list field) (vs : list value) (n : str) (out : option value)
| CDate (s : str) (out : dres)
| CFmtDate (t : dt) (out : str).

Definition dt_eqb (a b : dt) : bool :=
  (dy a =? dy b)%N && (dmo a =? dmo b)%N && (dd a =? dd b)%N &&
  (dh a =? dh b)%N && (dmi a =? dmi b)%N && (TsdbDate.ds a =? TsdbDate.ds b)%N.

(* the value of a "now" date is the clock's: only its kind is compared *)
Definition dres_eqb (a b : dres) : bool :=
  match a, b with
  | DNone, DNone => true
  | DNow, DNow => true
  | DKeyError, DKeyError => true
  | DSome x, DSome y => dt_eqb x y
  | _, _ => false
  end.

Definition with_row (fs : list field) (vs : list value) {A} (f : row -> option A) : option A :=
  match mk_row fs vs with Some r => f r | None => None end.

Definition check_case (c : case) : bool :=
  match c with
  | CEscape s out => str_eqb (escape s) out
  | CUnescape t out => option_eqb str_eqb (unescape t) out
  | CSplit line out => option_eqb (list_eqb raw_eqb) (split_raw line) out
  | CJoin vs out => str_eqb (join_raw vs) out
  | CCast t r out => option_eqb value_eqb (cast_opt (cast_val t r)) out
  | CFormat t v d out => str_eqb (format_val t v d) out
  | CDefault n t out => str_eqb (field_default n t) out
  | CJoinT fs vs out => option_eqb str_eqb (join_typed vs fs) out
  | CRowIter fs vs out =>
      option_eqb (list_eqb value_eqb) (with_row fs vs (fun r => collapse (row_iter r))) out
  | CRowInt fs vs i out =>
      option_eqb value_eqb (with_row fs vs (fun r => bind_cast (row_getitem_int r i))) out
  | CRowSlice fs vs s out =>
      option_eqb (list_eqb value_eqb)
        (with_row fs vs (fun r => bind_casts (row_getitem_slice r s))) out
  | CRowName fs vs n out =>
      option_eqb value_eqb (with_row fs vs (fun r => bind_cast (row_getitem_name r n))) out
  | CDate s out => dres_eqb (parse_datetime s) out
  | CFmtDate t out => str_eqb (format_date t) out
  end.
