(* Correspondence cases for C10: an operation history on one itsdb table and
   what was observed after every operation. *)
From Coq Require Import List NArith ZArith Bool.
From PyD Require Export Base.Str Base.PySlice Model.TsdbFiles Model.Table Model.Process Corr.Common.
Import ListNotations.

Inductive op :=
| OExtend (rows : list row)
| OSetItem (i : Z) (r : row)
| OSetSlice (s : pyslice) (rows : list row)
| OUpdate (i : Z) (k : nat) (v : str)
| OClear
| OCommit
| OReload
| OReopen.

Definition row_eqb : row -> row -> bool := list_eqb str_eqb.

Record obs := {
  b_status : N;                         (* 0 ok, 1 IndexError, 2 ValueError *)
  b_len : nat;
  b_iter : list row;
  b_items : list (option row);          (* probes: None = IndexError *)
  b_slices : list (option (list row));  (* probes: None = ValueError *)
  b_intx : bool;
  b_tx : bool; b_gz : bool;
  b_disk : list row }.

Definition get_opt (t : table) (i : Z) : option row :=
  match t_getitem t i with GOk r => Some r | _ => None end.

Definition observe (st : N) (t : table) (iprobes : list Z) (sprobes : list pyslice) : obs :=
  {| b_status := st; b_len := t_len t; b_iter := t_iter t;
     b_items := map (get_opt t) iprobes;
     b_slices := map (t_slice t) sprobes;
     b_intx := in_transaction t;
     b_tx := match tx (t_file t) with Some _ => true | None => false end;
     b_gz := match gz (t_file t) with Some _ => true | None => false end;
     b_disk := content (t_file t) |}.

Definition obs_eqb (a b : obs) : bool :=
  N.eqb (b_status a) (b_status b) && Nat.eqb (b_len a) (b_len b) &&
  list_eqb row_eqb (b_iter a) (b_iter b) &&
  list_eqb (option_eqb row_eqb) (b_items a) (b_items b) &&
  list_eqb (option_eqb (list_eqb row_eqb)) (b_slices a) (b_slices b) &&
  Bool.eqb (b_intx a) (b_intx b) && Bool.eqb (b_tx a) (b_tx b) && Bool.eqb (b_gz a) (b_gz b) &&
  list_eqb row_eqb (b_disk a) (b_disk b).

Definition of_sres (t : table) (r : sres) : N * table :=
  match r with
  | SOk t' => (0%N, t')
  | SValueError t' => (2%N, t')
  | SIndexError => (1%N, t)
  end.

Definition step (t : table) (o : op) : N * table :=
  match o with
  | OExtend rows => (0%N, t_extend t rows)
  | OSetItem i r => of_sres t (t_setitem t i r)
  | OSetSlice s rows => of_sres t (t_setslice t s rows)
  | OUpdate i k v => of_sres t (t_update t i k v)
  | OClear => (0%N, t_clear t)
  | OCommit => (0%N, t_commit t)
  | OReload => (0%N, t_reload t)
  | OReopen => (0%N, open_table (t_file t))
  end.

Fixpoint run (t : table) (ops : list op) (ip : list Z) (sp : list pyslice) : list obs :=
  match ops with
  | [] => []
  | o :: ops' => let '(st, t') := step t o in observe st t' ip sp :: run t' ops' ip sp
  end.

(* TestSuite.process: the relations at the start (stored file, rows appended but not
   committed), the relations the field mapper clears, the rows it produced in order,
   the buffer size and the gzip flag; observed: per relation the rows in memory and on
   disk afterwards, whether the test suite is in a transaction, and how many times
   _add_row committed *)
Record pobs := { p_name : str; p_mem : list row; p_disk : list row }.

Definition pobs_eqb (a b : pobs) : bool :=
  str_eqb (p_name a) (p_name b) && list_eqb row_eqb (p_mem a) (p_mem b) && list_eqb row_eqb (p_disk a) (p_disk b).

Inductive case :=
| CTable (init : rel row) (ops : list op) (ip : list Z) (sp : list pyslice) (expected : list obs)
| CProcess (inits : list (str * rel row * list row)) (affected : list str) (prod : list (str * row))
           (bs : Z) (gzflag : bool) (expected : list pobs) (intx : bool) (ncommits : nat).

Definition check_case (c : case) : bool :=
  match c with
  | CTable init ops ip sp expected =>
      let t := open_table init in
      list_eqb obs_eqb (observe 0%N t ip sp :: run t ops ip sp) expected
  | CProcess inits affected prod bs gzflag expected intx ncommits =>
      let ts0 := map (fun x => (fst (fst x), t_extend (open_table (snd (fst x))) (snd x))) inits in
      let ts := process affected prod bs gzflag ts0 in
      list_eqb pobs_eqb
        (map (fun nt => {| p_name := fst nt; p_mem := t_iter (snd nt); p_disk := content (t_file (snd nt)) |}) ts)
        expected &&
      Bool.eqb (existsb (fun nt => in_transaction (snd nt)) ts) intx &&
      Nat.eqb (commits bs (clear_affected affected ts0) prod) ncommits
  end.
