(* Correspondence cases for C17: an update history on a MultiHierarchy and
   the full query snapshot observed after every update. *)
From Coq Require Import List NArith ZArith Bool.
From PyD Require Export Base.Str Model.Hier Corr.Common.
Import ListNotations.

Definition subset (a b : list str) : bool := forallb (fun x => mem x b) a.
Definition set_eqb (a b : list str) : bool := subset a b && subset b a.

Record nodeinfo := {
  n_contains : bool;
  n_parents : option (list str);     (* ordered tuple; None = KeyError *)
  n_children : option (list str);    (* set *)
  n_anc : option (list str);         (* set *)
  n_desc : option (list str);        (* set *)
  n_item : option (option N) }.      (* None = KeyError *)

Record snap := {
  s_rejected : bool;
  s_iter : list str;
  s_len : nat;
  s_nodes : list nodeinfo;                       (* one per universe element *)
  s_pairs : list (option bool * option bool) }.  (* subsumes, compatible; universe x universe *)

Definition nodeinfo_of (norm : str -> str) (st : hstate) (x : str) : nodeinfo :=
  {| n_contains := q_contains norm st x;
     n_parents := q_parents norm st x;
     n_children := q_children norm st x;
     n_anc := q_ancestors norm st x;
     n_desc := q_descendants norm st x;
     n_item := q_getitem norm st x |}.

Definition nodeinfo_eqb (a b : nodeinfo) : bool :=
  Bool.eqb (n_contains a) (n_contains b) &&
  option_eqb (list_eqb str_eqb) (n_parents a) (n_parents b) &&
  option_eqb set_eqb (n_children a) (n_children b) &&
  option_eqb set_eqb (n_anc a) (n_anc b) &&
  option_eqb set_eqb (n_desc a) (n_desc b) &&
  option_eqb (option_eqb N.eqb) (n_item a) (n_item b).

Definition snap_of (norm : str -> str) (univ : list str) (rej : bool) (st : hstate) : snap :=
  {| s_rejected := rej;
     s_iter := q_iter st;
     s_len := q_len st;
     s_nodes := map (nodeinfo_of norm st) univ;
     s_pairs := flat_map (fun a => map (fun b => (q_subsumes norm st a b, q_compatible norm st a b)) univ) univ |}.

Definition snap_eqb (a b : snap) : bool :=
  Bool.eqb (s_rejected a) (s_rejected b) &&
  list_eqb str_eqb (s_iter a) (s_iter b) &&
  Nat.eqb (s_len a) (s_len b) &&
  list_eqb nodeinfo_eqb (s_nodes a) (s_nodes b) &&
  list_eqb (pair_eqb (option_eqb Bool.eqb) (option_eqb Bool.eqb)) (s_pairs a) (s_pairs b).

Definition op := (list (str * parents_arg) * list (str * N))%type.

Fixpoint run (norm : str -> str) (univ : list str) (st : hstate) (ops : list op) : list snap :=
  match ops with
  | [] => []
  | o :: ops' =>
      let r := update norm st (fst o) (snd o) in
      let rej := match snd r with UOk _ => false | _ => true end in
      snap_of norm univ rej (fst r) :: run norm univ (fst r) ops'
  end.

Inductive case :=
| CHist (lower : bool) (top : str) (univ : list str) (ops : list op) (snaps : list snap).

Definition check_case (c : case) : bool :=
  match c with
  | CHist lower top univ ops snaps =>
      let norm := if lower then ascii_lower else (fun s => s) in
      list_eqb snap_eqb (run norm univ (init norm top) ops) snaps
  end.
