(* Correspondence cases for C07. *)
From Coq Require Import List NArith ZArith Bool.
From PyD Require Export Base.Str Model.Hier Model.Mrs Corr.Common.
Import ListNotations.

Definition sl_eqb : list str -> list str -> bool := list_eqb str_eqb.
Definition subset (a b : list str) : bool := forallb (fun x => mem x b) a.
Definition set_eqb (a b : list str) : bool := subset a b && subset b a.
Definition dm_eqb : list (str * list str) -> list (str * list str) -> bool :=
  list_eqb (pair_eqb str_eqb sl_eqb).

(* lists of classes compared as sets of sets *)
Definition classes_eqb (a b : list (list str)) : bool :=
  Nat.eqb (length a) (length b) &&
  forallb (fun c => existsb (set_eqb c) b) a && forallb (fun c => existsb (set_eqb c) a) b.

Record obs := {
  o_ids : option (list str);
  o_conn : option bool; o_complete : bool; o_unique : bool; o_ivp : bool; o_plaus : bool;
  o_wf : option bool;
  o_top : option str;
  o_scopes : list (str * list str);
  o_descs : option (list (str * list str));
  o_reps : option (list (str * list str)) }.

Definition scopes_ids (m : mrs) : list (str * list str) :=
  match ep_ids (m_rels m) with
  | Some ids => fold_left (fun acc p => dict_append (e_label (snd p)) (fst p) acc)
                          (combine ids (m_rels m)) []
  | None => []
  end.

Inductive case :=
| CMrs (m : mrs) (o : obs)
| CConjoin (scopes : list (str * list str)) (leqs : list (str * str)) (classes : list (list str))
| CDmrs (nodes : list str) (links : list dlink) (top : option str)
        (classes : list (list str)) (topclass : option (list str)).

Definition check_case (c : case) : bool :=
  match c with
  | CMrs m o =>
      option_eqb sl_eqb (ep_ids (m_rels m)) (o_ids o) &&
      option_eqb Bool.eqb (is_connected m) (o_conn o) &&
      Bool.eqb (has_complete_iv m) (o_complete o) && Bool.eqb (has_unique_iv m) (o_unique o) &&
      Bool.eqb (has_iv_property m) (o_ivp o) && Bool.eqb (plausibly_scopes m) (o_plaus o) &&
      option_eqb Bool.eqb (is_well_formed m) (o_wf o) &&
      option_eqb str_eqb (top_label m) (o_top o) &&
      dm_eqb (scopes_ids m) (o_scopes o) &&
      option_eqb dm_eqb (descendants m) (o_descs o) &&
      option_eqb dm_eqb (representatives m) (o_reps o)
  | CConjoin scopes leqs classes =>
      classes_eqb (map snd (conjoin scopes leqs)) classes
  | CDmrs nodes links top classes topclass =>
      classes_eqb (dmrs_scopes nodes links) classes &&
      option_eqb set_eqb (dmrs_top_scope nodes links top) topclass
  end.
