(* Shared helpers for correspondence shards: boolean equalities and the
   index list of disagreeing cases (diagnostics only). *)
From Coq Require Import List NArith ZArith Bool.
From PyD Require Import Base.Str.
Import ListNotations.

Definition option_eqb {A} (e : A -> A -> bool) (a b : option A) : bool :=
  match a, b with
  | None, None => true
  | Some x, Some y => e x y
  | _, _ => false
  end.

Fixpoint list_eqb {A} (e : A -> A -> bool) (a b : list A) : bool :=
  match a, b with
  | [], [] => true
  | x :: a', y :: b' => e x y && list_eqb e a' b'
  | _, _ => false
  end.

Definition pair_eqb {A B} (ea : A -> A -> bool) (eb : B -> B -> bool) (a b : A * B) : bool :=
  ea (fst a) (fst b) && eb (snd a) (snd b).

Definition bad_idx {A} (chk : A -> bool) (l : list A) : list nat :=
  (fix go (l : list A) (i : nat) : list nat :=
     match l with
     | [] => []
     | x :: l' => if chk x then go l' (S i) else i :: go l' (S i)
     end) l 0%nat.

Lemma option_eqb_spec {A} (e : A -> A -> bool) :
  (forall x y, e x y = true <-> x = y) -> forall a b, option_eqb e a b = true <-> a = b.
Proof.
  intros H [x|] [y|]; simpl; try (split; congruence).
  rewrite H. split; congruence.
Qed.

Lemma list_eqb_spec {A} (e : A -> A -> bool) :
  (forall x y, e x y = true <-> x = y) -> forall a b, list_eqb e a b = true <-> a = b.
Proof.
  intros H a. induction a as [|x a IH]; intros [|y b]; simpl; try (split; congruence).
  rewrite andb_true_iff, H, IH. split; [intros [-> ->]; reflexivity | intros E; inversion E; auto].
Qed.
