(* C14 shares the REPP correspondence cases of C13 (maps and tokens are
   compared there). *)
From PyD Require Export Corr.C13.
