(* C14 shares the REPP correspondence cases of C13 (maps and tokens are
   compared there) and adds the YY serialisation of token lattices. *)
From Coq Require Import List NArith ZArith Bool.
From PyD Require Export Corr.C13.
From PyD Require Export Model.YY.
Import ListNotations.

Definition tok_eqb (a b : yytok) : bool :=
  Z.eqb (y_id a) (y_id b) && Z.eqb (y_start a) (y_start b) && Z.eqb (y_end a) (y_end b) &&
  option_eqb (fun p q => Z.eqb (fst p) (fst q) && Z.eqb (snd p) (snd q)) (y_lnk a) (y_lnk b) &&
  list_eqb Z.eqb (y_paths a) (y_paths b) && str_eqb (y_form a) (y_form b) &&
  option_eqb str_eqb (y_surface a) (y_surface b) &&
  Z.eqb (y_ipos a) (y_ipos b) && list_eqb str_eqb (y_lrules a) (y_lrules b).

(* what from_string did: the tokens, or a ValueError *)
Inductive yobs := OToks (l : list yytok) | OValueError.

Definition yres_matches (r : yres) (o : yobs) : bool :=
  match r, o with
  | YOk l, OToks l' => list_eqb tok_eqb l l'
  | YValueError, OValueError => true
  | YUnmodelled, _ => true                 (* part-of-speech tags: outside the model *)
  | _, _ => false
  end.

Inductive case14 :=
| CR (c : Corr.C13.case)
| CYYPrint (l : list yytok) (out : str)
| CYYParse (s : str) (out : yobs).

Definition check_case14 (c : case14) : bool :=
  match c with
  | CR c' => Corr.C13.check_case c'
  | CYYPrint l out => str_eqb (print_lattice l) out
  | CYYParse s out => yres_matches (parse_lattice s) out
  end.

Notation case := case14.
Notation check_case := check_case14.
