(* Correspondence cases for C11. *)
From Coq Require Import List NArith ZArith Bool.
From PyD Require Export Base.Str Model.Tsdb Model.TsdbDate Model.Tsql Corr.Common.
Import ListNotations.

Definition op_eqb (a b : cmpop) : bool :=
  match a, b with
  | OEq, OEq | ONe, ONe | OLt, OLt | OLe, OLe | OGt, OGt | OGe, OGe | ORe, ORe | ONre, ONre => true
  | _, _ => false
  end.
Definition lit_eqb (a b : lit) : bool :=
  match a, b with
  | LInt x, LInt y => Z.eqb x y
  | LStr x, LStr y => str_eqb x y
  | LDate x, LDate y => match dt_cmp x y with Eq => true | _ => false end
  | _, _ => false
  end.

Fixpoint cond_eqb (a b : cond) : bool :=
  match a, b with
  | CCmp o1 c1 v1, CCmp o2 c2 v2 => op_eqb o1 o2 && str_eqb c1 c2 && lit_eqb v1 v2
  | CAnd l1, CAnd l2 | COr l1, COr l2 =>
      (fix go (l1 l2 : list cond) : bool :=
         match l1, l2 with
         | [], [] => true
         | x :: l1', y :: l2' => cond_eqb x y && go l1' l2'
         | _, _ => false
         end) l1 l2
  | CNot x, CNot y => cond_eqb x y
  | _, _ => false
  end.

Definition row_eqb : list raw -> list raw -> bool := list_eqb (option_eqb str_eqb).

(* equality of row lists up to order (multiplicities preserved) *)
Fixpoint remove_row (r : list raw) (l : list (list raw)) : option (list (list raw)) :=
  match l with
  | [] => None
  | x :: l' => if row_eqb r x then Some l' else option_map (cons x) (remove_row r l')
  end.
Fixpoint perm_eqb (a b : list (list raw)) : bool :=
  match a with
  | [] => match b with [] => true | _ => false end
  | r :: a' => match remove_row r b with Some b' => perm_eqb a' b' | None => false end
  end.

Inductive case :=
| CTokParse (ts : list tok) (obs : option (option cond))      (* where-part tokens; None = syntax error *)
| CPrinted (c : cond) (obs : option cond)                    (* parse of the text printed from c *)
| CSelect (d : db) (o : regex_oracle) (star : bool) (projection relations : list str)
          (c : option cond) (ordered : bool) (obs : option (list (list raw))).

Definition check_case (c : case) : bool :=
  match c with
  | CTokParse ts obs =>
      let r := match parse_where (S (length ts)) ts [] with
               | Some (oc, [KDot]) => Some oc
               | _ => None end in
      option_eqb (option_eqb cond_eqb) r obs
  | CPrinted c obs =>
      option_eqb cond_eqb obs (Some c) &&
      match parse_where 3 (KWhere :: print 0 c ++ [KDot]) [] with
      | Some (Some c', [KDot]) => cond_eqb c' c
      | _ => false end
  | CSelect d o star proj rels c ordered obs =>
      match select d o star proj rels c, obs with
      | Some rows, Some rows' => if ordered then list_eqb row_eqb rows rows' else perm_eqb rows rows'
      | None, None => true
      | _, _ => false
      end
  end.
