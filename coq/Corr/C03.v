(* Correspondence cases for C03 (native EDS codec at token level). *)
From Coq Require Import List NArith ZArith Bool.
From PyD Require Export Base.Str Model.Hier Model.Mrs Model.Iso Model.SimpleMrs Model.MrsJson Model.EdsNative Model.EdsJson Corr.Common.
From PyD Require Import Corr.C01.
Import ListNotations.

Definition etok_eqb (a b : etok) : bool :=
  match a, b with
  | ELBRACE, ELBRACE | ERBRACE, ERBRACE | ENSTATUS, ENSTATUS | ECOLON, ECOLON | ECOMMA, ECOMMA
  | ELBRK, ELBRK | ERBRK, ERBRK => true
  | ELNK x, ELNK y => C01.lnk_eqb x y
  | EIDENT x, EIDENT y | EGSTATUS x, EGSTATUS y | ECARG x, ECARG y | ESYM x, ESYM y => str_eqb x y
  | _, _ => false
  end.

Definition vnode_eqb (a b : vnode) : bool :=
  str_eqb (v_id a) (v_id b) && str_eqb (v_pred a) (v_pred b) && option_eqb str_eqb (v_type a) (v_type b) &&
  C01.ss_eqb (v_edges a) (v_edges b) && C01.ss_eqb (v_props a) (v_props b) &&
  option_eqb str_eqb (v_carg a) (v_carg b) && C01.lnk_eqb (v_lnk a) (v_lnk b).

Definition veds_eqb (a b : veds) : bool :=
  option_eqb str_eqb (ve_top a) (ve_top b) && list_eqb vnode_eqb (ve_nodes a) (ve_nodes b) &&
  option_eqb str_eqb (ve_ident a) (ve_ident b).

Inductive case :=
| EEnc (propopt lnkopt status : bool) (g : veds) (toks : option (list etok))
| EDec (toks : list etok) (res : option (list veds))
| EJson (propopt lnkopt : bool) (g : veds) (d : jv) (back : veds).

Definition check_case (c : case) : bool :=
  match c with
  | EEnc p l st g toks => option_eqb (list_eqb etok_eqb) (enc_veds p l st g) toks
  | EDec toks res => option_eqb (list_eqb veds_eqb) (dec_eds_all (S (length toks)) toks) res
  | EJson p l g d back =>
      C01.jv_eqb (e_to_dict p l g) d && option_eqb veds_eqb (e_from_dict d) (Some back)
  end.
