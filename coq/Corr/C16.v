(* Correspondence cases for C16. *)
From Coq Require Import List NArith ZArith Bool.
From PyD Require Export Base.Str Base.Dec Model.Deriv Corr.Common.
Import ListNotations.

Definition tok_eqb (a b : Z * str) : bool := Z.eqb (fst a) (fst b) && str_eqb (snd a) (snd b).

Fixpoint tree_eqb (x y : tree) : bool :=
  match x, y with
  | TTerm f1 t1, TTerm f2 t2 => str_eqb f1 f2 && list_eqb tok_eqb t1 t2
  | TNode i1 e1 s1 a1 b1 h1 ty1 d1, TNode i2 e2 s2 a2 b2 h2 ty2 d2 =>
      option_eqb Z.eqb i1 i2 && str_eqb e1 e2 && str_eqb s1 s2 && Z.eqb a1 a2 && Z.eqb b1 b2 &&
      Bool.eqb h1 h2 && option_eqb str_eqb ty1 ty2 &&
      (fix go (l1 l2 : list tree) : bool :=
         match l1, l2 with
         | [], [] => true
         | p :: l1', q :: l2' => tree_eqb p q && go l1' l2'
         | _, _ => false
         end) d1 d2
  | _, _ => false
  end.

(* nodes are reported by (id, entity) *)
Definition key_of (t : tree) : option Z * str :=
  match t with TNode i e _ _ _ _ _ _ => (i, e) | TTerm f _ => (None, f) end.
Definition key_eqb (a b : option Z * str) : bool := option_eqb Z.eqb (fst a) (fst b) && str_eqb (snd a) (snd b).

Inductive case :=
| CFormat (t : tree) (indent : option nat) (udx : bool) (text : str)
| CParse (t : tree) (udx : bool) (parsed : tree)
| CDict (t : tree) (back : tree)                (* from_dict(to_dict(t)) as observed *)
| CNav (t : tree) (terms pre inter : list (option Z * str)).

Definition check_case (c : case) : bool :=
  match c with
  | CFormat t indent udx text => str_eqb (to_udf indent udx 1 t) text
  | CParse t udx parsed => tree_eqb (normalise udx t) parsed
  | CDict t back => match to_dict t with
                    | Some d => tree_eqb (from_dict d) back && tree_eqb t back
                    | None => false end
  | CNav t terms pre inter =>
      list_eqb key_eqb (map key_of (terminals t)) terms &&
      list_eqb key_eqb (map key_of (preterminals t)) pre &&
      list_eqb key_eqb (map key_of (internals t)) inter
  end.
