(* Correspondence cases for C20 (document assembly of commands.convert). *)
From Coq Require Import List NArith ZArith Bool.
From PyD Require Export Base.Str Model.ConvertCmd Corr.Common.
Import ListNotations.

Inductive case :=
| CAsm (header joiner footer : str) (indent_given lines : bool) (parts : list str) (out : str).

Definition check_case (c : case) : bool :=
  match c with
  | CAsm h j f ind lines parts out => str_eqb (assemble h j f ind lines parts) out
  end.
