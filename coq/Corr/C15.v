(* Correspondence cases for C15 (TDL syntax level). *)
From Coq Require Import List NArith ZArith Bool.
From PyD Require Export Base.Str Model.Tdl Model.Tfs Corr.Common.
Import ListNotations.

Definition ostr_eqb := option_eqb str_eqb.

Fixpoint tterm_eqb (a b : tterm) {struct a} : bool :=
  let conj_eqb := fix ceq (x y : list tterm) : bool :=
                    match x, y with
                    | [], [] => true
                    | t :: x', t' :: y' => tterm_eqb t t' && ceq x' y'
                    | _, _ => false
                    end in
  let vals_eqb := fix veq (x y : list (list tterm)) : bool :=
                    match x, y with
                    | [], [] => true
                    | c :: x', c' :: y' => conj_eqb c c' && veq x' y'
                    | _, _ => false
                    end in
  match a, b with
  | MId d s, MId d' s' | MStr d s, MStr d' s' | MRegex d s, MRegex d' s' | MCoref d s, MCoref d' s' =>
      ostr_eqb d d' && str_eqb s s'
  | MAvm d fs, MAvm d' fs' =>
      ostr_eqb d d' &&
      (fix feq (x y : list (list str * list tterm)) : bool :=
         match x, y with
         | [], [] => true
         | (p, c) :: x', (p', c') :: y' => list_eqb str_eqb p p' && conj_eqb c c' && feq x' y'
         | _, _ => false
         end) fs fs'
  | MCons d vs e dt, MCons d' vs' e' dt' =>
      ostr_eqb d d' && vals_eqb vs vs' &&
      (match e, e' with CClosed, CClosed | COpen, COpen => true | _, _ => false end) &&
      (match dt, dt' with Some x, Some y => conj_eqb x y | None, None => true | _, _ => false end)
  | MDiff d vs, MDiff d' vs' => ostr_eqb d d' && vals_eqb vs vs'
  | _, _ => false
  end.

Definition conj_eqb := list_eqb tterm_eqb.

Definition tevent_eqb (a b : tevent) : bool :=
  match a, b with
  | VDef i c d, VDef i' c' d' | VAdd i c d, VAdd i' c' d' => str_eqb i i' && conj_eqb c c' && ostr_eqb d d'
  | VLex i a ps c d, VLex i' a' ps' c' d' =>
      str_eqb i i' && str_eqb a a' && list_eqb (pair_eqb str_eqb str_eqb) ps ps' && conj_eqb c c' && ostr_eqb d d'
  | VMorph l v cs, VMorph l' v' cs' => Bool.eqb l l' && N.eqb v v' && str_eqb cs cs'
  | VBegin t s, VBegin t' s' => str_eqb t t' && ostr_eqb s s'
  | VEnd t, VEnd t' | VInclude t, VInclude t' | VLineC t, VLineC t' | VBlockC t, VBlockC t' => str_eqb t t'
  | _, _ => false
  end.

Definition ttok_eqb (a b : ttok) : bool :=
  match a, b with
  | KDoc x, KDoc y | KBlockC x, KBlockC y | KLineC x, KLineC y | KStr x, KStr y | KQSym x, KQSym y
  | KRegex x, KRegex y | KDefOp x, KDefOp y | KCoref x, KCoref y | KMorph x, KMorph y | KAffix x, KAffix y
  | KAffixPat x, KAffixPat y | KIdent x, KIdent y | KEnvType x, KEnvType y => str_eqb x y
  | KAddOp, KAddOp | KEllipsis, KEllipsis | KDot, KDot | KAmp, KAmp | KComma, KComma | KLBrk, KLBrk
  | KLDiff, KLDiff | KLAngle, KLAngle | KRBrk, KRBrk | KRDiff, KRDiff | KRAngle, KRAngle | KSlash, KSlash
  | KBegin, KBegin | KEnd, KEnd | KStatus, KStatus | KInclude, KInclude => true
  | _, _ => false
  end.

(* docstrings are laid out by the formatter (dedent, strip, indent, escape):
   token comparison ignores white space and backslashes inside docstrings *)
Definition squash (s : str) : str := filter (fun c => negb (Model.SimpleMrs.is_space c || N.eqb c 92)) s.
Definition coarse (t : ttok) : ttok := match t with KDoc s => KDoc (squash s) | _ => t end.

Inductive case :=
| CParse (toks : list ttok) (res : option (list tevent))
| CFormat (evs : list tevent) (toks : list ttok)
| CTfs (ops : list (list str * N)) (oks : list bool) (gets : list (list str * option Z))
       (feats feats_expanded : list (list str * Z)).

Definition pz_eqb : list str * Z -> list str * Z -> bool := pair_eqb (list_eqb str_eqb) Z.eqb.

Definition check_case (c : case) : bool :=
  match c with
  | CParse toks res => option_eqb (list_eqb tevent_eqb) (p_events (2 * length toks + 2) toks []) res
  | CFormat evs toks => list_eqb ttok_eqb (map coarse (flat_map fmt_event evs)) (map coarse toks)
  | CTfs ops oks gets feats featsx =>
      let '(f, oks') := run_sets [] ops in
      list_eqb Bool.eqb oks' oks &&
      forallb (fun g => option_eqb Z.eqb (option_map obs_node (getitem f (fst g))) (snd g)) gets &&
      list_eqb pz_eqb (map (fun pv => (fst pv, obs_node (snd pv))) (features 64 false f)) feats &&
      list_eqb pz_eqb (map (fun pv => (fst pv, obs_node (snd pv))) (features 64 true f)) featsx
  end.
