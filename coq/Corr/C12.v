(* Correspondence cases for C12. *)
From Coq Require Import List NArith ZArith Bool.
From PyD Require Export Corr.C09 Model.Tsql Model.Mkprof.
Import ListNotations.

Inductive case :=
| CMkprof (src_sch : kschema) (src dst : files) (o : regex_oracle) (new_sch : option kschema)
          (where_ : option cond) (full skeleton gzip : bool) (ok : bool) (obs : list (str * obsrel))
| CRefresh (sch : kschema) (fs : files) (new_sch : option kschema) (skeleton gzip : bool)
           (ok : bool) (obs : list (str * obsrel))
| CLines (fields : list field) (lines : list str) (obs : option (list str))
| CDelim (delim : N) (fields : list field) (lines : list str) (obs : option (list str)).

Definition plain_schema (s : kschema) : schema := map (fun e => (fst e, plain_fields (snd e))) s.

Definition check_obs (fs : files) (obs : list (str * obsrel)) : bool :=
  forallb (fun p => obsrel_eqb (observe_rel (get_rel fs (fst p))) (snd p)) obs.

Definition check_case (c : case) : bool :=
  match c with
  | CMkprof ss src dst o ns w full skel gzip ok obs =>
      match mkprof_from_database ss src dst o ns w full gzip with
      | MErr => negb ok
      | MOk fs =>
          let sch := match ns with Some s => s | None => ss end in
          ok && check_obs (mkprof_cleanup fs (map fst sch) skel (map fst ss)) obs
      end
  | CRefresh sch fs ns skel gzip ok obs =>
      match write_database (plain_schema sch) fs fs true None (option_map plain_schema ns) gzip with
      | DErr _ => negb ok
      | DOk fs' =>
          let s2 := match ns with Some s => s | None => sch end in
          ok && check_obs (mkprof_cleanup fs' (map fst s2) skel (map fst sch)) obs
      end
  | CLines fields lines obs => option_eqb (list_eqb str_eqb) (items_from_lines fields lines) obs
  | CDelim delim fields lines obs => option_eqb (list_eqb str_eqb) (items_from_delimited delim fields lines) obs
  end.
