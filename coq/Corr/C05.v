(* Correspondence cases for C05: eds.from_mrs. *)
From Coq Require Import List NArith ZArith Bool.
From PyD Require Export Base.Str Model.Hier Model.Mrs Model.Convert Corr.Common.
Import ListNotations.

Definition sprops_eqb : list (str * str) -> list (str * str) -> bool :=
  list_eqb (pair_eqb str_eqb str_eqb).

Definition enode_eqb (a b : enode) : bool :=
  str_eqb (en_id a) (en_id b) && str_eqb (en_pred a) (en_pred b) &&
  option_eqb str_eqb (en_type a) (en_type b) && sprops_eqb (en_edges a) (en_edges b) &&
  sprops_eqb (en_props a) (en_props b) && option_eqb str_eqb (en_carg a) (en_carg b).

Definition eds_eqb (a b : eds) : bool :=
  option_eqb str_eqb (e_top a) (e_top b) && list_eqb enode_eqb (e_nodes a) (e_nodes b) &&
  Nat.eqb (e_warnings a) (e_warnings b).

Inductive case :=
| CEdsFromMrs (m : mrs) (pm uniq : bool) (obs : option eds).     (* None = IndexError *)

Definition check_case (c : case) : bool :=
  match c with
  | CEdsFromMrs m pm uniq obs =>
      match eds_from_mrs m pm uniq, obs with
      | COk d, Some d' => eds_eqb d d'
      | CIndexError, None => true
      | CInvalid, _ => true        (* outside the modelled class (new ids would clash) *)
      | _, _ => false
      end
  end.
