(* Correspondence cases for C18: edm.compute on lists of EDS/DMRS, compared
   bit-exactly (binary64) with the PrimFloat evaluation of the model. *)
From Coq Require Import List NArith ZArith Bool.
From Coq Require Export PrimFloat.
From PyD Require Export Base.Str Model.Edm Corr.Common.
Import ListNotations.

Inductive case :=
| CCompute (golds tests : list (option srep)) (w : weights float) (ig it : bool)
           (p r f : float).

Definition check_case (c : case) : bool :=
  match c with
  | CCompute golds tests w ig it p r f =>
      let '(p', r', f') := compute_F golds tests w ig it in
      PrimFloat.eqb p' p && PrimFloat.eqb r' r && PrimFloat.eqb f' f
  end.
