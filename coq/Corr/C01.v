(* Correspondence cases for C01 (SimpleMRS codec at token level). *)
From Coq Require Import List NArith ZArith Bool.
From PyD Require Export Base.Str Model.Hier Model.Mrs Model.Iso Model.SimpleMrs Model.MrsJson Corr.Common.
Import ListNotations.

Definition lnk_eqb (a b : lnk) : bool :=
  match a, b with
  | LNone, LNone => true
  | LChar a1 a2, LChar b1 b2 => Z.eqb a1 b1 && Z.eqb a2 b2
  | LChart a1 a2, LChart b1 b2 => Z.eqb a1 b1 && Z.eqb a2 b2
  | LToks l1, LToks l2 => list_eqb Z.eqb l1 l2
  | LEdge n1, LEdge n2 => Z.eqb n1 n2
  | _, _ => false
  end.

Definition stok_eqb (a b : stok) : bool :=
  match a, b with
  | TLB, TLB | TRB, TRB | TLA, TLA | TRA, TRA => true
  | TLNK x, TLNK y => lnk_eqb x y
  | TDQ x, TDQ y | TSQ x, TSQ y | TPRED x, TPRED y | TFEAT x, TFEAT y | TSYM x, TSYM y => str_eqb x y
  | _, _ => false
  end.

(* PREDICATE and SYMBOL tokens are identified when comparing encoder output *)
Definition coarse (t : stok) : stok := match t with TPRED s => TSYM s | _ => t end.

Definition ss_eqb : list (str * str) -> list (str * str) -> bool := list_eqb (pair_eqb str_eqb str_eqb).
Definition c3_eqb (a b : cons3) : bool :=
  let '(a1, a2, a3) := a in let '(b1, b2, b3) := b in str_eqb a1 b1 && str_eqb a2 b2 && str_eqb a3 b3.

Definition xep_eqb (a b : xep) : bool :=
  str_eqb (x_pred a) (x_pred b) && str_eqb (x_label a) (x_label b) && ss_eqb (x_args a) (x_args b) &&
  lnk_eqb (x_lnk a) (x_lnk b) && option_eqb str_eqb (x_surface a) (x_surface b).

Definition nonempty_props (kv : str * list (str * str)) : bool := match snd kv with [] => false | _ => true end.

(* everything but the variables compared exactly; variables compared as a map
   restricted to those with properties (the implementation's dict is compared
   order-insensitively, each property list in its order) *)
Definition xmrs_match (got expected : xmrs) : bool :=
  option_eqb str_eqb (xm_top got) (xm_top expected) && option_eqb str_eqb (xm_index got) (xm_index expected) &&
  list_eqb xep_eqb (xm_rels got) (xm_rels expected) &&
  list_eqb c3_eqb (xm_hcons got) (xm_hcons expected) && list_eqb c3_eqb (xm_icons got) (xm_icons expected) &&
  lnk_eqb (xm_lnk got) (xm_lnk expected) && option_eqb str_eqb (xm_surface got) (xm_surface expected) &&
  forallb (fun kv => option_eqb ss_eqb (dict_get (fst kv) (xm_vars got)) (Some (snd kv))) (xm_vars expected) &&
  Nat.eqb (length (filter nonempty_props (xm_vars got))) (length (xm_vars expected)).

Fixpoint jv_eqb (a b : jv) {struct a} : bool :=
  match a, b with
  | JNull, JNull => true
  | JStr x, JStr y => str_eqb x y
  | JInt x, JInt y => Z.eqb x y
  | JObj f, JObj g =>
      (fix feq (x y : list (str * jv)) : bool :=
         match x, y with
         | [], [] => true
         | (k, v) :: x', (k', v') :: y' => str_eqb k k' && jv_eqb v v' && feq x' y'
         | _, _ => false
         end) f g
  | JArr f, JArr g =>
      (fix aeq (x y : list jv) : bool :=
         match x, y with
         | [], [] => true
         | v :: x', v' :: y' => jv_eqb v v' && aeq x' y'
         | _, _ => false
         end) f g
  | _, _ => false
  end.

(* exact comparison, variables included in order (dictionary order is kept by json) *)
Definition xmrs_eqb (a b : xmrs) : bool :=
  option_eqb str_eqb (xm_top a) (xm_top b) && option_eqb str_eqb (xm_index a) (xm_index b) &&
  list_eqb xep_eqb (xm_rels a) (xm_rels b) &&
  list_eqb c3_eqb (xm_hcons a) (xm_hcons b) && list_eqb c3_eqb (xm_icons a) (xm_icons b) &&
  list_eqb (pair_eqb str_eqb ss_eqb) (xm_vars a) (xm_vars b) &&
  lnk_eqb (xm_lnk a) (xm_lnk b) && option_eqb str_eqb (xm_surface a) (xm_surface b).

Inductive case :=
| CEnc (propopt lnkopt : bool) (m : xmrs) (toks : option (list stok))
| CDec (toks : list stok) (res : option (list xmrs))
| CJson (propopt lnkopt : bool) (m : xmrs) (d : jv) (back : xmrs).

Definition check_case (c : case) : bool :=
  match c with
  | CEnc p l m toks =>
      option_eqb (list_eqb stok_eqb) (option_map (map coarse) (enc_mrs (fun _ => false) p l m))
                 (option_map (map coarse) toks)
  | CDec toks res =>
      match dec_all (S (length toks)) toks, res with
      | Some got, Some ex => list_eqb xmrs_match got ex
      | None, None => true
      | _, _ => false
      end
  | CJson p l m d back =>
      option_eqb jv_eqb (to_dict p l m) (Some d) && option_eqb xmrs_eqb (from_dict d) (Some back)
  end.
