(* Correspondence cases for C04: dmrs.from_mrs. *)
From Coq Require Import List NArith ZArith Bool.
From PyD Require Export Base.Str Model.Hier Model.Mrs Model.Convert Model.FromDmrs Corr.Common.
Import ListNotations.

Definition props_eqb : list (str * str) -> list (str * str) -> bool :=
  list_eqb (pair_eqb str_eqb str_eqb).

Definition dnode_eqb (a b : dnode) : bool :=
  Z.eqb (dn_id a) (dn_id b) && str_eqb (dn_pred a) (dn_pred b) &&
  option_eqb str_eqb (dn_type a) (dn_type b) && props_eqb (dn_props a) (dn_props b) &&
  option_eqb str_eqb (dn_carg a) (dn_carg b).

Definition link_eqb (a b : Z * Z * str * str) : bool :=
  let '(s1, e1, r1, p1) := a in let '(s2, e2, r2, p2) := b in
  Z.eqb s1 s2 && Z.eqb e1 e2 && str_eqb r1 r2 && str_eqb p1 p2.

Definition dmrs_eqb (a b : dmrs) : bool :=
  option_eqb Z.eqb (d_top a) (d_top b) && option_eqb Z.eqb (d_index a) (d_index b) &&
  list_eqb dnode_eqb (d_nodes a) (d_nodes b) && list_eqb link_eqb (d_links a) (d_links b) &&
  Nat.eqb (d_warnings a) (d_warnings b).

Definition ss_eqb : list (str * str) -> list (str * str) -> bool := list_eqb (pair_eqb str_eqb str_eqb).
Definition c3_eqb (a b : cons3) : bool :=
  let '(a1, a2, a3) := a in let '(b1, b2, b3) := b in str_eqb a1 b1 && str_eqb a2 b2 && str_eqb a3 b3.
Definition ep_eqb (a b : ep) : bool :=
  str_eqb (e_pred a) (e_pred b) && str_eqb (e_label a) (e_label b) && ss_eqb (e_args a) (e_args b).
(* everything compared exactly and in order: arguments in dictionary order,
   constraints, the variable dictionary as _fill_variables leaves it *)
Definition mrs_eqb (a b : mrs) : bool :=
  option_eqb str_eqb (m_top a) (m_top b) && option_eqb str_eqb (m_index a) (m_index b) &&
  list_eqb ep_eqb (m_rels a) (m_rels b) && list_eqb c3_eqb (m_hcons a) (m_hcons b) &&
  list_eqb c3_eqb (m_icons a) (m_icons b) && list_eqb (pair_eqb str_eqb ss_eqb) (m_vars a) (m_vars b).

(* observed: 0 = a DMRS, 1 = IndexError *)
Inductive case :=
| CFromMrs (m : mrs) (obs : option dmrs)     (* None = IndexError *)
| CFromDmrs (d : dmrs) (choice : list str) (obs : mrs).

Definition check_case (c : case) : bool :=
  match c with
  | CFromMrs m obs =>
      match dmrs_from_mrs m, obs with
      | COk d, Some d' => dmrs_eqb d d'
      | CIndexError, None => true
      | _, _ => false
      end
  | CFromDmrs d choice obs => option_eqb mrs_eqb (mrs_from_dmrs d choice) (Some obs)
  end.
