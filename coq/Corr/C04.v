(* Correspondence cases for C04: dmrs.from_mrs. *)
From Coq Require Import List NArith ZArith Bool.
From PyD Require Export Base.Str Model.Hier Model.Mrs Model.Convert Corr.Common.
Import ListNotations.

Definition props_eqb : list (str * str) -> list (str * str) -> bool :=
  list_eqb (pair_eqb str_eqb str_eqb).

Definition dnode_eqb (a b : dnode) : bool :=
  Z.eqb (dn_id a) (dn_id b) && str_eqb (dn_pred a) (dn_pred b) &&
  option_eqb str_eqb (dn_type a) (dn_type b) && props_eqb (dn_props a) (dn_props b) &&
  option_eqb str_eqb (dn_carg a) (dn_carg b).

Definition link_eqb (a b : Z * Z * str * str) : bool :=
  let '(s1, e1, r1, p1) := a in let '(s2, e2, r2, p2) := b in
  Z.eqb s1 s2 && Z.eqb e1 e2 && str_eqb r1 r2 && str_eqb p1 p2.

Definition dmrs_eqb (a b : dmrs) : bool :=
  option_eqb Z.eqb (d_top a) (d_top b) && option_eqb Z.eqb (d_index a) (d_index b) &&
  list_eqb dnode_eqb (d_nodes a) (d_nodes b) && list_eqb link_eqb (d_links a) (d_links b) &&
  Nat.eqb (d_warnings a) (d_warnings b).

(* observed: 0 = a DMRS, 1 = IndexError *)
Inductive case :=
| CFromMrs (m : mrs) (obs : option dmrs).     (* None = IndexError *)

Definition check_case (c : case) : bool :=
  match c with
  | CFromMrs m obs =>
      match dmrs_from_mrs m, obs with
      | COk d, Some d' => dmrs_eqb d d'
      | CIndexError, None => true
      | _, _ => false
      end
  end.
