(* Correspondence cases for C06. *)
From Coq Require Import List NArith ZArith Bool.
From PyD Require Export Base.Str Model.Hier Model.Mrs Model.Iso Corr.Common.
From PyD Require Import Proofs.IsoExact.
Import ListNotations.

Inductive case :=
| CIso (m1 m2 : mrs) (properties : bool) (verdict : bool)
| CBags (ms : list mrs) (test gold : list nat) (properties : bool) (u s g : nat).

Definition iso_b (ms : list mrs) (properties : bool) (a b : nat) : bool :=
  match nth_error ms a, nth_error ms b with
  | Some x, Some y => match is_isomorphic x y properties with Some v => v | None => false end
  | _, _ => false
  end.

Definition iso_hyp (m : mrs) (p : bool) : bool :=
  match make_isograph m p with Some g => wf_graphb g && clean_graphb g | None => true end.

Definition check_case (c : case) : bool :=
  match c with
  | CIso m1 m2 p v =>
      option_eqb Bool.eqb (is_isomorphic m1 m2 p) (Some v) &&
      (* the hypotheses of the soundness theorem C06_vf2_sound hold of both isographs *)
      iso_hyp m1 p && iso_hyp m2 p
  | CBags ms test gold p u s g =>
      let '(u', s', g') := compare_bags nat (iso_b ms p) test gold in
      Nat.eqb u' u && Nat.eqb s' s && Nat.eqb g' g
  end.
