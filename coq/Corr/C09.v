(* Correspondence cases for C09: write histories on one relation and
   write_database runs, observed through the directory listing and reads. *)
From Coq Require Import List NArith ZArith Bool.
From PyD Require Export Base.Str Model.Tsdb Model.TsdbFiles Model.TsdbDb Model.TsdbRead Corr.Common.
Import ListNotations.

Definition raw_eqb' : raw -> raw -> bool := option_eqb str_eqb.

(* what is observed of one relation: both paths' existence and the records read *)
Record obsrel := { o_tx : bool; o_gz : bool; o_recs : option (list (list raw)) }.

Definition observe_rel (r : rel str) : obsrel :=
  {| o_tx := match tx r with Some _ => true | None => false end;
     o_gz := match gz r with Some _ => true | None => false end;
     o_recs := read_records r |}.

Definition obsrel_eqb (a b : obsrel) : bool :=
  Bool.eqb (o_tx a) (o_tx b) && Bool.eqb (o_gz a) (o_gz b) &&
  option_eqb (list_eqb (list_eqb raw_eqb')) (o_recs a) (o_recs b).

Definition wop := (list (list value) * bool * bool)%type.   (* records, append, gzip *)

(* 0 = ok, 1 = NotImplementedError (rejected), 2 = TSDBError (column count) *)
Fixpoint run_writes (fields : list field) (r : rel str) (ops : list wop) : list (N * obsrel) :=
  match ops with
  | [] => []
  | (recs, a, g) :: ops' =>
      match sequence (map (fun rec => join_typed rec fields) recs) with
      | None =>
          (* join raises while the temporary file is being filled; the append/gzip
             check comes first *)
          if a && (g || use_gz r) then (1%N, observe_rel r) :: run_writes fields r ops'
          else (2%N, observe_rel r) :: run_writes fields r ops'
      | Some lines =>
          match write_rel r lines a g with
          | WOk r' => (0%N, observe_rel r') :: run_writes fields r' ops'
          | WRejected => (1%N, observe_rel r) :: run_writes fields r ops'
          end
      end
  end.

Definition step_eqb (a b : N * obsrel) : bool := N.eqb (fst a) (fst b) && obsrel_eqb (snd a) (snd b).

Inductive case :=
| CWrites (fields : list field) (init : rel str) (ops : list wop) (obs : list (N * obsrel))
| CWdb (src_schema : schema) (src dst : files) (inplace : bool) (names : option (list str))
       (new_schema : option schema) (gzip : bool)
       (ok : bool) (obs : list (str * obsrel))
(* the read interfaces of Database on a relation holding the given lines: raw records, cast
   records, selected columns raw and cast; None = the implementation raised *)
| CRead (fields : list field) (lines : list str) (cols : list str)
        (r_raw : option (list (list raw))) (r_cast : option (list (list value)))
        (r_sel : option (list (list raw))) (r_selc : option (list (list value))).

Definition value_eqb' (a b : value) : bool :=
  match a, b with
  | VNone, VNone => true
  | VInt x, VInt y => Z.eqb x y
  | VStr x, VStr y => str_eqb x y
  | _, _ => false
  end.

Definition check_case (c : case) : bool :=
  match c with
  | CWrites fields init ops obs => list_eqb step_eqb (run_writes fields init ops) obs
  | CWdb ss src dst inplace names ns gzip ok obs =>
      let r := write_database ss src dst inplace names ns gzip in
      let fs := match r with DOk fs => fs | DErr fs => fs end in
      Bool.eqb (match r with DOk _ => true | DErr _ => false end) ok &&
      forallb (fun p => obsrel_eqb (observe_rel (get_rel fs (fst p))) (snd p)) obs
  | CRead fields lines cols r_raw r_cast r_sel r_selc =>
      option_eqb (list_eqb (list_eqb raw_eqb')) (read_raw lines) r_raw &&
      option_eqb (list_eqb (list_eqb value_eqb')) (read_cast fields lines) r_cast &&
      option_eqb (list_eqb (list_eqb raw_eqb')) (select_raw fields cols lines) r_sel &&
      option_eqb (list_eqb (list_eqb value_eqb')) (select_cast fields cols lines) r_selc
  end.

