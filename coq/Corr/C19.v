(* Correspondence cases for C19 (ACE interaction loop). *)
From Coq Require Import List NArith ZArith Bool.
From PyD Require Export Base.Str Model.Ace Model.SExpr Corr.Common.
From PyD Require Import Proofs.AceP.
Import ListNotations.

(* the run id recorded in the response to a skipped input depends on whether the
   restart after a failure has already happened (timing), so it is not compared *)
Definition resp_eqb (a b : response) : bool :=
  str_eqb (r_input a) (r_input b) && Bool.eqb (r_skipped a) (r_skipped b) &&
  list_eqb str_eqb (r_lines a) (r_lines b) && (r_skipped a || Nat.eqb (r_run a) (r_run b)).

Fixpoint sx_eqb (a b : sx) : bool :=
  match a, b with
  | SInt x, SInt y => Z.eqb x y
  | SStr x, SStr y => str_eqb x y
  | SPair a1 a2, SPair b1 b2 => sx_eqb a1 b1 && sx_eqb a2 b2
  | SList l1, SList l2 =>
      (fix go (x y : list sx) : bool :=
         match x, y with
         | [], [] => true
         | p :: x', q :: y' => sx_eqb p q && go x' y'
         | _, _ => false
         end) l1 l2
  | _, _ => false
  end.

Inductive case :=
| CAce (t : task) (tsdb : bool) (items : list (str * event)) (crash : Z)
       (resps : list response) (nruns : nat) (status : Z)
| CValid (t : task) (datum : str) (sent : str)
| CSexpr (line : str) (res : option (list (str * sx))).     (* None = an exception other than IndexError *)

Definition check_case (c : case) : bool :=
  match c with
  | CAce t tsdb items crash resps nruns status =>
      let '(rs, st) := interact_all t tsdb init_state items in
      (* the hypothesis of the alignment theorem holds of the stand-in's answers *)
      forallb (fun it => match snd it with
                         | EvLost => true
                         | EvAnswer lines exits => exits || blockb (termini t tsdb) lines
                         end) items &&
      list_eqb resp_eqb rs resps &&
      ((Nat.eqb (S (ps_run st)) nruns && Z.eqb (close_status crash st) status)
       (* the tsdb reader of the parser may already have restarted the processor *)
       || (negb (ps_alive st) && Nat.eqb (S (S (ps_run st))) nruns && Z.eqb 0 status))
  | CValid t datum sent => str_eqb (validate t datum) sent
  | CSexpr line res =>
      match sexpr_data (S (length line)) line, res with
      | POk l, Some l' => list_eqb (pair_eqb str_eqb sx_eqb) l l'
      | PFatal, None => true
      | PUnmodelled, _ => true          (* floats *)
      | _, _ => false
      end
  end.
