(* Correspondence cases for C19 (ACE interaction loop). *)
From Coq Require Import List NArith ZArith Bool.
From PyD Require Export Base.Str Model.Ace Corr.Common.
From PyD Require Import Proofs.AceP.
Import ListNotations.

(* the run id recorded in the response to a skipped input depends on whether the
   restart after a failure has already happened (timing), so it is not compared *)
Definition resp_eqb (a b : response) : bool :=
  str_eqb (r_input a) (r_input b) && Bool.eqb (r_skipped a) (r_skipped b) &&
  list_eqb str_eqb (r_lines a) (r_lines b) && (r_skipped a || Nat.eqb (r_run a) (r_run b)).

Inductive case :=
| CAce (t : task) (tsdb : bool) (items : list (str * event)) (crash : Z)
       (resps : list response) (nruns : nat) (status : Z)
| CValid (t : task) (datum : str) (sent : str).

Definition check_case (c : case) : bool :=
  match c with
  | CAce t tsdb items crash resps nruns status =>
      let '(rs, st) := interact_all t tsdb init_state items in
      (* the hypothesis of the alignment theorem holds of the stand-in's answers *)
      forallb (fun it => match snd it with
                         | EvLost => true
                         | EvAnswer lines exits => exits || blockb (termini t tsdb) lines
                         end) items &&
      list_eqb resp_eqb rs resps &&
      ((Nat.eqb (S (ps_run st)) nruns && Z.eqb (close_status crash st) status)
       (* the tsdb reader of the parser may already have restarted the processor *)
       || (negb (ps_alive st) && Nat.eqb (S (S (ps_run st))) nruns && Z.eqb 0 status))
  | CValid t datum sent => str_eqb (validate t datum) sent
  end.
