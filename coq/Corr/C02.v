(* Correspondence cases for C02 (SimpleDMRS codec at token level). *)
From Coq Require Import List NArith ZArith Bool.
From PyD Require Export Base.Str Model.Hier Model.Mrs Model.Iso Model.SimpleMrs Model.SimpleDmrs Model.MrsJson Model.DmrsJson Model.Dmrx Corr.Common Corr.C01.
Import ListNotations.

Definition dtok_eqb (a b : dtok) : bool :=
  match a, b with
  | DLBRACE, DLBRACE | DRBRACE, DRBRACE | DLBRK, DLBRK | DRBRK, DRBRK | DLPAR, DLPAR | DRPAR, DRPAR
  | DCOLON, DCOLON | DSLASH, DSLASH | DEQ, DEQ | DSEMI, DSEMI => true
  | DLNK x, DLNK y => lnk_eqb x y
  | DDQ x, DDQ y | DARROW x, DARROW y | DSYM x, DSYM y => str_eqb x y
  | _, _ => false
  end.

Definition dnode_eqb (a b : dnode) : bool :=
  Z.eqb (n_id a) (n_id b) && str_eqb (n_pred a) (n_pred b) && option_eqb str_eqb (n_type a) (n_type b) &&
  ss_eqb (n_props a) (n_props b) && option_eqb str_eqb (n_carg a) (n_carg b) && lnk_eqb (n_lnk a) (n_lnk b).

Definition dlink_eqb (a b : glink) : bool :=
  let '(a1, a2, a3, a4) := a in let '(b1, b2, b3, b4) := b in
  Z.eqb a1 b1 && Z.eqb a2 b2 && option_eqb str_eqb a3 b3 && str_eqb a4 b4.

Definition dmrs_eqb (a b : dmrs) : bool :=
  option_eqb Z.eqb (g_top a) (g_top b) && option_eqb Z.eqb (g_index a) (g_index b) &&
  list_eqb dnode_eqb (g_nodes a) (g_nodes b) && list_eqb dlink_eqb (g_links a) (g_links b) &&
  lnk_eqb (g_lnk a) (g_lnk b) && option_eqb str_eqb (g_surface a) (g_surface b) &&
  option_eqb str_eqb (g_ident a) (g_ident b).

Inductive case :=
| DEnc (propopt lnkopt : bool) (g : dmrs) (toks : list dtok)
| DDec (toks : list dtok) (res : option (list dmrs))
| DJson (propopt lnkopt : bool) (g : dmrs) (d : jv) (back : dmrs)
(* DMRX at the level of the element tree: the predicate oracles are given as tables
   (predicate -> its split, or None for an abstract one; lemma, pos, sense -> created) *)
| DXml (propopt lnkopt : bool) (g : dmrs)
       (splits : list (str * option (str * str * option str)))
       (creates : list (str * str * option str * str))
       (elem : xml) (back : dmrs).

Fixpoint xml_eqb (a b : xml) {struct a} : bool :=
  match a, b with
  | XE t1 a1 x1 k1, XE t2 a2 x2 k2 =>
      str_eqb t1 t2 && ss_eqb a1 a2 && option_eqb str_eqb x1 x2 &&
      (fix go (l1 l2 : list xml) : bool :=
         match l1, l2 with
         | [], [] => true
         | c1 :: l1', c2 :: l2' => xml_eqb c1 c2 && go l1' l2'
         | _, _ => false
         end) k1 k2
  end.

Definition split_of (t : list (str * option (str * str * option str))) (p : str) : option (str * str * option str) :=
  match dict_get p t with Some r => r | None => None end.

Fixpoint create_of (t : list (str * str * option str * str)) (l pos : str) (s : option str) : str :=
  match t with
  | [] => []
  | (l', p', s', v) :: t' =>
      if str_eqb l l' && str_eqb pos p' && option_eqb str_eqb s s' then v else create_of t' l pos s
  end.

Definition check_case (c : case) : bool :=
  match c with
  | DEnc p l g toks => list_eqb dtok_eqb (enc_dmrs p l g) toks
  | DDec toks res => option_eqb (list_eqb dmrs_eqb) (dec_dmrs_all (S (length toks)) toks) res
  | DJson p l g d back => jv_eqb (d_to_dict p l g) d && option_eqb dmrs_eqb (d_from_dict d) (Some back)
  | DXml p l g splits creates elem back =>
      xml_eqb (encode_dmrs (split_of splits) p l g) elem &&
      option_eqb dmrs_eqb (decode_dmrs (create_of creates) elem) (Some back)
  end.
