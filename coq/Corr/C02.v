(* Correspondence cases for C02 (SimpleDMRS codec at token level). *)
From Coq Require Import List NArith ZArith Bool.
From PyD Require Export Base.Str Model.Hier Model.Mrs Model.Iso Model.SimpleMrs Model.SimpleDmrs Model.MrsJson Model.DmrsJson Corr.Common Corr.C01.
Import ListNotations.

Definition dtok_eqb (a b : dtok) : bool :=
  match a, b with
  | DLBRACE, DLBRACE | DRBRACE, DRBRACE | DLBRK, DLBRK | DRBRK, DRBRK | DLPAR, DLPAR | DRPAR, DRPAR
  | DCOLON, DCOLON | DSLASH, DSLASH | DEQ, DEQ | DSEMI, DSEMI => true
  | DLNK x, DLNK y => lnk_eqb x y
  | DDQ x, DDQ y | DARROW x, DARROW y | DSYM x, DSYM y => str_eqb x y
  | _, _ => false
  end.

Definition dnode_eqb (a b : dnode) : bool :=
  Z.eqb (n_id a) (n_id b) && str_eqb (n_pred a) (n_pred b) && option_eqb str_eqb (n_type a) (n_type b) &&
  ss_eqb (n_props a) (n_props b) && option_eqb str_eqb (n_carg a) (n_carg b) && lnk_eqb (n_lnk a) (n_lnk b).

Definition dlink_eqb (a b : glink) : bool :=
  let '(a1, a2, a3, a4) := a in let '(b1, b2, b3, b4) := b in
  Z.eqb a1 b1 && Z.eqb a2 b2 && option_eqb str_eqb a3 b3 && str_eqb a4 b4.

Definition dmrs_eqb (a b : dmrs) : bool :=
  option_eqb Z.eqb (g_top a) (g_top b) && option_eqb Z.eqb (g_index a) (g_index b) &&
  list_eqb dnode_eqb (g_nodes a) (g_nodes b) && list_eqb dlink_eqb (g_links a) (g_links b) &&
  lnk_eqb (g_lnk a) (g_lnk b) && option_eqb str_eqb (g_surface a) (g_surface b) &&
  option_eqb str_eqb (g_ident a) (g_ident b).

Inductive case :=
| DEnc (propopt lnkopt : bool) (g : dmrs) (toks : list dtok)
| DDec (toks : list dtok) (res : option (list dmrs))
| DJson (propopt lnkopt : bool) (g : dmrs) (d : jv) (back : dmrs).

Definition check_case (c : case) : bool :=
  match c with
  | DEnc p l g toks => list_eqb dtok_eqb (enc_dmrs p l g) toks
  | DDec toks res => option_eqb (list_eqb dmrs_eqb) (dec_dmrs_all (S (length toks)) toks) res
  | DJson p l g d back => jv_eqb (d_to_dict p l g) d && option_eqb dmrs_eqb (d_from_dict d) (Some back)
  end.
