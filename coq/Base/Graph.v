(* Verified reachability over a finite directed graph given as an edge list
   (undirected graphs list both directions).  Used for _bfs-based
   connectivity in the models (C03, C05, C07). *)
From Coq Require Import List Bool Arith Lia Relations.
Import ListNotations.

Section Reach.
Variable A : Type.
Variable eqb : A -> A -> bool.
Hypothesis eqb_spec : forall x y, eqb x y = true <-> x = y.

Definition memb (x : A) (l : list A) : bool := existsb (eqb x) l.

Lemma memb_In x l : memb x l = true <-> In x l.
Proof.
  unfold memb. rewrite existsb_exists. split.
  - intros [y [Hy E]]. apply eqb_spec in E. subst. exact Hy.
  - intros H. exists x. split; [exact H | apply eqb_spec; reflexivity].
Qed.

Lemma memb_false x l : memb x l = false <-> ~ In x l.
Proof. rewrite <- memb_In. destruct (memb x l); split; intros H; congruence. Qed.

(* add the elements of l that are not yet in acc, once each *)
Fixpoint add_new (acc l : list A) : list A :=
  match l with
  | [] => acc
  | y :: l' => if memb y acc then add_new acc l' else add_new (acc ++ [y]) l'
  end.

Lemma add_new_spec l : forall acc x, In x (add_new acc l) <-> In x acc \/ In x l.
Proof.
  induction l as [|y l IH]; intros acc x; simpl; [tauto|].
  destruct (memb y acc) eqn:E; rewrite IH.
  - apply memb_In in E. split; [tauto|]. intros [H|[H|H]]; subst; auto.
  - rewrite in_app_iff. simpl. tauto.
Qed.

Lemma add_new_nodup l : forall acc, NoDup acc -> NoDup (add_new acc l).
Proof.
  induction l as [|y l IH]; intros acc H; simpl; [exact H|].
  destruct (memb y acc) eqn:E; apply IH; [exact H|].
  apply memb_false in E. clear IH. induction acc as [|a acc IHa]; simpl.
  - constructor; [simpl; tauto | constructor].
  - inversion H; subst. constructor.
    + rewrite in_app_iff. simpl. intros [X|[X|[]]]; [contradiction|]. subst. apply E. left; reflexivity.
    + apply IHa; [assumption|]. intros X. apply E. right; exact X.
Qed.

Lemma add_new_length l : forall acc, length acc <= length (add_new acc l).
Proof.
  induction l as [|y l IH]; intros acc; simpl; [lia|].
  destruct (memb y acc); [apply IH|]. specialize (IH (acc ++ [y])). rewrite app_length in IH. simpl in IH. lia.
Qed.

Lemma add_new_grows l : forall acc y, In y l -> ~ In y acc -> length acc < length (add_new acc l).
Proof.
  induction l as [|z l IH]; intros acc y Hin Hn; simpl; [destruct Hin|].
  destruct Hin as [->|Hin].
  - apply memb_false in Hn. rewrite Hn.
    pose proof (add_new_length l (acc ++ [y])) as H. rewrite app_length in H. simpl in H. lia.
  - destruct (memb z acc) eqn:E; [apply (IH acc y); assumption|].
    pose proof (add_new_length l (acc ++ [z])) as H. rewrite app_length in H. simpl in H. lia.
Qed.

Variable edges : list (A * A).

Definition succs (seen : list A) : list A :=
  map snd (filter (fun e => memb (fst e) seen) edges).

Definition expand (seen : list A) : list A := add_new seen (succs seen).

Fixpoint iter (n : nat) (seen : list A) : list A :=
  match n with O => seen | S k => iter k (expand seen) end.

Definition universe : list A := map fst edges ++ map snd edges.

(* the nodes reachable from start (start included) *)
Definition reach (start : A) : list A := iter (S (length universe)) [start].

Definition edge (x y : A) : Prop := In (x, y) edges.
Definition closed (s : list A) : Prop := forall x y, edge x y -> In x s -> In y s.

Lemma succs_spec seen y : In y (succs seen) <-> exists x, In x seen /\ edge x y.
Proof.
  unfold succs. rewrite in_map_iff. split.
  - intros [[x y'] [E H]]. simpl in E. subst y'. apply filter_In in H. destruct H as [H M].
    exists x. split; [apply memb_In; exact M | exact H].
  - intros [x [Hx He]]. exists (x, y). split; [reflexivity|]. apply filter_In.
    split; [exact He | apply memb_In; exact Hx].
Qed.

Lemma expand_spec seen x : In x (expand seen) <-> In x seen \/ exists w, In w seen /\ edge w x.
Proof. unfold expand. rewrite add_new_spec, succs_spec. tauto. Qed.

Lemma expand_incl seen x : In x seen -> In x (expand seen).
Proof. intros H. apply expand_spec. left; exact H. Qed.

Lemma iter_incl n : forall seen x, In x seen -> In x (iter n seen).
Proof. induction n as [|n IH]; intros seen x H; simpl; [exact H|]. apply IH, expand_incl, H. Qed.

(* soundness: everything collected is reachable *)
Lemma iter_sound start n : forall seen,
  (forall x, In x seen -> clos_refl_trans _ edge start x) ->
  forall x, In x (iter n seen) -> clos_refl_trans _ edge start x.
Proof.
  induction n as [|n IH]; intros seen Hs x Hx; simpl in Hx; [apply Hs, Hx|].
  apply (IH (expand seen)); [|exact Hx]. intros y Hy. apply expand_spec in Hy.
  destruct Hy as [Hy|[w [Hw He]]]; [apply Hs, Hy|].
  eapply rt_trans; [apply Hs, Hw | apply rt_step, He].
Qed.

Definition closedb (s : list A) : bool :=
  forallb (fun e => implb (memb (fst e) s) (memb (snd e) s)) edges.

Lemma closedb_spec s : closedb s = true <-> closed s.
Proof.
  unfold closedb, closed, edge. rewrite forallb_forall. split.
  - intros H x y He Hx. specialize (H (x, y) He). simpl in H.
    apply memb_In in Hx. rewrite Hx in H. simpl in H. apply memb_In. exact H.
  - intros H [x y] He. simpl. destruct (memb x s) eqn:E; [|reflexivity]. simpl.
    apply memb_In. apply (H x y He). apply memb_In. exact E.
Qed.

Lemma expand_closed seen : closed seen -> forall x, In x (expand seen) <-> In x seen.
Proof.
  intros Hc x. rewrite expand_spec. split; [|tauto].
  intros [H|[w [Hw He]]]; [exact H | eapply Hc; eauto].
Qed.

Lemma expand_grows seen : closedb seen = false -> length seen < length (expand seen).
Proof.
  intros H. unfold closedb in H.
  assert (exists e, In e edges /\ memb (fst e) seen = true /\ memb (snd e) seen = false) as (e & He & M1 & M2).
  { clear -H. induction edges as [|e es IH]; simpl in H; [discriminate|].
    apply andb_false_iff in H. destruct H as [H|H].
    - exists e. split; [left; reflexivity|]. destruct (memb (fst e) seen), (memb (snd e) seen); simpl in H; auto; discriminate.
    - destruct (IH H) as (e' & Ha & Hb). exists e'. split; [right; exact Ha | exact Hb]. }
  unfold expand. apply (add_new_grows (succs seen) seen (snd e)).
  - apply succs_spec. exists (fst e). split; [apply memb_In; exact M1|]. unfold edge. destruct e; exact He.
  - apply memb_false. exact M2.
Qed.

Lemma expand_nodup seen : NoDup seen -> NoDup (expand seen).
Proof. apply add_new_nodup. Qed.

Lemma expand_univ start seen :
  (forall x, In x seen -> x = start \/ In x universe) ->
  forall x, In x (expand seen) -> x = start \/ In x universe.
Proof.
  intros H x Hx. apply expand_spec in Hx. destruct Hx as [Hx|[w [_ He]]]; [apply H, Hx|].
  right. unfold universe. apply in_or_app. right. apply in_map_iff. exists (w, x). split; [reflexivity | exact He].
Qed.

Lemma iter_progress start n : forall seen, NoDup seen ->
  (forall x, In x seen -> x = start \/ In x universe) ->
  closed (iter n seen) \/ length seen + n <= length (iter n seen).
Proof.
  induction n as [|n IH]; intros seen Hnd Hu; simpl; [right; lia|].
  destruct (closedb seen) eqn:E.
  - left. apply closedb_spec in E.
    assert (G : forall k s, closed s -> closed (iter k s)).
    { induction k as [|k IHk]; intros s Hc; simpl; [exact Hc|]. apply IHk.
      intros x y He Hx. apply (proj1 (expand_closed s Hc x)) in Hx.
      apply (proj2 (expand_closed s Hc y)). eapply Hc; eauto. }
    apply (G n). intros x y He Hx. apply (proj1 (expand_closed seen E x)) in Hx.
    apply (proj2 (expand_closed seen E y)). eapply E; eauto.
  - destruct (IH (expand seen) (expand_nodup seen Hnd) (expand_univ start seen Hu)) as [H|H]; [left; exact H|].
    right. pose proof (expand_grows seen E). lia.
Qed.

Lemma iter_nodup n : forall seen, NoDup seen -> NoDup (iter n seen).
Proof. induction n as [|n IH]; intros seen H; simpl; [exact H|]. apply IH, expand_nodup, H. Qed.

Lemma iter_univ start n : forall seen,
  (forall x, In x seen -> x = start \/ In x universe) ->
  forall x, In x (iter n seen) -> x = start \/ In x universe.
Proof.
  induction n as [|n IH]; intros seen H x Hx; simpl in Hx; [apply H, Hx|].
  apply (IH (expand seen)); [apply expand_univ, H | exact Hx].
Qed.

Theorem reach_closed start : closed (reach start).
Proof.
  unfold reach.
  assert (Hnd : NoDup [start]) by (constructor; [simpl; tauto | constructor]).
  assert (Hu : forall x, In x [start] -> x = start \/ In x universe) by (intros x [<-|[]]; left; reflexivity).
  destruct (iter_progress start (S (length universe)) [start] Hnd Hu) as [H|H]; [exact H|].
  exfalso. simpl length in H.
  pose proof (iter_nodup (S (length universe)) [start] Hnd) as Hnd'.
  pose proof (iter_univ start (S (length universe)) [start] Hu) as Hu'.
  assert (Hincl : incl (iter (S (length universe)) [start]) (start :: universe)).
  { intros x Hx. destruct (Hu' x Hx) as [->|Hx']; [left; reflexivity | right; exact Hx']. }
  pose proof (NoDup_incl_length Hnd' Hincl) as L. simpl in L. lia.
Qed.

(* reach computes exactly the reflexive-transitive closure of the edge relation *)
Theorem reach_spec start x : In x (reach start) <-> clos_refl_trans _ edge start x.
Proof.
  split.
  - unfold reach. apply iter_sound. intros y [<-|[]]. apply rt_refl.
  - intros H. apply clos_rt_rtn1 in H. induction H as [|y z He _ IH].
    + unfold reach. apply iter_incl. left; reflexivity.
    + eapply reach_closed; eauto.
Qed.

End Reach.
