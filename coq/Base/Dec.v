(* Decimal printing and parsing of integers as Python's str(int)/int(str)
   do it on the ASCII sign+digits class.  Built on the standard library's
   Decimal/DecimalZ (Z.to_int / Z.of_int and their inverse lemmas). *)
From Coq Require Import List NArith ZArith Bool Lia Decimal DecimalPos DecimalZ DecimalFacts.
From PyD Require Import Base.Str.
Import ListNotations.
Open Scope N_scope.

Fixpoint uint_to_str (u : uint) : str :=
  match u with
  | Nil => []
  | D0 u => 48 :: uint_to_str u | D1 u => 49 :: uint_to_str u
  | D2 u => 50 :: uint_to_str u | D3 u => 51 :: uint_to_str u
  | D4 u => 52 :: uint_to_str u | D5 u => 53 :: uint_to_str u
  | D6 u => 54 :: uint_to_str u | D7 u => 55 :: uint_to_str u
  | D8 u => 56 :: uint_to_str u | D9 u => 57 :: uint_to_str u
  end.

Definition digit_cons (c : N) : option (uint -> uint) :=
  if c =? 48 then Some D0 else if c =? 49 then Some D1 else
  if c =? 50 then Some D2 else if c =? 51 then Some D3 else
  if c =? 52 then Some D4 else if c =? 53 then Some D5 else
  if c =? 54 then Some D6 else if c =? 55 then Some D7 else
  if c =? 56 then Some D8 else if c =? 57 then Some D9 else None.

Fixpoint str_to_uint (s : str) : option uint :=
  match s with
  | [] => Some Nil
  | c :: s' => match digit_cons c, str_to_uint s' with
               | Some d, Some u => Some (d u)
               | _, _ => None
               end
  end.

Lemma str_to_uint_to_str u : str_to_uint (uint_to_str u) = Some u.
Proof. induction u; simpl; try reflexivity; rewrite IHu; reflexivity. Qed.

Definition is_ascii_digit (c : N) : bool := (48 <=? c) && (c <=? 57).

Lemma uint_to_str_digits u : forallb is_ascii_digit (uint_to_str u) = true.
Proof. induction u; simpl; try reflexivity; assumption. Qed.

(* str(z) *)
Definition Z_to_dec (z : Z) : str :=
  match Z.to_int z with
  | Pos u => uint_to_str u
  | Neg u => 45 :: uint_to_str u
  end.

(* int(s) on the class [+-]?[0-9]+ ; anything else is rejected (None).
   Python also accepts surrounding whitespace, '_' separators and
   non-ASCII decimal digits: those spellings are outside this model and
   outside the correspondence generator. *)
Definition dec_to_Z (s : str) : option Z :=
  match s with
  | [] => None
  | c :: s' =>
      if c =? 45 then
        match s' with [] => None | _ =>
          match str_to_uint s' with Some u => Some (Z.of_int (Neg u)) | None => None end end
      else if c =? 43 then
        match s' with [] => None | _ =>
          match str_to_uint s' with Some u => Some (Z.of_int (Pos u)) | None => None end end
      else match str_to_uint s with Some u => Some (Z.of_int (Pos u)) | None => None end
  end.

Lemma uint_to_str_nonnil u : u <> Nil -> uint_to_str u <> [].
Proof. destruct u; simpl; congruence. Qed.

Lemma to_uint_nonnil p : Pos.to_uint p <> Nil.
Proof.
  intro H. pose proof (DecimalPos.Unsigned.of_to p) as E. rewrite H in E. simpl in E. discriminate.
Qed.

Lemma dec_to_Z_to_dec z : dec_to_Z (Z_to_dec z) = Some z.
Proof.
  unfold Z_to_dec.
  pose proof (DecimalZ.of_to z) as E.
  destruct z as [|p|p].
  - reflexivity.
  - change (Z.to_int (Z.pos p)) with (Pos (Pos.to_uint p)) in *.
    unfold dec_to_Z.
    remember (uint_to_str (Pos.to_uint p)) as s eqn:Hs.
    destruct s as [|c s'].
    + exfalso. symmetry in Hs. revert Hs. apply uint_to_str_nonnil, to_uint_nonnil.
    + assert (Hd: is_ascii_digit c = true).
      { pose proof (uint_to_str_digits (Pos.to_uint p)) as F. rewrite <- Hs in F.
        simpl in F. apply andb_true_iff in F. tauto. }
      unfold is_ascii_digit in Hd. apply andb_true_iff in Hd. destruct Hd as [H1 H2].
      apply N.leb_le in H1.
      destruct (N.eqb_spec c 45) as [->|_]; [lia|].
      destruct (N.eqb_spec c 43) as [->|_]; [lia|].
      rewrite Hs, str_to_uint_to_str. rewrite E. reflexivity.
  - change (Z.to_int (Z.neg p)) with (Neg (Pos.to_uint p)) in *.
    unfold dec_to_Z.
    change (45 =? 45) with true. cbv iota.
    remember (uint_to_str (Pos.to_uint p)) as s eqn:Hs.
    destruct s as [|c s'].
    + exfalso. symmetry in Hs. revert Hs. apply uint_to_str_nonnil, to_uint_nonnil.
    + rewrite Hs, str_to_uint_to_str. rewrite E. reflexivity.
Qed.

Lemma Z_to_dec_chars z c : In c (Z_to_dec z) -> c = 45 \/ is_ascii_digit c = true.
Proof.
  unfold Z_to_dec. destruct (Z.to_int z) as [u|u]; simpl.
  - intros H. right. pose proof (uint_to_str_digits u) as F.
    rewrite forallb_forall in F. apply F; assumption.
  - intros [H|H]; [left; symmetry; assumption|]. right.
    pose proof (uint_to_str_digits u) as F.
    rewrite forallb_forall in F. apply F; assumption.
Qed.
