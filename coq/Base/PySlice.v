(* Python indexing and slicing of sequences: int index normalisation and
   slice.indices()/range() exactly as CPython computes them. *)
From Coq Require Import List ZArith Bool Lia.
Import ListNotations.
Open Scope Z_scope.

(* seq[i] : None = IndexError *)
Definition py_index (len : nat) (i : Z) : option nat :=
  let n := Z.of_nat len in
  if (0 <=? i) && (i <? n) then Some (Z.to_nat i)
  else if (i <? 0) && (0 <=? i + n) then Some (Z.to_nat (i + n))
  else None.

Definition py_getitem {A} (l : list A) (i : Z) : option A :=
  match py_index (length l) i with
  | Some k => nth_error l k
  | None => None
  end.

Record pyslice := { sl_start : option Z; sl_stop : option Z; sl_step : option Z }.

(* slice.indices(len): None = ValueError (step 0) *)
Definition slice_indices (s : pyslice) (len : nat) : option (Z * Z * Z) :=
  let n := Z.of_nat len in
  let step := match sl_step s with None => 1 | Some k => k end in
  if step =? 0 then None else
  let lower := if step <? 0 then -1 else 0 in
  let upper := if step <? 0 then n - 1 else n in
  let clamp (v : Z) := if v <? 0 then Z.max (v + n) lower else Z.min v upper in
  let start := match sl_start s with
               | None => if step <? 0 then upper else lower
               | Some v => clamp v end in
  let stop := match sl_stop s with
              | None => if step <? 0 then lower else upper
              | Some v => clamp v end in
  Some (start, stop, step).

(* len(range(start, stop, step)), step <> 0 *)
Definition range_len (start stop step : Z) : Z :=
  if step >? 0 then (if start <? stop then (stop - start - 1) / step + 1 else 0)
  else (if stop <? start then (start - stop - 1) / (- step) + 1 else 0).

Definition py_range (start stop step : Z) : list Z :=
  map (fun k => start + Z.of_nat k * step) (seq 0 (Z.to_nat (range_len start stop step))).

Definition slice_positions (s : pyslice) (len : nat) : option (list Z) :=
  match slice_indices s len with
  | Some (a, b, c) => Some (py_range a b c)
  | None => None
  end.

Definition pick {A} (l : list A) (idx : list Z) : list A :=
  flat_map (fun i => match nth_error l (Z.to_nat i) with Some x => [x] | None => [] end) idx.

Definition py_slice {A} (l : list A) (s : pyslice) : option (list A) :=
  match slice_positions s (length l) with
  | Some idx => Some (pick l idx)
  | None => None
  end.

(* ---- facts ---- *)

Lemma py_index_lt len i k : py_index len i = Some k -> (k < len)%nat.
Proof.
  unfold py_index.
  destruct ((0 <=? i) && (i <? Z.of_nat len)) eqn:E1.
  - intros H; inversion H; subst. apply andb_true_iff in E1. lia.
  - destruct ((i <? 0) && (0 <=? i + Z.of_nat len)) eqn:E2; [|discriminate].
    intros H; inversion H; subst. apply andb_true_iff in E2. lia.
Qed.

Lemma pick_map {A B} (f : A -> B) l idx : pick (map f l) idx = map f (pick l idx).
Proof.
  unfold pick. induction idx as [|i idx IH]; simpl; [reflexivity|].
  rewrite IH, map_app. f_equal.
  rewrite nth_error_map. destruct (nth_error l (Z.to_nat i)); reflexivity.
Qed.

Lemma py_getitem_map {A B} (f : A -> B) l i :
  py_getitem (map f l) i = option_map f (py_getitem l i).
Proof.
  unfold py_getitem. rewrite map_length.
  destruct (py_index (length l) i); [|reflexivity].
  apply nth_error_map.
Qed.

Lemma py_slice_map {A B} (f : A -> B) l s :
  py_slice (map f l) s = option_map (map f) (py_slice l s).
Proof.
  unfold py_slice. rewrite map_length.
  destruct (slice_positions s (length l)); [|reflexivity].
  simpl. rewrite pick_map. reflexivity.
Qed.

(* every position a slice selects is a valid index *)
Lemma range_in_bounds start stop step x :
  step <> 0 -> In x (py_range start stop step) ->
  (step > 0 -> start <= x < stop) /\ (step < 0 -> stop < x <= start).
Proof.
  intros Hs Hin. unfold py_range in Hin. apply in_map_iff in Hin.
  destruct Hin as [k [<- Hk]]. apply in_seq in Hk.
  unfold range_len in Hk.
  destruct (step >? 0) eqn:E.
  - split; [intros _|lia]. destruct (start <? stop) eqn:E2; [|simpl in Hk; lia].
    assert (Z.of_nat k < (stop - start - 1) / step + 1) by lia.
    assert (Z.of_nat k <= (stop - start - 1) / step) by lia.
    assert (Z.of_nat k * step <= stop - start - 1).
    { etransitivity; [apply Z.mul_le_mono_nonneg_r; [lia|eassumption]|].
      rewrite Z.mul_comm. apply Z.mul_div_le. lia. }
    nia.
  - split; [lia|intros _]. destruct (stop <? start) eqn:E2; [|simpl in Hk; lia].
    assert (Z.of_nat k <= (start - stop - 1) / (- step)) by lia.
    assert (Z.of_nat k * (- step) <= start - stop - 1).
    { etransitivity; [apply Z.mul_le_mono_nonneg_r; [lia|eassumption]|].
      rewrite Z.mul_comm. apply Z.mul_div_le. lia. }
    nia.
Qed.

Lemma slice_positions_valid s len idx x :
  slice_positions s len = Some idx -> In x idx -> 0 <= x < Z.of_nat len.
Proof.
  unfold slice_positions, slice_indices.
  set (n := Z.of_nat len).
  set (step := match sl_step s with None => 1 | Some k => k end).
  destruct (step =? 0) eqn:E0; [discriminate|].
  intros H; inversion H; subst idx; clear H. intros Hin.
  apply range_in_bounds in Hin; [|lia].
  destruct Hin as [Hp Hn].
  destruct (step <? 0) eqn:Es.
  - assert (Hlt: step < 0) by lia. specialize (Hn Hlt). clear Hp.
    destruct (sl_start s) as [a|]; destruct (sl_stop s) as [b|];
      repeat match goal with
      | H : context [if ?c <? 0 then _ else _] |- _ => destruct (c <? 0) eqn:?
      end; lia.
  - assert (Hgt: step > 0) by lia. specialize (Hp Hgt). clear Hn.
    destruct (sl_start s) as [a|]; destruct (sl_stop s) as [b|];
      repeat match goal with
      | H : context [if ?c <? 0 then _ else _] |- _ => destruct (c <? 0) eqn:?
      end; lia.
Qed.
