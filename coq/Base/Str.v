(* Strings as lists of Unicode code points, and the few Python str
   operations the models need.  Library file: definitions + lemmas. *)
From Coq Require Import List NArith ZArith Bool Lia.
Import ListNotations.
Open Scope N_scope.

Definition str := list N.

Definition str_eqb (a b : str) : bool :=
  (fix go (a b : str) : bool :=
     match a, b with
     | [], [] => true
     | x :: a', y :: b' => N.eqb x y && go a' b'
     | _, _ => false
     end) a b.

Lemma str_eqb_spec a b : str_eqb a b = true <-> a = b.
Proof.
  unfold str_eqb. revert b; induction a as [|x a IH]; intros [|y b]; simpl;
    try (split; [discriminate | discriminate]); try tauto.
  rewrite andb_true_iff, N.eqb_eq, IH. split.
  - intros [-> ->]; reflexivity.
  - intros H; inversion H; auto.
Qed.

Lemma str_eqb_refl a : str_eqb a a = true.
Proof. apply str_eqb_spec; reflexivity. Qed.

(* s.replace(c, r) for a one-character pattern c *)
Definition replace1 (c : N) (r : str) (s : str) : str :=
  flat_map (fun x => if N.eqb x c then r else [x]) s.

(* generic chain of one-character replacements, applied left to right *)
Definition replace_chain (chain : list (N * str)) (s : str) : str :=
  fold_left (fun acc p => replace1 (fst p) (snd p) acc) chain s.

Lemma flat_map_flat_map {A B C} (f : A -> list B) (g : B -> list C) l :
  flat_map g (flat_map f l) = flat_map (fun x => flat_map g (f x)) l.
Proof.
  induction l as [|x l IH]; simpl; [reflexivity|].
  rewrite flat_map_app, IH; reflexivity.
Qed.

(* s.split(d) for a one-character separator: never returns [] *)
Fixpoint split_on_aux (d : N) (cur : str) (s : str) : list str :=
  match s with
  | [] => [rev cur]
  | x :: s' => if N.eqb x d then rev cur :: split_on_aux d [] s'
               else split_on_aux d (x :: cur) s'
  end.
Definition split_on (d : N) (s : str) : list str := split_on_aux d [] s.

(* d.join(l) for a one-character separator *)
Fixpoint join_on (d : N) (l : list str) : str :=
  match l with
  | [] => []
  | [x] => x
  | x :: l' => x ++ d :: join_on d l'
  end.

Definition count_char (c : N) (s : str) : nat :=
  length (filter (N.eqb c) s).

Definition has_char (c : N) (s : str) : bool := existsb (N.eqb c) s.

Lemma has_char_false_In c s : has_char c s = false <-> ~ In c s.
Proof.
  unfold has_char. split.
  - intros H Hin. assert (existsb (N.eqb c) s = true) as E.
    { apply existsb_exists. exists c; split; [assumption | apply N.eqb_refl]. }
    congruence.
  - intros Hn. destruct (existsb (N.eqb c) s) eqn:E; [|reflexivity].
    apply existsb_exists in E. destruct E as [x [Hx Hc]].
    apply N.eqb_eq in Hc; subst. contradiction.
Qed.

Lemma split_on_aux_nochar d cur s :
  ~ In d s -> split_on_aux d cur s = [rev cur ++ s].
Proof.
  revert cur; induction s as [|x s IH]; intros cur Hn; simpl.
  - rewrite app_nil_r; reflexivity.
  - destruct (N.eqb_spec x d) as [->|Hne].
    + exfalso; apply Hn; left; reflexivity.
    + rewrite IH by (intros H; apply Hn; right; assumption).
      simpl. rewrite <- app_assoc. reflexivity.
Qed.

Lemma split_on_aux_app d cur a s :
  ~ In d a ->
  split_on_aux d cur (a ++ d :: s) = (rev cur ++ a) :: split_on_aux d [] s.
Proof.
  revert cur; induction a as [|x a IH]; intros cur Hn; simpl.
  - rewrite N.eqb_refl, app_nil_r. reflexivity.
  - destruct (N.eqb_spec x d) as [->|Hne].
    + exfalso; apply Hn; left; reflexivity.
    + rewrite IH by (intros H; apply Hn; right; assumption).
      simpl. rewrite <- app_assoc. reflexivity.
Qed.

Lemma split_join_on d (l : list str) :
  l <> [] -> (forall x, In x l -> ~ In d x) ->
  split_on d (join_on d l) = l.
Proof.
  unfold split_on.
  induction l as [|x l IH]; intros Hne Hall; [congruence|].
  destruct l as [|y l].
  - simpl. rewrite split_on_aux_nochar by (apply Hall; left; reflexivity).
    reflexivity.
  - change (join_on d (x :: y :: l)) with (x ++ d :: join_on d (y :: l)).
    rewrite split_on_aux_app by (apply Hall; left; reflexivity).
    simpl rev. simpl app at 1. f_equal.
    apply IH; [discriminate|]. intros z Hz; apply Hall; right; assumption.
Qed.

Lemma count_char_app c a b :
  count_char c (a ++ b) = (count_char c a + count_char c b)%nat.
Proof. unfold count_char. rewrite filter_app, app_length. reflexivity. Qed.

Lemma count_char_notin c s : ~ In c s -> count_char c s = 0%nat.
Proof.
  unfold count_char. induction s as [|x s IH]; intros Hn; simpl; [reflexivity|].
  destruct (N.eqb_spec c x) as [->|Hne].
  - exfalso; apply Hn; left; reflexivity.
  - apply IH. intros H; apply Hn; right; assumption.
Qed.

Lemma count_char_join_on d (l : list str) :
  (forall x, In x l -> ~ In d x) ->
  count_char d (join_on d l) = (length l - 1)%nat.
Proof.
  induction l as [|x l IH]; intros Hall; [reflexivity|].
  destruct l as [|y l].
  - simpl. rewrite count_char_notin by (apply Hall; left; reflexivity). reflexivity.
  - change (join_on d (x :: y :: l)) with (x ++ d :: join_on d (y :: l)).
    rewrite count_char_app.
    rewrite count_char_notin by (apply Hall; left; reflexivity).
    change (d :: join_on d (y :: l)) with ([d] ++ join_on d (y :: l)).
    rewrite count_char_app.
    rewrite IH by (intros z Hz; apply Hall; right; assumption).
    unfold count_char at 1. simpl. rewrite N.eqb_refl. simpl. lia.
Qed.

Lemma In_join_on c d (l : list str) :
  In c (join_on d l) -> c = d \/ exists x, In x l /\ In c x.
Proof.
  induction l as [|x l IH]; simpl; [tauto|].
  destruct l as [|y l].
  - intros H; right; exists x; split; [left; reflexivity | assumption].
  - intros H. apply in_app_or in H. destruct H as [H|H].
    + right; exists x; split; [left; reflexivity | assumption].
    + destruct H as [H|H]; [left; symmetry; assumption|].
      destruct (IH H) as [E|[z [Hz Hc]]]; [left; assumption|].
      right; exists z; split; [right; assumption | assumption].
Qed.

(* s.rstrip(c) for one character *)
Definition rstrip1 (c : N) (s : str) : str :=
  rev ((fix go (r : str) : str :=
          match r with
          | x :: r' => if N.eqb x c then go r' else r
          | [] => []
          end) (rev s)).

Lemma rstrip1_notin c s : ~ In c s -> rstrip1 c s = s.
Proof.
  intros Hn. unfold rstrip1.
  destruct (rev s) as [|x r] eqn:E.
  - simpl. apply (f_equal (@rev N)) in E. rewrite rev_involutive in E. simpl in E. symmetry; assumption.
  - destruct (N.eqb_spec x c) as [->|Hne].
    + exfalso. apply Hn. apply in_rev. rewrite E. left; reflexivity.
    + rewrite <- E. apply rev_involutive.
Qed.
