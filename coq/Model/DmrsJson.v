(* Executable model of delphin/codecs/dmrsjson.py at the level of the JSON
   value (to_dict / from_dict); the JSON text is json.dumps/loads (oracle).
   C02.  Node surface/base strings are not part of the model's node type. *)
From Coq Require Import List NArith ZArith Bool Arith.
From PyD Require Import Base.Str Base.Dec Model.Hier Model.Mrs Model.Iso Model.SimpleMrs Model.MrsJson Model.SimpleDmrs.
Import ListNotations.

Definition k_nodeid := K [110;111;100;101;105;100].
Definition k_sortinfo := K [115;111;114;116;105;110;102;111].
Definition k_links := K [108;105;110;107;115].
Definition k_rargname := K [114;97;114;103;110;97;109;101].
Definition k_post := K [112;111;115;116].
Definition k_identifier := K [105;100;101;110;116;105;102;105;101;114].
Definition CVARSORT : str := [99;118;97;114;115;111;114;116]%N.
Definition k_dnodes := K [110;111;100;101;115].
Definition k_dcarg := K [99;97;114;103].

(* Node.sortinfo: the properties with the type under "cvarsort" *)
Definition sortinfo (n : dnode) : list (str * str) :=
  match n_type n with Some t => dict_set CVARSORT t (n_props n) | None => n_props n end.

Definition dnode_to_dict (propopt lnkopt : bool) (n : dnode) : jv :=
  JObj ([(k_nodeid, JInt (n_id n)); (k_predicate, JStr (n_pred n))]
        ++ (if propopt then match sortinfo n with [] => [] | si => [(k_sortinfo, jstr_map si)] end else [])
        ++ (match n_carg n with Some c => [(k_dcarg, JStr c)] | None => [] end)
        ++ (if lnkopt && lnk_truthy (n_lnk n)
            then [(k_lnk, JObj [(k_from, JInt (cfrom (n_lnk n))); (k_to, JInt (cto (n_lnk n)))])] else [])).

Definition link_to_dict (k : glink) : jv :=
  let '(s, e, role, post) := k in
  JObj [(k_from, JInt s); (k_to, JInt e); (k_rargname, jopt role); (k_post, JStr post)].

Definition nonzero (o : option Z) : bool := match o with Some z => negb (Z.eqb z 0) | None => false end.

Definition d_to_dict (propopt lnkopt : bool) (g : dmrs) : jv :=
  JObj ([(k_dnodes, JArr (map (dnode_to_dict propopt lnkopt) (g_nodes g)));
         (k_links, JArr (map link_to_dict (g_links g)))]
        ++ (match g_top g with Some t => [(k_top, JInt t)] | None => [] end)
        ++ (if nonzero (g_index g) then match g_index g with Some i => [(k_index, JInt i)] | None => [] end else [])
        ++ (if lnkopt then
              (if lnk_truthy (g_lnk g) then [(k_lnk, JObj [(k_from, JInt (cfrom (g_lnk g))); (k_to, JInt (cto (g_lnk g)))])] else [])
              ++ (match g_surface g with Some (c :: s) => [(k_surface, JStr (c :: s))] | _ => [] end)
            else [])
        ++ (match g_ident g with Some i => [(k_identifier, JStr i)] | None => [] end)).

(* ---------------------------------------------------------------- *)

Definition as_oint (v : option jv) : option (option Z) :=
  match v with None | Some JNull => Some None | Some (JInt z) => Some (Some z) | _ => None end.

Definition dnode_from (v : jv) : option dnode :=
  match v with
  | JObj f =>
      match jget k_nodeid f, jget k_predicate f, as_ostr (jget k_dcarg f), lnk_of (jget k_lnk f) with
      | Some (JInt i), Some (JStr p), Some cg, Some lk =>
          match (match jget k_sortinfo f with None => Some [] | Some (JObj a) => str_fields a | _ => None end) with
          | Some si =>
              Some {| n_id := i; n_pred := p; n_type := dict_get CVARSORT si;
                      n_props := filter (fun kv => negb (str_eqb (fst kv) CVARSORT)) si;
                      n_carg := cg; n_lnk := lk |}
          | None => None
          end
      | _, _, _, _ => None
      end
  | _ => None
  end.

Definition link_from (v : jv) : option glink :=
  match v with
  | JObj f =>
      match jget k_from f, jget k_to f, as_ostr (jget k_rargname f), jget k_post f with
      | Some (JInt s), Some (JInt e), Some role, Some (JStr post) => Some (s, e, role, post)
      | _, _, _, _ => None
      end
  | _ => None
  end.

Definition d_from_dict (d : jv) : option dmrs :=
  match d with
  | JObj f =>
      match as_oint (jget k_top f), as_oint (jget k_index f),
            all_some (map dnode_from (match jget k_dnodes f with Some (JArr l) => l | _ => [] end)),
            all_some (map link_from (match jget k_links f with Some (JArr l) => l | _ => [] end)),
            lnk_of (jget k_lnk f), as_ostr (jget k_surface f), as_ostr (jget k_identifier f) with
      | Some top, Some index, Some nodes, Some links, Some lk, Some sf, Some ident =>
          let '(top', links') := norm_top top links in
          Some {| g_top := top'; g_index := index; g_nodes := nodes; g_links := links';
                  g_lnk := lk; g_surface := sf; g_ident := ident |}
      | _, _, _, _, _, _, _ => None
      end
  | _ => None
  end.
