(* Executable model of delphin/tfs.py FeatureStructure: dotted-path
   assignment, access, membership and feature listing (C15).  Leaf values
   are opaque (an identifier); the TDL term values of tdl.AVM are leaves. *)
From Coq Require Import List NArith ZArith Bool Arith.
From PyD Require Import Base.Str Model.Hier Model.Mrs Model.Iso.
Import ListNotations.

Inductive fnode :=
| FLeaf (v : N)
| FSub (entries : list (str * fnode)).     (* insertion order = _feats *)

Definition fs := list (str * fnode).

(* the value assigned: identifier 0 stands for a fresh empty FeatureStructure *)
Definition val_of (v : N) : fnode := if N.eqb v 0 then FSub [] else FLeaf v.

(* self[key] = val ; the key already split at the dots; None = TFSError *)
Fixpoint setitem (f : fs) (path : list str) (v : N) {struct path} : option fs :=
  match path with
  | [] => None
  | [k] => Some (dict_set (ascii_upper k) (val_of v) f)
  | k :: rest =>
      let ku := ascii_upper k in
      match dict_get ku f with
      | Some (FSub g) => option_map (fun g' => dict_set ku (FSub g') f) (setitem g rest v)
      | Some (FLeaf _) => None
      | None => option_map (fun g' => dict_set ku (FSub g') f) (setitem [] rest v)
      end
  end.

(* self[key] ; None = KeyError / TypeError *)
Fixpoint getitem (f : fs) (path : list str) {struct path} : option fnode :=
  match path with
  | [] => None
  | [k] => dict_get (ascii_upper k) f
  | k :: rest =>
      match dict_get (ascii_upper k) f with
      | Some (FSub g) => getitem g rest
      | _ => None
      end
  end.

(* features(expand): dotted paths (as lists) with their values; a sub-structure
   with exactly one feature is passed through, others are listed unless expand *)
Fixpoint features (fuel : nat) (expand : bool) (f : fs) : list (list str * fnode) :=
  match fuel with
  | O => []
  | S fuel' =>
      flat_map (fun kv =>
                  match snd kv with
                  | FLeaf v => [([fst kv], FLeaf v)]
                  | FSub g =>
                      if negb expand && negb (Nat.eqb (length g) 1) then [([fst kv], FSub g)]
                      else map (fun pv => (fst kv :: fst pv, snd pv)) (features fuel' expand g)
                  end) f
  end.

(* a sequence of assignments; a failing assignment (TFSError) changes nothing *)
Fixpoint run_sets (f : fs) (ops : list (list str * N)) : fs * list bool :=
  match ops with
  | [] => (f, [])
  | (p, v) :: ops' =>
      match setitem f p v with
      | Some f' => let '(g, oks) := run_sets f' ops' in (g, true :: oks)
      | None => let '(g, oks) := run_sets f ops' in (g, false :: oks)
      end
  end.

(* observation of a value: a leaf's identifier, or -1 for a sub-structure *)
Definition obs_node (n : fnode) : Z := match n with FLeaf v => Z.of_N v | FSub _ => (-1)%Z end.
