(* Executable model of delphin/codecs/edsjson.py at the level of the JSON
   value (to_dict / from_dict incl. the re-sorting of nodes by span); the
   JSON text is json.dumps/loads (oracle).  C03. *)
From Coq Require Import List NArith ZArith Bool Arith.
From PyD Require Import Base.Str Base.Dec Model.Hier Model.Mrs Model.Iso Model.SimpleMrs Model.MrsJson Model.EdsNative.
Import ListNotations.

Definition k_nodes := K [110;111;100;101;115].
Definition k_edges := K [101;100;103;101;115].
Definition k_carg := K [99;97;114;103].

Definition node_to_dict (propopt lnkopt : bool) (n : vnode) : jv :=
  JObj ([(k_label, JStr (v_pred n)); (k_edges, jstr_map (v_edges n))]
        ++ (if lnkopt then [(k_lnk, JObj [(k_from, JInt (cfrom (v_lnk n))); (k_to, JInt (cto (v_lnk n)))])] else [])
        ++ (match v_type n with Some t => [(k_type, JStr t)] | None => [] end)
        ++ (if propopt then match v_props n with [] => [] | ps => [(k_properties, jstr_map ps)] end else [])
        ++ (match v_carg n with Some c => [(k_carg, JStr c)] | None => [] end)).

(* nodes[node.id] = nd : a dictionary keyed by node id *)
Definition e_to_dict (propopt lnkopt : bool) (g : veds) : jv :=
  JObj [(k_top, jopt (ve_top g));
        (k_nodes, JObj (fold_left (fun d n => dict_set (v_id n) (node_to_dict propopt lnkopt n) d) (ve_nodes g) []))].

Definition node_from (kv : str * jv) : option vnode :=
  match snd kv with
  | JObj f =>
      match jget k_label f, as_ostr (jget k_type f), as_ostr (jget k_carg f), lnk_of (jget k_lnk f) with
      | Some (JStr p), Some ty, Some cg, Some lk =>
          match (match jget k_edges f with None => Some [] | Some (JObj a) => str_fields a | _ => None end),
                (match jget k_properties f with None => Some [] | Some (JObj a) => str_fields a | _ => None end) with
          | Some es, Some ps =>
              Some {| v_id := fst kv; v_pred := p; v_type := ty; v_edges := es; v_props := ps; v_carg := cg; v_lnk := lk |}
          | _, _ => None
          end
      | _, _, _, _ => None
      end
  | _ => None
  end.

(* nodes.sort(key=lambda n: (n.cfrom, -n.cto)) : stable *)
Definition span_lt (a b : vnode) : bool :=
  Z.ltb (cfrom (v_lnk a)) (cfrom (v_lnk b))
  || (Z.eqb (cfrom (v_lnk a)) (cfrom (v_lnk b)) && Z.ltb (- cto (v_lnk a)) (- cto (v_lnk b))).
Fixpoint ins_node (x : vnode) (l : list vnode) : list vnode :=
  match l with [] => [x] | y :: l' => if span_lt y x then y :: ins_node x l' else x :: y :: l' end.
Definition sort_nodes (l : list vnode) : list vnode := fold_right ins_node [] l.

Definition e_from_dict (d : jv) : option veds :=
  match d with
  | JObj f =>
      match as_ostr (jget k_top f),
            all_some (map node_from (match jget k_nodes f with Some (JObj l) => l | _ => [] end)) with
      | Some top, Some nodes => Some {| ve_top := top; ve_nodes := sort_nodes nodes; ve_ident := None |}
      | _, _ => None
      end
  | _ => None
  end.
