(* Executable model of delphin.mrs.from_dmrs (C04), with DMRS.scopes,
   DMRS.arguments / scopal_arguments / quantification_pairs,
   variable.VariableFactory and _fill_variables.

   scope.conjoin takes the label of a conjoined scope "arbitrarily" from the
   class (iteration order of a Python set): the labels chosen by the
   implementation are an input of the model (choice), checked to be members
   of their classes; everything else, including the numbering of the fresh
   variables which depends on that choice, is computed.

   None = outside the model: node identifiers not pairwise distinct, a link
   whose start or end is not a node, an unpaired quantifier, a choice list
   that does not fit (the implementation raises KeyError on most of these). *)
From Coq Require Import List NArith ZArith Bool Arith.
From PyD Require Import Base.Str Base.Dec Model.Hier Model.Mrs Model.Convert.
Import ListNotations.

Definition HS : str := [104]%N.
Definition US : str := [117]%N.
Definition POST_NEQ' : str := POST_NEQ.

(* ---- int-keyed dictionaries (insertion order, assignment overwrites) ---- *)
Fixpoint zget {A} (k : Z) (d : list (Z * A)) : option A :=
  match d with
  | [] => None
  | (k', v) :: d' => if Z.eqb k' k then Some v else zget k d'
  end.
Fixpoint zset {A} (k : Z) (v : A) (d : list (Z * A)) : list (Z * A) :=
  match d with
  | [] => [(k, v)]
  | (k', v') :: d' => if Z.eqb k' k then (k', v) :: d' else (k', v') :: zset k v d'
  end.
Definition zmem (k : Z) (l : list Z) : bool := existsb (Z.eqb k) l.
Fixpoint znodup (l : list Z) : bool :=
  match l with [] => true | x :: r => negb (zmem x r) && znodup r end.

(* ---- VariableFactory ---- *)
Record vfac := { vf_vid : Z; vf_index : list Z; vf_store : list (str * list (str * str)) }.

Fixpoint next_free (fuel : nat) (vid : Z) (index : list Z) : Z :=
  match fuel with
  | O => vid
  | S f => if zmem vid index then next_free f (vid + 1)%Z index else vid
  end.

Definition vf_new (f : vfac) (ty : option str) (props : list (str * str)) : str * vfac :=
  let t := match ty with Some t => t | None => US end in
  let vid := next_free (S (length (vf_index f))) (vf_vid f) (vf_index f) in
  let v := t ++ Z_to_dec vid in
  (v, {| vf_vid := (vid + 1)%Z; vf_index := vid :: vf_index f; vf_store := dict_set v props (vf_store f) |}).

Definition vf_reserve (f : vfac) (vid : Z) : vfac :=
  {| vf_vid := vf_vid f; vf_index := vid :: vf_index f; vf_store := vf_store f |}.

(* ---- _fill_variables ---- *)
Definition add_var (v : str) (vars : list (str * list (str * str))) : list (str * list (str * str)) :=
  match dict_get v vars with Some _ => vars | None => vars ++ [(v, [])] end.

Definition fill_variables (vars : list (str * list (str * str))) (top index : option str)
           (rels : list ep) (hcons : list cons3) : list (str * list (str * str)) :=
  let v1 := match top with Some t => add_var t vars | None => vars end in
  let v2 := match index with Some i => add_var i v1 | None => v1 end in
  let v3 := fold_left (fun acc e =>
              fold_left (fun acc2 rv => if str_eqb (fst rv) CARG_ROLE then acc2 else add_var (snd rv) acc2)
                        (e_args e) (add_var (e_label e) acc)) rels v2 in
  fold_left (fun acc c => let '(hi, _, lo) := c in add_var hi (add_var lo acc)) hcons v3.

(* ---- the conversion ---- *)
Definition link_start (l : Z * Z * str * str) : Z := fst (fst (fst l)).
Definition link_end (l : Z * Z * str * str) : Z := snd (fst (fst l)).
Definition link_role (l : Z * Z * str * str) : str := snd (fst l).
Definition link_post (l : Z * Z * str * str) : str := snd l.

Definition lbl_of_idx (i : nat) : str := HS ++ Z_to_dec (Z.of_nat (S i)).

Section FromDmrs.
Variable d : dmrs.
Variable choice : list str.

Let nodes := d_nodes d.
Let ids := map dn_id nodes.
Let links := d_links d.

Definition id_lbl0 : list (Z * str) := combine ids (map lbl_of_idx (seq 0 (length nodes))).

Definition is_node (i : Z) : bool := zmem i ids.

Definition leqs : option (list (str * str)) :=
  seq_opt (map (fun l => match zget (link_start l) id_lbl0, zget (link_end l) id_lbl0 with
                         | Some a, Some b => Some (a, b)
                         | _, _ => None end)
               (filter (fun l => str_eqb (link_post l) POST_EQ) links)).

Definition classes (lq : list (str * str)) : list (list str) :=
  components (map snd id_lbl0) (leq_edges lq) [].

Fixpoint choice_ok (ch : list str) (cs : list (list str)) : bool :=
  match ch, cs with
  | [], [] => true
  | c :: ch', k :: cs' => mem c k && choice_ok ch' cs'
  | _, _ => false
  end.

(* the scope label of a node *)
Definition scope_label (cs : list (list str)) (i : Z) : option str :=
  match zget i id_lbl0 with
  | None => None
  | Some l0 => match find (fun p => mem l0 (snd p)) (combine choice cs) with
               | Some p => Some (fst p)
               | None => None end
  end.

(* quantifiers: starts of RSTR links; qmap: end -> start, the last link wins *)
Definition q_starts : list Z := map link_start (filter (fun l => str_eqb (link_role l) RSTR) links).
Definition qmap_of : list (Z * Z) :=
  fold_left (fun acc l => if str_eqb (link_role l) RSTR then zset (link_end l) (link_start l) acc else acc) links [].

(* _dmrs_build_maps: id -> intrinsic variable *)
Definition build_ivs (f : vfac) : list (Z * str) * vfac :=
  fold_left (fun acc n =>
     let '(m, f) := acc in
     if zmem (dn_id n) q_starts then (m, f)
     else let '(iv, f') := vf_new f (dn_type n) (dn_props n) in
          let m1 := zset (dn_id n) iv m in
          (match zget (dn_id n) qmap_of with Some q => zset q iv m1 | None => m1 end, f'))
    nodes ([], f).

Definition ns_type_ok (i : Z) : bool :=
  match find (fun n => Z.eqb (dn_id n) i) nodes with
  | Some n => match dn_type n with Some t => is_substr t NS_TYPES | None => false end
  | None => false
  end.

Definition is_scopal_post (p : str) : bool := str_eqb p POST_H || str_eqb p POST_HEQ.

(* the arguments of one node, in link order *)
Definition node_args (cs : list (list str)) (ivs : list (Z * str)) (n : dnode) (f : vfac)
  : option (list (str * str) * list cons3 * vfac) :=
  let id := dn_id n in
  match zget id ivs with
  | None => None
  | Some iv =>
      let a0 := [(ARG0, iv)] in
      (* non-scopal arguments *)
      let ns := filter (fun l => Z.eqb (link_start l) id && negb (str_eqb (link_role l) MOD_ROLE) &&
                                 negb (is_scopal_post (link_post l)) && ns_type_ok (link_end l)) links in
      let a1 := fold_left (fun acc l => match acc with
                                        | None => None
                                        | Some a => match zget (link_end l) ivs with
                                                    | Some v => Some (dict_set (link_role l) v a)
                                                    | None => None end
                                        end) ns (Some a0) in
      (* scopal arguments *)
      let sc := filter (fun l => Z.eqb (link_start l) id && is_scopal_post (link_post l)) links in
      let a2 := fold_left (fun acc l =>
                  match acc with
                  | None => None
                  | Some (a, hc, f) =>
                      match scope_label cs (link_end l) with
                      | None => None
                      | Some tl =>
                          if str_eqb (link_post l) POST_HEQ then Some (dict_set (link_role l) tl a, hc, f)
                          else let '(hole, f') := vf_new f (Some HS) [] in
                               Some (dict_set (link_role l) hole a, hc ++ [(hole, QEQ, tl)], f')
                      end
                  end) sc (match a1 with Some a => Some (a, [], f) | None => None end) in
      match a2 with
      | None => None
      | Some (a, hc, f2) =>
          let a3 := match dn_carg n with Some c => dict_set CARG_ROLE c a | None => a end in
          if zmem id q_starts && match dict_get BODY a3 with Some _ => false | None => true end
          then let '(b, f3) := vf_new f2 (Some HS) [] in Some (dict_set BODY b a3, hc, f3)
          else Some (a3, hc, f2)
      end
  end.

Definition links_ok : bool :=
  forallb (fun l => is_node (link_start l) && is_node (link_end l)) links.

Definition mrs_from_dmrs : option mrs :=
  if negb (znodup ids) || negb links_ok then None else
  match leqs with
  | None => None
  | Some lq =>
      let cs := classes lq in
      if negb (choice_ok choice cs) then None else
      let f0 := {| vf_vid := 0%Z; vf_index := []; vf_store := [] |} in
      let '(top, f1) := match d_top d with
                        | Some _ => let '(t, f) := vf_new f0 (Some HS) [] in (Some t, f)
                        | None => (None, f0) end in
      let top_lbl := match d_top d with Some t => scope_label cs t | None => None end in
      match (match d_top d with Some _ => match top_lbl with Some _ => true | None => false end | None => true end),
            seq_opt (map var_id choice) with
      | true, Some cvids =>
          let f2 := fold_left vf_reserve cvids f1 in
          let '(ivs, f3) := build_ivs f2 in
          let index := match d_index d with
                       | None => Some None
                       | Some i => if Z.eqb i 0 then Some None
                                   else match zget i ivs with Some v => Some (Some v) | None => None end
                       end in
          let hc0 := match top, top_lbl with Some t, Some l => [(t, QEQ, l)] | _, _ => [] end in
          let r := fold_left (fun acc n =>
                     match acc with
                     | None => None
                     | Some (rels, hc, f) =>
                         match scope_label cs (dn_id n), node_args cs ivs n f with
                         | Some lbl, Some (a, hc', f') =>
                             Some (rels ++ [{| e_pred := dn_pred n; e_label := lbl; e_args := a |}], hc ++ hc', f')
                         | _, _ => None
                         end
                     end) nodes (Some ([], hc0, f3)) in
          match index, r with
          | Some ix, Some (rels, hc, f) =>
              Some {| m_top := top; m_index := ix; m_rels := rels; m_hcons := hc; m_icons := [];
                      m_vars := fill_variables (vf_store f) top ix rels hc |}
          | _, _ => None
          end
      | _, _ => None
      end
  end.
End FromDmrs.
