(* Executable model of commands.mkprof (C12): copying/filtering a source
   profile, cleanup (skeleton / full), and making items from sentence lines. *)
From Coq Require Import List NArith ZArith Bool Arith.
From PyD Require Import Base.Str Base.Dec Model.Tsdb Model.TsdbFiles Model.TsdbDb Model.Hier Model.Tsql.
Import ListNotations.

Definition CORE_FILES : list str :=
  [[105;116;101;109]; [97;110;97;108;121;115;105;115]; [112;104;101;110;111;109;101;110;111;110];
   [112;97;114;97;109;101;116;101;114]; [115;101;116];
   [105;116;101;109;45;112;104;101;110;111;109;101;110;111;110]; [105;116;101;109;45;115;101;116]]%N.

(* the schema with key flags (Tsql.tfield) and without (Tsdb.field) *)
Definition kschema := list (str * list tfield).
Definition plain_fields (fs : list tfield) : list field :=
  map (fun f => {| f_name := tf_name f; f_type := tf_type f |}) fs.

(* the TSQL view of a directory: every relation of the schema with the rows read from its file *)
Definition db_of (sch : kschema) (fs : files) : option db :=
  seqo (map (fun e => match read_records (get_rel fs (fst e)) with
                      | Some rows => Some {| r_name := fst e; r_fields := snd e; r_rows := rows |}
                      | None => match read_rel (get_rel fs (fst e)) with
                                | None => Some {| r_name := fst e; r_fields := snd e; r_rows := [] |}
                                | Some _ => None end
                      end) sch).

(* _tsql_distinct: drop a record equal to its predecessor *)
Definition rec_eqb (a b : list raw) : bool :=
  (fix go (a b : list raw) : bool :=
     match a, b with
     | [], [] => true
     | x :: a', y :: b' =>
         match x, y with
         | None, None => go a' b'
         | Some s, Some t => str_eqb s t && go a' b'
         | _, _ => false
         end
     | _, _ => false
     end) a b.
Fixpoint distinct_adj (prev : option (list raw)) (l : list (list raw)) : list (list raw) :=
  match l with
  | [] => []
  | r :: l' => match prev with
               | Some p => if rec_eqb r p then distinct_adj (Some r) l' else r :: distinct_adj (Some r) l'
               | None => r :: distinct_adj (Some r) l'
               end
  end.

Inductive mres := MOk (fs : files) | MErr.

(* the records mkprof writes for one table.  select_err: the TSQL query raised
   TSQLError (then everything is copied) *)
Definition table_records (src_sch : kschema) (src : files) (o : regex_oracle)
           (to_copy : list str) (where_ : option cond) (table : str) : option (list (list raw)) :=
  let present := match dict_get table src_sch with
                 | Some _ => match read_rel (get_rel src table) with Some _ => true | None => false end
                 | None => false end in
  if negb (mem table to_copy) || negb present then Some []
  else
    let all := read_records (get_rel src table) in
    match where_ with
    | None => all
    | Some c =>
        match db_of src_sch src with
        | None => None
        | Some d =>
            match select d o true [] [table] (Some c) with
            | Some rows => Some (distinct_adj None rows)
            | None => all                                  (* except TSQLError: copy everything *)
            end
        end
    end.

Definition mkprof_from_database (src_sch : kschema) (src dst : files) (o : regex_oracle)
           (new_sch : option kschema) (where_ : option cond) (full gzip : bool) : mres :=
  let sch := match new_sch with Some s => s | None => src_sch end in
  let to_copy := if full then map fst sch else CORE_FILES in
  fold_left (fun acc e =>
    match acc with
    | MErr => MErr
    | MOk fs =>
        let '(table, fields) := e in
        match table_records src_sch src o to_copy where_ table with
        | None => MErr
        | Some recs =>
            let recs' := match new_sch, recs, dict_get table src_sch with
                         | Some _, _ :: _, Some old => map (remake (plain_fields old) (plain_fields fields)) recs
                         | _, _, _ => recs end in
            match seqo (map (join_record (plain_fields fields)) recs') with
            | None => MErr
            | Some lines =>
                match write_rel (get_rel fs table) lines false gzip with
                | WOk r => MOk (set_rel fs table r)
                | WRejected => MErr
                end
            end
        end
    end) sch (MOk dst).

(* _mkprof_cleanup *)
Definition nonempty_file (o : option (list str)) : bool := match o with Some (_ :: _) => true | _ => false end.
Definition mkprof_cleanup (fs : files) (dst_sch : list str) (skeleton : bool) (old_files : list str) : files :=
  let to_keep := if skeleton then filter (fun n => mem n CORE_FILES) dst_sch else dst_sch in
  fold_left (fun acc name =>
    let r := get_rel acc name in
    let drop_tx := match tx r with
                   | Some l => negb (mem name to_keep) || (skeleton && match l with [] => true | _ => false end)
                   | None => false end in
    let drop_gz := match gz r with
                   | Some _ => negb (mem name to_keep)     (* a gzip file is never empty on disk *)
                   | None => false end in
    set_rel acc name {| tx := if drop_tx then None else tx r;
                        gz := if drop_gz then None else gz r;
                        gz_newer := gz_newer r |})
    (dst_sch ++ filter (fun n => negb (mem n dst_sch)) old_files) fs.

(* ---- items from sentence lines (no delimiter) ---- *)
Definition is_space_ascii (c : N) : bool :=
  (N.eqb c 32) || (N.leb 9 c && N.leb c 13) || (N.leb 28 c && N.leb c 31).

(* line.rstrip('\n'), then the ungrammaticality mark *)
Definition sentence (line : str) : (Z * str) :=
  let l := rstrip1 10 line in
  match l with
  | 42%N :: rest => (0%Z, rest)
  | _ => (1%Z, l)
  end.

Definition word_count (s : str) : Z := Z.of_nat (length (split_ws s)).

(* the record of the i-th line (1-based) under the item fields *)
Definition item_record (fields : list field) (i : Z) (line : str) : list value :=
  let '(wf, inp) := sentence line in
  map (fun f =>
         if str_eqb (f_name f) [105;45;119;102]%N then VInt wf                     (* i-wf *)
         else if str_eqb (f_name f) [105;45;105;110;112;117;116]%N then VStr inp   (* i-input *)
         else if str_eqb (f_name f) [105;45;105;100]%N then VInt i                 (* i-id *)
         else if str_eqb (f_name f) [105;45;108;101;110;103;116;104]%N then VInt (word_count inp)
         else VNone) fields.

Fixpoint lines_to_records (fields : list field) (i : Z) (lines : list str) : list (list value) :=
  match lines with
  | [] => []
  | l :: ls => item_record fields i l :: lines_to_records fields (i + 1) ls
  end.

Definition items_from_lines (fields : list field) (lines : list str) : option (list str) :=
  (fix go (recs : list (list value)) : option (list str) :=
     match recs with
     | [] => Some []
     | r :: rs => match join_typed r fields, go rs with
                  | Some l, Some ls => Some (l :: ls)
                  | _, _ => None end
     end) (lines_to_records fields 1 lines).

(* ---- items from delimited lines: a header line names the columns ---- *)
Definition I_ID : str := [105;45;105;100]%N.
Definition I_INPUT : str := [105;45;105;110;112;117;116]%N.
Definition I_LENGTH : str := [105;45;108;101;110;103;116;104]%N.

(* the split function _make_split builds: tsdb.split for the delimiter @ (empty
   columns read as None, escapes undone), str.split(delimiter) otherwise *)
Definition split_cols (delim : N) (line : str) : option (list raw) :=
  if N.eqb delim 64 then split_raw line
  else Some (map Some (split_on delim (rstrip1 10 line))).

Definition raw_eqb' (a b : raw) : bool :=
  match a, b with None, None => true | Some x, Some y => str_eqb x y | _, _ => false end.

(* dict(zip(colnames, colvals)).get(name): the last column of that name wins *)
Fixpoint col_lookup (name : str) (names vals : list raw) : option raw :=
  match names, vals with
  | n :: names', v :: vals' =>
      match col_lookup name names' vals' with
      | Some r => Some r
      | None => if raw_eqb' n (Some name) then Some v else None
      end
  | _, _ => None
  end.

Definition has_field (name : str) (fields : list field) : bool :=
  existsb (fun f => str_eqb (f_name f) name) fields.

(* the values of one data line under the item fields: None = CommandError (wrong number of
   columns) or an exception of the split function *)
Definition delim_record (delim : N) (fields : list field) (names : list raw) (i : Z) (line : str)
  : option (list value * option raw) :=            (* the record and the i-id it was given, if any *)
  match split_cols delim line with
  | None => None
  | Some vals =>
      if negb (Nat.eqb (length vals) (length names)) then None
      else
        let given_id := col_lookup I_ID names vals in
        Some (map (fun f =>
                     match col_lookup (f_name f) names vals with
                     | Some (Some s) => VStr s
                     | Some None => VNone
                     | None =>
                         if str_eqb (f_name f) I_ID then VInt i
                         else if str_eqb (f_name f) I_LENGTH then
                           match col_lookup I_INPUT names vals with
                           | Some v => VInt (word_count (match v with Some s => s | None => [] end))
                           | None => VNone
                           end
                         else VNone
                     end) fields,
              if has_field I_ID fields then given_id else None)
  end.

Fixpoint delim_records (delim : N) (fields : list field) (names : list raw) (i : Z) (seen : list raw)
         (lines : list str) : option (list (list value)) :=
  match lines with
  | [] => Some []
  | l :: ls =>
      match delim_record delim fields names i l with
      | None => None
      | Some (rec, gid) =>
          match gid with
          | Some id =>
              if existsb (raw_eqb' id) seen then None             (* duplicate i-id *)
              else option_map (cons rec) (delim_records delim fields names (i + 1) (id :: seen) ls)
          | None => option_map (cons rec) (delim_records delim fields names (i + 1) seen ls)
          end
      end
  end.

(* the item relation written from a text whose first line is the header; None = an exception
   (no header line, wrong number of columns, duplicate identifiers, malformed escapes) *)
Definition items_from_delimited (delim : N) (fields : list field) (lines : list str) : option (list str) :=
  match lines with
  | [] => None                                                    (* next() on an empty input *)
  | header :: data =>
      match split_cols delim header with
      | None => None
      | Some names =>
          match delim_records delim fields names 1 [] data with
          | None => None
          | Some recs =>
              (fix go (recs : list (list value)) : option (list str) :=
                 match recs with
                 | [] => Some []
                 | r :: rs => match join_typed r fields, go rs with
                              | Some l, Some ls => Some (l :: ls)
                              | _, _ => None end
                 end) recs
          end
      end
  end.

