(* Executable model of the interaction loop of delphin/ace.py (C19):
   input validation, the line reader _result_lines with its terminator
   patterns, restart bookkeeping and close().  The processor is an oracle:
   for every interaction the model is given what the (stand-in) processor
   wrote in reaction to the input and whether it exited; operating-system
   timing appears only as the choice between the events below. *)
From Coq Require Import List NArith ZArith Bool Arith.
From PyD Require Import Base.Str Model.Mrs Model.SimpleMrs Model.ConvertCmd.
Import ListNotations.

(* ---------------------------------------------------------------- *)
(* input validation *)

Definition LBR : N := 91%N.
Definition RBR : N := 93%N.

(* _possible_mrs: the span from the first '[' at depth 0 to its matching ']' *)
Fixpoint pm_scan (s : str) (i : nat) (depth : Z) (start : option nat) : option (nat * nat) :=
  match s with
  | [] => None
  | c :: s' =>
      if N.eqb c LBR then
        pm_scan s' (S i) (depth + 1) (if Z.eqb depth 0 then Some i else start)
      else if N.eqb c RBR then
        if Z.eqb (depth - 1) 0 then
          match start with Some st => Some (st, S i) | None => None end
        else pm_scan s' (S i) (depth - 1) start
      else pm_scan s' (S i) depth start
  end.

Definition possible_mrs (s : str) : str :=
  match pm_scan s 0 0 None with
  | Some (st, en) =>
      if negb (Nat.eqb st 0) && negb (Nat.eqb en (length s)) then firstn (en - st) (skipn st s) else s
  | None => []
  end.

Inductive task := TParse | TGenerate | TTransfer.

(* _validate_input: the text that is sent, [] = refused *)
Definition validate (t : task) (datum : str) : str :=
  match t with
  | TParse => strip datum
  | _ => possible_mrs datum
  end.

Definition rstrip (s : str) : str := rev (drop_while is_space (rev s)).

(* ---------------------------------------------------------------- *)
(* the line reader *)

Definition RUN_NOTE : str := [78;79;84;69;58;32;116;115;100;98;32;114;117;110;58]%N.   (* NOTE: tsdb run: *)
Definition PARSE_NOTE : str := [78;79;84;69;58;32;116;115;100;98;32;112;97;114;115;101;58;32]%N. (* NOTE: tsdb parse:  *)
Definition RESULTS_KEY : str := [40;58;114;101;115;117;108;116;115;32;46]%N.           (* (:results . *)

Fixpoint contains (pat s : str) : bool :=
  match s with
  | [] => match pat with [] => true | _ => false end
  | _ :: s' => is_prefix pat s || contains pat s'
  end.

Inductive terminus := TBlank | TContains (pat : str).

Definition term_match (t : terminus) (line : str) : bool :=
  match t with
  | TBlank => match line with [] => true | _ => false end
  | TContains pat => contains pat line
  end.

(* the terminator patterns of each front end and output protocol *)
Definition termini (t : task) (tsdb : bool) : list terminus :=
  match t with
  | TParse => [TBlank; TBlank]
  | TTransfer => [TBlank]
  | TGenerate => if tsdb then [TContains RESULTS_KEY] else [TContains PARSE_NOTE]
  end.

(* _result_lines over the lines still unread on the processor's output
   (each without its newline; a final unterminated fragment is a line too).
   Returns the lines read, what is left unread and whether the end of the
   stream was hit (the processor has exited). *)
Fixpoint read_lines (ts : list terminus) (stream : list str) (acc : list str)
  : list str * list str * bool :=
  match ts with
  | [] => (acc, stream, false)
  | t :: ts' =>
      match stream with
      | [] => (acc, [], true)
      | s :: rest =>
          if is_prefix RUN_NOTE s then read_lines ts rest acc
          else if term_match t s then read_lines ts' rest (acc ++ [rstrip s])
          else read_lines ts rest (acc ++ [rstrip s])
      end
  end.

Definition nonblank (s : str) : bool := match s with [] => false | _ => true end.

Definition result_lines (ts : list terminus) (stream : list str) : list str * list str * bool :=
  let '(ls, rest, eof) := read_lines ts stream [] in (filter nonblank ls, rest, eof).

(* ---------------------------------------------------------------- *)
(* interactions *)

(* what the processor does with one request *)
Inductive event :=
| EvAnswer (lines : list str) (exits : bool)   (* writes these lines; exits afterwards or not *)
| EvLost.                                      (* the request is written to a processor that is
                                                  already exiting and is never read *)

Record pstate := { ps_alive : bool;            (* the current processor has not exited *)
                   ps_run : nat;               (* current run id *)
                   ps_pending : list str }.    (* output of the current processor not yet read *)

Record response := { r_input : str; r_skipped : bool; r_lines : list str; r_run : nat }.

Definition init_state : pstate := {| ps_alive := true; ps_run := 0; ps_pending := [] |}.

(* ACEProcess.interact *)
Definition interact (t : task) (tsdb : bool) (st : pstate) (datum : str) (ev : event) : response * pstate :=
  match validate t datum with
  | [] => ({| r_input := datum; r_skipped := true; r_lines := []; r_run := ps_run st |}, st)
  | _ =>
      match ev with
      | EvLost =>
          (* nothing comes back: end of stream, the reader closes the processor *)
          let '(ls, _, _) := result_lines (termini t tsdb) (ps_pending st) in
          ({| r_input := datum; r_skipped := false; r_lines := ls; r_run := ps_run st |},
           {| ps_alive := false; ps_run := ps_run st; ps_pending := [] |})
      | EvAnswer lines exits =>
          (* send() restarts a processor that has exited *)
          let run := if ps_alive st then ps_run st else S (ps_run st) in
          let pending := if ps_alive st then ps_pending st else [] in
          let '(ls, rest, eof) := result_lines (termini t tsdb) (pending ++ lines) in
          ({| r_input := datum; r_skipped := false; r_lines := ls; r_run := run |},
           {| ps_alive := negb exits; ps_run := run; ps_pending := if exits then [] else rest |})
      end
  end.

Fixpoint interact_all (t : task) (tsdb : bool) (st : pstate) (items : list (str * event))
  : list response * pstate :=
  match items with
  | [] => ([], st)
  | (d, ev) :: items' =>
      let '(r, st1) := interact t tsdb st d ev in
      let '(rs, st2) := interact_all t tsdb st1 items' in
      (r :: rs, st2)
  end.

(* close(): the exit status (0 when the processor ends at end of input, the
   stand-in's exit status when it had already exited) *)
Definition close_status (crash_status : Z) (st : pstate) : Z := if ps_alive st then 0%Z else crash_status.
