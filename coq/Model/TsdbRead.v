(* Executable model of the read interfaces of tsdb.Database (C09): raw records,
   automatically cast records, and column selection (select_from), over the lines a
   relation file holds.  None = an exception (TSDBError, ValueError, KeyError, IndexError). *)
From Coq Require Import List NArith ZArith Bool Arith.
From PyD Require Import Base.Str Base.Dec Model.Tsdb.
Import ListNotations.

(* Database[name] without autocast: split(line) for every line *)
Definition read_raw (lines : list str) : option (list (list raw)) :=
  sequence (map split_raw lines).

(* split(line, fields): the column count must match, then every value is cast *)
Definition cast_record (fields : list field) (rec : list raw) : option (list value) :=
  if Nat.eqb (length rec) (length fields) then
    sequence (map (fun p => match cast_val (f_type (fst p)) (snd p) with COk v => Some v | CErr => None end)
                  (combine fields rec))
  else None.

Definition read_cast (fields : list field) (lines : list str) : option (list (list value)) :=
  match read_raw lines with
  | Some recs => sequence (map (cast_record fields) recs)
  | None => None
  end.

Fixpoint field_index (name : str) (fields : list field) (i : nat) : option nat :=
  match fields with
  | [] => None
  | f :: fs => if str_eqb (f_name f) name then Some i else field_index name fs (S i)
  end.

(* make_field_index: a dictionary, so the last field of a name wins *)
Fixpoint field_index_last (name : str) (fields : list field) (i : nat) : option nat :=
  match fields with
  | [] => None
  | f :: fs => match field_index_last name fs (S i) with
               | Some j => Some j
               | None => if str_eqb (f_name f) name then Some i else None
               end
  end.

Definition indices_of (fields : list field) (cols : list str) : option (list nat) :=
  sequence (map (fun c => field_index_last c fields 0) cols).

(* select_from(name, columns, cast=False) on a database without autocast *)
Definition select_raw (fields : list field) (cols : list str) (lines : list str) : option (list (list raw)) :=
  match indices_of fields cols, read_raw lines with
  | Some idx, Some recs => sequence (map (fun rec => sequence (map (fun i => nth_error rec i) idx)) recs)
  | _, _ => None
  end.

(* select_from(name, columns, cast=True) on a database without autocast: the selected values
   are cast with the datatype of their column *)
Definition select_cast (fields : list field) (cols : list str) (lines : list str) : option (list (list value)) :=
  match indices_of fields cols, read_raw lines with
  | Some idx, Some recs =>
      sequence (map (fun rec =>
                       sequence (map (fun i => match nth_error rec i, nth_error fields i with
                                               | Some r, Some f => match cast_val (f_type f) r with
                                                                   | COk v => Some v | CErr => None end
                                               | _, _ => None
                                               end) idx)) recs)
  | _, _ => None
  end.
