(* Executable model of the MRS structure (delphin/mrs/_mrs.py), of the
   well-formedness tests of delphin/mrs/_operations.py and of the scope
   operations of delphin/scope.py (C07; reused by C04-C06). *)
From Coq Require Import List NArith ZArith Bool Arith.
From PyD Require Import Base.Str Base.Dec Base.Graph Model.Hier.
Import ListNotations.

Record ep := { e_pred : str; e_label : str; e_args : list (str * str) }.  (* args: role -> value, insertion order *)
Definition cons3 := (str * str * str)%type.     (* (hi, relation, lo) / (left, relation, right) *)
Record mrs := { m_top : option str; m_index : option str; m_rels : list ep;
                m_hcons : list cons3; m_icons : list cons3;
                m_vars : list (str * list (str * str)) }.

Definition ARG0 : str := [65;82;71;48]%N.
Definition RSTR : str := [82;83;84;82]%N.
Definition CARG_ROLE : str := [67;65;82;71]%N.
Definition BODY : str := [66;79;68;89]%N.

Definition e_iv (e : ep) : option str := dict_get ARG0 (e_args e).
Definition e_carg (e : ep) : option str := dict_get CARG_ROLE (e_args e).
Definition is_quant (e : ep) : bool := match dict_get RSTR (e_args e) with Some _ => true | None => false end.

(* variable.split: sort prefix and trailing digits *)
Definition is_dig (c : N) : bool := (N.leb 48 c && N.leb c 57)%bool.
Fixpoint take_while {A} (p : A -> bool) (l : list A) : list A :=
  match l with x :: l' => if p x then x :: take_while p l' else [] | [] => [] end.
Fixpoint drop_while {A} (p : A -> bool) (l : list A) : list A :=
  match l with x :: l' => if p x then drop_while p l' else l | [] => [] end.
Definition split_var (v : str) : option (str * str) :=
  let r := rev v in
  match take_while is_dig r, drop_while is_dig r with
  | [], _ => None
  | _, [] => None
  | ds, rest => Some (rev rest, rev ds)
  end.
Definition var_type (v : str) : option str := option_map fst (split_var v).
Definition var_id (v : str) : option Z :=
  match split_var v with Some (_, ds) => dec_to_Z ds | None => None end.

(* EP.__init__: the id before uniquification; None = ValueError *)
Definition raw_id (e : ep) : option str :=
  let iv := match e_iv e with Some v => v | None => [95; 48]%N end in
  match split_var iv with
  | None => None
  | Some (_, vid) => Some (if is_quant e then 113%N :: vid else iv)
  end.

(* _uniquify_ids *)
Fixpoint uniquify (ids : list str) (seen : list str) (nextvid : Z) : list str :=
  match ids with
  | [] => []
  | i :: ids' =>
      if mem i seen then
        let i' := (95%N :: Z_to_dec nextvid) in i' :: uniquify ids' (i' :: seen) (nextvid + 1)
      else i :: uniquify ids' (i :: seen) nextvid
  end.

Definition max_vid (rels : list ep) : Z :=
  fold_left (fun acc e => match e_iv e with
                          | Some v => match var_id v with Some z => Z.max acc z | None => acc end
                          | None => acc end) rels 0%Z.

Fixpoint seq_opt {A} (l : list (option A)) : option (list A) :=
  match l with
  | [] => Some []
  | None :: _ => None
  | Some x :: l' => option_map (cons x) (seq_opt l')
  end.

(* the ids of the predications of an MRS; None = invalid variable *)
Definition ep_ids (rels : list ep) : option (list str) :=
  match seq_opt (map raw_id rels) with
  | Some ids => Some (uniquify ids [] (max_vid rels))
  | None => None
  end.

(* is `t` a substring of `types`?  (variable.type(value) in types) *)
Fixpoint is_prefix (a b : str) : bool :=
  match a, b with
  | [], _ => true
  | x :: a', y :: b' => N.eqb x y && is_prefix a' b'
  | _, [] => false
  end.
Fixpoint is_substr (a b : str) : bool :=
  is_prefix a b || match b with [] => false | _ :: b' => is_substr a b' end.

Definition NS_TYPES : str := [120;101;105;112;117]%N.   (* 'xeipu' *)
Definition H_TYPE : str := [104]%N.

(* MRS.arguments(types=...) for one EP; expressed=None *)
Definition ep_arguments (types : option str) (e : ep) : list (str * str) :=
  filter (fun rv =>
            negb (str_eqb (fst rv) ARG0 || str_eqb (fst rv) CARG_ROLE) &&
            match types with
            | None => true
            | Some ts => match var_type (snd rv) with Some t => is_substr t ts | None => false end
            end) (e_args e).

(* hcmap = {hc.hi: hc.lo}: the last constraint on a hole wins *)
Fixpoint hcmap_get (hcons : list cons3) (h : str) : option str :=
  match hcons with
  | [] => None
  | (hi, _, lo) :: r => match hcmap_get r h with
                        | Some x => Some x
                        | None => if str_eqb hi h then Some lo else None
                        end
  end.

(* ---- is_connected ---- *)
(* edges of the graph g (both directions are listed) *)
Definition conn_edges (m : mrs) (ids : list str) : list (str * str) :=
  let reps := combine ids (m_rels m) in
  let gkeys := ids ++ map (fun p => e_label (snd p)) reps ++
               flat_map (fun p => match e_iv (snd p) with Some v => [v] | None => [] end) reps in
  flat_map (fun p =>
    let '(i, e) := p in
    [(i, e_label e); (e_label e, i)] ++
    match e_iv e with Some v => [(i, v); (v, i)] | None => [] end ++
    flat_map (fun rv =>
                let v := match hcmap_get (m_hcons m) (snd rv) with Some lo => lo | None => snd rv end in
                if mem v gkeys then [(i, v); (v, i)] else [])
             (ep_arguments None e)) reps.

Definition is_connected (m : mrs) : option bool :=
  match ep_ids (m_rels m) with
  | None => None
  | Some [] => Some true
  | Some (i0 :: ids) =>
      let r := reach str str_eqb (conn_edges m (i0 :: ids)) i0 in
      Some (forallb (fun i => mem i r) (i0 :: ids))
  end.

(* ---- intrinsic variable tests ---- *)
Definition has_complete_iv (m : mrs) : bool :=
  forallb (fun e => is_quant e || match e_iv e with Some _ => true | None => false end) (m_rels m).

Fixpoint nodupb (l : list str) : bool :=
  match l with [] => true | x :: l' => negb (mem x l') && nodupb l' end.

Definition nq_ivs (m : mrs) : list str :=
  flat_map (fun e => if is_quant e then [] else match e_iv e with Some v => [v] | None => [] end) (m_rels m).

Definition has_unique_iv (m : mrs) : bool := nodupb (nq_ivs m).
Definition has_iv_property (m : mrs) : bool := has_complete_iv m && has_unique_iv m.

(* ---- plausibly_scopes ---- *)
Definition scope_labels (m : mrs) : list str := map e_label (m_rels m).

(* the loop over one EP's handle arguments; None = return False *)
Fixpoint ps_args (m : mrs) (label : str) (handles : list str) (seen : list str) : option (list str) :=
  match handles with
  | [] => Some seen
  | h :: hs =>
      if str_eqb h label then None
      else match hcmap_get (m_hcons m) h with
           | Some lo =>
               if mem h seen then None
               else if negb (mem lo (scope_labels m)) then None
               else ps_args m label hs (h :: lo :: seen)
           | None =>
               if mem h (scope_labels m) && mem h seen then None
               else ps_args m label hs (h :: seen)
           end
  end.

Fixpoint ps_eps (m : mrs) (eps : list ep) (seen : list str) : option (list str) :=
  match eps with
  | [] => Some seen
  | e :: r => match ps_args m (e_label e) (map snd (ep_arguments (Some H_TYPE) e)) seen with
              | Some seen' => ps_eps m r seen'
              | None => None
              end
  end.

Definition hc_his (m : mrs) : list str := map (fun c => fst (fst c)) (m_hcons m).

Definition plausibly_scopes (m : mrs) : bool :=
  match m_top m with
  | None => false          (* None not in hcmap *)
  | Some top =>
      match hcmap_get (m_hcons m) top with
      | None => false
      | Some _ =>
          match ps_eps m (m_rels m) [top] with
          | None => false
          | Some seen =>
              forallb (fun hi => mem hi seen &&
                                 match hcmap_get (m_hcons m) hi with
                                 | Some lo => mem lo (scope_labels m) | None => false end)
                      (hc_his m)
          end
      end
  end.

Definition is_well_formed (m : mrs) : option bool :=
  match is_connected m with
  | None => None
  | Some c => Some (c && has_iv_property m && plausibly_scopes m)
  end.

(* ---- MRS.scopes ---- *)
Fixpoint dict_append {A} (k : str) (v : A) (d : list (str * list A)) : list (str * list A) :=
  match d with
  | [] => [(k, [v])]
  | (k', l) :: d' => if str_eqb k' k then (k', l ++ [v]) :: d' else (k', l) :: dict_append k v d'
  end.

Definition scope_map (rels : list ep) : list (str * list ep) :=
  fold_left (fun acc e => dict_append (e_label e) e acc) rels [].

Definition top_label (m : mrs) : option str :=
  match m_top m with
  | None => None
  | Some top =>
      let t := match find (fun c => str_eqb (fst (fst c)) top) (m_hcons m) with
               | Some c => snd c | None => top end in
      if mem t (scope_labels m) then Some t else None
  end.

(* ---- scope.conjoin: classes of labels under the equalities ---- *)
Definition leq_edges (leqs : list (str * str)) : list (str * str) :=
  flat_map (fun p => [(fst p, snd p); (snd p, fst p)]) leqs.

Fixpoint components (nodes : list str) (edges : list (str * str)) (seen : list str) : list (list str) :=
  match nodes with
  | [] => []
  | n :: ns => if mem n seen then components ns edges seen
               else let c := reach str str_eqb edges n in c :: components ns edges (c ++ seen)
  end.

(* the conjoined scopes as (class of labels, members) *)
Definition conjoin {A} (scopes : list (str * list A)) (leqs : list (str * str))
  : list (list str * list A) :=
  map (fun c => (c, flat_map (fun l => match dict_get l scopes with Some x => x | None => [] end) c))
      (components (map fst scopes) (leq_edges leqs) []).

(* ---- MRS.scopal_arguments(scopes) : per EP the labels its scopal arguments select ---- *)
Definition LHEQ : str := [108;104;101;113]%N.
Definition QEQ : str := [113;101;113]%N.

Fixpoint hc_get (hcons : list cons3) (h : str) : option cons3 :=     (* hcmap = {hc.hi: hc} *)
  match hcons with
  | [] => None
  | c :: r => match hc_get r h with
              | Some x => Some x
              | None => if str_eqb (fst (fst c)) h then Some c else None
              end
  end.

(* (role, relation, label) *)
Definition scopal_args (m : mrs) (labels : list str) (e : ep) : list (str * str * str) :=
  flat_map (fun rv =>
              if str_eqb (fst rv) ARG0 || str_eqb (fst rv) CARG_ROLE then []
              else if mem (snd rv) labels then [(fst rv, LHEQ, snd rv)]
              else match hc_get (m_hcons m) (snd rv) with
                   | Some c => [(fst rv, snd (fst c), snd c)]
                   | None => []
                   end) (e_args e).

(* ---- scope.descendants: the memoised recursion, ids only ---- *)
Definition dmap := list (str * list str).

Fixpoint dict_extend (k : str) (vs : list str) (d : dmap) : dmap :=
  match d with
  | [] => [(k, vs)]
  | (k', l) :: d' => if str_eqb k' k then (k', l ++ vs) :: d' else (k', l) :: dict_extend k vs d'
  end.

Section Desc.
Variable scargs : list (str * list str).        (* id -> selected labels *)
Variable scopes : list (str * list str).        (* label -> member ids *)

(* None = fuel exhausted *)
Fixpoint desc_go (fuel : nat) (i : str) (descs : dmap) : option dmap :=
  match dict_get i descs with
  | Some _ => Some descs
  | None =>
      match fuel with
      | O => None
      | S f =>
          let members := flat_map (fun l => match dict_get l scopes with Some ps => ps | None => [] end)
                                  (match dict_get i scargs with Some ls => ls | None => [] end) in
          fold_left (fun acc p =>
                       match acc with
                       | None => None
                       | Some d =>
                           match desc_go f p (dict_extend i [p] d) with
                           | None => None
                           | Some d' => Some (dict_extend i (match dict_get p d' with Some l => l | None => [] end) d')
                           end
                       end) members (Some (dict_extend i [] descs))
      end
  end.
End Desc.

Definition descendants (m : mrs) : option dmap :=
  match ep_ids (m_rels m) with
  | None => None
  | Some ids =>
      let reps := combine ids (m_rels m) in
      let sm := scope_map (m_rels m) in
      let labels := map fst sm in
      let scargs := map (fun p => (fst p, map snd (scopal_args m labels (snd p)))) reps in
      let scopes := fold_left (fun acc p => dict_append (e_label (snd p)) (fst p) acc) reps [] in
      fold_left (fun acc i => match acc with
                              | None => None
                              | Some d => desc_go scargs scopes (S (length ids)) i d
                              end) ids (Some [])
  end.

(* ---- scope.representatives with the default priority ---- *)
Definition TENSE : str := [84;69;78;83;69]%N.
Definition UNTENSED : str := [117;110;116;101;110;115;101;100]%N.

Definition ep_type (e : ep) : option str :=     (* Predication.type *)
  if is_quant e then None
  else match e_iv e with
       | None => None
       | Some v => match var_type v with
                   | Some t => if str_eqb t [95]%N then None else Some t
                   | None => None
                   end
       end.

Definition rank (m : mrs) (e : ep) : nat :=
  if is_quant e then 0
  else match ep_type e with
       | Some t =>
           if str_eqb t [120]%N then 0
           else if str_eqb t [101]%N then
             let props := match e_iv e with
                          | Some v => match dict_get v (m_vars m) with Some p => p | None => [] end
                          | None => [] end in
             let tense := ascii_lower (match dict_get TENSE props with Some t => t | None => [] end) in
             if str_eqb tense [] || str_eqb tense UNTENSED then 2 else 1
           else 3
       | None => 3
       end.

Fixpoint insert_by {A} (key : A -> nat * nat) (x : A) (l : list A) : list A :=
  match l with
  | [] => [x]
  | y :: l' =>
      let '(a1, a2) := key x in let '(b1, b2) := key y in
      if Nat.ltb a1 b1 || (Nat.eqb a1 b1 && Nat.ltb a2 b2) then x :: y :: l' else y :: insert_by key x l'
  end.
Definition sort_by {A} (key : A -> nat * nat) (l : list A) : list A := fold_right (insert_by key) [] l.

Definition inter_nonempty (a b : list str) : bool := existsb (fun x => mem x b) a.

(* label -> ids of the representatives, sorted by (rank, position) *)
Definition representatives (m : mrs) : option (list (str * list str)) :=
  match ep_ids (m_rels m), descendants m with
  | Some ids, Some descs =>
      let reps := combine (seq 1 (length ids)) (combine ids (m_rels m)) in   (* (index, (id, ep)) *)
      let ns_args := fun e => map snd (ep_arguments (Some NS_TYPES) e) in
      let sm := fold_left (fun acc p => dict_append (e_label (snd (snd p))) p acc) reps [] in
      Some (map (fun ls =>
        let '(label, scope) := ls in
        let chosen :=
          match scope with
          | [_] => scope
          | _ => filter (fun p =>
                    let others := map (fun q => fst (snd q))
                                      (filter (fun q => negb (Nat.eqb (fst q) (fst p))) scope) in
                    let args := ns_args (snd (snd p)) in
                    negb (inter_nonempty args others) &&
                    negb (existsb (fun o => inter_nonempty args
                                      (match dict_get o descs with Some l => l | None => [] end)) others))
                  scope
          end in
        (label, map (fun p => fst (snd p))
                    (sort_by (fun p => (rank m (snd (snd p)), fst p)) chosen))) sm)
  | _, _ => None
  end.

(* ---- DMRS.scopes: classes of node ids under EQ links, and the top class ---- *)
Record dlink := { dl_start : str; dl_end : str; dl_role : str; dl_post : str }.
Definition EQ_POST : str := [69;81]%N.

Definition dmrs_scopes (nodes : list str) (links : list dlink) : list (list str) :=
  map fst (conjoin (map (fun n => (n, [n])) nodes)
                   (map (fun l => (dl_start l, dl_end l))
                        (filter (fun l => str_eqb (dl_post l) EQ_POST) links))).

Definition dmrs_top_scope (nodes : list str) (links : list dlink) (top : option str) : option (list str) :=
  match top with
  | None => None
  | Some t => find (fun c => mem t c) (dmrs_scopes nodes links)
  end.
