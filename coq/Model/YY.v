(* Executable model of the YY token lattice format (C14): YYToken.__str__,
   YYTokenLattice.__str__ and YYTokenLattice.from_string (delphin/tokens.py).
   ASCII only; part-of-speech tags carry floats and are outside the model
   (YUnmodelled).  The regular expression of from_string is modelled as a
   left-to-right scanner: every alternative of the expression that is tried
   after a greedy choice fails starts with a character the greedy choice
   already excluded, so the first attempt at a position decides it; finditer
   retries one character further after a failed attempt. *)
From Coq Require Import List NArith ZArith Bool.
From PyD Require Import Base.Str Base.Dec Model.SExpr.
Import ListNotations.
Open Scope N_scope.

Record yytok := {
  y_id : Z; y_start : Z; y_end : Z;
  y_lnk : option (Z * Z);
  y_paths : list Z;
  y_form : str;
  y_surface : option str;
  y_ipos : Z;
  y_lrules : list str
}.

(* ---------------------------------------------------------------- printing *)

Definition yy_escape (s : str) : str :=
  flat_map (fun c => if (c =? DQ) || (c =? BS) then [BS; c] else [c]) s.

Definition quoted (s : str) : str := DQ :: yy_escape s ++ [DQ].

Fixpoint join_sp (l : list str) : str :=
  match l with
  | [] => []
  | [x] => x
  | x :: r => x ++ 32 :: join_sp r
  end.

Definition CS : str := [44; 32].                      (* comma, blank *)

Definition print_lnk (l : option (Z * Z)) : str :=
  match l with
  | Some (a, b) =>
      if (Z.eqb a (-1) && Z.eqb b (-1))%bool then []
      else [60] ++ Z_to_dec a ++ [58] ++ Z_to_dec b ++ [62] ++ CS
  | None => []
  end.

Definition print_tok (t : yytok) : str :=
  [40] ++ Z_to_dec (y_id t) ++ CS ++ Z_to_dec (y_start t) ++ CS ++ Z_to_dec (y_end t) ++ CS ++
  print_lnk (y_lnk t) ++
  join_sp (map Z_to_dec (match y_paths t with [] => [1%Z] | p => p end)) ++ CS ++
  quoted (y_form t) ++
  (match y_surface t with Some s => 32 :: quoted s | None => [] end) ++ CS ++
  Z_to_dec (y_ipos t) ++ CS ++
  join_sp (map quoted (y_lrules t)) ++ [41].

Definition print_lattice (l : list yytok) : str := join_sp (map print_tok l).

(* ---------------------------------------------------------------- scanning *)

(* -?\d+ : the text and what follows *)
Definition scan_int (s : str) : option (str * str) :=
  let '(sign, r) := match s with
                    | c :: r => if c =? 45 then ([45], r) else ([], s)
                    | [] => ([], s)
                    end in
  let '(ds, r2) := span_digits r in
  match ds with [] => None | _ => Some (sign ++ ds, r2) end.

(* a comma between optional white space *)
Definition scan_comma (s : str) : option str :=
  match lstrip_ws s with
  | c :: r => if c =? 44 then Some (lstrip_ws r) else None
  | [] => None
  end.

(* the string expression after the opening quote: raw text and what follows;
   a backslash cannot be followed by a newline or the end *)
Fixpoint scan_qbody (fuel : nat) (s : str) (acc : str) : option (str * str) :=
  match fuel with
  | O => None
  | S f =>
      match s with
      | [] => None
      | c :: r =>
          if c =? DQ then Some (rev acc, r)
          else if c =? BS then
            match r with
            | c2 :: r2 => if c2 =? 10 then None else scan_qbody f r2 (c2 :: c :: acc)
            | [] => None
            end
          else scan_qbody f r (c :: acc)
      end
  end.

Definition scan_quoted (s : str) : option (str * str) :=
  match s with
  | c :: r => if c =? DQ then scan_qbody (S (length r)) r [] else None
  | [] => None
  end.

(* one or more strings, each followed by optional white space: how many, and what follows *)
Fixpoint scan_strs (fuel : nat) (s : str) : nat * str :=
  match fuel with
  | O => (O, s)
  | S f =>
      match scan_quoted s with
      | Some (_, r) => let '(n, r2) := scan_strs f (lstrip_ws r) in (S n, r2)
      | None => (O, s)
      end
  end.

(* str.split() *)
Fixpoint split_ws (s : str) (cur : str) : list str :=
  match s with
  | [] => match cur with [] => [] | _ => [rev cur] end
  | c :: r =>
      if is_ws c then match cur with [] => split_ws r [] | _ => rev cur :: split_ws r [] end
      else split_ws r (c :: cur)
  end.

(* s[1:-1] *)
Definition qstrip (s : str) : str := removelast (tl s).

Inductive tres := TNo | TUnmodelled | TValueError | TTok (t : yytok) (rest : str).

Fixpoint ints_of (l : list str) : option (list Z) :=
  match l with
  | [] => Some []
  | x :: r => match dec_to_Z x, ints_of r with Some z, Some zs => Some (z :: zs) | _, _ => None end
  end.

(* integers of the paths group; the group's text is later split at white space,
   so two integers written without a blank between them (1-2) form one piece,
   which int() rejects: the flag records that this happened *)
Fixpoint scan_paths (fuel : nat) (s : str) : list str * bool * str :=
  match fuel with
  | O => ([], false, s)
  | S f =>
      match scan_int s with
      | Some (t, r) =>
          let r' := lstrip_ws r in
          let '(ts, g, r2) := scan_paths f r' in
          let glued := (Nat.eqb (length r') (length r) && match ts with [] => false | _ => true end)%bool in
          (t :: ts, (glued || g)%bool, r2)
      | None => ([], false, s)
      end
  end.

(* the optional link <from:to> with its comma; without an opening angle bracket there is none *)
Definition scan_lnk (r : str) : option (option (str * str) * str) :=
  match r with
  | c :: r1 =>
      if c =? 60 then
        match scan_int r1 with None => None | Some (a, r2) =>
        match r2 with
        | c2 :: r3 =>
            if c2 =? 58 then
              match scan_int r3 with None => None | Some (b, r4) =>
              match r4 with
              | c3 :: r5 => if c3 =? 62 then
                              match scan_comma r5 with Some r6 => Some (Some (a, b), r6) | None => None end
                            else None
              | [] => None
              end end
            else None
        | [] => None
        end end
      else Some (None, r)
  | [] => Some (None, r)
  end.

(* the optional surface string after the form *)
Definition scan_surface (r : str) : option str * str :=
  match scan_quoted (lstrip_ws r) with
  | Some (sf, r') => (Some sf, r')
  | None => (None, r)
  end.

(* one attempt of the expression at the start of s (s begins after the parenthesis) *)
Definition scan_tok (s : str) : tres :=
  match scan_int (lstrip_ws s) with None => TNo | Some (id, r) =>
  match scan_comma r with None => TNo | Some r =>
  match scan_int r with None => TNo | Some (st, r) =>
  match scan_comma r with None => TNo | Some r =>
  match scan_int r with None => TNo | Some (en, r) =>
  match scan_comma r with None => TNo | Some r =>
  match scan_lnk r with None => TNo | Some (lk, r) =>
  let '(ps, glued, r) := scan_paths (S (length r)) r in
  match ps with [] => TNo | _ =>
  match scan_comma r with None => TNo | Some r =>
  match scan_quoted r with None => TNo | Some (form, r) =>
  let '(surf, r) := scan_surface r in
  match scan_comma r with None => TNo | Some r =>
  match scan_int r with None => TNo | Some (ipos, r) =>
  match scan_comma r with None => TNo | Some r =>
  let r0 := r in
  let '(nlr, r) := scan_strs (S (length r)) r in
  (* the text of the group is split at white space, each piece loses its first and last character *)
  let lrs := map qstrip (split_ws (firstn (length r0 - length r) r0) []) in
  match nlr with O => TNo | _ =>
  match lstrip_ws r with
  | c :: r' =>
      if c =? 41 then
        match dec_to_Z id, dec_to_Z st, dec_to_Z en, dec_to_Z ipos, (if glued then None else ints_of ps),
              match lk with
              | Some (a, b) => match dec_to_Z a, dec_to_Z b with
                               | Some x, Some y => Some (Some (x, y)) | _, _ => None end
              | None => Some None
              end with
        | Some i, Some s0, Some e, Some ip, Some pz, Some lz =>
            TTok {| y_id := i; y_start := s0; y_end := e; y_lnk := lz; y_paths := pz;
                    y_form := unescape_string form;
                    y_surface := option_map unescape_string surf;
                    y_ipos := ip; y_lrules := map unescape_string lrs |} r'
        | _, _, _, _, _, _ => TValueError
        end
      else if c =? 44 then TUnmodelled          (* part-of-speech tags, or no match *)
      else TNo
  | [] => TNo
  end end end end end end end end end end end end end end end.

Inductive yres := YOk (l : list yytok) | YValueError | YUnmodelled.

(* finditer: attempts at every opening parenthesis from left to right, resuming after a match *)
Fixpoint scan_all (fuel : nat) (s : str) : yres :=
  match fuel with
  | O => YOk []
  | S f =>
      match s with
      | [] => YOk []
      | c :: r =>
          if c =? 40 then
            match scan_tok r with
            | TTok t rest =>
                (* the rest is shorter than r; the fuel of the whole string suffices *)
                match scan_all f rest with
                | YOk l => YOk (t :: l)
                | e => e
                end
            | TNo => scan_all f r
            | TUnmodelled => YUnmodelled
            | TValueError => YValueError
            end
          else scan_all f r
      end
  end.

Definition parse_lattice (s : str) : yres := scan_all (S (length s)) s.
