(* Executable model of the :date column type of delphin.tsdb (C08):
   _parse_datetime / _date_fix / datetime.strptime on the fixed string, and
   format(':date', datetime).  ASCII only.  The two regular expressions are
   modelled with their backtracking order: re.match finds the first match in
   priority order and everything after the year (first pattern: after the
   month) is optional, so a path succeeds as soon as the year (month) is read.
   strptime is modelled by what it accepts on the string _date_fix builds:
   numeric ranges and the calendar. *)
From Coq Require Import List NArith Bool.
From PyD Require Import Base.Str.
Import ListNotations.
Open Scope N_scope.

Definition isd (c : N) : bool := (48 <=? c) && (c <=? 57).
Definition isw (c : N) : bool :=
  isd c || ((65 <=? c) && (c <=? 90)) || ((97 <=? c) && (c <=? 122)) || (c =? 95).
Definition iss (c : N) : bool := (c =? 32) || ((9 <=? c) && (c <=? 13)) || ((28 <=? c) && (c <=? 31)).
Definition DASH : N := 45.
Definition COLON : N := 58.

Definition lower (c : N) : N := if (65 <=? c) && (c <=? 90) then c + 32 else c.

(* value of a digit string *)
Definition num (s : str) : N := fold_left (fun a c => 10 * a + (c - 48)) s 0.

(* the ways [0-9]{1,2} can match at the start of s, in priority order *)
Definition digs12 (s : str) : list (str * str) :=
  match s with
  | a :: r =>
      if isd a then
        match r with
        | b :: r2 => if isd b then [([a; b], r2); ([a], r)] else [([a], r)]
        | [] => [([a], r)]
        end
      else []
  | [] => []
  end.

(* \w{3} *)
Definition w3 (s : str) : list (str * str) :=
  match s with
  | a :: b :: c :: r => if isw a && isw b && isw c then [([a; b; c], r)] else []
  | _ => []
  end.

(* [0-9]{1,2}|\w{3} *)
Definition month_alts (s : str) : list (str * str) := digs12 s ++ w3 s.

Fixpoint first_some {A B} (f : A -> option B) (l : list A) : option B :=
  match l with
  | [] => None
  | x :: r => match f x with Some y => Some y | None => first_some f r end
  end.

Fixpoint lstrip_s (s : str) : str :=
  match s with c :: r => if iss c then lstrip_s r else s | [] => [] end.

(* (?:\s*\(?(HH):(MM)(?::(SS))?\)?)?  at the start of r *)
Definition time_caps (r : str) : option str * option str * option str :=
  let r1 := lstrip_s r in
  let r2 := match r1 with c :: x => if c =? 40 then x else r1 | [] => r1 end in
  match r2 with
  | a :: b :: c :: d :: e :: r3 =>
      if isd a && isd b && (c =? COLON) && isd d && isd e then
        match r3 with
        | f :: g :: h :: _ =>
            if (f =? COLON) && isd g && isd h then (Some [a; b], Some [d; e], Some [g; h])
            else (Some [a; b], Some [d; e], None)
        | _ => (Some [a; b], Some [d; e], None)
        end
      else (None, None, None)
  | _ => (None, None, None)
  end.

Record caps := { c_y : str; c_m : str; c_d : option str; c_t : option str * option str * option str }.

(* first pattern: YYYY-MM[-DD][time] *)
Definition match1 (s : str) : option caps :=
  match s with
  | a :: b :: c :: e :: dash :: r =>
      if isd a && isd b && isd c && isd e && (dash =? DASH) then
        match month_alts r with
        | (m, r1) :: _ =>
            let '(d, r2) :=
              match r1 with
              | dash2 :: r1' =>
                  if dash2 =? DASH then
                    match digs12 r1' with (ds, r2) :: _ => (Some ds, r2) | [] => (None, r1) end
                  else (None, r1)
              | [] => (None, r1)
              end in
            Some {| c_y := [a; b; c; e]; c_m := m; c_d := d; c_t := time_caps r2 |}
        | [] => None
        end
      else None
  | _ => None
  end.

(* [0-9]{2}(?:[0-9]{2})? *)
Definition year_alt (s : str) : option (str * str) :=
  match s with
  | a :: b :: r =>
      if isd a && isd b then
        match r with
        | c :: e :: r2 => if isd c && isd e then Some ([a; b; c; e], r2) else Some ([a; b], r)
        | _ => Some ([a; b], r)
        end
      else None
  | _ => None
  end.

Definition expect_dash (s : str) : option str :=
  match s with c :: r => if c =? DASH then Some r else None | [] => None end.

(* month - year, after an optional day *)
Definition try_my (d : option str) (s : str) : option caps :=
  first_some (fun mr : str * str =>
                match expect_dash (snd mr) with
                | Some r2 =>
                    match year_alt r2 with
                    | Some (y, r3) => Some {| c_y := y; c_m := fst mr; c_d := d; c_t := time_caps r3 |}
                    | None => None
                    end
                | None => None
                end) (month_alts s).

(* the optional day group: its alternatives, then the empty match *)
Definition day_alts (s : str) : list (option str * str) :=
  flat_map (fun dr : str * str =>
              match expect_dash (snd dr) with Some r => [(Some (fst dr), r)] | None => [] end) (digs12 s)
  ++ [(None, s)].

(* second pattern: [DD-]MM-YY[YY][time] *)
Definition match2 (s : str) : option caps :=
  first_some (fun dr : option str * str => try_my (fst dr) (snd dr)) (day_alts s).

Definition MONTH_NAMES : list str :=
  [[106;97;110]; [102;101;98]; [109;97;114]; [97;112;114]; [109;97;121]; [106;117;110];
   [106;117;108]; [97;117;103]; [115;101;112]; [111;99;116]; [110;111;118]; [100;101;99]].

Fixpoint index_of (x : str) (l : list str) (i : N) : option N :=
  match l with
  | [] => None
  | y :: r => if str_eqb x y then Some i else index_of x r (i + 1)
  end.

Definition month_of_name (m : str) : option N := index_of (map lower m) MONTH_NAMES 1.

Definition leap (y : N) : bool :=
  ((y mod 4 =? 0) && negb (y mod 100 =? 0)) || (y mod 400 =? 0).

Definition dim (y m : N) : N :=
  if m =? 2 then (if leap y then 29 else 28)
  else if (m =? 4) || (m =? 6) || (m =? 9) || (m =? 11) then 30 else 31.

Record dt := { dy : N; dmo : N; dd : N; dh : N; dmi : N; ds : N }.

Definition valid_dt (t : dt) : bool :=
  (1 <=? dy t) && (dy t <=? 9999) && (1 <=? dmo t) && (dmo t <=? 12) &&
  (1 <=? dd t) && (dd t <=? dim (dy t) (dmo t)) &&
  (dh t <=? 23) && (dmi t <=? 59) && (ds t <=? 59).

Inductive dres := DNone | DNow | DKeyError | DSome (t : dt).

Definition opt_num (o : option str) (dflt : N) : N := match o with Some s => num s | None => dflt end.

(* _date_fix, then strptime('%Y-%m-%d %H:%M:%S') *)
Definition fix_caps (c : caps) : dres :=
  let y := match c_y c with
           | [_; _] => (if 93 <=? num (c_y c) then 1900 else 2000) + num (c_y c)
           | _ => num (c_y c)
           end in
  let mo := match c_m c with
            | [_; _; _] => month_of_name (c_m c)
            | _ => Some (num (c_m c))
            end in
  match mo with
  | None => DKeyError
  | Some mo =>
      let '(tH, tM, tS) := c_t c in
      let t := {| dy := y; dmo := mo; dd := opt_num (c_d c) 1;
                  dh := opt_num tH 0; dmi := opt_num tM 0; ds := opt_num tS 0 |} in
      if valid_dt t then DSome t else DNone
  end.

Definition TODAY : str := [116;111;100;97;121].
Definition NOW : str := [110;111;119].

Fixpoint starts_with (p s : str) : bool :=
  match p, s with
  | [], _ => true
  | a :: p', b :: s' => (a =? b) && starts_with p' s'
  | _, [] => false
  end.

Definition is_now (s : str) : bool :=
  let s' := match s with c :: r => if c =? COLON then r else s | [] => s end in
  starts_with TODAY s' || starts_with NOW s'.

(* tsdb._parse_datetime *)
Definition parse_datetime (s : str) : dres :=
  if is_now s then DNow
  else match match1 s with
       | Some c => fix_caps c
       | None => match match2 s with
                 | Some c => fix_caps c
                 | None => DNone            (* strptime of the raw string: never matches *)
                 end
       end.

(* printing *)
Definition dig (n : N) : N := 48 + n.
Definition d2 (n : N) : str := [dig (n / 10); dig (n mod 10)].
Definition d4 (n : N) : str := d2 (n / 100) ++ d2 (n mod 100).
Definition dnat (n : N) : str := if n <? 10 then [dig n] else d2 n.

Definition month_name (mo : N) : str := nth (N.to_nat (mo - 1)) MONTH_NAMES [].

(* tsdb.format(':date', datetime) for years 1000..9999 *)
Definition format_date (t : dt) : str :=
  dnat (dd t) ++ [DASH] ++ month_name (dmo t) ++ [DASH] ++ d4 (dy t) ++
  (if (dh t =? 0) && (dmi t =? 0) && (ds t =? 0) then []
   else 32 :: d2 (dh t) ++ [COLON] ++ d2 (dmi t) ++ [COLON] ++ d2 (ds t)).
