(* Executable model of delphin/tsdb.py "Data Encoding" and itsdb.Row.
   Definitions only; proofs are in Proofs/TsdbP.v. *)
From Coq Require Import List NArith ZArith Bool.
From PyD Require Import Base.Str Base.Dec Base.PySlice.
Import ListNotations.
Open Scope N_scope.

Definition BSL : N := 92.   (* \ *)
Definition AT : N := 64.    (* @  FIELD_DELIMITER *)
Definition LF : N := 10.
Definition CH_s : N := 115.
Definition CH_n : N := 110.

(* escape(): the str.replace chain, in source order *)
Definition escape_chain : list (N * str) :=
  [(BSL, [BSL; BSL]); (LF, [BSL; CH_n]); (AT, [BSL; CH_s])].
Definition escape (s : str) : str := replace_chain escape_chain s.

(* unescape(): the for-loop with the esc flag; None = TSDBError.  The
   if/elif chain under `if esc:` is the table (escape char, produced char). *)
Definition unescape_table : list (N * N) := [(BSL, BSL); (CH_s, AT); (CH_n, LF)].
Fixpoint lookup_esc (c : N) (t : list (N * N)) : option N :=
  match t with
  | [] => None
  | (k, r) :: t' => if c =? k then Some r else lookup_esc c t'
  end.
Fixpoint unescape_go (esc : bool) (s : str) : option str :=
  match s with
  | [] => if esc then None else Some []
  | c :: s' =>
      if esc then
        match lookup_esc c unescape_table with
        | Some r => option_map (cons r) (unescape_go false s')
        | None => None
        end
      else if c =? BSL then unescape_go true s'
      else option_map (cons c) (unescape_go false s')
  end.
Definition unescape (s : str) : option str := unescape_go false s.

(* raw values: None | str *)
Definition raw := option str.
Definition none_if_empty (v : raw) : raw :=
  match v with Some [] => None | _ => v end.
Definition raw_str (v : raw) : str := match v with None => [] | Some s => s end.

Fixpoint sequence {A} (l : list (option A)) : option (list A) :=
  match l with
  | [] => Some []
  | None :: _ => None
  | Some x :: l' => option_map (cons x) (sequence l')
  end.

(* split(line) without fields *)
Definition split_raw (line : str) : option (list raw) :=
  sequence (map (fun col => match col with
                            | [] => Some None
                            | _ => option_map Some (unescape col)
                            end)
                (split_on AT (rstrip1 LF line))).

(* join(values) without fields, for str/None values *)
Definition join_raw (vs : list raw) : str :=
  join_on AT (map (fun v => escape (raw_str v)) vs).

(* ---- typed values ---- *)
Inductive dtype := TInt | TStr | TFloat | TDate.
Inductive value :=
| VNone
| VInt (z : Z)
| VStr (s : str).

(* format(datatype, value, default=None) for None/int/str values *)
Definition format_val (t : dtype) (v : value) (default : option str) : str :=
  match v with
  | VNone => match default with
             | Some d => d
             | None => match t with TInt => [45; 49] | _ => [] end
             end
  | VInt z => Z_to_dec z
  | VStr s => s
  end.

Inductive castres := COk (v : value) | CErr.

(* cast(datatype, raw) for :integer and :string; CErr = ValueError *)
Definition cast_val (t : dtype) (r : raw) : castres :=
  match r with
  | None => COk VNone
  | Some [] => COk VNone
  | Some s =>
      match t with
      | TInt => match dec_to_Z s with Some z => COk (VInt z) | None => CErr end
      | _ => COk (VStr s)
      end
  end.

(* Field.default: TSDB_CODED_ATTRIBUTES.get(name, '-1' if integer else '') *)
Definition coded_attributes : list (str * str) :=
  [([105;45;119;102], [49]);                                      (* i-wf *)
   ([105;45;100;105;102;102;105;99;117;108;116;121], [49]);       (* i-difficulty *)
   ([112;111;108;97;114;105;116;121], [45;49])].                  (* polarity *)
Fixpoint assoc_str {A} (k : str) (l : list (str * A)) : option A :=
  match l with
  | [] => None
  | (k', v) :: l' => if str_eqb k k' then Some v else assoc_str k l'
  end.
Definition coded_default (name : str) : option str := assoc_str name coded_attributes.
Definition field_default (name : str) (t : dtype) : str :=
  match coded_default name with
  | Some d => d
  | None => match t with TInt => [45; 49] | _ => [] end
  end.

Record field := { f_name : str; f_type : dtype }.

(* join(values, fields) / split(line, fields); None = TSDBError (count) *)
Definition join_typed (vs : list value) (fs : list field) : option str :=
  if Nat.eqb (length vs) (length fs) then
    Some (join_on AT (map (fun p => escape (format_val (f_type (fst p)) (snd p)
                                      (Some (field_default (f_name (fst p)) (f_type (fst p))))))
                          (combine fs vs)))
  else None.

(* ---- itsdb.Row ---- *)
Record row := { r_fields : list field; r_data : list str }.

(* Row(fields, data): None = ITSDBError *)
Definition mk_row (fs : list field) (vs : list value) : option row :=
  if Nat.eqb (length vs) (length fs) then
    Some {| r_fields := fs;
            r_data := map (fun p => format_val (f_type (fst p)) (snd p) None) (combine fs vs) |}
  else None.

Definition cast_pair (p : field * str) : castres := cast_val (f_type (fst p)) (Some (snd p)).

Definition row_iter (r : row) : list castres :=
  map cast_pair (combine (r_fields r) (r_data r)).

Definition row_getitem_int (r : row) (i : Z) : option castres :=
  match py_getitem (r_fields r) i, py_getitem (r_data r) i with
  | Some f, Some d => Some (cast_val (f_type f) (Some d))
  | _, _ => None
  end.

Definition row_getitem_slice (r : row) (s : pyslice) : option (list castres) :=
  match py_slice (r_fields r) s, py_slice (r_data r) s with
  | Some fs, Some ds => Some (map cast_pair (combine fs ds))
  | _, _ => None
  end.

(* make_field_index: later duplicates win (dict comprehension) *)
Fixpoint field_index (fs : list field) (k : nat) (name : str) : option nat :=
  match fs with
  | [] => None
  | f :: fs' => match field_index fs' (S k) name with
                | Some j => Some j
                | None => if str_eqb (f_name f) name then Some k else None
                end
  end.

Definition row_getitem_name (r : row) (name : str) : option castres :=
  match field_index (r_fields r) 0 name with
  | Some k => row_getitem_int r (Z.of_nat k)
  | None => None
  end.
