(* Executable model of the SimpleDMRS codec (delphin/codecs/simpledmrs.py) over
   the token stream of _SimpleDMRSLexer (C02).  The lexer's regular
   expressions and the white space between tokens are not modelled; the
   correspondence check compares enc_dmrs with the tokens the real lexer
   produces from the real encoder's text and dec_dmrs with the real decoder. *)
From Coq Require Import List NArith ZArith Bool Arith.
From PyD Require Import Base.Str Base.Dec Model.Hier Model.Mrs Model.Iso Model.SimpleMrs.
Import ListNotations.

Record dnode := { n_id : Z; n_pred : str; n_type : option str; n_props : list (str * str);
                  n_carg : option str; n_lnk : lnk }.
Definition glink := (Z * Z * option str * str)%type.     (* start, end, role, post *)
Record dmrs := { g_top : option Z; g_index : option Z; g_nodes : list dnode; g_links : list glink;
                 g_lnk : lnk; g_surface : option str; g_ident : option str }.

Inductive dtok :=
| DLBRACE | DRBRACE | DLBRK | DRBRK | DLPAR | DRPAR | DCOLON | DSLASH | DEQ | DSEMI
| DLNK (l : lnk)
| DDQ (raw : str)
| DARROW (s : str)
| DSYM (s : str).

Definition DMRS_W : str := [100;109;114;115]%N.          (* dmrs *)
Definition TOP_LC : str := [116;111;112]%N.              (* top *)
Definition INDEX_LC : str := [105;110;100;101;120]%N.    (* index *)
Definition TOP_UC : str := [84;79;80]%N.
Definition INDEX_UC : str := [73;78;68;69;88]%N.
Definition ARROW_DIR : str := [45;62]%N.                 (* -> *)
Definition ARROW_UND : str := [45;45]%N.                 (* -- *)
Definition EQ_POST : str := [69;81]%N.

(* ---------------------------------------------------------------- *)
(* encoder *)

Definition enc_glnk (lnkopt : bool) (k : lnk) : list dtok :=
  if lnkopt then match k with LNone => [] | _ => [DLNK k] end else [].

Definition enc_attrs (lnkopt : bool) (g : dmrs) : list dtok :=
  let a := (if lnkopt then (if lnk_truthy (g_lnk g) then [DLNK (g_lnk g)] else [])
                           ++ match g_surface g with Some s => [DDQ (escape s)] | None => [] end
            else [])
           ++ match g_top g with Some t => [DSYM TOP_LC; DEQ; DSYM (Z_to_dec t)] | None => [] end
           ++ match g_index g with Some t => [DSYM INDEX_LC; DEQ; DSYM (Z_to_dec t)] | None => [] end in
  match a with [] => [] | _ => DLBRK :: a ++ [DRBRK] end.

Definition enc_nprops (ps : list (str * str)) : list dtok :=
  flat_map (fun kv => [DSYM (fst kv); DEQ; DSYM (snd kv)]) ps.

Definition enc_node (propopt lnkopt : bool) (n : dnode) : list dtok :=
  [DSYM (Z_to_dec (n_id n)); DLBRK; DSYM (n_pred n)]
  ++ enc_glnk lnkopt (n_lnk n)
  ++ match n_carg n with Some c => [DLPAR; DDQ (escape c); DRPAR] | None => [] end
  ++ match n_type n with Some t => [DSYM t] | None => [] end
  ++ (if propopt then enc_nprops (n_props n) else [])
  ++ [DRBRK; DSEMI].

Definition role_empty (r : option str) : bool := match r with Some (_ :: _) => false | _ => true end.

Definition enc_link (l : glink) : list dtok :=
  let '(s, e, role, post) := l in
  [DSYM (Z_to_dec s); DCOLON]
  ++ match role with Some (c :: r) => [DSYM (c :: r)] | _ => [] end
  ++ [DSLASH; DSYM post;
      DARROW (if negb (role_empty role) || negb (str_eqb post EQ_POST) then ARROW_DIR else ARROW_UND);
      DSYM (Z_to_dec e); DSEMI].

Definition enc_dmrs (propopt lnkopt : bool) (g : dmrs) : list dtok :=
  DSYM DMRS_W :: match g_ident g with Some i => [DSYM i] | None => [] end
  ++ DLBRACE :: enc_attrs lnkopt g
  ++ flat_map (enc_node propopt lnkopt) (g_nodes g)
  ++ flat_map enc_link (g_links g)
  ++ [DRBRACE].

(* ---------------------------------------------------------------- *)
(* decoder *)

(* _decode_properties: (SYMBOL = SYMBOL)* ] *)
Fixpoint dec_nprops (ts : list dtok) (acc : list (str * str)) : option (list (str * str) * list dtok) :=
  match ts with
  | DSYM k :: DEQ :: DSYM v :: ts' => dec_nprops ts' (dict_set (ascii_upper k) (ascii_lower v) acc)
  | DRBRK :: ts' => Some (acc, ts')
  | _ => None
  end.

Definition ddec_lnk (ts : list dtok) : lnk * list dtok :=
  match ts with DLNK l :: r => (l, r) | _ => (LNone, ts) end.

Definition dec_carg (ts : list dtok) : option (option str * list dtok) :=
  match ts with
  | DLPAR :: DDQ raw :: DRPAR :: r => Some (Some (unescape raw), r)
  | DLPAR :: _ => None
  | _ => Some (None, ts)
  end.

(* the node type is a symbol that is not followed by '=' *)
Definition dec_type (ts : list dtok) : option str * list dtok :=
  match ts with
  | DSYM _ :: DEQ :: _ => (None, ts)
  | DSYM t :: r => (Some t, r)
  | _ => (None, ts)
  end.

Definition dec_node (nid : str) (ts : list dtok) : option (dnode * list dtok) :=
  match ts with
  | DSYM pred :: r1 =>
      let '(lk, r2) := ddec_lnk r1 in
      match dec_carg r2 with
      | Some (carg, r3) =>
          let '(ty, r4) := dec_type r3 in
          match dec_nprops r4 [] with
          | Some (props, DSEMI :: r5) =>
              match dec_to_Z nid with
              | Some i => Some ({| n_id := i; n_pred := pred; n_type := ty; n_props := props;
                                   n_carg := carg; n_lnk := lk |}, r5)
              | None => None
              end
          | _ => None
          end
      | None => None
      end
  | _ => None
  end.

Definition dec_link (start : str) (ts : list dtok) : option (glink * list dtok) :=
  let '(role, r1) := match ts with DSYM r :: rest => (Some r, rest) | _ => (None, ts) end in
  match r1 with
  | DSLASH :: DSYM post :: DARROW _ :: DSYM e :: DSEMI :: r2 =>
      match dec_to_Z start, dec_to_Z e with
      | Some s, Some e' => Some ((s, e', role, post), r2)
      | _, _ => None
      end
  | _ => None
  end.

Fixpoint dec_items (fuel : nat) (ts : list dtok) (nodes : list dnode) (links : list glink)
  : option (list dnode * list glink * list dtok) :=
  match fuel with
  | O => None
  | S fuel' =>
      match ts with
      | DRBRACE :: r => Some (nodes, links, r)
      | DSYM nid :: DLBRK :: r =>
          match dec_node nid r with
          | Some (n, r') => dec_items fuel' r' (nodes ++ [n]) links
          | None => None
          end
      | DSYM nid :: DCOLON :: r =>
          match dec_link nid r with
          | Some (l, r') => dec_items fuel' r' nodes (links ++ [l])
          | None => None
          end
      | _ => None
      end
  end.

Definition opt_int (o : option str) : option (option Z) :=
  match o with
  | None => Some None
  | Some s => match dec_to_Z s with Some z => Some (Some z) | None => None end
  end.

(* DMRS.__init__: links from the special node 0 set the top when it is not given *)
Fixpoint norm_top (top : option Z) (links : list glink) : option Z * list glink :=
  match links with
  | [] => (top, [])
  | ((s, e, r, p) as l) :: links' =>
      if Z.eqb s 0 then norm_top (match top with None => Some e | Some _ => top end) links'
      else let '(t, ls) := norm_top top links' in (t, l :: ls)
  end.

Definition form_is_dmrs (t : dtok) : bool :=
  match t with DSYM s => str_eqb s DMRS_W | DDQ s => str_eqb s DMRS_W | _ => false end.

Definition dec_attrs (ts2 : list dtok) : option (lnk * option str * option str * option str * list dtok) :=
  match ts2 with
  | DLBRK :: r0 =>
      let '(lk, r1) := ddec_lnk r0 in
      let '(surf, r2) := match r1 with DDQ raw :: r => (Some (unescape raw), r) | _ => (None, r1) end in
      match dec_nprops r2 [] with
      | Some (gp, r3) => Some (lk, surf, dict_get TOP_UC gp, dict_get INDEX_UC gp, r3)
      | None => None
      end
  | _ => Some (LNone, None, None, None, ts2)
  end.

Definition dec_dmrs (ts : list dtok) : option (dmrs * list dtok) :=
  match ts with
  | t0 :: ts0 =>
      if form_is_dmrs t0 then
        let '(ident, ts1) := match ts0 with DSYM i :: r => (Some i, r) | _ => (None, ts0) end in
        match ts1 with
        | DLBRACE :: ts2 =>
            match dec_attrs ts2 with
            | Some (lk, surf, top, index, ts3) =>
                match dec_items (S (length ts3)) ts3 [] [] with
                | Some (nodes, links, ts4) =>
                    match opt_int top, opt_int index with
                    | Some top', Some index' =>
                        let '(top'', links') := norm_top top' links in
                        Some ({| g_top := top''; g_index := index'; g_nodes := nodes; g_links := links';
                                 g_lnk := lk; g_surface := surf; g_ident := ident |}, ts4)
                    | _, _ => None
                    end
                | None => None
                end
            | None => None
            end
        | _ => None
        end
      else None
  | [] => None
  end.

Fixpoint dec_dmrs_all (fuel : nat) (ts : list dtok) : option (list dmrs) :=
  match fuel with
  | O => None
  | S fuel' =>
      match ts with
      | [] => Some []
      | _ => match dec_dmrs ts with
             | Some (g, ts') => option_map (cons g) (dec_dmrs_all fuel' ts')
             | None => None
             end
      end
  end.
