(* Executable model of the native EDS codec (delphin/codecs/eds.py) over the
   token stream of _EDSLexer (C03), including the connectivity computation
   (util._bfs) behind the status markers and the lookahead-based detection of
   the top.  The lexer's regular expressions and white space are not
   modelled (oracles exercised through the real lexer). *)
From Coq Require Import List NArith ZArith Bool Arith.
From PyD Require Import Base.Str Base.Dec Base.Graph Model.Hier Model.Mrs Model.Iso Model.SimpleMrs.
Import ListNotations.

Record vnode := { v_id : str; v_pred : str; v_type : option str; v_edges : list (str * str);
                  v_props : list (str * str); v_carg : option str; v_lnk : lnk }.
Record veds := { ve_top : option str; ve_nodes : list vnode; ve_ident : option str }.

Inductive etok :=
| ELBRACE | ERBRACE | ENSTATUS | ECOLON | ECOMMA | ELBRK | ERBRK
| EIDENT (s : str)
| EGSTATUS (s : str)
| ELNK (l : lnk)
| ECARG (raw : str)
| ESYM (s : str).

Definition FRAGMENTED : str := [40;102;114;97;103;109;101;110;116;101;100;41]%N.   (* (fragmented) *)
Definition U_TYPE : str := [117]%N.

(* ---------------------------------------------------------------- *)
(* connectivity: _bfs over the undirected graph of the edges *)

Definition und_edges (nodes : list vnode) : list (str * str) :=
  flat_map (fun n => flat_map (fun e => [(v_id n, snd e); (snd e, v_id n)]) (v_edges n)) nodes.

Definition node_ids (g : veds) : list str := map v_id (ve_nodes g).

(* every edge ends at a node (otherwise the encoder raises KeyError) *)
Definition edges_closed (g : veds) : bool :=
  forallb (fun n => forallb (fun e => mem (snd e) (node_ids g)) (v_edges n)) (ve_nodes g).

Definition main_comp (g : veds) : list str :=
  match (match ve_top g with Some t => Some t | None => hd_error (node_ids g) end) with
  | Some start => reach str str_eqb (und_edges (ve_nodes g)) start
  | None => []
  end.

Definition fragmented (g : veds) : bool :=
  negb (forallb (fun i => mem i (main_comp g)) (node_ids g) && forallb (fun i => mem i (node_ids g)) (main_comp g)).

(* ---------------------------------------------------------------- *)
(* encoder *)

Fixpoint enc_pairs (ps : list (str * str)) : list etok :=
  match ps with
  | [] => []
  | [(k, v)] => [ESYM k; ESYM v]
  | (k, v) :: ps' => ESYM k :: ESYM v :: ECOMMA :: enc_pairs ps'
  end.

Definition has_block (n : vnode) : bool :=
  match v_props n, v_type n with [], None => false | _, _ => true end.

Definition enc_vnode (propopt lnkopt : bool) (n : vnode) : list etok :=
  [ESYM (v_id n); ECOLON; ESYM (v_pred n)]
  ++ (if lnkopt && lnk_truthy (v_lnk n) then [ELNK (v_lnk n)] else [])
  ++ match v_carg n with Some c => [ECARG (escape c)] | None => [] end
  ++ (if propopt && has_block n then
        ELBRACE :: ESYM (match v_type n with Some t => t | None => U_TYPE end)
                :: enc_pairs (sort_props (v_props n)) ++ [ERBRACE]
      else [])
  ++ ELBRK :: enc_pairs (sort_roles (v_edges n)) ++ [ERBRK].

(* the placement of the status markers is a parameter: frag = "(fragmented)"
   is written, disc n = node n is prefixed by the disconnected marker *)
Definition enc_gen (frag : bool) (disc : str -> bool) (propopt lnkopt : bool) (g : veds) : list etok :=
  match ve_ident g with Some (c :: i) => [EIDENT (c :: i)] | _ => [] end
  ++ ELBRACE ::
  match ve_nodes g with
  | [] => [ERBRACE]
  | _ =>
      match ve_top g with Some t => [ESYM t; ECOLON] | None => [] end
      ++ (if frag then [EGSTATUS FRAGMENTED] else [])
      ++ flat_map (fun n => (if disc (v_id n) then [ENSTATUS] else []) ++ enc_vnode propopt lnkopt n) (ve_nodes g)
      ++ [ERBRACE]
  end.

(* _encode_eds; None = KeyError for an edge that does not end at a node *)
Definition enc_veds (propopt lnkopt status : bool) (g : veds) : option (list etok) :=
  match ve_nodes g with
  | [] => Some (enc_gen false (fun _ => false) propopt lnkopt g)
  | _ =>
      if edges_closed g then
        Some (enc_gen (status && fragmented g) (fun i => status && negb (mem i (main_comp g))) propopt lnkopt g)
      else None
  end.

(* ---------------------------------------------------------------- *)
(* decoder *)

(* SYMBOL SYMBOL (, SYMBOL SYMBOL)*  — keys upper-cased, values through f *)
Fixpoint dec_pairs (f : str -> str) (ts : list etok) (acc : list (str * str))
  : option (list (str * str) * list etok) :=
  match ts with
  | ESYM k :: ESYM v :: ECOMMA :: r => dec_pairs f r (dict_set (ascii_upper k) (f v) acc)
  | ESYM k :: ESYM v :: r => Some (dict_set (ascii_upper k) (f v) acc, r)
  | _ => None
  end.

(* _decode_properties *)
Definition dec_block (ts : list etok) : option (option str * list (str * str) * list etok) :=
  match ts with
  | ELBRACE :: ESYM ty :: r =>
      match r with
      | ERBRACE :: r' => Some (Some ty, [], r')
      | _ => match dec_pairs ascii_lower r [] with
             | Some (ps, ERBRACE :: r') => Some (Some ty, ps, r')
             | _ => None
             end
      end
  | ELBRACE :: _ => None
  | _ => Some (None, [], ts)
  end.

(* _decode_edges *)
Definition dec_edges (ts : list etok) : option (list (str * str) * list etok) :=
  match ts with
  | ELBRK :: ERBRK :: r => Some ([], r)
  | ELBRK :: r => match dec_pairs (fun s => s) r [] with
                  | Some (es, ERBRK :: r') => Some (es, r')
                  | _ => None
                  end
  | _ => None
  end.

Definition edec_lnk (ts : list etok) : lnk * list etok :=
  match ts with ELNK l :: r => (l, r) | _ => (LNone, ts) end.
Definition edec_carg (ts : list etok) : option str * list etok :=
  match ts with ECARG raw :: r => (Some (unescape raw), r) | _ => (None, ts) end.

(* _decode_node, after "start :" *)
Definition dec_vnode (start : str) (ts : list etok) : option (vnode * list etok) :=
  match ts with
  | ESYM pred :: r1 =>
      let '(lk, r2) := edec_lnk r1 in
      let '(carg, r3) := edec_carg r2 in
      match dec_block r3 with
      | Some (ty, props, r4) =>
          match dec_edges r4 with
          | Some (edges, r5) =>
              Some ({| v_id := start; v_pred := ascii_lower pred; v_type := ty; v_edges := edges;
                       v_props := props; v_carg := carg; v_lnk := lk |}, r5)
          | None => None
          end
      | None => None
      end
  | _ => None
  end.

Fixpoint dec_vnodes (fuel : nat) (ts : list etok) (acc : list vnode) : option (list vnode * list etok) :=
  match fuel with
  | O => None
  | S fuel' =>
      match ts with
      | ERBRACE :: r => Some (acc, r)
      | _ =>
          let ts1 := match ts with ENSTATUS :: r => r | _ => ts end in
          match ts1 with
          | ESYM start :: ECOLON :: r =>
              match dec_vnode start r with
              | Some (n, r') => dec_vnodes fuel' r' (acc ++ [n])
              | None => None
              end
          | _ => None
          end
      end
  end.

Definition is_status (t : etok) : bool := match t with EGSTATUS _ | ENSTATUS => true | _ => false end.
Definition is_colon (t : etok) : bool := match t with ECOLON => true | _ => false end.
Definition skip_gstatus (ts : list etok) : list etok := match ts with EGSTATUS _ :: r => r | _ => ts end.

(* the lookahead that decides whether the graph has a top; None = the
   lookahead runs past the end (IndexError) or a syntax error *)
Definition dec_top (ts : list etok) : option (option str * list etok) :=
  match ts with
  | ECOLON :: r => Some (None, skip_gstatus r)
  | EGSTATUS _ :: r => Some (None, r)
  | ERBRACE :: _ => Some (None, ts)
  | ENSTATUS :: _ => Some (None, ts)
  | t0 :: t1 :: t2 :: r3 =>
      let take := match t0, t1 with
                  | ESYM top, ECOLON => Some (Some top, skip_gstatus (t2 :: r3))
                  | _, _ => None
                  end in
      if is_status t2 then take
      else match r3 with
           | t3 :: _ => if is_colon t3 then take else Some (None, ts)
           | [] => None
           end
  | _ => None
  end.

Definition dec_eds (ts : list etok) : option (veds * list etok) :=
  let '(ident, ts0) := match ts with EIDENT i :: r => (Some i, r) | _ => (None, ts) end in
  match ts0 with
  | ELBRACE :: ts1 =>
      match dec_top ts1 with
      | Some (top, ts2) =>
          match dec_vnodes (S (length ts2)) ts2 [] with
          | Some (nodes, ts3) => Some ({| ve_top := top; ve_nodes := nodes; ve_ident := ident |}, ts3)
          | None => None
          end
      | None => None
      end
  | _ => None
  end.

Fixpoint dec_eds_all (fuel : nat) (ts : list etok) : option (list veds) :=
  match fuel with
  | O => None
  | S fuel' =>
      match ts with
      | [] => Some []
      | _ => match dec_eds ts with
             | Some (g, ts') => option_map (cons g) (dec_eds_all fuel' ts')
             | None => None
             end
      end
  end.
