(* Executable model of delphin/codecs/dmrx.py at the level of the XML element tree
   (_encode_dmrs / _decode_dmrs); the XML text is ElementTree's (oracle).  C02.
   predicate.split / predicate.create are oracles (Section variables); predicates are
   given normalised.  Letter case of properties: ASCII. *)
From Coq Require Import List NArith ZArith Bool Arith.
From PyD Require Import Base.Str Base.Dec Model.Hier Model.Mrs Model.Iso Model.SimpleMrs Model.MrsJson
  Model.SimpleDmrs Model.DmrsJson.
Import ListNotations.

Inductive xml := XE (tag : str) (attrs : list (str * str)) (text : option str) (kids : list xml).

Definition x_tag (e : xml) : str := match e with XE t _ _ _ => t end.
Definition x_attrs (e : xml) : list (str * str) := match e with XE _ a _ _ => a end.
Definition x_text (e : xml) : option str := match e with XE _ _ t _ => t end.
Definition x_kids (e : xml) : list xml := match e with XE _ _ _ k => k end.

Definition aget (k : str) (e : xml) : option str := dict_get k (x_attrs e).

(* elem.find(tag): the first child with that tag *)
Definition xfind (tag : str) (e : xml) : option xml :=
  find (fun c => str_eqb (x_tag c) tag) (x_kids e).

(* elem.iter(tag): the element and all its descendants with that tag, in document order *)
Fixpoint xiter (tag : str) (e : xml) : list xml :=
  match e with
  | XE t a x kids =>
      (if str_eqb t tag then [e] else []) ++
      (fix go (l : list xml) : list xml := match l with [] => [] | c :: l' => xiter tag c ++ go l' end) kids
  end.

Definition T_DMRS : str := [100;109;114;115]%N.
Definition T_NODE : str := [110;111;100;101]%N.
Definition T_LINK : str := [108;105;110;107]%N.
Definition T_REALPRED : str := [114;101;97;108;112;114;101;100]%N.
Definition T_GPRED : str := [103;112;114;101;100]%N.
Definition T_SORTINFO : str := [115;111;114;116;105;110;102;111]%N.
Definition T_RARGNAME : str := [114;97;114;103;110;97;109;101]%N.
Definition T_POST : str := [112;111;115;116]%N.
Definition A_NODEID : str := [110;111;100;101;105;100]%N.
Definition A_CFROM : str := [99;102;114;111;109]%N.
Definition A_CTO : str := [99;116;111]%N.
Definition A_SURFACE : str := [115;117;114;102;97;99;101]%N.
Definition A_CARG : str := [99;97;114;103]%N.
Definition A_TOP : str := [116;111;112]%N.
Definition A_INDEX : str := [105;110;100;101;120]%N.
Definition A_IDENT : str := [105;100;101;110;116]%N.
Definition A_FROM : str := [102;114;111;109]%N.
Definition A_TO : str := [116;111]%N.
Definition A_LEMMA : str := [108;101;109;109;97]%N.
Definition A_POS : str := [112;111;115]%N.
Definition A_SENSE : str := [115;101;110;115;101]%N.

(* a dict comprehension: later entries of a key overwrite the value, the position stays *)
Definition mk_dict (l : list (str * str)) : list (str * str) :=
  fold_left (fun d kv => dict_set (fst kv) (snd kv) d) l [].

Section Dmrx.
(* predicate.split of a surface predicate (None: an abstract predicate), predicate.create *)
Variable psplit : str -> option (str * str * option str).
Variable pcreate : str -> str -> option str -> str.

Definition encode_pred (p : str) : xml :=
  match psplit p with
  | Some (lemma, pos, sense) =>
      XE T_REALPRED ([(A_LEMMA, lemma); (A_POS, pos)] ++
                     match sense with Some (c :: s) => [(A_SENSE, c :: s)] | _ => [] end) None []
  | None => XE T_GPRED [] (Some p) []
  end.

Definition lnk_attrs (k : lnk) : list (str * str) :=
  [(A_CFROM, Z_to_dec (cfrom k)); (A_CTO, Z_to_dec (cto k))].

Definition encode_node (propopt lnkopt : bool) (n : dnode) : xml :=
  XE T_NODE ([(A_NODEID, Z_to_dec (n_id n))] ++
             (if lnkopt then lnk_attrs (n_lnk n) else []) ++
             match n_carg n with Some c => [(A_CARG, c)] | None => [] end) None
     [encode_pred (n_pred n);
      XE T_SORTINFO (if propopt then mk_dict (map (fun kv => (ascii_lower (fst kv), ascii_lower (snd kv))) (sortinfo n))
                     else []) None []].

Definition encode_link (k : glink) : xml :=
  let '(s, e, role, post) := k in
  XE T_LINK [(A_FROM, Z_to_dec s); (A_TO, Z_to_dec e)] None
     [XE T_RARGNAME [] role []; XE T_POST [] (Some post) []].

Definition encode_dmrs (propopt lnkopt : bool) (g : dmrs) : xml :=
  XE T_DMRS ((if lnkopt then lnk_attrs (g_lnk g) else []) ++
             match g_top g with Some t => [(A_TOP, Z_to_dec t)] | None => [] end ++
             match g_index g with Some i => [(A_INDEX, Z_to_dec i)] | None => [] end ++
             (if lnkopt then match g_surface g with Some s => [(A_SURFACE, s)] | None => [] end else []) ++
             match g_ident g with Some i => [(A_IDENT, i)] | None => [] end) None
     (map (encode_node propopt lnkopt) (g_nodes g) ++ map encode_link (g_links g)).

(* ---------------------------------------------------------------- decoding; None = an exception *)

Definition decode_pred (e : xml) : option str :=
  if str_eqb (x_tag e) T_GPRED then x_text e
  else if str_eqb (x_tag e) T_REALPRED then
    match aget A_LEMMA e, aget A_POS e with
    | Some l, Some p => Some (pcreate l p (aget A_SENSE e))
    | _, _ => None
    end
  else None.

Definition int_attr (k : str) (dflt : option str) (e : xml) : option Z :=
  match (match aget k e with Some s => Some s | None => dflt end) with
  | Some s => dec_to_Z s
  | None => None
  end.

Definition MINUS1 : str := [45;49]%N.

Definition decode_lnk (e : xml) : option lnk :=
  match int_attr A_CFROM (Some MINUS1) e, int_attr A_CTO (Some MINUS1) e with
  | Some a, Some b => Some (LChar a b)
  | _, _ => None
  end.

Definition decode_node (e : xml) : option dnode :=
  match xfind T_SORTINFO e, x_kids e, int_attr A_NODEID None e, decode_lnk e with
  | Some si, first :: _, Some i, Some lk =>
      match decode_pred first with
      | Some p =>
          let d := mk_dict (map (fun kv => (if str_eqb (fst kv) CVARSORT then fst kv else ascii_upper (fst kv),
                                            ascii_lower (snd kv))) (x_attrs si)) in
          Some {| n_id := i; n_pred := p;
                  n_type := option_map ascii_lower (dict_get CVARSORT d);
                  n_props := filter (fun kv => negb (str_eqb (fst kv) CVARSORT)) d;
                  n_carg := aget A_CARG e; n_lnk := lk |}
      | None => None
      end
  | _, _, _, _ => None
  end.

Definition decode_link (e : xml) : option glink :=
  match int_attr A_FROM None e, int_attr A_TO None e with
  | Some s, Some t =>
      Some (s, t, match xfind T_RARGNAME e with Some r => x_text r | None => None end,
            match xfind T_POST e with Some p => match x_text p with Some s => s | None => [] end | None => [] end)
  | _, _ => None
  end.

Definition opt_int (o : option str) : option (option Z) :=
  match o with
  | None => Some None
  | Some s => match dec_to_Z s with Some z => Some (Some z) | None => None end
  end.

Definition decode_dmrs (e : xml) : option dmrs :=
  match opt_int (aget A_TOP e), opt_int (aget A_INDEX e),
        all_some (map decode_node (xiter T_NODE e)), all_some (map decode_link (xiter T_LINK e)),
        decode_lnk e with
  | Some top, Some index, Some nodes, Some links, Some lk =>
      let '(top', links') := norm_top top links in
      Some {| g_top := top'; g_index := index; g_nodes := nodes; g_links := links';
              g_lnk := lk; g_surface := aget A_SURFACE e; g_ident := aget A_IDENT e |}
  | _, _, _, _, _ => None
  end.

End Dmrx.
