(* Executable model of delphin/edm.py (C18).  Counting is over nat; the
   scores are given twice from the same counts: over Q (the theorems) and
   over IEEE binary64 (PrimFloat, for bit-exact correspondence). *)
From Coq Require Import List NArith ZArith Bool QArith PrimFloat Uint63.
From PyD Require Import Base.Str.
Import ListNotations.

Definition span := (Z * Z)%type.

Inductive tval := TVNone | TVSpan (s : span) | TVStr (s : str).
Record triple := { t_span : span; t_label : str; t_val : tval }.

Definition span_eqb (a b : span) : bool := Z.eqb (fst a) (fst b) && Z.eqb (snd a) (snd b).
Definition tval_eqb (a b : tval) : bool :=
  match a, b with
  | TVNone, TVNone => true
  | TVSpan x, TVSpan y => span_eqb x y
  | TVStr x, TVStr y => str_eqb x y
  | _, _ => false
  end.
Definition triple_eqb (a b : triple) : bool :=
  span_eqb (t_span a) (t_span b) && str_eqb (t_label a) (t_label b) && tval_eqb (t_val a) (t_val b).

(* a dependency structure: EDS nodes carry their edges; for DMRS the
   argument lists come from the links *)
Record node := {
  n_id : str; n_span : span; n_pred : str;
  n_props : list (str * str); n_carg : option str;
  n_edges : list (str * str) }.                     (* EDS only: role -> target *)
Record link := { l_start : str; l_end : str; l_role : str }.
Inductive srep :=
| SEds (top : option str) (nodes : list node)
| SDmrs (top : option str) (nodes : list node) (links : list link).

Definition sr_top (s : srep) := match s with SEds t _ => t | SDmrs t _ _ => t end.
Definition sr_nodes (s : srep) := match s with SEds _ n => n | SDmrs _ n _ => n end.

Definition MOD_EQ : str := [77; 79; 68]%N.   (* BARE_EQ_ROLE = "MOD" *)

(* sr[id]: the _pidx dict comprehension keeps the last node of an id *)
Fixpoint find_node (ns : list node) (i : str) : option node :=
  match ns with
  | [] => None
  | n :: ns' => match find_node ns' i with
                | Some m => Some m
                | None => if str_eqb (n_id n) i then Some n else None
                end
  end.

(* sr.arguments()[id] *)
Definition args_of (s : srep) (n : node) : list (str * str) :=
  match s with
  | SEds _ _ => n_edges n
  | SDmrs _ _ links =>
      map (fun l => (l_role l, l_end l))
          (filter (fun l => str_eqb (l_start l) (n_id n) && negb (str_eqb (l_role l) MOD_EQ)) links)
  end.

Definition names (s : srep) : list triple :=
  map (fun n => {| t_span := n_span n; t_label := n_pred n; t_val := TVNone |}) (sr_nodes s).

Definition arguments (s : srep) : list triple :=
  flat_map (fun n =>
    flat_map (fun rt => match find_node (sr_nodes s) (snd rt) with
                        | Some m => [{| t_span := n_span n; t_label := fst rt; t_val := TVSpan (n_span m) |}]
                        | None => []
                        end) (args_of s n)) (sr_nodes s).

Definition properties (s : srep) : list triple :=
  flat_map (fun n => map (fun fv => {| t_span := n_span n; t_label := fst fv; t_val := TVStr (snd fv) |})
                         (n_props n)) (sr_nodes s).

Definition CARG : str := [99; 97; 114; 103]%N.
Definition constants (s : srep) : list triple :=
  flat_map (fun n => match n_carg n with
                     | Some (c :: cs) => [{| t_span := n_span n; t_label := CARG; t_val := TVStr (c :: cs) |}]
                     | _ => []
                     end) (sr_nodes s).

(* Counter intersection: sum of min(c1[t], c2[t]) *)
Fixpoint remove_one (x : triple) (l : list triple) : list triple :=
  match l with
  | [] => []
  | y :: l' => if triple_eqb x y then l' else y :: remove_one x l'
  end.
Fixpoint inter (g t : list triple) : list triple :=
  match g with
  | [] => []
  | x :: g' => if existsb (triple_eqb x) t then x :: inter g' (remove_one x t) else inter g' t
  end.

Record count := { c_gold : nat; c_test : nat; c_both : nat }.
Definition count_add (a b : count) : count :=
  {| c_gold := c_gold a + c_gold b; c_test := c_test a + c_test b; c_both := c_both a + c_both b |}.
Definition count0 := {| c_gold := 0; c_test := 0; c_both := 0 |}.

Definition count_of (f : srep -> list triple) (gold test : srep) : count :=
  {| c_gold := length (f gold); c_test := length (f test); c_both := length (inter (f gold) (f test)) |}.

Record mtch := { m_name : count; m_arg : count; m_prop : count; m_const : count; m_top : count }.
Definition mtch_add (a b : mtch) : mtch :=
  {| m_name := count_add (m_name a) (m_name b); m_arg := count_add (m_arg a) (m_arg b);
     m_prop := count_add (m_prop a) (m_prop b); m_const := count_add (m_const a) (m_const b);
     m_top := count_add (m_top a) (m_top b) |}.
Definition mtch0 := {| m_name := count0; m_arg := count0; m_prop := count0; m_const := count0; m_top := count0 |}.

Definition top_node (s : srep) : option node :=
  match sr_top s with Some t => find_node (sr_nodes s) t | None => None end.

Definition top_count (gold test : srep) : count :=
  match top_node gold, top_node test with
  | Some a, Some b => {| c_gold := 1; c_test := 1; c_both := if span_eqb (n_span a) (n_span b) then 1 else 0 |}
  | Some _, None => {| c_gold := 1; c_test := 0; c_both := 0 |}
  | None, Some _ => {| c_gold := 0; c_test := 1; c_both := 0 |}
  | None, None => count0
  end.

Definition match_pair (gold test : srep) : mtch :=
  {| m_name := count_of names gold test; m_arg := count_of arguments gold test;
     m_prop := count_of properties gold test; m_const := count_of constants gold test;
     m_top := top_count gold test |}.

Definition empty_sr : srep := SEds None [].

(* zip_longest + the missing-member rules *)
Fixpoint zip_longest {A} (a b : list (option A)) : list (option A * option A) :=
  match a, b with
  | [], [] => []
  | x :: a', [] => (x, None) :: zip_longest a' []
  | [], y :: b' => (None, y) :: map (fun y => (None, y)) b'
  | x :: a', y :: b' => (x, y) :: zip_longest a' b'
  end.

Definition pair_match (ign_gold ign_test : bool) (p : option srep * option srep) : mtch :=
  match p with
  | (None, None) => mtch0
  | (None, Some t) => if ign_gold then mtch0 else match_pair empty_sr t
  | (Some g, None) => if ign_test then mtch0 else match_pair g empty_sr
  | (Some g, Some t) => match_pair g t
  end.

Definition accumulate (golds tests : list (option srep)) (ign_gold ign_test : bool) : mtch :=
  fold_left (fun tot p => mtch_add tot (pair_match ign_gold ign_test p))
            (zip_longest golds tests) mtch0.

Record weights (A : Type) := { w_name : A; w_arg : A; w_prop : A; w_const : A; w_top : A }.
Arguments w_name {A}. Arguments w_arg {A}. Arguments w_prop {A}.
Arguments w_const {A}. Arguments w_top {A}.

(* ---- scores over Q ---- *)
Local Open Scope Q_scope.
Definition nQ (n : nat) : Q := inject_Z (Z.of_nat n).

Definition total_Q (sel : count -> nat) (m : mtch) (w : weights Q) : Q :=
  nQ (sel (m_name m)) * w_name w + nQ (sel (m_arg m)) * w_arg w + nQ (sel (m_prop m)) * w_prop w
  + nQ (sel (m_const m)) * w_const w + nQ (sel (m_top m)) * w_top w.

Definition prf_Q (g t b : Q) : Q * Q * Q :=
  if Qeq_bool t 0 || Qeq_bool g 0 || Qeq_bool b 0 then (0%Q, 0%Q, 0%Q)
  else let p := b / t in let r := b / g in (p, r, 2 * (p * r) / (p + r)).

Definition compute_Q (golds tests : list (option srep)) (w : weights Q) (ig it : bool) : Q * Q * Q :=
  let m := accumulate golds tests ig it in
  prf_Q (total_Q c_gold m w) (total_Q c_test m w) (total_Q c_both m w).

Local Close Scope Q_scope.
(* ---- scores over binary64, operation by operation as Python evaluates ---- *)
Definition nF (n : nat) : float := PrimFloat.of_uint63 (Uint63.of_Z (Z.of_nat n)).

Definition total_F (sel : count -> nat) (m : mtch) (w : weights float) : float :=
  (nF (sel (m_name m)) * w_name w + nF (sel (m_arg m)) * w_arg w + nF (sel (m_prop m)) * w_prop w
   + nF (sel (m_const m)) * w_const w + nF (sel (m_top m)) * w_top w)%float.

Definition prf_F (g t b : float) : float * float * float :=
  if (PrimFloat.eqb t 0 || PrimFloat.eqb g 0 || PrimFloat.eqb b 0)%bool then (0, 0, 0)%float
  else let p := (b / t)%float in let r := (b / g)%float in
       (p, r, (2 * (p * r) / (p + r))%float).

Definition compute_F (golds tests : list (option srep)) (w : weights float) (ig it : bool)
  : float * float * float :=
  let m := accumulate golds tests ig it in
  prf_F (total_F c_gold m w) (total_F c_test m w) (total_F c_both m w).
