(* Executable model of delphin/repp.py without masks (C13, C14).  The regular
   expression engine is an oracle: every rule application receives the list
   of matches that re.finditer produced on the current string. *)
From Coq Require Import List NArith ZArith Bool Arith.
From PyD Require Import Base.Str Base.PySlice.
Import ListNotations.
Open Scope Z_scope.

(* one regex match: span, capture groups 1..n (None = did not participate),
   and m.lastindex *)
Record mtch := { m_start : nat; m_end : nat;
                 m_groups : list (option (nat * nat)); m_last : option nat }.

Definition grp (m : mtch) (g : nat) : option (nat * nat) :=
  match g with O => Some (m_start m, m_end m)
  | S k => match nth_error (m_groups m) k with Some x => x | None => None end end.

Definition substr (s : str) (a b : nat) : str := firstn (b - a) (skipn a s).

(* m.group(g) or '' *)
Definition grp_text (s : str) (m : mtch) (g : nat) : str :=
  match grp m g with Some (a, b) => substr s a b | None => [] end.
(* m.start(g): -1 when the group did not participate *)
Definition grp_start (m : mtch) (g : nat) : Z :=
  match grp m g with Some (a, _) => Z.of_nat a | None => -1 end.

(* a segment of a parsed replacement template *)
Inductive seg := SLit (s : str) | SGrp (g : nat).

Definition zeromap (s : str) : list Z := repeat 0 (length s + 2).

(* _copy_part: maps *)
Definition copy_map (n : nat) (shift : Z) : list Z := repeat shift n.
(* _insert_part: range(shift, shift-len, -1), range(shift+width-1, ...) *)
Definition insert_smap (n : nat) (shift : Z) : list Z :=
  map (fun k => shift - Z.of_nat k) (seq 0 n).
Definition insert_emap (n : nat) (width shift : Z) : list Z :=
  map (fun k => shift + (width - 1) - Z.of_nat k) (seq 0 n).

Record pm := { p_sub : str; p_smap : list Z; p_emap : list Z; p_delta : Z }.

(* next((m.start(g) for g in range(g0, g0+n) if m.start(g) >= 0), m.end()) *)
Fixpoint next_group_start (m : mtch) (g0 n : nat) : Z :=
  match n with
  | O => Z.of_nat (m_end m)
  | S n' => if 0 <=? grp_start m g0 then grp_start m g0 else next_group_start m (S g0) n'
  end.

(* the loop over the tracked segments of _process_match *)
Fixpoint tracked_loop (s : str) (m : mtch) (shift : Z) (segs : list seg)
         (start endp delta : Z) (acc : pm) : option (Z * Z * pm) :=
  match segs with
  | [] => Some (start, delta, acc)
  | SGrp g :: segs' =>
      (* matched text between the previous segment and the group is dropped
         (or reused, for nested groups); the group is attributed to its own span *)
      let '(start1, delta1) :=
        if 0 <=? grp_start m g then (grp_start m g, delta + (grp_start m g - start))
        else (start, delta) in
      let lit := grp_text s m g in
      let acc' := {| p_sub := p_sub acc ++ lit;
                     p_smap := p_smap acc ++ copy_map (length lit) (shift + delta1);
                     p_emap := p_emap acc ++ copy_map (length lit) (shift + delta1);
                     p_delta := 0 |} in
      let li := match m_last m with Some l => l | None => O end in   (* m.lastindex or 0 *)
      (* start of the next group in g+1..lastindex that participated, else m.end() *)
      let endp' := next_group_start m (S g) (li - g) in
      tracked_loop s m shift segs' (start1 + Z.of_nat (length lit)) endp' delta1 acc'
  | SLit lit :: segs' =>
      let width := endp - start in
      let n := length lit in
      let acc' := {| p_sub := p_sub acc ++ lit;
                     p_smap := p_smap acc ++ insert_smap n (shift + delta);
                     p_emap := p_emap acc ++ insert_emap n width (shift + delta);
                     p_delta := 0 |} in
      tracked_loop s m shift segs' endp endp (delta + (width - Z.of_nat n)) acc'
  end.

Definition first_group_start (m : mtch) (segs : list seg) : Z :=
  match filter (fun sg => match sg with
                          | SGrp (S k) => 0 <=? grp_start m (S k)
                          | _ => false end) segs with
  | SGrp g :: _ => grp_start m g
  | _ => Z.of_nat (m_end m)
  end.

Definition seg_text (s : str) (m : mtch) (sg : seg) : str :=
  match sg with SLit l => l | SGrp g => grp_text s m g end.

(* _process_match with an all-zero mask; None = exception *)
Definition process_match_raw (s : str) (m : mtch) (shift : Z) (tracked untracked : list seg)
  : option pm :=
  match tracked, untracked with
  | [], [] => Some {| p_sub := []; p_smap := []; p_emap := [];
                      p_delta := Z.of_nat (m_end m) - Z.of_nat (m_start m) |}
  | _, _ =>
      let start0 := Z.of_nat (m_start m) in
      let end0 := first_group_start m tracked in
      match tracked_loop s m shift tracked start0 end0 0
              {| p_sub := []; p_smap := []; p_emap := []; p_delta := 0 |} with
      | None => None
      | Some (start, delta, acc) =>
          match untracked with
          | [] => Some {| p_sub := p_sub acc; p_smap := p_smap acc; p_emap := p_emap acc;
                          p_delta := delta |}
          | _ =>
              let lit := flat_map (seg_text s m) untracked in
              let width := Z.of_nat (m_end m) - start in
              let n := length lit in
              Some {| p_sub := p_sub acc ++ lit;
                      p_smap := p_smap acc ++ insert_smap n (shift + delta);
                      p_emap := p_emap acc ++ insert_emap n width (shift + delta);
                      p_delta := delta + (width - Z.of_nat n) |}
          end
      end
  end.

(* _process_match with an all-zero mask; None = exception.  The net length
   change reported for the match is its width minus the replacement length. *)
Definition process_match (s : str) (m : mtch) (shift : Z) (tracked untracked : list seg)
  : option pm :=
  match process_match_raw s m shift tracked untracked with
  | Some p => Some {| p_sub := p_sub p; p_smap := p_smap p; p_emap := p_emap p;
                      p_delta := Z.of_nat (m_end m) - Z.of_nat (m_start m) - Z.of_nat (length (p_sub p)) |}
  | None => None
  end.

Record rres := { r_out : str; r_smap : list Z; r_emap : list Z }.

(* the loop over the matches in _REPPRule._apply *)
Fixpoint rule_loop (s : str) (ms : list mtch) (tracked untracked : list seg)
         (pos : nat) (shift : Z) (acc : rres) : option rres :=
  match ms with
  | [] =>
      let tail := skipn pos s in
      Some {| r_out := r_out acc ++ tail;
              r_smap := r_smap acc ++ copy_map (length tail) shift ++ [shift];
              r_emap := r_emap acc ++ copy_map (length tail) shift ++ [shift - 1] |}
  | m :: ms' =>
      match process_match s m shift tracked untracked with
      | None => None
      | Some p =>
          let gap := substr s pos (m_start m) in
          let acc' := {| r_out := r_out acc ++ gap ++ p_sub p;
                         r_smap := r_smap acc ++ copy_map (length gap) shift ++ p_smap p;
                         r_emap := r_emap acc ++ copy_map (length gap) shift ++ p_emap p |} in
          rule_loop s ms' tracked untracked (m_end m) (shift + p_delta p) acc'
      end
  end.

Record step := { st_in : str; st_out : str; st_applied : bool;
                 st_smap : list Z; st_emap : list Z;
                 st_leaf : bool }.      (* a rule or mask step (not a group summary) *)

Definition apply_rule (s : str) (ms : list mtch) (tracked untracked : list seg) : option step :=
  match ms with
  | [] => Some {| st_in := s; st_out := s; st_applied := false;
                  st_smap := zeromap s; st_emap := zeromap s; st_leaf := true |}
  | _ =>
      match rule_loop s ms tracked untracked 0 0 {| r_out := []; r_smap := [0]; r_emap := [0] |} with
      | None => None
      | Some r => Some {| st_in := s; st_out := r_out r; st_applied := true;
                          st_smap := r_smap r; st_emap := r_emap r; st_leaf := true |}
      end
  end.

(* ---- replacement templates: _parse_template + _get_segments, for templates
   whose only escapes are decimal group references \d or \dd ---- *)
Definition is_19 (c : N) : bool := (N.leb 49 c && N.leb c 57)%bool.
Definition is_09 (c : N) : bool := (N.leb 48 c && N.leb c 57)%bool.
Definition dig (c : N) : nat := N.to_nat (c - 48)%N.

Definition flush (cur : str) (rest : list seg) : list seg :=
  match cur with [] => rest | _ => SLit (rev cur) :: rest end.

(* None = REPPError / re.error *)
Fixpoint parse_tmpl (ngroups : nat) (t : str) (cur : str) : option (list seg) :=
  match t with
  | [] => Some (flush cur [])
  | c :: rest =>
      if N.eqb c 92 then
        match rest with
        | d1 :: rest1 =>
            if is_19 d1 then
              match rest1 with
              | d2 :: rest2 =>
                  if is_09 d2 then
                    let g := (10 * dig d1 + dig d2)%nat in
                    if Nat.leb g ngroups then
                      option_map (fun l => flush cur (SGrp g :: l)) (parse_tmpl ngroups rest2 [])
                    else None
                  else
                    if Nat.leb (dig d1) ngroups then
                      option_map (fun l => flush cur (SGrp (dig d1) :: l)) (parse_tmpl ngroups rest1 [])
                    else None
              | [] => if Nat.leb (dig d1) ngroups then Some (flush cur [SGrp (dig d1)]) else None
              end
            else None
        | [] => None
        end
      else parse_tmpl ngroups rest (c :: cur)
  end.

Fixpoint last_trackable (segs : list seg) (i expected lt : nat) : nat :=
  match segs with
  | [] => lt
  | SLit _ :: r => last_trackable r (S i) expected lt
  | SGrp g :: r => last_trackable r (S i) (S expected) (if Nat.eqb g expected then S i else lt)
  end.

Definition get_segments (segs : list seg) : list seg * list seg :=
  let lt := last_trackable segs 0 1 0 in (firstn lt segs, skipn lt segs).

(* ---- programs ---- *)
Inductive op :=
| ORule (rid : nat) (tracked untracked : list seg)
| OMask (rid : nat)
| OIter (ops : list op)              (* numbered internal group: iterate to a fixpoint *)
| OExt (name : str) (ops : list op). (* external module: only when active *)

Definition oracle := list (nat * str * list mtch).

Fixpoint lookup_orc (orc : oracle) (rid : nat) (s : str) : option (list mtch) :=
  match orc with
  | [] => None
  | (r, s', ms) :: orc' => if Nat.eqb r rid && str_eqb s' s then Some ms else lookup_orc orc' rid s
  end.

Inductive res := ROk (steps : list step) (out : str) (applied : bool) | RErr | RFuel.

Definition group_step (s o : str) (applied : bool) : step :=
  {| st_in := s; st_out := o; st_applied := applied; st_smap := zeromap o; st_emap := zeromap o;
     st_leaf := false |}.

Definition mem_str (x : str) (l : list str) : bool := existsb (str_eqb x) l.

Section Run.
Variable orc : oracle.
Variable active : list str.

(* run_ops: the body of _REPPGroup._apply (without the final group step);
   run_group adds it; run_iter is _REPPInternalGroup._apply *)
Fixpoint run_op (fuel : nat) (o : op) (s : str) : res :=
  match fuel with
  | O => RFuel
  | S f =>
      match o with
      | ORule rid tr un =>
          match lookup_orc orc rid s with
          | None => RErr
          | Some ms => match apply_rule s ms tr un with
                       | None => RErr
                       | Some st => ROk [st] (st_out st) (st_applied st)
                       end
          end
      | OMask rid =>
          ROk [{| st_in := s; st_out := s; st_applied := true;
                  st_smap := zeromap s; st_emap := zeromap s; st_leaf := true |}] s true
      | OIter ops => run_iter f ops s
      | OExt name ops => if mem_str name active then run_group f ops s else ROk [] s false
      end
  end
with run_ops (fuel : nat) (ops : list op) (s : str) : res :=
  match fuel with
  | O => RFuel
  | S f =>
      match ops with
      | [] => ROk [] s false
      | o :: ops' =>
          match run_op f o s with
          | ROk st1 o1 a1 =>
              match run_ops f ops' o1 with
              | ROk st2 o2 a2 => ROk (st1 ++ st2) o2 (a1 || a2)
              | r => r
              end
          | r => r
          end
      end
  end
with run_group (fuel : nat) (ops : list op) (s : str) : res :=
  match fuel with
  | O => RFuel
  | S f =>
      match run_ops f ops s with
      | ROk st o a => ROk (st ++ [group_step s o a]) o a
      | r => r
      end
  end
with run_iter (fuel : nat) (ops : list op) (s : str) : res :=
  match fuel with
  | O => RFuel
  | S f =>
      match run_group f ops s with
      | ROk st o a =>
          if str_eqb s o then ROk st o a
          else match run_iter f ops o with
               | ROk st2 o2 a2 => ROk (st ++ st2) o2 (a || a2)
               | r => r
               end
      | r => r
      end
  end.

End Run.

(* _mergemap: map1[i + shift] with Python index semantics; None = IndexError *)
Definition mergemap (map1 map2 : list Z) : option (list Z) :=
  (fix go (i : Z) (l : list Z) : option (list Z) :=
     match l with
     | [] => Some []
     | sh :: l' => match py_getitem map1 (i + sh), go (i + 1) l' with
                   | Some v, Some rest => Some ((sh + v) :: rest)
                   | _, _ => None
                   end
     end) 0 map2.

Definition set_first (l : list Z) (v : Z) : list Z := match l with [] => [] | _ :: t => v :: t end.
Definition set_last (l : list Z) (v : Z) : list Z := rev (set_first (rev l) v).

(* REPP._trace: returns the verbose step list and the final result *)
Record result := { res_string : str; res_smap : list Z; res_emap : list Z }.

Fixpoint merge_steps (steps : list step) (sm em : list Z) : option (list Z * list Z) :=
  match steps with
  | [] => Some (sm, em)
  | st :: steps' =>
      if st_applied st then
        match mergemap sm (st_smap st), mergemap em (st_emap st) with
        | Some sm', Some em' => merge_steps steps' sm' em'
        | _, _ => None
        end
      else merge_steps steps' sm em
  end.

Definition trace (orc : oracle) (active : list str) (fuel : nat) (ops : list op) (s : str)
  : option (list step * result) :=
  match run_group orc active fuel ops s with
  | ROk steps o _ =>
      match merge_steps steps (set_first (zeromap s) 1) (set_last (zeromap s) (-1)) with
      | Some (sm, em) => Some (steps, {| res_string := o; res_smap := sm; res_emap := em |})
      | None => None
      end
  | _ => None
  end.

(* _tokenize, given the matches of the tokenizer pattern on the result *)
Definition nthZ (l : list Z) (i : nat) : option Z := nth_error l i.

Fixpoint tok_loop (r : result) (tms : list mtch) (pos : nat) : option (list (Z * Z * str)) :=
  let s := res_string r in
  match tms with
  | [] =>
      if Nat.ltb pos (length s) then
        match nthZ (res_smap r) (pos + 1), nthZ (res_emap r) (length s) with
        | Some a, Some b => Some [(Z.of_nat pos + a, Z.of_nat (length s) + b, skipn pos s)]
        | _, _ => None
        end
      else Some []
  | m :: tms' =>
      let rest := tok_loop r tms' (m_end m) in
      if Nat.ltb pos (m_start m) then
        match nthZ (res_smap r) (pos + 1), nthZ (res_emap r) (m_start m), rest with
        | Some a, Some b, Some l =>
            Some ((Z.of_nat pos + a, Z.of_nat (m_start m) + b, substr s pos (m_start m)) :: l)
        | _, _, _ => None
        end
      else rest
  end.

Definition tokenize (r : result) (tms : list mtch) := tok_loop r tms 0.
