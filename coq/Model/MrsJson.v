(* Executable model of delphin/codecs/mrsjson.py at the level of the JSON
   value (to_dict / from_dict); the JSON text itself is json.dumps/loads
   (oracle).  C01. *)
From Coq Require Import List NArith ZArith Bool Arith.
From PyD Require Import Base.Str Base.Dec Model.Hier Model.Mrs Model.Iso Model.SimpleMrs.
Import ListNotations.

Inductive jv :=
| JNull
| JStr (s : str)
| JInt (z : Z)
| JObj (fields : list (str * jv))
| JArr (items : list jv).

Definition K (l : list N) : str := l.
Definition k_top := K [116;111;112].
Definition k_index := K [105;110;100;101;120].
Definition k_relations := K [114;101;108;97;116;105;111;110;115].
Definition k_constraints := K [99;111;110;115;116;114;97;105;110;116;115].
Definition k_variables := K [118;97;114;105;97;98;108;101;115].
Definition k_label := K [108;97;98;101;108].
Definition k_predicate := K [112;114;101;100;105;99;97;116;101].
Definition k_arguments := K [97;114;103;117;109;101;110;116;115].
Definition k_lnk := K [108;110;107].
Definition k_from := K [102;114;111;109].
Definition k_to := K [116;111].
Definition k_surface := K [115;117;114;102;97;99;101].
Definition k_relation := K [114;101;108;97;116;105;111;110].
Definition k_high := K [104;105;103;104].
Definition k_low := K [108;111;119].
Definition k_left := K [108;101;102;116].
Definition k_right := K [114;105;103;104;116].
Definition k_type := K [116;121;112;101].
Definition k_properties := K [112;114;111;112;101;114;116;105;101;115].

Definition jstr_map (l : list (str * str)) : jv := JObj (map (fun kv => (fst kv, JStr (snd kv))) l).
Definition jopt (o : option str) : jv := match o with Some s => JStr s | None => JNull end.

(* cfrom / cto of LnkMixin *)
Definition cfrom (k : lnk) : Z := match k with LChar a _ => a | _ => (-1)%Z end.
Definition cto (k : lnk) : Z := match k with LChar _ b => b | _ => (-1)%Z end.

Definition ep_to_dict (lnkopt : bool) (e : xep) : jv :=
  JObj ([(k_label, JStr (x_label e)); (k_predicate, JStr (x_pred e)); (k_arguments, jstr_map (x_args e))]
        ++ (if lnkopt then
              (if lnk_truthy (x_lnk e) then [(k_lnk, JObj [(k_from, JInt (cfrom (x_lnk e))); (k_to, JInt (cto (x_lnk e)))])] else [])
              ++ (match x_surface e with Some (c :: s) => [(k_surface, JStr (c :: s))] | _ => [] end)
            else [])).

Definition hcons_to_dict (h : cons3) : jv :=
  let '(hi, rel, lo) := h in JObj [(k_relation, JStr rel); (k_high, JStr hi); (k_low, JStr lo)].
Definition icons_to_dict (h : cons3) : jv :=
  let '(l, rel, r) := h in JObj [(k_relation, JStr rel); (k_left, JStr l); (k_right, JStr r)].

(* None = variable.type raises ValueError *)
Fixpoint vars_to_dict (propopt : bool) (vs : list (str * list (str * str))) : option (list (str * jv)) :=
  match vs with
  | [] => Some []
  | (v, ps) :: vs' =>
      match var_type v, vars_to_dict propopt vs' with
      | Some t, Some r =>
          Some ((v, JObj ((k_type, JStr t) :: (if propopt then match ps with [] => [] | _ => [(k_properties, jstr_map ps)] end else []))) :: r)
      | _, _ => None
      end
  end.

(* to_dict; xm_vars is the complete variables mapping of the MRS object *)
Definition to_dict (propopt lnkopt : bool) (m : xmrs) : option jv :=
  match vars_to_dict propopt (xm_vars m) with
  | Some vd =>
      Some (JObj [(k_top, jopt (xm_top m)); (k_index, jopt (xm_index m));
                  (k_relations, JArr (map (ep_to_dict lnkopt) (xm_rels m)));
                  (k_constraints, JArr (map hcons_to_dict (xm_hcons m) ++ map icons_to_dict (xm_icons m)));
                  (k_variables, JObj vd)])
  | None => None
  end.

(* ---------------------------------------------------------------- *)
(* from_dict (None = KeyError / TypeError) *)

Definition jget (k : str) (fields : list (str * jv)) : option jv := dict_get k fields.
Definition as_str (v : jv) : option str := match v with JStr s => Some s | _ => None end.
Definition as_ostr (v : option jv) : option (option str) :=
  match v with None | Some JNull => Some None | Some (JStr s) => Some (Some s) | _ => None end.

Fixpoint str_fields (l : list (str * jv)) : option (list (str * str)) :=
  match l with
  | [] => Some []
  | (k, JStr s) :: l' => option_map (cons (k, s)) (str_fields l')
  | _ => None
  end.

Definition lnk_of (v : option jv) : option lnk :=
  match v with
  | None | Some JNull => Some LNone
  | Some (JObj f) => match jget k_from f, jget k_to f with
                     | Some (JInt a), Some (JInt b) => Some (LChar a b)
                     | _, _ => None
                     end
  | _ => None
  end.

Definition ep_from_dict (v : jv) : option xep :=
  match v with
  | JObj f =>
      match jget k_predicate f, jget k_label f, lnk_of (jget k_lnk f), as_ostr (jget k_surface f) with
      | Some (JStr p), Some (JStr l), Some lk, Some sf =>
          match (match jget k_arguments f with
                 | None => Some []
                 | Some (JObj a) => str_fields a
                 | _ => None end) with
          | Some args => Some {| x_pred := p; x_label := l; x_args := args; x_lnk := lk; x_surface := sf |}
          | None => None
          end
      | _, _, _, _ => None
      end
  | _ => None
  end.

Fixpoint all_some {A} (l : list (option A)) : option (list A) :=
  match l with
  | [] => Some []
  | Some x :: l' => option_map (cons x) (all_some l')
  | None :: _ => None
  end.

Definition cons_from (ka kb : str) (v : jv) : option cons3 :=
  match v with
  | JObj f => match jget ka f, jget k_relation f, jget kb f with
              | Some (JStr a), Some (JStr r), Some (JStr b) => Some (a, r, b)
              | _, _, _ => None
              end
  | _ => None
  end.

Definition has_key (k : str) (v : jv) : bool :=
  match v with JObj f => match jget k f with Some _ => true | None => false end | _ => false end.

Definition var_from (kv : str * jv) : option (str * list (str * str)) :=
  match snd kv with
  | JObj f => match jget k_properties f with
              | None => Some (fst kv, [])
              | Some (JObj ps) => option_map (fun l => (fst kv, l)) (str_fields ps)
              | _ => None
              end
  | _ => None
  end.

Definition from_dict (d : jv) : option xmrs :=
  match d with
  | JObj f =>
      match jget k_top f with
      | None => None                                   (* d['top'] : KeyError *)
      | Some topv =>
          let cs := match jget k_constraints f with Some (JArr l) => l | _ => [] end in
          match as_ostr (Some topv), as_ostr (jget k_index f),
                all_some (map ep_from_dict (match jget k_relations f with Some (JArr l) => l | _ => [] end)),
                all_some (map (cons_from k_high k_low) (filter (has_key k_high) cs)),
                all_some (map (cons_from k_left k_right) (filter (has_key k_left) cs)),
                all_some (map var_from (match jget k_variables f with Some (JObj l) => l | _ => [] end)) with
          | Some top, Some index, Some rels, Some hcons, Some icons, Some vars =>
              Some {| xm_top := top; xm_index := index; xm_rels := rels; xm_hcons := hcons; xm_icons := icons;
                      xm_vars := vars; xm_lnk := LNone; xm_surface := None |}
          | _, _, _, _, _, _ => None
          end
      end
  | _ => None
  end.
