(* Executable model of the syntax level of delphin/tdl.py (C15): the token
   stream of _tdl_lex_re, the formatter as a token printer, and the
   recursive-descent parser (_parse_tdl_term/_conjunction/_feature_structure/
   _list/_definition and the top-level loop).  White space, line width
   decisions of the formatter and the regular expressions of the lexer are
   not modelled (oracles: the real lexer is run on the real formatter's
   text).  Comments inside a definition (dropped by the parser's helpers)
   are not modelled either. *)
From Coq Require Import List NArith ZArith Bool Arith.
From PyD Require Import Base.Str Model.Hier Model.Mrs Model.Iso Model.SimpleMrs.
Import ListNotations.

Inductive cons_end := CClosed | COpen.

Inductive tterm :=
| MId (doc : option str) (s : str)
| MStr (doc : option str) (s : str)
| MRegex (doc : option str) (s : str)
| MCoref (doc : option str) (s : str)
| MAvm (doc : option str) (feats : list (list str * list tterm))
| MCons (doc : option str) (values : list (list tterm)) (ending : cons_end) (dotted : option (list tterm))
| MDiff (doc : option str) (values : list (list tterm)).

Definition conj := list tterm.

Inductive ttok :=
| KDoc (s : str)        (* 1  docstring *)
| KBlockC (s : str)     (* 2  block comment *)
| KLineC (s : str)      (* 3  line comment *)
| KStr (s : str)        (* 4 *)
| KQSym (s : str)       (* 5 *)
| KRegex (s : str)      (* 6 *)
| KDefOp (s : str)      (* 7  := or :< *)
| KAddOp                (* 8  :+ *)
| KEllipsis             (* 9 *)
| KDot                  (* 10 *)
| KAmp                  (* 11 *)
| KComma                (* 12 *)
| KLBrk                 (* 13 *)
| KLDiff                (* 14 *)
| KLAngle               (* 15 *)
| KRBrk                 (* 16 *)
| KRDiff                (* 17 *)
| KRAngle               (* 18 *)
| KCoref (s : str)      (* 19 *)
| KMorph (s : str)      (* 20 letter-set / wild-card body *)
| KAffix (s : str)      (* 21 prefix / suffix *)
| KAffixPat (s : str)   (* 22 *)
| KSlash                (* 23 *)
| KIdent (s : str)      (* 24 *)
| KBegin | KEnd         (* 25 26 *)
| KEnvType (s : str)    (* 27 *)
| KStatus               (* 28 *)
| KInclude.             (* 29 *)

(* ---------------------------------------------------------------- *)
(* printer *)

Fixpoint sep_by {A} (sep : list A) (l : list (list A)) : list A :=
  match l with
  | [] => []
  | [x] => x
  | x :: l' => x ++ sep ++ sep_by sep l'
  end.

Definition doc_toks (d : option str) : list ttok := match d with Some s => [KDoc s] | None => [] end.

Definition path_toks (p : list str) : list ttok := sep_by [KDot] (map (fun s => [KIdent s]) p).

Fixpoint fmt_term (t : tterm) : list ttok :=
  match t with
  | MId d s => doc_toks d ++ [KIdent s]
  | MStr d s => doc_toks d ++ [KStr s]
  | MRegex d s => doc_toks d ++ [KRegex s]
  | MCoref d s => doc_toks d ++ [KCoref s]
  | MAvm d feats =>
      doc_toks d ++ KLBrk ::
        sep_by [KComma] (map (fun pc => path_toks (fst pc) ++ sep_by [KAmp] (map fmt_term (snd pc))) feats)
        ++ [KRBrk]
  | MCons d values ending dotted =>
      let vs := sep_by [KComma] (map (fun c => sep_by [KAmp] (map fmt_term c)) values) in
      doc_toks d ++ KLAngle ::
        (match ending, dotted with
         | COpen, _ => match values with [] => [KEllipsis] | _ => vs ++ [KComma; KEllipsis] end
         | CClosed, Some e => vs ++ KDot :: sep_by [KAmp] (map fmt_term e)
         | CClosed, None => vs
         end) ++ [KRAngle]
  | MDiff d values =>
      doc_toks d ++ KLDiff :: sep_by [KComma] (map (fun c => sep_by [KAmp] (map fmt_term c)) values) ++ [KRDiff]
  end.

Definition fmt_conj (c : conj) : list ttok := sep_by [KAmp] (map fmt_term c).

(* ---------------------------------------------------------------- *)
(* parser (None = TDLSyntaxError / AssertionError) *)

Definition is_amp (ts : list ttok) : bool := match ts with KAmp :: _ => true | _ => false end.

(* the dotted continuation of a feature path *)
Fixpoint p_path (acc : list str) (r : list ttok) {struct r} : list str * list ttok :=
  match r with
  | KDot :: KIdent b :: r' => p_path (acc ++ [ascii_upper b]) r'
  | _ => (acc, r)
  end.

Definition is_brk (brk t : ttok) : bool :=
  match brk, t with KRDiff, KRDiff => true | KRAngle, KRAngle => true | _, _ => false end.

Definition hd_is (p : ttok -> bool) (ts : list ttok) : bool := match ts with t :: _ => p t | [] => false end.
Definition k_dot (t : ttok) : bool := match t with KDot => true | _ => false end.
Definition k_comma (t : ttok) : bool := match t with KComma => true | _ => false end.
Definition k_amp (t : ttok) : bool := match t with KAmp => true | _ => false end.
Definition k_rbrk (t : ttok) : bool := match t with KRBrk => true | _ => false end.
Definition k_ell (t : ttok) : bool := match t with KEllipsis => true | _ => false end.

Fixpoint p_term (fuel : nat) (ts : list ttok) : option (tterm * list ttok) :=
  match fuel with
  | O => None
  | S f =>
      let '(doc, ts0) := match ts with KDoc d :: r => (Some d, r) | _ => (None, ts) end in
      match ts0 with
      | KStr s :: r => Some (MStr doc s, r)
      | KQSym s :: r => Some (MId doc s, r)
      | KRegex s :: r => Some (MRegex doc s, r)
      | KCoref s :: r => Some (MCoref doc s, r)
      | KIdent s :: r => Some (MId doc s, r)
      | KLBrk :: r =>
          if hd_is k_rbrk r then Some (MAvm doc [], tl r)
          else match p_feats f r with
               | Some (feats, r') => Some (MAvm doc feats, r')
               | None => None
               end
      | KLDiff :: r =>
          match p_list f KRDiff r with
          | Some (values, _, _, r') => Some (MDiff doc values, r')
          | None => None
          end
      | KLAngle :: r =>
          match p_list f KRAngle r with
          | Some (values, ending, dotted, r') => Some (MCons doc values ending dotted, r')
          | None => None
          end
      | _ => None
      end
  end
with p_conj (fuel : nat) (ts : list ttok) : option (conj * list ttok) :=
  match fuel with
  | O => None
  | S f =>
      match p_term f ts with
      | Some (t, r) =>
          if hd_is k_amp r then
            match p_conj f (tl r) with
            | Some (c, r') => Some (t :: c, r')
            | None => None
            end
          else Some ([t], r)
      | None => None
      end
  end
(* the feature loop, positioned at a feature name *)
with p_feats (fuel : nat) (ts : list ttok) : option (list (list str * conj) * list ttok) :=
  match fuel with
  | O => None
  | S f =>
      match ts with
      | KIdent a :: r =>
          let '(path, r1) := p_path [ascii_upper a] r in
          if hd_is k_dot r1 then None          (* a dot not followed by a feature name *)
          else
            match p_conj f r1 with
            | Some (c, r2) =>
                if hd_is k_comma r2 then
                  match p_feats f (tl r2) with
                  | Some (fs, r3) => Some ((path, c) :: fs, r3)
                  | None => None
                  end
                else if hd_is k_rbrk r2 then Some ([(path, c)], tl r2)
                else None
            | None => None
            end
      | _ => None
      end
  end
(* _parse_tdl_list after the opening bracket: values, open/closed, dotted end *)
with p_list (fuel : nat) (brk : ttok) (ts : list ttok)
  : option (list conj * cons_end * option conj * list ttok) :=
  match fuel with
  | O => None
  | S f =>
      if hd_is (is_brk brk) ts then Some ([], CClosed, None, tl ts)
      else if hd_is k_ell ts then
        (if hd_is (is_brk brk) (tl ts) then Some ([], COpen, None, tl (tl ts)) else None)
      else
        match p_conj f ts with
        | Some (c, r) =>
            if hd_is k_dot r then
              match p_conj f (tl r) with
              | Some (e, r2) => if hd_is (is_brk brk) r2 then Some ([c], CClosed, Some e, tl r2) else None
              | None => None
              end
            else if hd_is k_comma r then
              (* a closing bracket right after a comma is not accepted *)
              (if hd_is (is_brk brk) (tl r) then None
               else match p_list f brk (tl r) with
                    | Some (vs, ending, dotted, r2) => Some (c :: vs, ending, dotted, r2)
                    | None => None
                    end)
            else if hd_is (is_brk brk) r then Some ([c], CClosed, None, tl r)
            else None
        | None => None
        end
  end.

(* ---------------------------------------------------------------- *)
(* top-level entities as parse events *)

Inductive tevent :=
| VDef (ident : str) (c : conj) (doc : option str)                      (* TypeDefinition (:= or :<) *)
| VAdd (ident : str) (c : conj) (doc : option str)                      (* TypeAddendum (:+) *)
| VLex (ident : str) (affix : str) (pats : list (str * str)) (c : conj) (doc : option str)
| VMorph (letter : bool) (var : N) (chars : str)                        (* letter-set / wild-card *)
| VBegin (envtype : str) (status : option str)
| VEnd (envtype : str)
| VInclude (s : str)
| VLineC (s : str)
| VBlockC (s : str).

Definition DEFOP : str := [58;61]%N.                              (* := *)
Definition ENV_TYPE : str := [58;116;121;112;101]%N.              (* :type *)
Definition ENV_INSTANCE : str := [58;105;110;115;116;97;110;99;101]%N.   (* :instance *)
Definition INSTANCE_W : str := [105;110;115;116;97;110;99;101]%N.  (* instance *)

(* affix sub-patterns: "match replacement" *)
Definition pat_text (p : str * str) : str := fst p ++ [32%N] ++ snd p.

(* token.split(None, 1) *)
Definition split_pat (s : str) : option (str * str) :=
  let s1 := drop_while is_space s in
  let a := take_while (fun c => negb (is_space c)) s1 in
  let b := drop_while is_space (drop_while (fun c => negb (is_space c)) s1) in
  match a, b with
  | _ :: _, _ :: _ => Some (a, b)
  | _, _ => None
  end.

(* letter sets and wild cards: %(letter-set (!c abc)) *)
Definition LETTER_SET : str := [108;101;116;116;101;114;45;115;101;116]%N.
Definition WILD_CARD : str := [119;105;108;100;45;99;97;114;100]%N.

Fixpoint esc_chars (s : str) : str :=
  match s with
  | [] => []
  | c :: s' => if N.eqb c 41 || N.eqb c 32 || N.eqb c 92 then 92%N :: c :: esc_chars s' else c :: esc_chars s'
  end.

Definition fmt_morph (letter : bool) (var : N) (chars : str) : str :=
  (if letter then LETTER_SET else WILD_CARD) ++ [32; 40]%N ++ [if letter then 33%N else 63%N; var] ++ [32%N]
  ++ esc_chars chars ++ [41%N].

(* (?:[^) \\]|\\.)+ : returns the unescaped characters and the rest *)
Fixpoint scan_chars (s : str) : str * str :=
  match s with
  | c :: s' =>
      if N.eqb c 92 then
        match s' with
        | d :: s'' => let '(cs, r) := scan_chars s'' in (d :: cs, r)
        | [] => ([], s)
        end
      else if N.eqb c 41 || N.eqb c 32 then ([], s)
      else let '(cs, r) := scan_chars s' in (c :: cs, r)
  | [] => ([], [])
  end.

Fixpoint strip_prefix (p s : str) : option str :=
  match p, s with
  | [], _ => Some s
  | a :: p', b :: s' => if N.eqb a b then strip_prefix p' s' else None
  | _, [] => None
  end.

Definition hd_space (r : str) : bool := match r with w :: _ => is_space w | [] => false end.
Definition starts_rparen (r : str) : bool := match r with c :: _ => N.eqb c 41 | [] => false end.
Definition all_space (r : str) : bool := match drop_while is_space r with [] => true | _ => false end.
Definition nonnil (r : str) : bool := match r with [] => false | _ => true end.

Definition parse_morph_as (letter : bool) (b0 : str) : option (bool * N * str) :=
  match strip_prefix (if letter then LETTER_SET else WILD_CARD) b0 with
  | Some r0 =>
      match drop_while is_space r0 with
      | p :: m :: v :: r1 =>
          if N.eqb p 40 && N.eqb m (if letter then 33%N else 63%N) && negb (N.eqb v 10) && hd_space r1 then
            let '(cs, r2) := scan_chars (drop_while is_space r1) in
            if nonnil cs && starts_rparen r2 && all_space (tl r2) then Some (letter, v, cs) else None
          else None
      | _ => None
      end
  | None => None
  end.

(* _parse_letterset on the text between %( and ) *)
Definition parse_morph (body : str) : option (bool * N * str) :=
  let b0 := drop_while is_space body in
  match parse_morph_as true b0 with Some r => Some r | None => parse_morph_as false b0 end.

Definition fmt_event (e : tevent) : list ttok :=
  match e with
  | VDef i c d => [KIdent i; KDefOp DEFOP] ++ fmt_conj c ++ doc_toks d ++ [KDot]
  | VAdd i c d => [KIdent i; KAddOp] ++ fmt_conj c ++ doc_toks d ++ [KDot]
  | VLex i a ps c d => [KIdent i; KDefOp DEFOP; KAffix a] ++ map (fun p => KAffixPat (pat_text p)) ps ++ fmt_conj c ++ doc_toks d ++ [KDot]
  | VMorph l v cs => [KMorph (fmt_morph l v cs)]
  | VBegin t st => [KBegin; KEnvType t] ++ match st with Some s => [KStatus; KIdent s] | None => [] end ++ [KDot]
  | VEnd t => [KEnd; KEnvType t; KDot]
  | VInclude s => [KInclude; KStr s; KDot]
  | VLineC s => [KLineC s]
  | VBlockC s => [KBlockC s]
  end.

Definition is_type_term (t : tterm) : bool :=
  match t with MId _ _ | MStr _ _ | MRegex _ _ => true | _ => false end.

(* the tail of a definition: optional docstring, then the dot *)
Definition p_def_end (ts : list ttok) : option (option str * list ttok) :=
  match ts with
  | KDoc d :: KDot :: r => Some (Some d, r)
  | KDot :: r => Some (None, r)
  | _ => None
  end.

Fixpoint take_pats (ts : list ttok) : option (list (str * str)) * list ttok :=
  match ts with
  | KAffixPat p :: r =>
      let '(ps, r') := take_pats r in
      (match split_pat p, ps with Some ab, Some l => Some (ab :: l) | _, _ => None end, r')
  | _ => (Some [], ts)
  end.

Definition k_affix (t : ttok) : bool := match t with KAffix _ => true | _ => false end.
Definition is_doc_dot (ts : list ttok) : bool := match ts with KDoc _ :: KDot :: _ => true | _ => false end.

(* _parse_tdl_definition, after the identifier *)
Definition p_definition (fuel : nat) (ident : str) (ts : list ttok) : option (tevent * list ttok) :=
  match ts with
  | KDefOp _ :: r =>
      if hd_is k_affix r then
        match r with
        | KAffix a :: r0 =>
            let '(ops, r1) := take_pats r0 in
            match ops, p_conj fuel r1 with
            | Some ps, Some (c, r2) => match p_def_end r2 with
                                       | Some (d, r3) => Some (VLex ident a ps c d, r3)
                                       | None => None
                                       end
            | _, _ => None
            end
        | _ => None
        end
      else
        match p_conj fuel r with
        | Some (c, r2) =>
            if existsb is_type_term c then
              match p_def_end r2 with
              | Some (d, r3) => Some (VDef ident c d, r3)
              | None => None
              end
            else None
        | None => None
        end
  | KAddOp :: r =>
      if is_doc_dot r then
        match r with
        | KDoc d :: KDot :: r' => Some (VAdd ident [] (Some d), r')
        | _ => None
        end
      else
        match p_conj fuel r with
        | Some (c, r2) => match p_def_end r2 with
                          | Some (d, r3) => Some (VAdd ident c d, r3)
                          | None => None
                          end
        | None => None
        end
  | _ => None
  end.

(* _parse_tdl: the sequence of events; envs = stack of open environment types *)
Fixpoint p_events (fuel : nat) (ts : list ttok) (envs : list str) : option (list tevent) :=
  match fuel with
  | O => None
  | S f =>
      match ts with
      | [] => Some []
      | KBlockC s :: r => option_map (cons (VBlockC s)) (p_events f r envs)
      | KLineC s :: r => option_map (cons (VLineC s)) (p_events f r envs)
      | KMorph b :: r =>
          match parse_morph b with
          | Some (l, v, cs) => option_map (cons (VMorph l v cs)) (p_events f r envs)
          | None => None
          end
      | KIdent i :: r =>
          match p_definition f i r with
          | Some (e, r') => option_map (cons e) (p_events f r' envs)
          | None => None
          end
      | KBegin :: KEnvType t :: r =>
          if str_eqb t ENV_INSTANCE then
            match r with
            | KStatus :: KIdent s :: KDot :: r' => option_map (cons (VBegin t (Some s))) (p_events f r' (t :: envs))
            | KDot :: r' => option_map (cons (VBegin t (Some INSTANCE_W))) (p_events f r' (t :: envs))
            | _ => None
            end
          else
            match r with
            | KDot :: r' => option_map (cons (VBegin t None)) (p_events f r' (t :: envs))
            | _ => None
            end
      | KEnd :: KEnvType t :: KDot :: r =>
          match envs with
          | cur :: envs' => if str_eqb t cur then option_map (cons (VEnd t)) (p_events f r envs') else None
          | [] => None
          end
      | KInclude :: KStr s :: KDot :: r => option_map (cons (VInclude s)) (p_events f r envs)
      | _ => None
      end
  end.
