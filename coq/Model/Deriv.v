(* Executable model of delphin/derivation.py (C16): derivation trees, the
   UDF/UDX formatter, the stack machine of from_string over the token level,
   the dictionary form, and the navigation helpers.  Scores are carried as
   their printed (%g) text. *)
From Coq Require Import List NArith ZArith Bool Arith.
From PyD Require Import Base.Str Base.Dec.
Import ListNotations.

Inductive tree :=
| TNode (id : option Z) (entity : str) (score : str) (start stop : Z)
        (head : bool) (type : option str) (dtrs : list tree)
| TTerm (form : str) (tokens : list (Z * str)).

(* ---- formatting: _to_udf ---- *)
Definition SP : N := 32. Definition LFc : N := 10. Definition QT : N := 34.
Definition LP : N := 40. Definition RP : N := 41.

Definition delim (indent : option nat) (level : nat) : str :=
  match indent with
  | None => [SP]
  | Some k => LFc :: repeat SP (k * level)
  end.

Definition nonempty (o : option str) : bool := match o with Some (_ :: _) => true | _ => false end.

Definition ent_text (udx : bool) (entity : str) (head : bool) (type : option str) : str :=
  if udx then
    (if head then [94%N] else []) ++ entity ++
    (match type with Some (c :: t) => 64%N :: c :: t | _ => [] end)
  else entity.

Fixpoint to_udf (indent : option nat) (udx : bool) (level : nat) (t : tree) : str :=
  let d := delim indent level in
  match t with
  | TNode id entity score start stop head type dtrs =>
      let ds := flat_map (fun c => d ++ to_udf indent udx (S level) c) dtrs in
      let e := ent_text udx entity head type in
      match id with
      | None => [LP] ++ e ++ ds ++ [RP]
      | Some i => [LP] ++ Z_to_dec i ++ [SP] ++ e ++ [SP] ++ score ++ [SP] ++ Z_to_dec start ++
                  [SP] ++ Z_to_dec stop ++ ds ++ [RP]
      end
  | TTerm form tokens =>
      [LP] ++ [QT] ++ form ++ [QT] ++
      flat_map (fun tk => d ++ Z_to_dec (fst tk) ++ [SP; QT] ++ snd tk ++ [QT]) tokens ++ [RP]
  end.

(* ---- the token level of the UDF syntax and the stack machine of _from_string ---- *)
Inductive utok :=
| UOpen (id : Z) (entity : str) (score : str) (start stop : Z)   (* "id entity score start end (" *)
| URoot (name : str)                                             (* "name (" *)
| UTerm (form : str) (tokens : list (Z * str))                   (* "\"form\" toks )" *)
| UDone.                                                          (* ")" *)

(* entity text -> (entity, head, type): partition('@'), leading '^' *)
Fixpoint split_at (c : N) (s : str) : str * option str :=
  match s with
  | [] => ([], None)
  | x :: s' => if N.eqb x c then ([], Some s')
               else let '(a, b) := split_at c s' in (x :: a, b)
  end.
Definition parse_entity (e : str) : str * bool * option str :=
  let '(ent, ty) := split_at 64 e in
  let '(ent', head) := match ent with
                       | x :: r => if N.eqb x 94 then (r, true) else (ent, false)
                       | [] => (ent, false) end in
  (ent', head, match ty with Some (c :: t) => Some (c :: t) | _ => None end).

Fixpoint toks_of (udx : bool) (t : tree) : list utok :=
  match t with
  | TNode id entity score start stop head type dtrs =>
      let e := ent_text udx entity head type in
      (match id with
       | None => URoot e
       | Some i => UOpen i e score start stop end) ::
      flat_map (toks_of udx) dtrs ++ [UDone]
  | TTerm form tokens => [UTerm form tokens]
  end.

(* a frame: a node whose daughters are still being collected (reversed) *)
Record frame := { f_id : option Z; f_entity : str; f_score : str; f_start : Z; f_stop : Z;
                  f_head : bool; f_type : option str; f_rev : list tree }.
Definition close (f : frame) : tree :=
  TNode (f_id f) (f_entity f) (f_score f) (f_start f) (f_stop f) (f_head f) (f_type f) (rev (f_rev f)).
Definition add_dtr (f : frame) (t : tree) : frame :=
  {| f_id := f_id f; f_entity := f_entity f; f_score := f_score f; f_start := f_start f;
     f_stop := f_stop f; f_head := f_head f; f_type := f_type f; f_rev := t :: f_rev f |}.

(* None = DerivationSyntaxError / IndexError *)
Fixpoint build (toks : list utok) (stack : list frame) : option tree :=
  match toks with
  | [] => None                                   (* deriv is None *)
  | UDone :: rest =>
      match stack with
      | [] => None                               (* stack.pop() on empty *)
      | f :: [] => Some (close f)                (* the outermost node is complete: stop *)
      | f :: p :: st => build rest (add_dtr p (close f) :: st)
      end
  | UTerm form tokens :: rest =>
      match stack with
      | [] => None
      | p :: st => build rest (add_dtr p (TTerm form tokens) :: st)
      end
  | UOpen i e score a b :: rest =>
      let '(ent, head, ty) := parse_entity e in
      build rest ({| f_id := Some i; f_entity := ent; f_score := score; f_start := a; f_stop := b;
                     f_head := head; f_type := ty; f_rev := [] |} :: stack)
  | URoot name :: rest =>
      build rest ({| f_id := None; f_entity := name; f_score := []; f_start := 0; f_stop := 0;
                     f_head := false; f_type := None; f_rev := [] |} :: stack)
  end.

(* what a parse of the UDF/UDX text of t yields: UDF forgets head marks and
   types; an empty type is no type *)
Fixpoint normalise (udx : bool) (t : tree) : tree :=
  match t with
  | TNode id entity score start stop head type dtrs =>
      TNode id entity score start stop (udx && head)
            (if udx then (match type with Some (c :: r) => Some (c :: r) | _ => None end) else None)
            (map (normalise udx) dtrs)
  | TTerm f tk => TTerm f tk
  end.

(* ---- dictionary form ---- *)
Inductive dval :=
| DNode (id : option Z) (entity : str) (score : str) (start stop : Z) (head : bool) (type : option str)
        (form : option (str * list (Z * str)))          (* a preterminal carries its terminal inline *)
        (dtrs : list dval).

(* _to_dict_recursive with all fields; None when the tree has a shape the
   dictionary form cannot carry (a terminal beside other daughters) *)
Fixpoint seq_opts {A} (l : list (option A)) : option (list A) :=
  match l with
  | [] => Some []
  | None :: _ => None
  | Some x :: l' => match seq_opts l' with Some r => Some (x :: r) | None => None end
  end.

Fixpoint to_dict (t : tree) : option dval :=
  match t with
  | TTerm _ _ => None
  | TNode id e sc a b h ty dtrs =>
      match dtrs with
      | [TTerm f tk] => Some (DNode id e sc a b h ty (Some (f, tk)) [])
      | _ => match seq_opts (map to_dict dtrs) with
             | Some ds => Some (DNode id e sc a b h ty None ds)
             | None => None
             end
      end
  end.

Fixpoint from_dict (d : dval) : tree :=
  match d with
  | DNode id e sc a b h ty (Some (f, tk)) _ => TNode id e sc a b h ty [TTerm f tk]
  | DNode id e sc a b h ty None ds => TNode id e sc a b h ty (map from_dict ds)
  end.

(* ---- navigation ---- *)
Definition is_term (t : tree) : bool := match t with TTerm _ _ => true | _ => false end.

Fixpoint terminals (t : tree) : list tree :=
  match t with
  | TTerm _ _ => []
  | TNode _ _ _ _ _ _ _ dtrs =>
      flat_map (fun d => if is_term d then [d] else terminals d) dtrs
  end.

Fixpoint preterminals (t : tree) : list tree :=
  match t with
  | TTerm _ _ => []
  | TNode _ _ _ _ _ _ _ dtrs =>
      flat_map (fun d => if is_term d then [t] else preterminals d) dtrs
  end.

Fixpoint internals (t : tree) : list tree :=
  match t with
  | TTerm _ _ => []
  | TNode _ _ _ _ _ _ _ dtrs =>
      if existsb is_term dtrs then [] else t :: flat_map internals dtrs
  end.

(* all nonterminal nodes, preorder *)
Fixpoint nonterminals (t : tree) : list tree :=
  match t with
  | TTerm _ _ => []
  | TNode _ _ _ _ _ _ _ dtrs => t :: flat_map nonterminals dtrs
  end.
