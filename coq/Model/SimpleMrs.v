(* Executable model of the SimpleMRS codec (delphin/codecs/simplemrs.py) at
   the level of the token stream of SimpleMRSLexer (C01).

   enc_mrs   = _encode_mrs as the sequence of lexer tokens of its output
   dec_mrs   = _decode_mrs over a token list (None = MRSSyntaxError/ValueError)

   The characters between tokens (blanks, line breaks of the indent option)
   and the regular expressions of the lexer are not modelled: the
   correspondence check compares enc_mrs with the tokens that the real lexer
   produces from the real encoder's text, and dec_mrs with the real decoder. *)
From Coq Require Import List NArith ZArith Bool Arith.
From PyD Require Import Base.Str Base.Dec Model.Hier Model.Mrs Model.Iso.
Import ListNotations.

Inductive lnk := LNone | LChar (a b : Z) | LChart (a b : Z) | LToks (l : list Z) | LEdge (n : Z).

(* Lnk.__bool__ *)
Definition lnk_truthy (l : lnk) : bool :=
  match l with
  | LNone => false
  | LChar a b => negb ((a =? -1)%Z && (b =? -1)%Z)
  | _ => true
  end.

Record xep := { x_pred : str; x_label : str; x_args : list (str * str);
                x_lnk : lnk; x_surface : option str }.
Record xmrs := { xm_top : option str; xm_index : option str; xm_rels : list xep;
                 xm_hcons : list cons3; xm_icons : list cons3;
                 xm_vars : list (str * list (str * str));
                 xm_lnk : lnk; xm_surface : option str }.

Inductive stok :=
| TLB | TRB | TLA | TRA
| TLNK (l : lnk)
| TDQ (raw : str)      (* the text between the double quotes, still escaped *)
| TSQ (s : str)        (* SQSYMBOL, without the quote *)
| TPRED (s : str)      (* matched by the surface-predicate pattern *)
| TFEAT (s : str)      (* feature, without the colon *)
| TSYM (s : str).

(* ---------------------------------------------------------------- *)
(* escaping *)

Definition BSL : N := 92%N.
Definition DQ : N := 34%N.

Fixpoint escape (s : str) : str :=
  match s with
  | [] => []
  | c :: s' => if N.eqb c BSL then BSL :: BSL :: escape s'
               else if N.eqb c DQ then BSL :: DQ :: escape s'
               else c :: escape s'
  end.

(* _unescape: a backslash followed by a character yields that character *)
Fixpoint unescape (s : str) : str :=
  match s with
  | [] => []
  | c :: s' =>
      if N.eqb c BSL then
        match s' with
        | d :: s'' => d :: unescape s''
        | [] => [c]
        end
      else c :: unescape s'
  end.

(* ---------------------------------------------------------------- *)
(* predicates *)

Definition is_space (c : N) : bool :=
  existsb (N.eqb c) [32; 9; 10; 11; 12; 13; 28; 29; 30; 31; 133; 160; 5760; 8232; 8233; 8239; 8287; 12288]%N
  || (N.leb 8192 c && N.leb c 8202).

(* _encode_predicate: quoted when it contains white space, a quote, colon, angle or square bracket *)
Definition needs_quote (p : str) : bool :=
  existsb (fun c => is_space c || existsb (N.eqb c) [34; 39; 58; 60; 62; 91; 93]%N) p.

Definition REL_SUFFIX : str := [95; 114; 101; 108]%N.   (* _rel *)

Definition lastn {A} (n : nat) (l : list A) : list A := skipn (length l - n) l.

(* predicate._strip_predicate *)
Definition strip_pred (s : str) : str :=
  let s1 := match s with
            | 34%N :: t => match rev t with
                           | 34%N :: r => rev r
                           | [] => []            (* the one-character string is its own closing quote *)
                           | _ => s
                           end
            | 39%N :: t => t
            | _ => s
            end in
  if str_eqb (ascii_lower (lastn 4 s1)) REL_SUFFIX then firstn (length s1 - 4) s1 else s1.

Definition normalize_pred (s : str) : str := ascii_lower (strip_pred s).

(* ---------------------------------------------------------------- *)
(* encoder *)

Definition vprops := list (str * list (str * str)).

Fixpoint dict_del {A} (k : str) (d : list (str * A)) : list (str * A) :=
  match d with
  | [] => []
  | (k', v) :: d' => if str_eqb k k' then d' else (k', v) :: dict_del k d'
  end.

Definition enc_props (ps : list (str * str)) : list stok :=
  flat_map (fun kv => [TFEAT (fst kv); TSYM (snd kv)]) (sort_props ps).

(* _encode_variable; None = variable.type raises ValueError *)
Definition enc_var (v : str) (vp : vprops) : option (list stok * vprops) :=
  match dict_get v vp with
  | Some (p :: ps) =>
      match var_type v with
      | Some t => Some ([TSYM v; TLB; TSYM t] ++ enc_props (p :: ps) ++ [TRB], dict_del v vp)
      | None => None
      end
  | _ => Some ([TSYM v], vp)
  end.

(* role_priority *)
Definition role_key (r : str) : bool * bool * str :=
  let u := ascii_upper r in
  (negb (str_eqb u [76;66;76]%N), str_eqb u BODY || str_eqb u CARG_ROLE, u).
Definition bool_ltb (a b : bool) : bool := negb a && b.
Definition role_ltb (a b : str) : bool :=
  let '(a1, a2, a3) := role_key a in
  let '(b1, b2, b3) := role_key b in
  bool_ltb a1 b1 || (Bool.eqb a1 b1 && (bool_ltb a2 b2 || (Bool.eqb a2 b2 && str_ltb a3 b3))).
Fixpoint insert_role (x : str * str) (l : list (str * str)) : list (str * str) :=
  match l with
  | [] => [x]
  | y :: l' => if role_ltb (fst y) (fst x) then y :: insert_role x l' else x :: y :: l'
  end.
Definition sort_roles (l : list (str * str)) : list (str * str) := fold_right insert_role [] l.

Definition enc_lnk_tok (l : lnk) : list stok :=
  match l with LNone => [] | _ => [TLNK l] end.

Definition enc_surface (s : option str) : list stok :=
  match s with Some t => [TDQ (escape t)] | None => [] end.

(* how the lexer classifies an unquoted predicate is left to the parameter
   `cls` (true = PREDICATE pattern, false = SYMBOL) *)
Definition enc_pred (cls : str -> bool) (p : str) : stok :=
  if needs_quote p then TDQ (escape p) else if cls p then TPRED p else TSYM p.

Fixpoint enc_args (args : list (str * str)) (vp : vprops) : option (list stok * vprops) :=
  match args with
  | [] => Some ([], vp)
  | (r, a) :: args' =>
      if str_eqb r CARG_ROLE then
        match enc_args args' vp with
        | Some (ts, vp') => Some (TFEAT r :: TDQ (escape a) :: ts, vp')
        | None => None
        end
      else
        match enc_var a vp with
        | Some (tv, vp1) =>
            match enc_args args' vp1 with
            | Some (ts, vp') => Some (TFEAT r :: tv ++ ts, vp')
            | None => None
            end
        | None => None
        end
  end.

Definition LBL : str := [76;66;76]%N.

Definition enc_rel (cls : str -> bool) (lnkopt : bool) (e : xep) (vp : vprops) : option (list stok * vprops) :=
  match enc_args (sort_roles (x_args e)) vp with
  | Some (ta, vp') =>
      Some ([TLB; enc_pred cls (x_pred e)]
            ++ (if lnkopt then enc_lnk_tok (x_lnk e) ++ enc_surface (x_surface e) else [])
            ++ [TFEAT LBL; TSYM (x_label e)] ++ ta ++ [TRB], vp')
  | None => None
  end.

Fixpoint enc_rels (cls : str -> bool) (lnkopt : bool) (rels : list xep) (vp : vprops) : option (list stok * vprops) :=
  match rels with
  | [] => Some ([], vp)
  | e :: rels' =>
      match enc_rel cls lnkopt e vp with
      | Some (t1, vp1) =>
          match enc_rels cls lnkopt rels' vp1 with
          | Some (ts, vp') => Some (t1 ++ ts, vp')
          | None => None
          end
      | None => None
      end
  end.

Definition enc_hcons (hs : list cons3) : list stok :=
  flat_map (fun h => let '(hi, rel, lo) := h in [TSYM hi; TSYM rel; TSYM lo]) hs.

Fixpoint enc_icons (ics : list cons3) (vp : vprops) : option (list stok * vprops) :=
  match ics with
  | [] => Some ([], vp)
  | (l, rel, r) :: ics' =>
      match enc_var l vp with
      | Some (tl, vp1) =>
          match enc_var r vp1 with
          | Some (tr, vp2) =>
              match enc_icons ics' vp2 with
              | Some (ts, vp') => Some (tl ++ TSYM rel :: tr ++ ts, vp')
              | None => None
              end
          | None => None
          end
      | None => None
      end
  end.

Definition TOP_F : str := [84;79;80]%N.
Definition LTOP_F : str := [76;84;79;80]%N.
Definition INDEX_F : str := [73;78;68;69;88]%N.
Definition RELS_F : str := [82;69;76;83]%N.
Definition HCONS_F : str := [72;67;79;78;83]%N.
Definition ICONS_F : str := [73;67;79;78;83]%N.

Definition wrap (f : str) (body : list stok) : list stok :=
  match body with [] => [] | _ => TFEAT f :: TLA :: body ++ [TRA] end.

(* _encode_mrs; also returns the properties that were never emitted *)
Definition enc_mrs_full (cls : str -> bool) (propopt lnkopt : bool) (m : xmrs) : option (list stok * vprops) :=
  let vp0 : vprops := if propopt then xm_vars m else [] in
  let t_surf := if lnkopt then (if lnk_truthy (xm_lnk m) then [TLNK (xm_lnk m)] else []) ++ enc_surface (xm_surface m)
                else [] in
  let t_top := match xm_top m with Some t => [TFEAT TOP_F; TSYM t] | None => [] end in
  match (match xm_index m with
         | Some i => match enc_var i vp0 with Some (ti, vp1) => Some (TFEAT INDEX_F :: ti, vp1) | None => None end
         | None => Some ([], vp0) end) with
  | None => None
  | Some (t_index, vp1) =>
      match enc_rels cls lnkopt (xm_rels m) vp1 with
      | None => None
      | Some (t_rels, vp2) =>
          match enc_icons (xm_icons m) vp2 with
          | None => None
          | Some (t_icons, vp3) =>
              Some (TLB :: t_surf ++ t_top ++ t_index ++ wrap RELS_F t_rels
                        ++ wrap HCONS_F (enc_hcons (xm_hcons m)) ++ wrap ICONS_F t_icons ++ [TRB], vp3)
          end
      end
  end.

Definition enc_mrs cls propopt lnkopt m : option (list stok) := option_map fst (enc_mrs_full cls propopt lnkopt m).

(* ---------------------------------------------------------------- *)
(* decoder *)

(* the property loop of _decode_variable: (FEATURE SYMBOL)* RBRACK *)
Fixpoint dec_props (ts : list stok) (props : list (str * str)) : option (list (str * str) * list stok) :=
  match ts with
  | TFEAT f :: TSYM v :: ts' => dec_props ts' (dict_set (ascii_upper f) (ascii_lower v) props)
  | TRB :: ts' => Some (props, ts')
  | _ => None
  end.

(* _decode_variable *)
Definition dec_var (ts : list stok) (vars : vprops) : option (str * list stok * vprops) :=
  match ts with
  | TSYM s :: ts1 =>
      let v := ascii_lower s in
      let props := match dict_get v vars with Some p => p | None => [] end in
      match ts1 with
      | TLB :: ts2 =>
          let ts3 := match ts2 with TSYM _ :: r => r | _ => ts2 end in
          match dec_props ts3 props with
          | Some (props', ts4) => Some (v, ts4, dict_set v props' vars)
          | None => None
          end
      | _ => Some (v, ts1, dict_set v props vars)
      end
  | _ => None
  end.

Definition dec_lnk (ts : list stok) : lnk * list stok :=
  match ts with TLNK l :: r => (l, r) | _ => (LNone, ts) end.
Definition dec_dq (ts : list stok) : option str * list stok :=
  match ts with TDQ raw :: r => (Some (unescape raw), r) | _ => (None, ts) end.

Fixpoint dec_args (fuel : nat) (ts : list stok) (args : list (str * str)) (vars : vprops)
  : option (list (str * str) * list stok * vprops) :=
  match fuel with
  | O => None
  | S fuel' =>
      match ts with
      | TFEAT r :: ts1 =>
          let role := ascii_upper r in
          if str_eqb role CARG_ROLE then
            match ts1 with
            | TDQ raw :: ts2 => dec_args fuel' ts2 (dict_set role (unescape raw) args) vars
            | _ => None
            end
          else
            match dec_var ts1 vars with
            | Some (v, ts2, vars') => dec_args fuel' ts2 (dict_set role v args) vars'
            | None => None
            end
      | _ => Some (args, ts, vars)
      end
  end.

Definition dec_pred (ts : list stok) : option (str * list stok) :=
  match ts with
  | TDQ raw :: r => Some (normalize_pred (unescape raw), r)
  | TSQ s :: r => Some (normalize_pred s, r)
  | TPRED s :: r => Some (normalize_pred s, r)
  | TSYM s :: r => Some (normalize_pred s, r)
  | _ => None
  end.

Definition dec_rel_tail (fuel : nat) (pred : str) (lk : lnk) (surf : option str) (ts : list stok) (vars : vprops)
  : option (xep * list stok * vprops) :=
  match ts with
  | TFEAT f :: TSYM lbl :: ts5 =>
      if str_eqb f LBL then
        match dec_args fuel ts5 [] vars with
        | Some (args, TRB :: ts6, vars') =>
            Some ({| x_pred := pred; x_label := ascii_lower lbl; x_args := args;
                     x_lnk := lk; x_surface := surf |}, ts6, vars')
        | _ => None
        end
      else None
  | _ => None
  end.

Definition dec_rel (fuel : nat) (ts : list stok) (vars : vprops) : option (xep * list stok * vprops) :=
  match ts with
  | TLB :: ts1 =>
      match dec_pred ts1 with
      | None => None
      | Some (pred, ts2) =>
          let '(lk, ts3) := dec_lnk ts2 in
          let '(surf, ts4) := dec_dq ts3 in
          dec_rel_tail fuel pred lk surf ts4 vars
      end
  | _ => None
  end.

Fixpoint dec_rels (fuel : nat) (ts : list stok) (acc : list xep) (vars : vprops)
  : option (list xep * list stok * vprops) :=
  match fuel with
  | O => None
  | S fuel' =>
      match ts with
      | TLB :: _ =>
          match dec_rel fuel' ts vars with
          | Some (e, ts', vars') => dec_rels fuel' ts' (acc ++ [e]) vars'
          | None => None
          end
      | TRA :: ts' => Some (acc, ts', vars)
      | _ => None
      end
  end.

(* _decode_cons *)
Definition dec_cons1 (ts : list stok) (vars : vprops) : option (cons3 * list stok * vprops) :=
  match dec_var ts vars with
  | Some (l, TSYM rel :: ts1, vars1) =>
      match dec_var ts1 vars1 with
      | Some (r, ts2, vars2) => Some ((l, ascii_lower rel, r), ts2, vars2)
      | None => None
      end
  | _ => None
  end.

Fixpoint dec_conses (fuel : nat) (ts : list stok) (acc : list cons3) (vars : vprops)
  : option (list cons3 * list stok * vprops) :=
  match fuel with
  | O => None
  | S fuel' =>
      match ts with
      | TSYM _ :: _ =>
          match dec_cons1 ts vars with
          | Some (c, ts', vars') => dec_conses fuel' ts' (acc ++ [c]) vars'
          | None => None
          end
      | TRA :: ts' => Some (acc, ts', vars)
      | _ => None
      end
  end.

Record dstate := { ds_top : option str; ds_index : option str; ds_rels : list xep;
                   ds_hcons : list cons3; ds_icons : list cons3; ds_vars : vprops }.

Fixpoint dec_feats (fuel : nat) (ts : list stok) (st : dstate) : option (dstate * list stok) :=
  match fuel with
  | O => None
  | S fuel' =>
      match ts with
      | TFEAT f0 :: ts1 =>
          let f := ascii_upper f0 in
          if str_eqb f LTOP_F || str_eqb f TOP_F then
            match ts1 with
            | TSYM t :: ts2 =>
                dec_feats fuel' ts2 {| ds_top := Some (ascii_lower t); ds_index := ds_index st; ds_rels := ds_rels st;
                                       ds_hcons := ds_hcons st; ds_icons := ds_icons st; ds_vars := ds_vars st |}
            | _ => None
            end
          else if str_eqb f INDEX_F then
            match dec_var ts1 (ds_vars st) with
            | Some (v, ts2, vars') =>
                dec_feats fuel' ts2 {| ds_top := ds_top st; ds_index := Some v; ds_rels := ds_rels st;
                                       ds_hcons := ds_hcons st; ds_icons := ds_icons st; ds_vars := vars' |}
            | None => None
            end
          else if str_eqb f RELS_F then
            match ts1 with
            | TLA :: ts2 =>
                match dec_rels fuel' ts2 (ds_rels st) (ds_vars st) with
                | Some (rels, ts3, vars') =>
                    dec_feats fuel' ts3 {| ds_top := ds_top st; ds_index := ds_index st; ds_rels := rels;
                                           ds_hcons := ds_hcons st; ds_icons := ds_icons st; ds_vars := vars' |}
                | None => None
                end
            | _ => None
            end
          else if str_eqb f HCONS_F then
            match ts1 with
            | TLA :: ts2 =>
                match dec_conses fuel' ts2 (ds_hcons st) (ds_vars st) with
                | Some (hs, ts3, vars') =>
                    dec_feats fuel' ts3 {| ds_top := ds_top st; ds_index := ds_index st; ds_rels := ds_rels st;
                                           ds_hcons := hs; ds_icons := ds_icons st; ds_vars := vars' |}
                | None => None
                end
            | _ => None
            end
          else if str_eqb f ICONS_F then
            match ts1 with
            | TLA :: ts2 =>
                match dec_conses fuel' ts2 (ds_icons st) (ds_vars st) with
                | Some (ics, ts3, vars') =>
                    dec_feats fuel' ts3 {| ds_top := ds_top st; ds_index := ds_index st; ds_rels := ds_rels st;
                                           ds_hcons := ds_hcons st; ds_icons := ics; ds_vars := vars' |}
                | None => None
                end
            | _ => None
            end
          else None
      | _ => Some (st, ts)
      end
  end.

(* EP.__init__ validates the intrinsic variable *)
Definition xep_ok (e : xep) : bool :=
  match dict_get ARG0 (x_args e) with
  | Some v => match split_var v with Some _ => true | None => false end
  | None => true
  end.

(* _decode_mrs: returns the structure and the remaining tokens *)
Definition dec_mrs (ts : list stok) : option (xmrs * list stok) :=
  match ts with
  | TLB :: ts1 =>
      let '(lk, ts2) := dec_lnk ts1 in
      let '(surf, ts3) := dec_dq ts2 in
      match dec_feats (S (length ts3)) ts3 {| ds_top := None; ds_index := None; ds_rels := []; ds_hcons := [];
                                              ds_icons := []; ds_vars := [] |} with
      | Some (st, TRB :: ts4) =>
          if forallb xep_ok (ds_rels st) then
            Some ({| xm_top := ds_top st; xm_index := ds_index st; xm_rels := ds_rels st;
                     xm_hcons := ds_hcons st; xm_icons := ds_icons st; xm_vars := ds_vars st;
                     xm_lnk := lk; xm_surface := surf |}, ts4)
          else None
      | _ => None
      end
  | _ => None
  end.

(* _decode: a sequence of structures until the tokens are exhausted *)
Fixpoint dec_all (fuel : nat) (ts : list stok) : option (list xmrs) :=
  match fuel with
  | O => None
  | S fuel' =>
      match ts with
      | [] => Some []
      | _ => match dec_mrs ts with
             | Some (m, ts') => option_map (cons m) (dec_all fuel' ts')
             | None => None
             end
      end
  end.
