(* Executable model of itsdb.Table / TestSuite.commit / reload for one table
   (C10).  A row is its tuple of formatted column strings (Row.data); the
   relation file is modelled at row level (joining/splitting lines is C08). *)
From Coq Require Import List ZArith Bool Arith.
From PyD Require Import Base.Str Base.PySlice Model.TsdbFiles.
Import ListNotations.

Definition row := list str.

Record table := {
  t_file : rel row;
  t_rows : list (option row);    (* None = still only on disk, at its own line *)
  t_pc : nat;                    (* _persistent_count *)
  t_vi : nat }.                  (* _volatile_index *)

Definition is_none {A} (o : option A) : bool := match o with None => true | Some _ => false end.

(* _sync_with_file *)
Definition sync (f : rel row) : table :=
  let n := length (content f) in
  {| t_file := f; t_rows := repeat None n; t_pc := n; t_vi := n |}.

(* Table(...): creates an empty plain file when none exists *)
Definition open_table (f : rel row) : table :=
  match read_rel f with
  | Some _ => sync f
  | None => sync {| tx := Some []; gz := gz f; gz_newer := false |}
  end.

Definition in_transaction (t : table) : bool :=
  Nat.ltb (t_pc t) (length (t_rows t)) || Nat.ltb (t_vi t) (t_pc t).

(* _enum_rows: walk memory rows and file lines in parallel *)
Fixpoint enum_go (i : nat) (rows : list (option row)) (lines : list row)
         (want : nat -> bool) : list row :=
  match rows with
  | [] => []
  | r :: rows' =>
      let rest := enum_go (S i) rows' (tl lines) want in
      if want i then
        match r with
        | Some x => x :: rest
        | None => match lines with x :: _ => x :: rest | [] => rest end
        end
      else rest
  end.

Definition t_iter (t : table) : list row :=
  enum_go 0 (t_rows t) (content (t_file t)) (fun _ => true).

Definition t_len (t : table) : nat := length (t_rows t).

Definition in_range (idx : list Z) (i : nat) : bool := existsb (Z.eqb (Z.of_nat i)) idx.

(* _iterslice: None = ValueError (zero step) *)
Definition t_slice (t : table) (s : pyslice) : option (list row) :=
  match slice_indices s (length (t_rows t)) with
  | None => None
  | Some (a, b, c) =>
      let rows := enum_go 0 (t_rows t) (content (t_file t)) (in_range (py_range a b c)) in
      Some (if (c <? 0)%Z then rev rows else rows)
  end.

Inductive gres := GOk (r : row) | GIndexError | GITSDBError.

(* _getitem *)
Definition t_getitem (t : table) (i : Z) : gres :=
  match py_index (length (t_rows t)) i with
  | None => GIndexError
  | Some k =>
      match nth_error (t_rows t) k with
      | Some (Some x) => GOk x
      | Some None => match nth_error (content (t_file t)) k with
                     | Some x => GOk x
                     | None => GITSDBError
                     end
      | None => GIndexError
      end
  end.

(* list slice assignment l[s] = vals : None = ValueError *)
Fixpoint set_nth {A} (l : list A) (k : nat) (v : A) : list A :=
  match l, k with
  | [], _ => []
  | _ :: l', O => v :: l'
  | x :: l', S k' => x :: set_nth l' k' v
  end.

Definition slice_assign {A} (l : list A) (a b c : Z) (vals : list A) : option (list A) :=
  if (c =? 1)%Z then
    let b' := Z.max a b in
    Some (firstn (Z.to_nat a) l ++ vals ++ skipn (Z.to_nat b') l)
  else
    let idx := py_range a b c in
    if Nat.eqb (length idx) (length vals) then
      Some (fold_left (fun acc p => set_nth acc (Z.to_nat (fst p)) (snd p)) (combine idx vals) l)
    else None.

Inductive sres := SOk (t : table) | SValueError (t : table) | SIndexError.

(* __setitem__ with a slice (repaired code: rows that may shift are loaded
   first; the first affected position becomes volatile) *)
Definition t_setslice (t : table) (s : pyslice) (vals : list row) : sres :=
  match slice_indices s (length (t_rows t)) with
  | None => SValueError t
  | Some (a, b, c) =>
      let first := Z.to_nat (Z.max 0 (Z.min a b)) in
      let nsel := length (py_range a b c) in
      let rows1 :=
        if negb (Nat.eqb (length vals) nsel) && existsb is_none (skipn first (t_rows t)) then
          firstn first (t_rows t) ++
          map Some (enum_go 0 (t_rows t) (content (t_file t)) (fun i => Nat.leb first i))
        else t_rows t in
      let t1 := {| t_file := t_file t; t_rows := rows1; t_pc := t_pc t; t_vi := t_vi t |} in
      match slice_assign rows1 a b c (map Some vals) with
      | None => SValueError t1
      | Some rows2 =>
          SOk {| t_file := t_file t; t_rows := rows2; t_pc := t_pc t; t_vi := Nat.min (t_vi t) first |}
      end
  end.

Definition t_setitem (t : table) (i : Z) (v : row) : sres :=
  match py_index (length (t_rows t)) i with
  | None => SIndexError
  | Some k => t_setslice t {| sl_start := Some (Z.of_nat k); sl_stop := Some (Z.of_nat k + 1);
                              sl_step := None |} [v]
  end.

Definition t_clear (t : table) : table :=
  {| t_file := t_file t; t_rows := []; t_pc := t_pc t; t_vi := 0 |}.

Definition t_extend (t : table) (vals : list row) : table :=
  {| t_file := t_file t; t_rows := t_rows t ++ map Some vals; t_pc := t_pc t; t_vi := t_vi t |}.

(* update(index, {column k: v}) *)
Definition t_update (t : table) (i : Z) (k : nat) (v : str) : sres :=
  match t_getitem t i with
  | GOk r => t_setitem t i (set_nth r k v)
  | _ => SIndexError
  end.

(* TestSuite.commit for this table (repaired: no append onto compressed data) *)
Definition t_commit (t : table) : table :=
  if in_transaction t then
    let append := Nat.leb (t_pc t) (t_vi t) && negb (use_gz (t_file t)) in
    let data :=
      if append then
        match t_slice t {| sl_start := Some (Z.of_nat (t_pc t)); sl_stop := None; sl_step := None |} with
        | Some l => l | None => [] end
      else t_iter t in
    match write_rel (t_file t) data append false with
    | WOk f => sync f
    | WRejected => t          (* NotImplementedError; excluded by the theorem *)
    end
  else sync (t_file t).

Definition t_reload (t : table) : table := sync (t_file t).
