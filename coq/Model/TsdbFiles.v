(* Executable model of the relation-file layer of delphin/tsdb.py (C09):
   _get_paths / get_path / open / write for one relation, generic in the
   type of a stored line. *)
From Coq Require Import List Bool.
Import ListNotations.

Section Files.
Variable L : Type.   (* one stored line *)

(* the two physical forms of a relation and which one is newer when both exist
   (gz_newer = gz.st_mtime > tx.st_mtime) *)
Record rel := { tx : option (list L); gz : option (list L); gz_newer : bool }.

Definition absent : rel := {| tx := None; gz := None; gz_newer := false |}.

(* _get_paths: use_gz *)
Definition use_gz (r : rel) : bool :=
  match gz r with
  | Some _ => match tx r with None => true | Some _ => gz_newer r end
  | None => false
  end.

(* open(): None = TSDBError (neither file exists) *)
Definition read_rel (r : rel) : option (list L) := if use_gz r then gz r else tx r.

Definition content (r : rel) : list L := match read_rel r with Some l => l | None => [] end.

Inductive wres := WOk (r : rel) | WRejected.

Definition is_nil {A} (l : list A) : bool := match l with [] => true | _ => false end.

(* write(dir, name, records, fields, append, gzip): records already joined *)
Definition write_rel (r : rel) (recs : list L) (append gzip : bool) : wres :=
  if append && (gzip || use_gz r) then WRejected
  else if gzip && negb (is_nil recs) then
    (* dest = gz (mode wb), other = tx removed *)
    WOk {| tx := None; gz := Some recs; gz_newer := true |}
  else
    (* dest = tx (mode ab or wb), other = gz removed *)
    WOk {| tx := Some ((if append then match tx r with Some l => l | None => [] end else []) ++ recs);
           gz := None; gz_newer := false |}.

Definition apply_write (r : rel) (op : list L * bool * bool) : rel :=
  match write_rel r (fst (fst op)) (snd (fst op)) (snd op) with
  | WOk r' => r'
  | WRejected => r
  end.

(* the abstract meaning of a write on the list of stored lines *)
Definition spec_write (r : rel) (c : list L) (op : list L * bool * bool) : list L :=
  let '(recs, append, gzip) := op in
  if append && (gzip || use_gz r) then c
  else if append then c ++ recs else recs.

End Files.

Arguments tx {L}. Arguments gz {L}. Arguments gz_newer {L}.
Arguments absent {L}. Arguments use_gz {L}. Arguments read_rel {L}. Arguments content {L}.
Arguments WOk {L}. Arguments WRejected {L}. Arguments write_rel {L}.
Arguments apply_write {L}. Arguments spec_write {L}.
