(* Executable model of delphin/tsql.py (C11): the condition grammar at token
   level (printer and recursive-descent parser), query planning, the hash join
   and condition evaluation. *)
From Coq Require Import List NArith ZArith Bool Arith.
From PyD Require Import Base.Str Base.Dec Base.Graph Model.Tsdb Model.TsdbDate Model.Hier.
Import ListNotations.

(* ---- conditions ---- *)
Inductive lit := LInt (z : Z) | LStr (s : str) | LDate (t : dt).
Inductive cmpop := OEq | ONe | OLt | OLe | OGt | OGe | ORe | ONre.     (* == != < <= > >= ~ !~ *)

Inductive cond :=
| CCmp (op : cmpop) (col : str) (v : lit)
| CAnd (cs : list cond)
| COr (cs : list cond)
| CNot (c : cond).

(* ---- tokens of the condition part of a query ---- *)
Inductive tok :=
| KWhere | KAnd | KOr | KNot | KLp | KRp | KDot
| KOp (o : cmpop) | KInt (z : Z) | KStr (s : str) | KId (s : str)
| KDate (t : dt).       (* a date literal; the instant is what tsdb.cast makes of its text (C08) *)

(* printer: ctx 0 = a disjunction is expected, 1 = a conjunction, 2 = an atom;
   nested and/or are parenthesised where needed and every `not` always is *)
Fixpoint join_tok (sep : tok) (l : list (list tok)) : list tok :=
  match l with
  | [] => []
  | [x] => x
  | x :: l' => x ++ sep :: join_tok sep l'
  end.

Fixpoint print (ctx : nat) (c : cond) : list tok :=
  match c with
  | CCmp o col (LInt z) => [KId col; KOp o; KInt z]
  | CCmp o col (LStr s) => [KId col; KOp o; KStr s]
  | CCmp o col (LDate t) => [KId col; KOp o; KDate t]
  | CNot x => [KLp; KNot] ++ print 0 x ++ [KRp]
  | COr cs =>
      let body := join_tok KOr (map (print 1) cs) in
      match ctx with O => body | _ => [KLp] ++ body ++ [KRp] end
  | CAnd cs =>
      let body := join_tok KAnd (map (print 2) cs) in
      match ctx with O | S O => body | _ => [KLp] ++ body ++ [KRp] end
  end.

(* ---- the recursive-descent parser of conditions (fuel = number of tokens) ---- *)
(* None = TSQLSyntaxError *)
Definition regex_op (o : cmpop) : bool := match o with ORe | ONre => true | _ => false end.
Definition order_op (o : cmpop) : bool := match o with OLt | OLe | OGt | OGe => true | _ => false end.

Definition parse_statement (col : str) (ts : list tok) : option (cond * list tok) :=
  match ts with
  | KOp o :: KInt z :: rest => if regex_op o then None else Some (CCmp o col (LInt z), rest)
  | KOp o :: KStr s :: rest => if order_op o then None else Some (CCmp o col (LStr s), rest)
  | KOp o :: KDate t :: rest => if regex_op o then None else Some (CCmp o col (LDate t), rest)
  | _ => None
  end.

Definition mk_or (cs : list cond) : cond := match cs with [c] => c | _ => COr cs end.
Definition mk_and (cs : list cond) : cond := match cs with [c] => c | _ => CAnd cs end.

(* pdl: conjunction (OR conjunction)* ; pcl: item (AND item)* ; pitem: not D | ( D ) | statement.
   The while-loops of the parser are unrolled by recursion on the fuel. *)
Fixpoint pdl (fuel : nat) (ts : list tok) : option (list cond * list tok) :=
  match fuel with
  | O => None
  | S f =>
      match pcl f ts with
      | Some (cs, KOr :: rest) =>
          match pdl f rest with
          | Some (ds, rest') => Some (mk_and cs :: ds, rest')
          | None => None
          end
      | Some (cs, rest) => Some ([mk_and cs], rest)
      | None => None
      end
  end
with pcl (fuel : nat) (ts : list tok) : option (list cond * list tok) :=
  match fuel with
  | O => None
  | S f =>
      match pitem f ts with
      | Some (c, KAnd :: rest) =>
          match pcl f rest with
          | Some (cs, rest') => Some (c :: cs, rest')
          | None => None
          end
      | Some (c, rest) => Some ([c], rest)
      | None => None
      end
  end
with pitem (fuel : nat) (ts : list tok) : option (cond * list tok) :=
  match fuel with
  | O => None
  | S f =>
      match ts with
      | KNot :: rest =>
          match pdl f rest with
          | Some (ds, rest') => Some (CNot (mk_or ds), rest')
          | None => None
          end
      | KLp :: rest =>
          match pdl f rest with
          | Some (ds, KRp :: rest') => Some (mk_or ds, rest')
          | _ => None
          end
      | KId col :: rest => parse_statement col rest
      | _ => None
      end
  end.

Definition parse_disj (fuel : nat) (ts : list tok) : option (cond * list tok) :=
  match pdl fuel ts with
  | Some (ds, rest) => Some (mk_or ds, rest)
  | None => None
  end.

(* _parse_select_where: repeated where clauses mean conjunction *)
Fixpoint parse_where (n : nat) (ts : list tok) (acc : list cond) : option (option cond * list tok) :=
  match n with
  | O => None
  | S n' =>
      match ts with
      | KWhere :: rest =>
          match parse_disj (40 * S (length rest)) rest with
          | Some (c, rest') => parse_where n' rest' (acc ++ [c])
          | None => None
          end
      | _ => Some (match acc with [] => None | [c] => Some c | cs => Some (CAnd cs) end, ts)
      end
  end.

(* ---- databases ---- *)
Record tfield := { tf_name : str; tf_type : dtype; tf_key : bool }.
Record relation := { r_name : str; r_fields : list tfield; r_rows : list (list raw) }.
Definition db := list relation.

Definition find_rel (d : db) (n : str) : option relation :=
  find (fun r => str_eqb (r_name r) n) d.

Definition qname := (str * str)%type.       (* (relation, column) *)
Definition qn_eqb (a b : qname) : bool := str_eqb (fst a) (fst b) && str_eqb (snd a) (snd b).

Definition has_col (r : relation) (c : str) : bool := existsb (fun f => str_eqb (tf_name f) c) (r_fields r).

(* rpartition('.') : None when there is no dot *)
Fixpoint tw_notdot (l : list N) : list N :=
  match l with x :: l' => if N.eqb x 46 then [] else x :: tw_notdot l' | [] => [] end.
Definition rsplit_dot (s : str) : option (str * str) :=
  let r := rev s in
  let after := tw_notdot r in
  if Nat.eqb (length after) (length r) then None
  else Some (rev (skipn (S (length after)) r), rev after).

(* _make_qname_resolver: an unqualified column goes to the first relation
   (preferring those named in `from`, then schema order) that has it.
   None = TSQLError (undefined column) / KeyError *)
Definition resolve (d : db) (relations : list str) (col : str) : option (qname * tfield) :=
  let look := fun (rel c : str) =>
    match find_rel d rel with
    | Some r => match find (fun f => str_eqb (tf_name f) c) (rev (r_fields r)) with
                | Some f => Some ((rel, c), f)
                | None => None end
    | None => None
    end in
  match rsplit_dot col with
  | Some (rel, c) => look rel c
  | None =>
      let owners := map r_name (filter (fun r => has_col r col) d) in
      let pref := filter (fun n => mem n relations) owners ++ filter (fun n => negb (mem n relations)) owners in
      match pref with
      | rel :: _ => look rel col
      | [] => None
      end
  end.

(* _project_all *)
Definition project_all (d : db) (relations : list str) : option (list qname) :=
  (fix go (rels : list str) (keys_added : list str) : option (list qname) :=
     match rels with
     | [] => Some []
     | n :: rels' =>
         match find_rel d n with
         | None => None
         | Some r =>
             let step := fold_left (fun acc f =>
                           let '(out, ka) := acc in
                           if negb (tf_key f) then (out ++ [(n, tf_name f)], ka)
                           else if mem (tf_name f) ka then (out, ka)
                           else (out ++ [(n, tf_name f)], tf_name f :: ka))
                         (r_fields r) ([], keys_added) in
             match go rels' (snd step) with
             | Some rest => Some (fst step ++ rest)
             | None => None
             end
         end
     end) relations [].

(* resolved conditions carry qualified names *)
Inductive rcond :=
| RCmp (op : cmpop) (q : qname) (v : lit)
| RAnd (cs : list rcond) | ROr (cs : list rcond) | RNot (c : rcond).

Definition type_ok (t : dtype) (v : lit) : bool :=
  match t, v with
  | TStr, LStr _ => true
  | TInt, LInt _ => true
  | TFloat, LInt _ => true
  | TDate, LDate _ => true
  | _, _ => false
  end.

Fixpoint seqo {A} (l : list (option A)) : option (list A) :=
  match l with
  | [] => Some []
  | None :: _ => None
  | Some x :: l' => match seqo l' with Some r => Some (x :: r) | None => None end
  end.

(* _process_condition_fields: resolution + type check; fields in first-seen order *)
Fixpoint resolve_cond (d : db) (relations : list str) (c : cond) : option rcond :=
  match c with
  | CCmp o col v =>
      match resolve d relations col with
      | Some (q, f) => if type_ok (tf_type f) v then Some (RCmp o q v) else None
      | None => None
      end
  | CAnd cs => option_map RAnd (seqo (map (resolve_cond d relations) cs))
  | COr cs => option_map ROr (seqo (map (resolve_cond d relations) cs))
  | CNot x => option_map RNot (resolve_cond d relations x)
  end.

Fixpoint cond_fields (c : rcond) : list qname :=
  match c with
  | RCmp _ q _ => [q]
  | RAnd cs | ROr cs => flat_map cond_fields cs
  | RNot x => cond_fields x
  end.

(* sorted(fieldset): the condition's fields as a sorted set of 'rel.col' strings *)
Definition qn_str (q : qname) : str := fst q ++ [46%N] ++ snd q.

(* ---- join and evaluation ---- *)
(* a selection: its columns (relation, field) and its rows *)
Record selection := { s_cols : list (str * tfield); s_rows : list (list raw) }.

Definition col_index (cols : list (str * tfield)) (q : qname) : option nat :=
  (fix go (l : list (str * tfield)) (i : nat) : option nat :=
     match l with
     | [] => None
     | (r, f) :: l' => if str_eqb r (fst q) && str_eqb (tf_name f) (snd q) then Some i else go l' (S i)
     end) cols 0%nat.
(* bare names map to the first column of that name *)
Definition bare_index (cols : list (str * tfield)) (c : str) : option nat :=
  (fix go (l : list (str * tfield)) (i : nat) : option nat :=
     match l with
     | [] => None
     | (_, f) :: l' => if str_eqb (tf_name f) c then Some i else go l' (S i)
     end) cols 0%nat.

Definition nth_raw (row : list raw) (i : nat) : raw := match nth_error row i with Some v => v | None => None end.

(* key values are compared after casting: None = an error while casting *)
Definition cast_key (t : dtype) (v : raw) : castres := cast_val t v.
Definition castres_eqb (a b : castres) : bool :=
  match a, b with
  | COk VNone, COk VNone => true
  | COk (VInt x), COk (VInt y) => Z.eqb x y
  | COk (VStr x), COk (VStr y) => str_eqb x y
  | _, _ => false
  end.
Definition keys_eqb (a b : list castres) : bool :=
  (fix go (a b : list castres) : bool :=
     match a, b with
     | [], [] => true
     | x :: a', y :: b' => castres_eqb x y && go a' b'
     | _, _ => false
     end) a b.

Definition field_pos (r : relation) (c : str) : option nat :=
  (* make_field_index: the last field of a name wins *)
  (fix go (l : list tfield) (i : nat) (best : option nat) : option nat :=
     match l with
     | [] => best
     | f :: l' => go l' (S i) (if str_eqb (tf_name f) c then Some i else best)
     end) (r_fields r) 0%nat None.

(* group the right rows by key, keeping order: right.setdefault(keys, []).append(row) *)
Fixpoint group_add (k : list castres) (row : list raw) (g : list (list castres * list (list raw)))
  : list (list castres * list (list raw)) :=
  match g with
  | [] => [(k, [row])]
  | (k', rows) :: g' => if keys_eqb k' k then (k', rows ++ [row]) :: g' else (k', rows) :: group_add k row g'
  end.
Fixpoint group_get (k : list castres) (g : list (list castres * list (list raw))) : list (list raw) :=
  match g with
  | [] => []
  | (k', rows) :: g' => if keys_eqb k' k then rows else group_get k g'
  end.

(* _join(selection, db, name, columns, 'inner'); None = TSQLError / ValueError *)
Definition join (sel : option selection) (r : relation) (columns : list str) : option selection :=
  match seqo (map (field_pos r) columns) with
  | None => None
  | Some idxs =>
      let fields := flat_map (fun i => match nth_error (r_fields r) i with Some f => [f] | None => [] end) idxs in
      match sel with
      | None =>
          Some {| s_cols := map (fun f => (r_name r, f)) fields;
                  s_rows := map (fun row => map (nth_raw row) idxs) (r_rows r) |}
      | Some s =>
          let on := filter (fun f => tf_key f &&
                                     match bare_index (s_cols s) (tf_name f) with Some _ => true | None => false end)
                           fields in
          match on with
          | [] => None                                    (* no shared keys for joining *)
          | _ =>
              let rest := filter (fun f => negb (existsb (fun g => str_eqb (tf_name g) (tf_name f)) on)) fields in
              let pos := fun f => match field_pos r (tf_name f) with Some i => i | None => 0%nat end in
              let rkey := fun row => map (fun f => cast_key (tf_type f) (nth_raw row (pos f))) on in
              let rvals := fun row => map (fun f => nth_raw row (pos f)) rest in
              let lkey := fun row => map (fun f =>
                            match bare_index (s_cols s) (tf_name f) with
                            | Some i => cast_key (match nth_error (s_cols s) i with
                                                  | Some (_, g) => tf_type g | None => TStr end)
                                                 (nth_raw row i)
                            | None => CErr end) on in
              if existsb (fun row => existsb (fun k => match k with CErr => true | _ => false end) (rkey row)) (r_rows r)
                 || existsb (fun row => existsb (fun k => match k with CErr => true | _ => false end) (lkey row)) (s_rows s)
              then None
              else
                let right := fold_left (fun g row => group_add (rkey row) (rvals row) g) (r_rows r) [] in
                Some {| s_cols := s_cols s ++ map (fun f => (r_name r, f)) rest;
                        s_rows := flat_map (fun l => map (fun rv => l ++ rv) (group_get (lkey l) right))
                                           (s_rows s) |}
          end
      end
  end.

(* the specification of the join: nested loops *)
Definition nested_loop {K} (keq : K -> K -> bool) (lkey : list raw -> K) (rkey : list raw -> K)
           (rvals : list raw -> list raw) (left right : list (list raw)) : list (list raw) :=
  flat_map (fun l => flat_map (fun r => if keq (rkey r) (lkey l) then [l ++ rvals r] else []) right) left.

(* condition evaluation on one row of the selection; regex matches come from an oracle table *)
Definition regex_oracle := list (str * str * bool).       (* (pattern, value, re.search result) *)
Fixpoint re_lookup (o : regex_oracle) (p v : str) : option bool :=
  match o with
  | [] => None
  | (p', v', b) :: o' => if str_eqb p' p && str_eqb v' v then Some b else re_lookup o' p v
  end.

(* the index a qualified name resolves to after merging: an `on` column of a
   later relation points at the first column of that bare name *)
Definition sel_index (cols : list (str * tfield)) (q : qname) : option nat :=
  match col_index cols q with
  | Some i => Some i
  | None => bare_index cols (snd q)
  end.

(* comparisons on a :date column: the stored text is cast by tsdb.cast (C08); a text
   that is not a date casts to None (with a warning) and then behaves as an empty field *)
Definition is_tdate (t : dtype) : bool := match t with TDate => true | _ => false end.

Fixpoint lex_cmp (a b : list N) : comparison :=
  match a, b with
  | x :: a', y :: b' => match N.compare x y with Eq => lex_cmp a' b' | c => c end
  | [], [] => Eq
  | [], _ => Lt
  | _, [] => Gt
  end.

Definition dt_cmp (a b : dt) : comparison :=
  lex_cmp [dy a; dmo a; dd a; dh a; dmi a; TsdbDate.ds a] [dy b; dmo b; dd b; dh b; dmi b; TsdbDate.ds b].

Definition eval_date (op : cmpop) (r : raw) (v : lit) : option bool :=
  let cast : option (option dt) :=
    match r with
    | None => Some None
    | Some [] => Some None
    | Some s => match parse_datetime s with
                | DSome d => Some (Some d)
                | DNone => Some None
                | DNow | DKeyError => None          (* the clock / an exception *)
                end
    end in
  match cast, op, v with
  | None, _, _ => None
  | Some None, ONre, _ => Some true
  | Some None, _, _ => Some false
  | Some (Some d), OEq, LDate z => Some (match dt_cmp d z with Eq => true | _ => false end)
  | Some (Some d), ONe, LDate z => Some (match dt_cmp d z with Eq => false | _ => true end)
  | Some (Some d), OLt, LDate z => Some (match dt_cmp d z with Lt => true | _ => false end)
  | Some (Some d), OLe, LDate z => Some (match dt_cmp d z with Gt => false | _ => true end)
  | Some (Some d), OGt, LDate z => Some (match dt_cmp d z with Gt => true | _ => false end)
  | Some (Some d), OGe, LDate z => Some (match dt_cmp d z with Lt => false | _ => true end)
  | _, _, _ => None
  end.

(* None = exception while evaluating *)
Fixpoint eval (o : regex_oracle) (cols : list (str * tfield)) (row : list raw) (c : rcond) : option bool :=
  match c with
  | RCmp op q v =>
      match sel_index cols q with
      | None => None
      | Some i =>
          let t := match nth_error cols i with Some (_, f) => tf_type f | None => TStr end in
          if is_tdate t then eval_date op (nth_raw row i) v else
          match cast_val t (nth_raw row i), op, v with
          | CErr, _, _ => None
          | COk VNone, ONre, _ => Some true
          | COk VNone, _, _ => Some false
          | COk (VInt x), OEq, LInt z => Some (Z.eqb x z)
          | COk (VInt x), ONe, LInt z => Some (negb (Z.eqb x z))
          | COk (VInt x), OLt, LInt z => Some (Z.ltb x z)
          | COk (VInt x), OLe, LInt z => Some (Z.leb x z)
          | COk (VInt x), OGt, LInt z => Some (Z.ltb z x)
          | COk (VInt x), OGe, LInt z => Some (Z.leb z x)
          | COk (VStr x), OEq, LStr s => Some (str_eqb x s)
          | COk (VStr x), ONe, LStr s => Some (negb (str_eqb x s))
          | COk (VStr x), ORe, LStr s => re_lookup o s x
          | COk (VStr x), ONre, LStr s => option_map negb (re_lookup o s x)
          | _, _, _ => None
          end
      end
  | RAnd cs =>
      (fix all (l : list rcond) : option bool :=
         match l with
         | [] => Some true
         | x :: l' => match eval o cols row x with
                      | Some true => all l'
                      | Some false => Some false            (* all() short-circuits *)
                      | None => None end
         end) cs
  | ROr cs =>
      (fix any (l : list rcond) : option bool :=
         match l with
         | [] => Some false
         | x :: l' => match eval o cols row x with
                      | Some false => any l'
                      | Some true => Some true
                      | None => None end
         end) cs
  | RNot x => option_map negb (eval o cols row x)
  end.

(* the whole select, given the join plan (relation, columns) the planner produced *)
Definition run_select (d : db) (o : regex_oracle) (plan : list (str * list str)) (proj : list qname)
           (c : option rcond) : option (list (list raw)) :=
  let joined :=
    fold_left (fun acc p => match acc with
                            | None => None
                            | Some sel => match find_rel d (fst p) with
                                          | Some r => option_map Some (join sel r (snd p))
                                          | None => None end
                            end) plan (Some None) in
  match joined with
  | Some (Some s) =>
      let rows :=
        match c with
        | None => Some (s_rows s)
        | Some rc =>
            (fix filt (l : list (list raw)) : option (list (list raw)) :=
               match l with
               | [] => Some []
               | row :: l' => match eval o (s_cols s) row rc, filt l' with
                              | Some b, Some r => Some (if b then row :: r else r)
                              | _, _ => None end
               end) (s_rows s)
        end in
      match rows, seqo (map (sel_index (s_cols s)) proj) with
      | Some rs, Some idxs => Some (map (fun row => map (nth_raw row) idxs) rs)
      | _, _ => None
      end
  | _ => None
  end.

(* ---- _plan_joins / _pivot_relations ---- *)
Definition key_names (r : relation) : list str := map tf_name (filter tf_key (r_fields r)).

Definition key_edges (keys : list str) : list (str * str) :=
  flat_map (fun a => flat_map (fun b => [(a, b); (b, a)]) keys) keys.

(* number of connected components of the key graph that a key list touches *)
Definition comp_of (edges : list (str * str)) (k : str) : list str :=
  reach str str_eqb edges k.
Definition same_comp (edges : list (str * str)) (a b : str) : bool := mem b (comp_of edges a).

Fixpoint count_comps (edges : list (str * str)) (nodes : list str) (reps : list str) : list str :=
  match nodes with
  | [] => reps
  | n :: ns => if existsb (fun r => same_comp edges r n) reps then count_comps edges ns reps
               else count_comps edges ns (reps ++ [n])
  end.

(* None = TSQLError *)
Fixpoint pivots (fuel : nat) (d : db) (relset piv : list str) : option (list str) :=
  let rels := filter (fun r => mem (r_name r) (relset ++ piv)) d in
  let edges := flat_map (fun r => key_edges (key_names r)) rels in
  let nodes := flat_map key_names rels in
  let comps := count_comps edges nodes [] in
  if Nat.leb (length comps) 1 then Some piv
  else match fuel with
       | O => None
       | S f =>
           match find (fun r => negb (mem (r_name r) (relset ++ piv)) &&
                                Nat.ltb 1 (length (key_names r)) &&
                                Nat.ltb 1 (length (filter (fun c => existsb (fun k => same_comp edges c k) (key_names r)) comps)))
                      d with
           | Some r => pivots f d relset (piv ++ [r_name r])
           | None => None
           end
       end.

Definition dedupe_q (l : list qname) : list qname :=
  fold_left (fun acc q => if existsb (qn_eqb q) acc then acc else acc ++ [q]) l [].

Fixpoint jm_add (rel col : str) (jm : list (str * list str)) : list (str * list str) :=
  match jm with
  | [] => [(rel, [col])]
  | (r, cs) :: jm' => if str_eqb r rel then (r, cs ++ [col]) :: jm' else (r, cs) :: jm_add rel col jm'
  end.

Fixpoint pick_join (jm : list (str * list str)) (first : bool) (joined_keys : list str)
  : option ((str * list str) * list (str * list str)) :=
  match jm with
  | [] => None
  | (r, cs) :: jm' =>
      if first || existsb (fun c => mem c joined_keys) cs then Some ((r, cs), jm')
      else match pick_join jm' first joined_keys with
           | Some (x, rest) => Some (x, (r, cs) :: rest)
           | None => None
           end
  end.

Fixpoint order_joins (fuel : nat) (d : db) (jm : list (str * list str)) (joined_keys : list str)
         (acc : list (str * list str)) : option (list (str * list str)) :=
  match jm with
  | [] => Some acc
  | _ =>
      match fuel with
      | O => None
      | S f =>
          match pick_join jm (match acc with [] => true | _ => false end) joined_keys with
          | None => None                       (* 'infinite loop detected!' *)
          | Some ((r, cs), rest) =>
              let ks := match find_rel d r with Some rr => key_names rr | None => [] end in
              order_joins f d rest (joined_keys ++ ks) (acc ++ [(r, cs)])
          end
      end
  end.

(* extra: relations of relset that have no entry yet, in the order given (Python
   iterates a set here: the model is exact when at most one such relation exists) *)
Definition plan_joins (d : db) (proj cfields : list qname) (relations : list str)
  : option (list (str * list str)) :=
  let qs := dedupe_q (proj ++ cfields) in
  let jm0 := fold_left (fun jm q => jm_add (fst q) (snd q) jm) qs [] in
  let relset0 := fold_left (fun acc n => if mem n acc then acc else acc ++ [n]) (relations ++ map fst qs) [] in
  match pivots (length d) d relset0 [] with
  | None => None
  | Some piv =>
      let relset := relset0 ++ piv in
      let jm := fold_left (fun jm n =>
                  match find_rel d n with
                  | None => jm
                  | Some r =>
                      fold_left (fun jm f =>
                                   if tf_key f && negb (existsb (qn_eqb (n, tf_name f)) qs)
                                   then jm_add n (tf_name f) jm else jm) (r_fields r) jm
                  end)
                (map fst jm0 ++ filter (fun n => negb (mem n (map fst jm0))) relset) jm0 in
      order_joins (S (length jm)) d jm [] []
  end.

(* sorted(fieldset) of 'rel.col' strings *)
Fixpoint str_ltb_q (a b : str) : bool :=
  match a, b with
  | _, [] => false
  | [], _ :: _ => true
  | x :: a', y :: b' => if N.ltb x y then true else if N.eqb x y then str_ltb_q a' b' else false
  end.
Fixpoint insert_q (x : qname) (l : list qname) : list qname :=
  match l with
  | [] => [x]
  | y :: l' => if str_ltb_q (qn_str y) (qn_str x) then y :: insert_q x l' else x :: y :: l'
  end.
Definition sort_q (l : list qname) : list qname := fold_right insert_q [] (dedupe_q l).

(* select: resolution, planning, joining, filtering, projecting.
   star = the projection was '*' *)
Definition select (d : db) (o : regex_oracle) (star : bool) (projection relations : list str)
           (c : option cond) : option (list (list raw)) :=
  let proj := if star then project_all d relations
              else seqo (map (fun n => option_map fst (resolve d relations n)) projection) in
  let rc := match c with
            | None => Some None
            | Some x => option_map Some (resolve_cond d relations x) end in
  match proj, rc with
  | Some p, Some rcond =>
      let cf := match rcond with Some x => sort_q (cond_fields x) | None => [] end in
      match plan_joins d p cf relations with
      | Some plan => run_select d o plan p rcond
      | None => None
      end
  | _, _ => None
  end.
