(* Executable model of dmrs.from_mrs (delphin/dmrs/_operations.py) and
   eds.from_mrs (delphin/eds/_operations.py) (C04, C05). *)
From Coq Require Import List NArith ZArith Bool Arith.
From PyD Require Import Base.Str Base.Dec Base.Graph Model.Hier Model.Mrs.
Import ListNotations.

(* ---- common ---- *)
Definition first_rep (reps : list (str * list str)) (lbl : str) : option (option str) :=
  (* None: lbl not in reps; Some None: in reps but empty (reps[lbl][0] raises IndexError) *)
  match dict_get lbl reps with
  | None => None
  | Some [] => Some None
  | Some (i :: _) => Some (Some i)
  end.

Fixpoint index_of_id (ids : list str) (i : str) (k : nat) : option nat :=
  match ids with
  | [] => None
  | x :: ids' => if str_eqb x i then Some k else index_of_id ids' i (S k)
  end.

(* ---- DMRS ---- *)
Record dnode := { dn_id : Z; dn_pred : str; dn_type : option str;
                  dn_props : list (str * str); dn_carg : option str }.
Record dmrs := { d_top : option Z; d_index : option Z; d_nodes : list dnode;
                 d_links : list (Z * Z * str * str); d_warnings : nat }.

Definition FIRST_NODE_ID : Z := 10000%Z.
Definition POST_EQ : str := [69;81]%N.
Definition POST_NEQ : str := [78;69;81]%N.
Definition POST_H : str := [72]%N.
Definition POST_HEQ : str := [72;69;81]%N.
Definition MOD_ROLE : str := [77;79;68]%N.

Inductive cres (A : Type) := COk (a : A) | CIndexError | CInvalid.
Arguments COk {A}. Arguments CIndexError {A}. Arguments CInvalid {A}.

Section DmrsConv.
Variable m : mrs.
Variable ids : list str.
Variable reps : list (str * list str).

Definition eps : list (str * ep) := combine ids (m_rels m).

Definition nid_of (i : str) : Z :=
  match index_of_id ids i 0%nat with
  | Some k => (FIRST_NODE_ID + Z.of_nat k)%Z | None => (-1)%Z end.

(* iv_to_nid: {ep.iv: nid} over non-quantifiers, later entries win *)
Definition iv_to_nid (v : str) : option Z :=
  fold_left (fun acc p => if negb (is_quant (snd p)) &&
                             match e_iv (snd p) with Some x => str_eqb x v | None => false end
                          then Some (nid_of (fst p)) else acc) eps None.

Definition label_of_id (i : str) : option str :=
  match find (fun p => str_eqb (fst p) i) eps with
  | Some p => Some (e_label (snd p)) | None => None end.

Definition top_of : cres (option Z * nat) :=
  match m_top m with
  | None => COk (None, 0%nat)
  | Some tv =>
      let lbl := match hc_get (m_hcons m) tv with Some c => snd c | None => tv end in
      match first_rep reps lbl with
      | None => COk (None, 1%nat)                     (* unusable TOP: warning *)
      | Some None => CIndexError
      | Some (Some i) => COk (Some (nid_of i), 0%nat)
      end
  end.

Definition index_of : option Z :=
  match m_index m with
  | Some v => match v with [] => None | _ => iv_to_nid v end
  | None => None end.

Definition node_of (p : str * ep) : dnode :=
  let '(i, e) := p in
  let '(ty, props) :=
    if is_quant e then (None, [])
    else match e_iv e with
         | Some v => (var_type v, match dict_get v (m_vars m) with Some pr => pr | None => [] end)
         | None => (Some [117%N], [])
         end in
  {| dn_id := nid_of i; dn_pred := e_pred e; dn_type := ty; dn_props := props; dn_carg := e_carg e |}.

(* the end of a scopal link into the scope lbl whose first representative is r: a quantifier
   selects the member of that scope it binds, if there is one (repaired code, F34) *)
Definition scopal_target (e : ep) (lbl : str) (r : str) : str :=
  if is_quant e then
    match find (fun p => str_eqb (e_label (snd p)) lbl && negb (is_quant (snd p)) &&
                         match e_iv (snd p), e_iv e with
                         | Some a, Some b => str_eqb a b
                         | None, None => true
                         | _, _ => false
                         end) eps with
    | Some p => fst p
    | None => r
    end
  else r.

(* one optional link (and possibly a warning) per argument *)
Definition arg_link (i : str) (e : ep) (rv : str * str) : list (Z * Z * str * str) * nat :=
  let '(role, tgt) := rv in
  match iv_to_nid tgt with
  | Some endn =>
      let post := match label_of_id tgt with
                  | Some l => if str_eqb (e_label e) l then POST_EQ else POST_NEQ
                  | None => POST_NEQ end in
      ([(nid_of i, endn, role, post)], 0%nat)
  | None =>
      match hc_get (m_hcons m) tgt with
      | Some c =>
          let w := match dict_get (snd c) reps with Some _ => 0%nat | None => 1%nat end in
          match dict_get (snd c) reps with
          | Some (r :: _) => ([(nid_of i, nid_of (scopal_target e (snd c) r), role, POST_H)], w)
          | _ => ([], w)
          end
      | None =>
          match dict_get tgt reps with
          | Some (r :: _) => ([(nid_of i, nid_of (scopal_target e tgt r), role, POST_HEQ)], 0%nat)
          | _ => ([], 0%nat)
          end
      end
  end.

Definition per_arg : list (list (Z * Z * str * str) * nat) :=
  flat_map (fun p => map (arg_link (fst p) (snd p)) (ep_arguments None (snd p))) eps.

Definition mod_links : list (Z * Z * str * str) :=
  flat_map (fun lr => match snd lr with
                      | f :: rest => map (fun s => (nid_of s, nid_of f, MOD_ROLE, POST_EQ)) rest
                      | [] => [] end) reps.

(* a predication that is neither a representative nor tied by /EQ links to the first
   representative of its scope gets a MOD/EQ link to it as well (one per /EQ component);
   repaired code, F32 *)
Definition eq_edges (ls : list (Z * Z * str * str)) : list (Z * Z) :=
  flat_map (fun l => let '(s, e, _, p) := l in
                     if str_eqb p POST_EQ then [(s, e); (e, s)] else []) ls.

Definition component (edges : list (Z * Z)) (x : Z) : list Z := reach Z Z.eqb edges x.

Definition scope_extra (edges : list (Z * Z)) (first : Z) (members : list Z) : list (Z * Z * str * str) :=
  snd (fold_left (fun acc x =>
                    let '(seen, out) := acc in
                    if existsb (Z.eqb x) seen then acc
                    else (seen ++ component edges x, out ++ [(x, first, MOD_ROLE, POST_EQ)]))
                 members (component edges first, [])).

Definition members_of (lbl : str) : list str :=
  map fst (filter (fun p => str_eqb (e_label (snd p)) lbl) eps).

Definition extra_links : list (Z * Z * str * str) :=
  let edges := eq_edges (flat_map fst per_arg ++ mod_links) in
  flat_map (fun ls : str * list ep =>
              let members := members_of (fst ls) in
              match members, dict_get (fst ls) reps with
              | _ :: _ :: _, Some (f :: _) => scope_extra edges (nid_of f) (map nid_of members)
              | _, _ => []
              end) (scope_map (m_rels m)).

Definition conv_result : cres dmrs :=
  match top_of with
  | COk (top, w1) =>
      COk {| d_top := top; d_index := index_of; d_nodes := map node_of eps;
             d_links := flat_map fst per_arg ++ mod_links ++ extra_links;
             d_warnings := (w1 + fold_left (fun a x => (a + snd x)%nat) per_arg 0%nat)%nat |}
  | CIndexError => CIndexError
  | CInvalid => CInvalid
  end.
End DmrsConv.

Definition dmrs_from_mrs (m : mrs) : cres dmrs :=
  match ep_ids (m_rels m), representatives m with
  | Some ids, Some reps => conv_result m ids reps
  | _, _ => CInvalid
  end.

(* ---- EDS ---- *)
Record enode := { en_id : str; en_pred : str; en_type : option str;
                  en_edges : list (str * str); en_props : list (str * str); en_carg : option str }.
Record eds := { e_top : option str; e_nodes : list enode; e_warnings : nat }.

Definition BV : str := [66;86]%N.
Definition ARG1 : str := [65;82;71;49]%N.

(* dict assignment on (role -> target) edge maps *)
Definition edge_set (role tgt : str) (d : list (str * str)) : list (str * str) := dict_set role tgt d.

(* make_ids_unique: the new id of every predication (LKB style) *)
Definition new_ids_of (eps : list (str * ep)) : list (str * str) :=
  fst (fold_left (fun acc p =>
         let '(out, k) := acc in
         let '(i, e) := p in
         match e_iv e with
         | Some v => if is_quant e then (out ++ [(i, 95%N :: Z_to_dec k)], (k + 1)%Z)
                     else (out ++ [(i, v)], k)
         | None => (out ++ [(i, 95%N :: Z_to_dec k)], (k + 1)%Z)
         end) eps ([], 1%Z)).

Definition rename_id (new_ids : list (str * str)) (i : str) : str :=
  match dict_get i new_ids with Some j => j | None => i end.

Definition rename_nodes (new_ids : list (str * str)) (nodes : list enode) : list enode :=
  map (fun n => {| en_id := rename_id new_ids (en_id n); en_pred := en_pred n; en_type := en_type n;
                   en_edges := map (fun rt => (fst rt, rename_id new_ids (snd rt))) (en_edges n);
                   en_props := en_props n; en_carg := en_carg n |}) nodes.

Definition base_node (m : mrs) (deps : list (str * list (str * str))) (p : str * ep) : enode :=
  let '(i, e) := p in
  let '(ty, props) :=
    if is_quant e then (None, [])
    else match e_iv e with
         | Some v => (var_type v, match dict_get v (m_vars m) with Some pr => pr | None => [] end)
         | None => (None, []) end in
  {| en_id := i; en_pred := e_pred e; en_type := ty;
     en_edges := match dict_get i deps with Some d => d | None => [] end;
     en_props := props; en_carg := e_carg e |}.

Definition add_pm_edge (addl : list (str * str)) (n : enode) : enode :=
  match dict_get (en_id n) addl with
  | Some first => {| en_id := en_id n; en_pred := en_pred n; en_type := en_type n;
                     en_edges := edge_set ARG1 first (en_edges n);
                     en_props := en_props n; en_carg := en_carg n |}
  | None => n end.

Section EdsConv.
Variable m : mrs.
Variable ids : list str.
Variable reps : list (str * list str).
Let eps := combine ids (m_rels m).

(* quantification_pairs: qmap = {q.iv: q}; ivmap = {p.iv: (p, q)} for non-quantifiers p *)
Definition qmap (v : str) : option (str * ep) :=
  fold_left (fun acc p =>
     if is_quant (snd p) && match e_iv (snd p) with Some x => str_eqb x v | None => false end
     then Some p else acc) eps None.
Definition ivmap (v : str) : option ((str * ep) * option (str * ep)) :=
  fold_left (fun acc p =>
     if negb (is_quant (snd p)) && match e_iv (snd p) with Some x => str_eqb x v | None => false end
     then Some (p, qmap v) else acc) eps None.

Definition eds_top : cres (option str * nat) :=
  let hctop := match m_top m with Some t => hc_get (m_hcons m) t | None => None end in
  let via_index :=
    match m_index m with
    | Some ix => match ivmap ix with
                 | Some (p, _) => first_rep reps (e_label (snd p))
                 | None => None end
    | None => None end in
    let fallback (w : nat) :=
      match (match m_top m with Some t => first_rep reps t | None => None end) with
      | Some None => CIndexError
      | Some (Some i) => COk (Some i, w)
      | None => match via_index with
                | Some None => CIndexError
                | Some (Some i) => COk (Some i, w)
                | None => COk (None, S w)                (* unable to find a suitable TOP *)
                end
      end in
    match hctop with
    | Some c => match first_rep reps (snd c) with
                | Some None => CIndexError
                | Some (Some i) => COk (Some i, 0%nat)
                | None => fallback 1%nat                  (* broken handle constraint *)
                end
    | None => fallback 0%nat
    end.

(* basic dependencies: edges[src] for every non-quantifier in ivmap, BV for its quantifier *)
Definition eds_deps : cres (list (str * list (str * str))) * nat :=
    fold_left (fun acc p =>
      match acc with
      | (COk edges, w) =>
          let '(i, e) := p in
          match ivmap i with
          | None => (COk edges, w)
          | Some (_, q) =>
              let r := fold_left (fun acc2 rv =>
                match acc2 with
                | (COk d, w2) =>
                    let '(role, tgt) := rv in
                    match hc_get (m_hcons m) tgt with
                    | Some c => match first_rep reps (snd c) with
                                | Some None => (CIndexError, w2)
                                | Some (Some t) => (COk (edge_set role t d), w2)
                                | None => (COk d, S w2) end
                    | None =>
                        match first_rep reps tgt with
                        | Some None => (CIndexError, w2)
                        | Some (Some t) => (COk (edge_set role t d), w2)
                        | None => match ivmap tgt with
                                  | Some (p2, _) => (COk (edge_set role (fst p2) d), w2)
                                  | None => (COk d, w2) end
                        end
                    end
                | other => other
                end) (ep_arguments None e) (COk [], w) in
              match r with
              | (COk d, w2) =>
                  let edges1 := dict_set i d edges in
                  (COk (match q with Some qp => dict_set (fst qp) [(BV, i)] edges1 | None => edges1 end), w2)
              | (CIndexError, w2) => (CIndexError, w2)
              | (CInvalid, w2) => (CInvalid, w2)
              end
          end
      | other => other
      end) eps (COk [], 0%nat).
End EdsConv.

Definition eds_from_mrs (m : mrs) (predicate_modifiers unique_ids : bool) : cres eds :=
  match ep_ids (m_rels m), representatives m with
  | Some ids, Some reps =>
      let eps := combine ids (m_rels m) in
      let ivmap := ivmap m ids in
      match eds_top m ids reps, eds_deps m ids reps with
      | COk (top, w1), (COk deps, w2) =>
          let nodes0 := map (base_node m deps) eps in
          (* find_predicate_modifiers *)
          let gedges := flat_map (fun n => flat_map (fun rt => [(en_id n, snd rt); (snd rt, en_id n)]) (en_edges n)) nodes0 in
          let comp := fun i => reach str str_eqb gedges i in
          let same := fun a b => mem b (comp a) in
          let ncomps := length (components ids gedges []) in
          let addl :=
            if negb predicate_modifiers || Nat.leb ncomps 1 then []
            else flat_map (fun lr =>
                   match snd lr with
                   | first :: rest =>
                       fst (fold_left (fun acc other =>
                              let '(out, joined) := acc in
                              let e_other := match find (fun p => str_eqb (fst p) other) eps with
                                             | Some p => Some (snd p) | None => None end in
                              let arg1 := match e_other with
                                          | Some e => match dict_get ARG1 (e_args e) with Some v => v | None => [117;48]%N end
                                          | None => [117;48]%N end in
                              let ty := match var_type arg1 with Some t => ascii_lower t | None => [] end in
                              let needs := negb (existsb (fun j => same j other) joined) in
                              if needs && str_eqb ty [117]%N then (out ++ [(other, first)], joined ++ [other])
                              else (out, joined))
                            rest ([], [first]))
                   | [] => [] end) reps in
          let nodes1 := map (add_pm_edge addl) nodes0 in
          if unique_ids then
            (* make_ids_unique, for structures in which no two predications get the same new id *)
            let new_ids := new_ids_of eps in
            if nodupb (map snd new_ids) then
              COk {| e_top := option_map (rename_id new_ids) top;
                     e_nodes := rename_nodes new_ids nodes1;
                     e_warnings := (w1 + w2)%nat |}
            else CInvalid
          else COk {| e_top := top; e_nodes := nodes1; e_warnings := (w1 + w2)%nat |}
      | CIndexError, _ => CIndexError
      | _, (CIndexError, _) => CIndexError
      | _, _ => CInvalid
      end
  | _, _ => CInvalid
  end.
