(* Executable model of TestSuite.process / itsdb._add_row (C10): batch
   processing with a buffer.  The tables are those of Model/Table.v; the rows
   the field mapper produces are an input (name of the relation, record). *)
From Coq Require Import List NArith ZArith Bool.
From PyD Require Import Base.Str Model.TsdbFiles Model.Table.
Import ListNotations.

Definition tabs := list (str * table).

(* num_changes: the sum over all tables of len(table) - _persistent_count
   (negative for a cleared table that still has stored rows) *)
Definition changes (ts : tabs) : Z :=
  fold_right (fun nt acc => (Z.of_nat (t_len (snd nt)) - Z.of_nat (t_pc (snd nt)) + acc)%Z) 0%Z ts.

Definition on_table (name : str) (f : table -> table) (ts : tabs) : tabs :=
  map (fun nt => if str_eqb (fst nt) name then (fst nt, f (snd nt)) else nt) ts.

Definition map_tabs (f : table -> table) (ts : tabs) : tabs :=
  map (fun nt => (fst nt, f (snd nt))) ts.

(* _add_row: append, then commit every table when more than buffer_size rows are new *)
Definition add_row (bs : Z) (ts : tabs) (nr : str * row) : tabs :=
  let ts' := on_table (fst nr) (fun t => t_extend t [snd nr]) ts in
  if (bs <? changes ts')%Z then map_tabs t_commit ts' else ts'.

Definition clear_affected (affected : list str) (ts : tabs) : tabs :=
  map (fun nt => if existsb (str_eqb (fst nt)) affected then (fst nt, t_clear (snd nt)) else nt) ts.

(* tsdb.write_database (every relation written in full) followed by reload *)
Definition t_finish (gzflag : bool) (t : table) : table :=
  match write_rel (t_file t) (t_iter t) false gzflag with
  | WOk f => sync f
  | WRejected => t
  end.

Definition process (affected : list str) (prod : list (str * row)) (bs : Z) (gzflag : bool) (ts : tabs) : tabs :=
  map_tabs (t_finish gzflag) (fold_left (add_row bs) prod (clear_affected affected ts)).

(* how many times _add_row committed *)
Fixpoint commits (bs : Z) (ts : tabs) (prod : list (str * row)) : nat :=
  match prod with
  | [] => O
  | nr :: rest =>
      let ts' := on_table (fst nr) (fun t => t_extend t [snd nr]) ts in
      if (bs <? changes ts')%Z then S (commits bs (map_tabs t_commit ts') rest) else commits bs ts' rest
  end.
