(* Executable model of delphin/hierarchy.py MultiHierarchy (C17).
   Node identifiers are strings.  The hierarchy dict is kept newest-first
   (reverse insertion order) so that the recursion of _ancestors over
   hier[id] is structural: a node's parents were inserted before it. *)
From Coq Require Import List NArith Bool.
From PyD Require Import Base.Str.
Import ListNotations.

Definition mem (x : str) (l : list str) : bool := existsb (str_eqb x) l.

Definition rhier := list (str * list str).
Definition keys (h : rhier) : list str := map fst h.

Fixpoint lookup (h : rhier) (x : str) : option (list str) :=
  match h with
  | [] => None
  | (y, ps) :: rest => if str_eqb y x then Some ps else lookup rest x
  end.

(* _ancestors(id, hier): parents, then recursively their ancestors *)
Fixpoint anc (h : rhier) (x : str) : list str :=
  match h with
  | [] => []
  | (y, ps) :: rest =>
      if str_eqb y x then ps ++ flat_map (anc rest) ps else anc rest x
  end.

Definition children (h : rhier) (p : str) : list str :=
  map fst (filter (fun e => mem p (snd e)) h).

Definition desc (h : rhier) (x : str) : list str :=
  filter (fun d => mem x (anc h d)) (keys h).

(* _validate_parentage: no parents (fix F2) or a redundant parent *)
Definition parentage_ok (h : rhier) (ps : list str) : bool :=
  negb (match ps with [] => true | _ => false end) &&
  negb (existsb (fun p => mem p (flat_map (anc h) ps)) ps).

Inductive ures := UOk (h : rhier) | URejected | UOutOfFuel.

(* one pass over the eligible entries of a round *)
Fixpoint insert_all (el : list (str * list str)) (h : rhier) : option rhier :=
  match el with
  | [] => Some h
  | (id, ps) :: el' =>
      if parentage_ok h ps then insert_all el' ((id, ps) :: h) else None
  end.

Definition eligible (h : rhier) (sub : list (str * list str)) : list (str * list str) :=
  filter (fun e => forallb (fun p => mem p (keys h)) (snd e)) sub.
Definition remaining (h : rhier) (sub : list (str * list str)) : list (str * list str) :=
  filter (fun e => negb (forallb (fun p => mem p (keys h)) (snd e))) sub.

Fixpoint rounds (fuel : nat) (h : rhier) (sub : list (str * list str)) : ures :=
  match sub with
  | [] => UOk h
  | _ =>
      match fuel with
      | O => UOutOfFuel
      | S f =>
          match eligible h sub with
          | [] => URejected
          | el => match insert_all el h with
                  | None => URejected
                  | Some h' => rounds f h' (remaining h sub)
                  end
          end
      end
  end.

(* dict assignment: replace in place, else append (insertion order kept) *)
Fixpoint dict_set {A} (k : str) (v : A) (d : list (str * A)) : list (str * A) :=
  match d with
  | [] => [(k, v)]
  | (k', v') :: d' => if str_eqb k' k then (k', v) :: d' else (k', v') :: dict_set k v d'
  end.
Fixpoint dict_get {A} (k : str) (d : list (str * A)) : option A :=
  match d with
  | [] => None
  | (k', v) :: d' => if str_eqb k' k then Some v else dict_get k d'
  end.

(* parents given as a whitespace-separated string or as a tuple *)
Inductive parents_arg := PStr (s : str) | PTuple (l : list str).

Definition is_ws (c : N) : bool :=
  (N.eqb c 32) || (N.leb 9 c && N.leb c 13) || (N.leb 28 c && N.leb c 31).

(* str.split() with no argument, ASCII whitespace *)
Fixpoint split_ws_aux (cur : str) (s : str) : list str :=
  match s with
  | [] => match cur with [] => [] | _ => [rev cur] end
  | c :: s' => if is_ws c then
                 match cur with [] => split_ws_aux [] s' | _ => rev cur :: split_ws_aux [] s' end
               else split_ws_aux (c :: cur) s'
  end.
Definition split_ws (s : str) : list str := split_ws_aux [] s.

Section WithNorm.
Variable norm : str -> str.

Record hstate := { h_top : str; h_rh : rhier; h_data : list (str * N) }.

Definition init (top : str) : hstate :=
  {| h_top := norm top; h_rh := [(norm top, [])]; h_data := [] |}.

Definition parents_list (a : parents_arg) : list str :=
  match a with PStr s => split_ws s | PTuple l => l end.

(* _normalize_update *)
Definition normalize_sub (sub : list (str * parents_arg)) : list (str * list str) :=
  fold_left (fun acc e => dict_set (norm (fst e)) (map norm (parents_list (snd e))) acc) sub [].
Definition normalize_data (dat : list (str * N)) : list (str * N) :=
  fold_left (fun acc e => dict_set (norm (fst e)) (snd e) acc) dat [].

(* validate_update + update; a rejected update returns the state unchanged *)
Definition update (st : hstate) (sub : list (str * parents_arg)) (dat : list (str * N))
  : hstate * ures :=
  let nsub := normalize_sub sub in
  let ndat := normalize_data dat in
  if existsb (fun k => mem k (keys (h_rh st))) (map fst nsub) then (st, URejected)
  else if existsb (fun k => negb (mem k (keys (h_rh st)) || mem k (map fst nsub))) (map fst ndat)
       then (st, URejected)
  else match rounds (length nsub) (h_rh st) nsub with
       | UOk h' => ({| h_top := h_top st; h_rh := h';
                       h_data := fold_left (fun acc e => dict_set (fst e) (snd e) acc) ndat (h_data st) |},
                    UOk h')
       | r => (st, r)
       end.

(* queries; None = KeyError *)
Definition q_contains (st : hstate) (x : str) : bool := mem (norm x) (keys (h_rh st)).
Definition q_iter (st : hstate) : list str :=
  filter (fun k => negb (str_eqb k (h_top st))) (rev (keys (h_rh st))).
Definition q_len (st : hstate) : nat := length (h_rh st) - 1.
Definition q_parents (st : hstate) (x : str) : option (list str) := lookup (h_rh st) (norm x).
Definition q_children (st : hstate) (x : str) : option (list str) :=
  if mem (norm x) (keys (h_rh st)) then Some (children (h_rh st) (norm x)) else None.
Definition q_ancestors (st : hstate) (x : str) : option (list str) :=
  if mem (norm x) (keys (h_rh st)) then Some (anc (h_rh st) (norm x)) else None.
Definition q_descendants (st : hstate) (x : str) : option (list str) :=
  if mem (norm x) (keys (h_rh st)) then Some (desc (h_rh st) (norm x)) else None.
Definition q_subsumes (st : hstate) (a b : str) : option bool :=
  if str_eqb (norm a) (norm b) then Some true
  else match q_descendants st a with
       | Some d => Some (mem (norm b) d)
       | None => None
       end.
Definition q_compatible (st : hstate) (a b : str) : option bool :=
  match q_descendants st a, q_descendants st b with
  | Some da, Some db =>
      Some (existsb (fun x => mem x (norm b :: db)) (norm a :: da))
  | _, _ => None
  end.
(* __getitem__: Some None = no data; None = KeyError *)
Definition q_getitem (st : hstate) (x : str) : option (option N) :=
  match dict_get (norm x) (h_data st) with
  | Some v => Some (Some v)
  | None => if mem (norm x) (keys (h_rh st)) then Some None else None
  end.
Definition q_items (st : hstate) : list (str * option N) :=
  map (fun k => (k, dict_get k (h_data st))) (q_iter st).

End WithNorm.

(* str.lower on ASCII, the normaliser of TypeHierarchy / SEM-I hierarchies
   (identifiers in the correspondence are ASCII) *)
Definition ascii_lower (s : str) : str :=
  map (fun c => if N.leb 65 c && N.leb c 90 then N.add c 32 else c) s.
