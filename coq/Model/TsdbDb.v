(* Executable model of tsdb.write_database / _remake_records /
   _cleanup_files over a directory of relation files (C09, database level).
   Lines are strings; joining and splitting are the C08 model. *)
From Coq Require Import List NArith Bool.
From PyD Require Import Base.Str Model.Tsdb Model.TsdbFiles Model.Hier.
Import ListNotations.

Definition files := list (str * rel str).
Definition schema := list (str * list field).

Definition get_rel (fs : files) (name : str) : rel str :=
  match dict_get name fs with Some r => r | None => absent end.
Definition set_rel (fs : files) (name : str) (r : rel str) : files := dict_set name r fs.

(* db[name] with autocast off: every line split into raw values *)
Definition read_records (r : rel str) : option (list (list raw)) :=
  match read_rel r with
  | Some lines => sequence (map split_raw lines)
  | None => None
  end.

(* dict(zip(names, record)).get(name): the last duplicate wins *)
Fixpoint lookup_last {A} (k : str) (l : list (str * A)) : option A :=
  match l with
  | [] => None
  | (k', v) :: l' => match lookup_last k l' with
                     | Some v' => Some v'
                     | None => if str_eqb k' k then Some v else None
                     end
  end.

(* _remake_records + make_record *)
Definition remake (old_fields new_fields : list field) (rec : list raw) : list raw :=
  let colmap := combine (map f_name old_fields) rec in
  map (fun f => match lookup_last (f_name f) colmap with Some v => v | None => None end) new_fields.

Definition raw_value (r : raw) : value := match r with None => VNone | Some s => VStr s end.

Definition join_record (fields : list field) (rec : list raw) : option str :=
  join_typed (map raw_value rec) fields.

Inductive dbres := DOk (fs : files) | DErr (fs : files).

Definition mem_key {A} (k : str) (l : list (str * A)) : bool :=
  match dict_get k l with Some _ => true | None => false end.

(* one relation of write_database; src is the directory the source
   database reads from at that moment *)
Definition write_one (src_schema sch : schema) (remake_records gzip : bool)
           (src dst : files) (name : str) : option files :=
  match dict_get name sch with
  | None => None                                         (* KeyError: schema[name] *)
  | Some fields =>
      let relation :=
        match dict_get name src_schema with
        | None => Some []
        | Some old_fields =>
            match read_rel (get_rel src name) with
            | None => Some []                            (* TSDBError caught: no file *)
            | Some lines =>
                match sequence (map split_raw lines) with
                | None => None                           (* malformed stored line *)
                | Some recs => Some (if remake_records then map (remake old_fields fields) recs else recs)
                end
            end
        end in
      match relation with
      | None => None
      | Some recs =>
          match sequence (map (join_record fields) recs) with
          | None => None                                 (* column count mismatch *)
          | Some lines =>
              match write_rel (get_rel dst name) lines false gzip with
              | WOk r => Some (set_rel dst name r)
              | WRejected => None
              end
          end
      end
  end.

Fixpoint write_names (src_schema sch : schema) (remake_records gzip inplace : bool)
         (src dst : files) (names : list str) : dbres :=
  match names with
  | [] => DOk dst
  | n :: names' =>
      match write_one src_schema sch remake_records gzip (if inplace then dst else src) dst n with
      | None => DErr dst
      | Some dst' => write_names src_schema sch remake_records gzip inplace src dst' names'
      end
  end.

(* _cleanup_files: both forms of every listed relation are removed *)
Definition cleanup (fs : files) (names : list str) : files :=
  fold_left (fun acc n => set_rel acc n absent) names fs.

Definition write_database (src_schema : schema) (src dst : files) (inplace : bool)
           (names : option (list str)) (new_schema : option schema) (gzip : bool) : dbres :=
  let sch := match new_schema with Some s => s | None => src_schema end in
  let remake_records := match new_schema with Some _ => true | None => false end in
  let names' := match names with Some l => l | None => map fst sch end in
  match write_names src_schema sch remake_records gzip inplace src (if inplace then src else dst) names' with
  | DErr fs => DErr fs
  | DOk fs => DOk (cleanup fs (filter (fun n => negb (mem n names')) (map fst sch)))
  end.
