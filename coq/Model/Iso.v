(* Executable model of MRS isomorphism: _make_mrs_isograph, util._vf2 (as a
   recursive backtracking search), is_isomorphic and compare_bags (C06). *)
From Coq Require Import List NArith ZArith Bool Arith.
From PyD Require Import Base.Str Model.Hier Model.Mrs.
Import ListNotations.

(* lexicographic order on strings = Python's str order (code points) *)
Fixpoint str_ltb (a b : str) : bool :=
  match a, b with
  | _, [] => false
  | [], _ :: _ => true
  | x :: a', y :: b' => if N.ltb x y then true else if N.eqb x y then str_ltb a' b' else false
  end.

Fixpoint insert_str (x : str) (l : list str) : list str :=
  match l with
  | [] => [x]
  | y :: l' => if str_ltb y x then y :: insert_str x l' else x :: y :: l'
  end.
Definition sort_str (l : list str) : list str := fold_right insert_str [] l.

Definition min_str (l : list str) : option str := match sort_str l with x :: _ => Some x | [] => None end.

(* edge dictionaries: key None holds the node label *)
Definition key := option str.
Definition key_eqb (a b : key) : bool :=
  match a, b with None, None => true | Some x, Some y => str_eqb x y | _, _ => false end.
Definition edict := list (key * str).
Definition igraph := list (str * edict).

Fixpoint ed_get (k : key) (d : edict) : option str :=
  match d with [] => None | (k', v) :: d' => if key_eqb k' k then Some v else ed_get k d' end.
Fixpoint ed_set (k : key) (v : str) (d : edict) : edict :=
  match d with
  | [] => [(k, v)]
  | (k', v') :: d' => if key_eqb k' k then (k', v) :: d' else (k', v') :: ed_set k v d'
  end.

Definition g_get (g : igraph) (n : str) : edict := match dict_get n g with Some d => d | None => [] end.
Definition g_has (g : igraph) (n : str) : bool := match dict_get n g with Some _ => true | None => false end.
Definition g_upd (g : igraph) (n : str) (f : edict -> edict) : igraph := dict_set n (f (g_get g n)) g.

Definition join_sp (l : list str) : str := join_on 32%N l.

(* property_priority *)
Definition COMMON_PROPS : list str :=
  [[80;69;82;83]; [78;85;77]; [71;69;78;68]; [73;78;68]; [80;84]; [80;82;79;78;84;89;80;69];
   [83;70]; [84;69;78;83;69]; [77;79;79;68]; [80;82;79;71]; [80;69;82;70]; [65;83;80;69;67;84];
   [80;65;83;83]]%N.
Definition ascii_upper (s : str) : str :=
  map (fun c => if (N.leb 97 c && N.leb c 122)%bool then (c - 32)%N else c) s.
Fixpoint index_of (x : str) (l : list str) (i : nat) : nat :=
  match l with [] => i | y :: l' => if str_eqb x y then i else index_of x l' (S i) end.
Definition prop_prio (p : str) : nat := index_of (ascii_upper p) COMMON_PROPS 0.
Fixpoint insert_prop (x : str * str) (l : list (str * str)) : list (str * str) :=
  match l with
  | [] => [x]
  | y :: l' =>
      let px := prop_prio (fst x) in let py := prop_prio (fst y) in
      if Nat.ltb py px || (Nat.eqb py px && str_ltb (fst y) (fst x)) then y :: insert_prop x l'
      else x :: y :: l'
  end.
Definition sort_props (l : list (str * str)) : list (str * str) := fold_right insert_prop [] l.

(* the node label of an EP: predicate, then (carg) or {props} *)
Definition node_label (x : mrs) (properties : bool) (e : ep) : str :=
  let s := e_pred e in     (* predicates are already normalised in the modelled class *)
  let s1 := match e_carg e with
            | Some c => s ++ [40%N] ++ c ++ [41%N]
            | None => s end in
  let props := match e_iv e with
               | Some v => match dict_get v (m_vars x) with Some p => p | None => [] end
               | None => [] end in
  if properties && negb (match props with [] => true | _ => false end) then
    s1 ++ [123%N] ++
    join_on 124%N (map (fun pv => ascii_upper (fst pv) ++ [61%N] ++ ascii_lower (snd pv)) (sort_props props))
    ++ [125%N]
  else s1.

Definition EQ_SCOPE : str := [101;113;45;115;99;111;112;101]%N.

Definition make_isograph (x : mrs) (properties : bool) : option igraph :=
  match ep_ids (m_rels x) with
  | None => None
  | Some ids =>
      let g0 : igraph := map (fun kv => (fst kv, [])) (m_vars x) in
      let g1 := fold_left (fun g i => dict_set i [] g) ids g0 in
      let g2 :=
        fold_left (fun g p =>
          let '(i, e) := p in
          let g := g_upd g (e_label e) (ed_set (Some i) EQ_SCOPE) in
          let g := g_upd g i (ed_set None (node_label x properties e)) in
          fold_left (fun g rv =>
                       if str_eqb (fst rv) CARG_ROLE then g
                       else g_upd g i (fun d =>
                              let old := match ed_get (Some (snd rv)) d with Some s => s | None => [] end in
                              ed_set (Some (snd rv)) (join_sp (sort_str (split_ws old ++ [fst rv]))) d))
                    (e_args e) g) (combine ids (m_rels x)) g1 in
      let g3 := fold_left (fun g c => g_upd g (fst (fst c)) (ed_set (Some (snd c)) (snd (fst c)))) (m_hcons x) g2 in
      Some (fold_left (fun g c => g_upd g (fst (fst c)) (ed_set (Some (snd c)) (snd (fst c)))) (m_icons x) g3)
  end.

(* _vf2_inv_map (repaired: both labels are kept for a two-way link) *)
Definition DASHES : str := [45;45]%N.
Definition inv_edges (g : igraph) : list (str * str * str) :=     (* (tgt, src, '--'+data) in order *)
  flat_map (fun nd => flat_map (fun kd => match fst kd with
                                         | Some tgt => if str_eqb (fst nd) tgt then []
                                                       else [(tgt, fst nd, DASHES ++ snd kd)]
                                         | None => [] end) (snd nd)) g.
(* _d as a dict of dicts (insertion order), then merged into d *)
Definition inv_dict (g : igraph) : list (str * edict) :=
  fold_left (fun acc t => let '(tgt, src, data) := t in
                          dict_set tgt (ed_set (Some src) data (match dict_get tgt acc with Some d => d | None => [] end)) acc)
            (inv_edges g) [].
Definition inv_map (g : igraph) : igraph :=
  fold_left (fun g kd =>
               fold_left (fun g sd =>
                            g_upd g (fst kd) (fun d => match ed_get (fst sd) d with
                                                       | Some old => ed_set (fst sd) (old ++ [32%N] ++ snd sd) d
                                                       | None => ed_set (fst sd) (snd sd) d end))
                         (snd kd) g) (inv_dict g) g.

Definition mapping := list (str * str).      (* newest first *)
Definition map_get (mp : mapping) (a : str) : option str := dict_get a mp.
Definition inv_of (mp : mapping) : mapping := map (fun p => (snd p, fst p)) mp.

(* _vf2_consistent *)
Definition consistent (mp : mapping) (ga gb : igraph) (a b : str) : bool :=
  forallb (fun kd => match fst kd with
                     | None => true
                     | Some a' => match map_get mp a' with
                                  | None => true
                                  | Some b' => match ed_get (Some b') (g_get gb b) with
                                               | Some data => str_eqb data (snd kd)
                                               | None => false end
                                  end
                     end) (g_get ga a).

Definition opt_str_eqb (a b : option str) : bool :=
  match a, b with None, None => true | Some x, Some y => str_eqb x y | _, _ => false end.

(* _vf2_feasible (repaired: self loops compared; _vf2_new is a no-op) *)
Definition feasible (mp : mapping) (g1 g2 : igraph) (n m : str) : bool :=
  let e1 := g_get g1 n in let e2 := g_get g2 m in
  str_eqb (match ed_get None e1 with Some s => s | None => [] end)
          (match ed_get None e2 with Some s => s | None => [] end) &&
  opt_str_eqb (ed_get (Some n) e1) (ed_get (Some m) e2) &&
  Nat.eqb (length e1) (length e2) &&
  consistent mp g1 g2 n m && consistent (inv_of mp) g2 g1 m n.

Fixpoint dedupe (l : list str) : list str :=
  match l with [] => [] | x :: l' => if mem x l' then dedupe l' else x :: dedupe l' end.

(* _vf2_candidates, in the order they are popped (ascending n1) *)
Definition candidates (mp : mapping) (g1 g2 : igraph) : list (str * str) :=
  let m1 := map fst mp in let m2 := map snd mp in
  let nbrs := fun (g : igraph) (x : str) (excl : list str) =>
                flat_map (fun kd => match fst kd with
                                    | Some y => if mem y excl then [] else [y]
                                    | None => [] end) (g_get g x) in
  let t1 := dedupe (flat_map (fun p => nbrs g1 (fst p) m1) mp) in
  let t2 := dedupe (flat_map (fun p => nbrs g2 (snd p) m2) mp) in
  match t1, min_str t2 with
  | _ :: _, Some m => map (fun n1 => (n1, m)) (sort_str t1)
  | _, _ =>
      match min_str (filter (fun y => negb (mem y m2)) (map fst g2)) with
      | Some m => map (fun n1 => (n1, m)) (sort_str (filter (fun y => negb (mem y m1)) (map fst g1)))
      | None => []
      end
  end.

(* the search: Some m = a mapping covering g2 was completed *)
Fixpoint search (fuel : nat) (g1 g2 : igraph) (mp : mapping) : option mapping :=
  if Nat.leb (length g2) (length mp) then Some mp
  else match fuel with
       | O => None
       | S f =>
           (fix try (cands : list (str * str)) : option mapping :=
              match cands with
              | [] => None
              | (n, m) :: rest =>
                  if feasible mp g1 g2 n m then
                    match search f g1 g2 ((n, m) :: mp) with
                    | Some r => Some r
                    | None => try rest
                    end
                  else try rest
              end) (candidates mp g1 g2)
       end.

Definition vf2 (g1 g2 : igraph) : mapping :=
  let g1' := inv_map g1 in let g2' := inv_map g2 in
  match search (S (length g2')) g1' g2' [] with Some m => m | None => [] end.

Definition filled_len (x : mrs) : nat := length (m_vars x).

Definition is_isomorphic (x1 x2 : mrs) (properties : bool) : option bool :=
  if negb (Nat.eqb (length (m_rels x1)) (length (m_rels x2)) &&
           Nat.eqb (length (m_hcons x1)) (length (m_hcons x2)) &&
           Nat.eqb (length (m_icons x1)) (length (m_icons x2)) &&
           Nat.eqb (filled_len x1) (filled_len x2)) then Some false
  else match make_isograph x1 properties, make_isograph x2 properties with
       | Some g1, Some g2 =>
           let iso := vf2 g1 g2 in
           Some (forallb (fun n => mem n (map fst iso)) (map fst g1) &&
                 forallb (fun n => mem n (map fst g1)) (map fst iso))
       | _, _ => None
       end.

(* compare_bags with any matcher *)
Section Bags.
Variable A : Type.
Variable matches : A -> A -> bool.

Fixpoint remove_first (p : A -> bool) (l : list A) : option (list A) :=
  match l with
  | [] => None
  | x :: l' => if p x then Some l' else option_map (cons x) (remove_first p l')
  end.

Fixpoint compare_bags (test gold : list A) : nat * nat * nat :=   (* unique-test, shared, unique-gold *)
  match test with
  | [] => (0%nat, 0%nat, length gold)
  | t :: test' =>
      match remove_first (matches t) gold with
      | Some gold' => let '(u, s, g) := compare_bags test' gold' in (u, S s, g)
      | None => let '(u, s, g) := compare_bags test' gold in (S u, s, g)
      end
  end.
End Bags.
