(* Executable model of delphin.util.SExpr.parse and of ace._sexpr_data (C19):
   the decoder of the processor's tsdb-stdout answers.  ASCII only; floats
   are outside the model (XUnmodelled).  Python strings and symbols are both
   str: one constructor. *)
From Coq Require Import List NArith ZArith Bool Arith.
From PyD Require Import Base.Str Base.Dec.
Import ListNotations.

Inductive sx := SInt (z : Z) | SStr (s : str) | SList (l : list sx) | SPair (a b : sx).

(* outcome of a parse: a value, or the exception Python raises *)
Inductive pres (A : Type) := POk (a : A) | PIndexError | PFatal | PUnmodelled.
Arguments POk {A}. Arguments PIndexError {A}. Arguments PFatal {A}. Arguments PUnmodelled {A}.

Definition is_ws (c : N) : bool := (N.eqb c 32 || (N.leb 9 c && N.leb c 13) || (N.leb 28 c && N.leb c 31))%bool.
Definition is_digit (c : N) : bool := (N.leb 48 c && N.leb c 57)%bool.
Definition LP : N := 40%N. Definition RP : N := 41%N. Definition DQ : N := 34%N. Definition BS : N := 92%N.
(* the characters a symbol cannot contain unescaped *)
Definition is_special (c : N) : bool :=
  (N.eqb c 34 || is_ws c || N.eqb c 40 || N.eqb c 41 || N.eqb c 91 || N.eqb c 93 ||
   N.eqb c 123 || N.eqb c 125 || N.eqb c 92 || N.eqb c 59)%bool.

Fixpoint lstrip_ws (s : str) : str :=
  match s with c :: r => if is_ws c then lstrip_ws r else s | [] => [] end.

(* _SExpr_parse_number on the digits after the first character *)
Fixpoint span_digits (s : str) : str * str :=
  match s with
  | c :: r => if is_digit c then let '(d, r') := span_digits r in (c :: d, r') else ([], s)
  | [] => ([], [])
  end.

Definition parse_number (c : N) (rest : str) : pres (Z * str) :=
  let '(ds, r) := span_digits rest in
  match r with
  | [] => PIndexError                                   (* s[j] past the end *)
  | c2 :: _ =>
      if (N.eqb c2 46 || N.eqb c2 101 || N.eqb c2 69)%bool then PUnmodelled     (* a float *)
      else match dec_to_Z (c :: ds) with
           | Some z => POk (z, r)
           | None => PFatal
           end
  end.

(* _SExpr_parse_string: the raw text up to the closing quote, and what follows it *)
Fixpoint scan_string (fuel : nat) (s : str) (acc : str) : pres (str * str) :=
  match fuel with
  | O => PIndexError
  | S f =>
      match s with
      | [] => PIndexError
      | c :: r =>
          if N.eqb c DQ then POk (rev acc, r)
          else if N.eqb c BS then
            match r with
            | c2 :: r2 => scan_string f r2 (c2 :: c :: acc)
            | [] => PIndexError
            end
          else scan_string f r (c :: acc)
      end
  end.

(* re.sub: a backslash before a double quote or a backslash is dropped *)
Fixpoint unescape_string (s : str) : str :=
  match s with
  | c :: r =>
      if N.eqb c BS then
        match r with
        | c2 :: r2 => if (N.eqb c2 DQ || N.eqb c2 BS)%bool then c2 :: unescape_string r2
                      else c :: unescape_string r
        | [] => [c]
        end
      else c :: unescape_string r
  | [] => []
  end.

(* the symbol regex (runs of non-special characters or backslash + any character but newline) matched at the start of s *)
Fixpoint scan_symbol (fuel : nat) (s : str) (acc : str) : str * str :=
  match fuel with
  | O => (rev acc, s)
  | S f =>
      match s with
      | c :: r =>
          if N.eqb c BS then
            match r with
            | c2 :: r2 => if N.eqb c2 10 then (rev acc, s) else scan_symbol f r2 (c2 :: c :: acc)
            | [] => (rev acc, s)
            end
          else if is_special c then (rev acc, s)
          else scan_symbol f r (c :: acc)
      | [] => (rev acc, [])
      end
  end.

(* re.sub: a backslash before a special character is dropped *)
Fixpoint unescape_symbol (s : str) : str :=
  match s with
  | c :: r =>
      if N.eqb c BS then
        match r with
        | c2 :: r2 => if is_special c2 then c2 :: unescape_symbol r2 else c :: unescape_symbol r
        | [] => [c]
        end
      else c :: unescape_symbol r
  | [] => []
  end.

Definition DOT : str := [46]%N.

Definition close_list (vals : list sx) : sx :=
  match vals with
  | [a; SStr d; b] => if str_eqb d DOT then SPair a b else SList vals
  | _ => SList vals
  end.

(* the main loop; cs is s[i:] *)
Fixpoint sx_loop (fuel : nat) (cs : str) (stack : list (list sx)) (vals : list sx) (data : sx)
  : pres (sx * str) :=
  match fuel with
  | O => PFatal
  | S f =>
      match cs with
      | [] => POk (data, [])
      | c :: rest =>
          if (is_digit c || (N.eqb c 45 && match rest with c2 :: _ => is_digit c2 | [] => false end))%bool then
            match parse_number c rest with
            | POk (z, r) => sx_loop f r stack (vals ++ [SInt z]) data
            | PIndexError => PIndexError | PFatal => PFatal | PUnmodelled => PUnmodelled
            end
          else if N.eqb c DQ then
            match scan_string (S (length rest)) rest [] with
            | POk (raw, r) => sx_loop f r stack (vals ++ [SStr (unescape_string raw)]) data
            | PIndexError => PIndexError | PFatal => PFatal | PUnmodelled => PUnmodelled
            end
          else if N.eqb c LP then sx_loop f rest (vals :: stack) [] data
          else if N.eqb c RP then
            let d := close_list vals in
            match stack with
            | [] => POk (d, rest)
            | top :: stack' => sx_loop f rest stack' (top ++ [d]) d
            end
          else if is_ws c then sx_loop f rest stack vals data
          else
            match scan_symbol (S (length cs)) cs [] with
            | ([], _) => PFatal                               (* ValueError: Invalid S-Expression *)
            | (raw, r) => sx_loop f r stack (vals ++ [SStr (unescape_symbol raw)]) data
            end
      end
  end.

(* SExpr.parse(s) *)
Definition sx_parse (s : str) : pres (sx * str) :=
  match lstrip_ws s with
  | [] => POk (SList [], [])
  | c :: rest => if N.eqb c LP then sx_loop (S (length rest)) rest [] [] (SList []) else PFatal   (* assert *)
  end.

(* ace._sexpr_data: the (key, value) pairs of one answer line.  An IndexError
   of the parser (incomplete output) is caught and reported as an :error pair;
   data that is not a pair with a string key ends the loop (repaired code,
   F30: the key used to be asserted to be a string). *)
Definition ERR_KEY : str := [58;101;114;114;111;114]%N.                       (* :error *)
Definition ERR_VAL : str :=
  [105;110;99;111;109;112;108;101;116;101;32;111;117;116;112;117;116;32;102;114;111;109;32;65;67;69]%N.

Definition as_pair (d : sx) : option (sx * sx) :=
  match d with
  | SPair a b => Some (a, b)
  | SList [a; b] => Some (a, b)
  | _ => None
  end.

Fixpoint sexpr_data (fuel : nat) (line : str) : pres (list (str * sx)) :=
  match fuel with
  | O => PFatal
  | S f =>
      match line with
      | [] => POk []
      | _ =>
          match sx_parse line with
          | PFatal => PFatal
          | PUnmodelled => PUnmodelled
          | PIndexError => POk [(ERR_KEY, SStr ERR_VAL)]          (* remainder '' ends the loop *)
          | POk (d, rem) =>
              match as_pair d with
              | None => POk []                                      (* logged, loop left *)
              | Some (SStr k, v) =>
                  match sexpr_data f (lstrip_ws rem) with
                  | POk l => POk ((k, v) :: l)
                  | e => e
                  end
              | Some _ => POk []                                    (* logged, loop left *)
              end
          end
      end
  end.
