(* Executable model of the document assembly of delphin.commands.convert
   (C20): per-item error isolation and the header / joiner / footer logic
   with the '-lines' and indent variants.  The codecs, the converters between
   representations and the item readers are oracles (Section variables /
   data supplied by the correspondence check). *)
From Coq Require Import List NArith ZArith Bool Arith.
From PyD Require Import Base.Str Model.Mrs Model.SimpleMrs.
Import ListNotations.

Definition LF : N := 10%N.

Fixpoint join_sep (sep : str) (l : list str) : str :=
  match l with
  | [] => []
  | [x] => x
  | x :: l' => x ++ sep ++ join_sep sep l'
  end.

(* str.strip() *)
Definition lstrip (s : str) : str := drop_while is_space s.
Definition strip (s : str) : str := rev (lstrip (rev (lstrip s))).

Definition nonempty (s : str) : bool := match s with [] => false | _ => true end.

(* header + joiner.join(parts) + footer with the adjustments of convert() *)
Definition assemble (header joiner footer : str) (indent_given lines : bool) (parts : list str) : str :=
  if lines then join_sep [LF] parts
  else
    let header' := if indent_given && nonempty header then header ++ [LF] else header in
    let joiner' := if indent_given then strip joiner ++ [LF; LF] else joiner in
    let footer' := if indent_given && nonempty footer then LF :: footer else footer in
    header' ++ join_sep joiner' parts ++ footer'.

Section Items.
  Variables X Y : Type.
  Variable conv : X -> option Y.        (* converter (None = PyDelphinException, the item is skipped) *)
  Variable enc : Y -> option str.       (* target_codec.encode (None = a caught exception) *)

  (* _iter_convert followed by the encode loop *)
  Definition convert_parts (xs : list X) : list str :=
    flat_map (fun x => match conv x with
                       | Some y => match enc y with Some s => [s] | None => [] end
                       | None => []
                       end) xs.

  Definition item_ok (x : X) : bool :=
    match conv x with Some y => match enc y with Some _ => true | None => false end | None => false end.

  Definition convert_doc header joiner footer indent_given lines (xs : list X) : str :=
    assemble header joiner footer indent_given lines (convert_parts xs).
End Items.
