(* C09 — relation files always hold exactly what was last written, in one
   physical form. *)
From Coq Require Import List NArith Bool.
From PyD Require Import Base.Str Model.Tsdb Model.TsdbFiles Model.TsdbDb Model.Hier
  Proofs.TsdbFilesP Proofs.TsdbDbP Model.TsdbRead Proofs.TsdbReadP.
Import ListNotations.

(* any sequence of writes (overwrite/append, plain/gzip, accepted or rejected)
   from any initial files (absent / plain / compressed / both, either mtime
   order) refines the abstract list of stored lines *)
Theorem C09_refines : forall (L : Type) (ops : list (list L * bool * bool)) (r : rel L),
  abs L (fold_left (@apply_write L) ops r) = fold_left (spec L) ops (abs L r).
Proof. exact writes_refine. Qed.
Print Assumptions C09_refines.

Theorem C09_step_refines : forall (L : Type) (r : rel L) op,
  abs L (apply_write r op) = spec L (abs L r) op.
Proof. exact write_refines. Qed.
Print Assumptions C09_step_refines.

Theorem C09_one_form : forall (L : Type) (r : rel L) (recs : list L) a g r',
  write_rel r recs a g = WOk r' ->
  (gz r' <> None <-> g = true /\ recs <> []) /\
  (tx r' = None <-> gz r' <> None) /\
  gz r' = (if g && negb (is_nil recs) then Some recs else None).
Proof. exact one_form. Qed.
Print Assumptions C09_one_form.

Theorem C09_rejected_iff : forall (L : Type) (r : rel L) (recs : list L) a g,
  write_rel r recs a g = WRejected <-> a = true /\ (g = true \/ use_gz r = true).
Proof. exact rejected_iff. Qed.
Print Assumptions C09_rejected_iff.

Theorem C09_rejected_unchanged : forall (L : Type) (r : rel L) op,
  write_rel r (fst (fst op)) (snd (fst op)) (snd op) = WRejected -> apply_write r op = r.
Proof. exact rejected_unchanged. Qed.
Print Assumptions C09_rejected_unchanged.

Theorem C09_read_after_overwrite : forall (L : Type) (r : rel L) (recs : list L) g r',
  write_rel r recs false g = WOk r' -> read_rel r' = Some recs.
Proof. exact read_after_overwrite. Qed.
Print Assumptions C09_read_after_overwrite.

Theorem C09_read_after_append : forall (L : Type) (r : rel L) (recs : list L) r',
  write_rel r recs true false = WOk r' -> read_rel r' = Some (content r ++ recs).
Proof. exact read_after_append. Qed.
Print Assumptions C09_read_after_append.

(* write_database, to a new directory or onto itself, optionally re-making
   the records under another schema *)
Theorem C09_write_database : forall (ss : schema) (src dst : files) (inplace : bool)
    (names : option (list str)) (new_schema : option schema) (gzip : bool) (fs' : files),
  let sch := match new_schema with Some s => s | None => ss end in
  let rm := match new_schema with Some _ => true | None => false end in
  let names' := match names with Some l => l | None => map fst sch end in
  let dst0 := if inplace then src else dst in
  NoDup names' ->
  write_database ss src dst inplace names new_schema gzip = DOk fs' ->
  (forall n, In n names' ->
     exists lines, expected_lines ss sch rm (get_rel (if inplace then dst0 else src) n) n = Some lines /\
       read_rel (get_rel fs' n) = Some lines /\
       gz (get_rel fs' n) = (if gzip && negb (is_nil lines) then Some lines else None) /\
       (tx (get_rel fs' n) = None <-> gz (get_rel fs' n) <> None)) /\
  (forall n, In n (map fst sch) -> ~ In n names' -> get_rel fs' n = absent) /\
  (forall n, ~ In n (map fst sch) -> ~ In n names' -> get_rel fs' n = get_rel dst0 n).
Proof. exact write_database_spec. Qed.
Print Assumptions C09_write_database.

Theorem C09_cleanup : forall names fs n,
  get_rel (cleanup fs names) n = if mem n names then absent else get_rel fs n.
Proof. exact cleanup_spec. Qed.
Print Assumptions C09_cleanup.

(* the read interfaces of Database: reading back the lines written from records gives the
   records (the empty string and None coincide) ... *)
Theorem C09_read_written : forall recs : list (list raw), Forall (fun r => r <> []) recs ->
  read_raw (map join_raw recs) = Some (map (map none_if_empty) recs).
Proof. exact read_written. Qed.
Print Assumptions C09_read_written.

(* ... the automatically cast read is the cast of the raw read, record by record ... *)
Theorem C09_read_cast : forall fields lines recs, read_raw lines = Some recs ->
  read_cast fields lines = sequence (map (cast_record fields) recs).
Proof. exact read_cast_spec. Qed.
Print Assumptions C09_read_cast.

(* ... and a column selection projects the records read *)
Theorem C09_select_written : forall fields cols recs idx, Forall (fun r : list raw => r <> []) recs ->
  indices_of fields cols = Some idx ->
  select_raw fields cols (map join_raw recs)
  = sequence (map (fun rec => sequence (map (fun i => nth_error (map none_if_empty rec) i) idx)) recs).
Proof. exact select_written. Qed.
Print Assumptions C09_select_written.
