(* C18 — EDM scores are the weighted triple-overlap ratios they are defined to be. *)
From Coq Require Import List NArith ZArith Bool QArith Permutation PrimFloat.
From PyD Require Import Base.Str Model.Edm Proofs.EdmP Proofs.EdmTie Gen.EdmGen.
From PyD Require Import Proofs.EdmRename.
Import ListNotations.

(* the "both" count of a category is the size of the multiset intersection:
   every triple is counted min(#gold, #test) times *)
Theorem C18_both_is_multiset_intersection : forall x g t,
  cnt x (inter g t) = Nat.min (cnt x g) (cnt x t).
Proof. exact inter_cnt. Qed.
Print Assumptions C18_both_is_multiset_intersection.

Theorem C18_both_le : forall g t,
  (length (inter g t) <= length g)%nat /\ (length (inter g t) <= length t)%nat.
Proof. exact (fun g t => conj (inter_le_gold g t) (inter_le_test g t)). Qed.
Print Assumptions C18_both_le.

Theorem C18_counts_ok : forall golds tests ig it, mtch_ok (accumulate golds tests ig it).
Proof. exact accumulate_ok. Qed.
Print Assumptions C18_counts_ok.

(* all three scores lie in [0,1] for non-negative weights *)
Theorem C18_scores_in_unit_interval : forall golds tests w ig it, w_nonneg w ->
  let '(p, r, f) := compute_Q golds tests w ig it in
  (0 <= p <= 1 /\ 0 <= r <= 1 /\ 0 <= f <= 1)%Q.
Proof. exact compute_bounds. Qed.
Print Assumptions C18_scores_in_unit_interval.

(* identical lists containing at least one weighted triple score (1,1,1) *)
Theorem C18_identical_is_one : forall l w ig it,
  ~ (total_Q c_both (accumulate l l ig it) w == 0)%Q ->
  let '(p, r, f) := compute_Q l l w ig it in (p == 1 /\ r == 1 /\ f == 1)%Q.
Proof. exact compute_identical. Qed.
Print Assumptions C18_identical_is_one.

(* exchanging gold and test (and the two ignore flags) swaps precision and
   recall and keeps the F-score *)
Theorem C18_swap : forall golds tests w ig it,
  let '(p, r, f) := compute_Q golds tests w ig it in
  let '(p', r', f') := compute_Q tests golds w it ig in
  p' = r /\ r' = p /\ (f' == f)%Q.
Proof. exact compute_swap. Qed.
Print Assumptions C18_swap.

(* reordering the nodes of either structure changes no count *)
Theorem C18_node_order_invariant : forall g t gn tn,
  NoDup (map n_id (sr_nodes g)) -> Permutation (sr_nodes g) gn ->
  NoDup (map n_id (sr_nodes t)) -> Permutation (sr_nodes t) tn ->
  match_pair (with_nodes g gn) (with_nodes t tn) = match_pair g t.
Proof. exact match_pair_perm. Qed.
Print Assumptions C18_node_order_invariant.

Theorem C18_intersection_perm : forall a a' b b', Permutation a a' -> Permutation b b' ->
  length (inter a b) = length (inter a' b').
Proof. exact inter_length_perm. Qed.
Print Assumptions C18_intersection_perm.

(* Tie A *)
Theorem C18_tie_prf : (forall g t b, gen_prf_Q g t b = prf_Q g t b) /\
                      (forall g t b, gen_prf_F g t b = prf_F g t b).
Proof. exact (conj tie_prf_Q tie_prf_F). Qed.
Print Assumptions C18_tie_prf.

Theorem C18_tie_totals : forall m,
  (forall w, gen_gold_total_Q m w = total_Q c_gold m w /\
             gen_test_total_Q m w = total_Q c_test m w /\
             gen_both_total_Q m w = total_Q c_both m w) /\
  (forall w, gen_gold_total_F m w = total_F c_gold m w /\
             gen_test_total_F m w = total_F c_test m w /\
             gen_both_total_F m w = total_F c_both m w).
Proof. exact (fun m => conj (tie_totals_Q m) (tie_totals_F m)). Qed.
Print Assumptions C18_tie_totals.

(* the scores do not depend on node identifiers: renaming them in every
   structure by an injective function changes neither the counts nor the
   scores (exact and binary64) *)
Theorem C18_renaming_invariant : forall f golds tests ig it, (forall a b, f a = f b -> a = b) ->
  (forall w, compute_Q (map (ren_opt f) golds) (map (ren_opt f) tests) w ig it = compute_Q golds tests w ig it) /\
  (forall w, compute_F (map (ren_opt f) golds) (map (ren_opt f) tests) w ig it = compute_F golds tests w ig it).
Proof. exact compute_ren. Qed.
Print Assumptions C18_renaming_invariant.
