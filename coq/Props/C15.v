(* C15 — TDL text and TDL objects round-trip (syntax level). *)
From Coq Require Import List NArith ZArith Bool.
From PyD Require Import Base.Str Model.Hier Model.Iso Model.Tdl Proofs.TdlP Model.Tfs Proofs.TfsP.
Import ListNotations.

(* parsing the tokens the formatter prints for any term tree (identifiers,
   strings, regexes, coreferences, feature structures with dotted paths,
   cons lists empty/open/closed/dotted, diff lists, docstrings anywhere,
   conjunctions at any depth) returns that very tree, whatever follows *)
Theorem C15_term_roundtrip : forall t, wf_term t ->
  forall f rest, need t <= f -> p_term f (fmt_term t ++ rest) = Some (t, rest).
Proof. exact term_ok. Qed.
Print Assumptions C15_term_roundtrip.

Theorem C15_conjunction_roundtrip : forall c, c <> [] -> Forall wf_term c ->
  forall f rest, cneed c <= f -> hd_is k_amp rest = false -> p_conj f (fmt_conj c ++ rest) = Some (c, rest).
Proof. exact conj_all_ok. Qed.
Print Assumptions C15_conjunction_roundtrip.

(* a whole file: type definitions, addenda (also docstring-only), lexical
   rules with affix patterns, letter sets and wild cards, (nested)
   environments, includes and comments are read back as exactly the
   sequence of entities that was printed *)
Theorem C15_file_roundtrip : forall evs envs f,
  Forall wf_event evs -> env_run evs envs <> None -> eneed evs <= f ->
  p_events f (flat_map fmt_event evs) envs = Some evs.
Proof. exact events_ok. Qed.
Print Assumptions C15_file_roundtrip.

(* with the fuel the correspondence check uses (twice the number of tokens plus two) *)
Theorem C15_file_roundtrip_fuel_adequate : forall evs envs,
  Forall wf_event evs -> env_run evs envs <> None ->
  p_events (2 * length (flat_map fmt_event evs) + 2) (flat_map fmt_event evs) envs = Some evs.
Proof. exact events_ok_tokens. Qed.
Print Assumptions C15_file_roundtrip_fuel_adequate.

(* letter sets / wild cards: the characters survive escaping *)
Theorem C15_letter_set_roundtrip : forall l v cs, v <> 10%N -> cs <> [] -> plain_chars cs ->
  parse_morph (fmt_morph l v cs) = Some (l, v, cs).
Proof. exact parse_fmt_morph. Qed.
Print Assumptions C15_letter_set_roundtrip.

(* affix patterns are split back into match and replacement *)
Theorem C15_affix_pattern_roundtrip : forall p, pat_ok p -> split_pat (pat_text p) = Some p.
Proof. exact split_pat_text. Qed.
Print Assumptions C15_affix_pattern_roundtrip.

(* feature structures: a value stored under a dotted path is retrieved by
   that path in any letter case *)
Theorem C15_path_access_any_case : forall path f v f' path',
  setitem f path v = Some f' -> map ascii_upper path' = map ascii_upper path ->
  getitem f' path' = Some (val_of v).
Proof. exact get_set_same. Qed.
Print Assumptions C15_path_access_any_case.

(* ... and a path that leaves the assigned path at some position is undisturbed *)
Theorem C15_path_assignment_frame : forall path f v f' pre q qs k rest,
  path = pre ++ k :: rest -> setitem f path v = Some f' -> ascii_upper q <> ascii_upper k ->
  getitem f' (pre ++ q :: qs) = getitem f (pre ++ q :: qs).
Proof. exact get_set_diverge. Qed.
Print Assumptions C15_path_assignment_frame.

(* non-vacuity *)
Theorem C15_hypotheses_satisfiable :
  wf_term ex_term /\ (Forall wf_event ex_events /\ env_run ex_events [] = Some []) /\
  (p_events (eneed ex_events) (flat_map fmt_event ex_events) [] = Some ex_events /\
   length (flat_map fmt_event ex_events) = 77%nat).
Proof. exact ex_all. Qed.
Print Assumptions C15_hypotheses_satisfiable.
