(* C15 — TDL text and TDL objects round-trip (syntax level). *)
From Coq Require Import List NArith ZArith Bool.
From PyD Require Import Base.Str Model.Tdl Proofs.TdlP.
Import ListNotations.
