(* C05 — MRS -> EDS conversion is total and dependency-sound on well-formed input. *)
From Coq Require Import List NArith ZArith Bool.
From PyD Require Import Base.Str Model.Hier Model.Mrs Model.Convert Proofs.ConvertP.
Import ListNotations.

(* one node per predication, in order, carrying its predicate, constant and the
   type and properties of its intrinsic variable; unique node identifiers *)
Theorem C05_nodes : forall m pm uniq e, eds_from_mrs m pm uniq = COk e ->
  exists ids, ep_ids (m_rels m) = Some ids /\
    map (fun n => (en_pred n, en_carg n)) (e_nodes e) = map (fun x => (e_pred x, e_carg x)) (m_rels m) /\
    (forall k n x, nth_error (e_nodes e) k = Some n -> nth_error (m_rels m) k = Some x ->
       is_quant x = false -> forall v, e_iv x = Some v ->
       en_type n = var_type v /\ en_props n = match dict_get v (m_vars m) with Some pr => pr | None => [] end) /\
    (NoDup ids -> NoDup (map en_id (e_nodes e))).
Proof. exact eds_nodes_spec. Qed.
Print Assumptions C05_nodes.

Theorem C05_renamed_ids_unique : forall eps nodes,
  NoDup (map fst eps) -> map en_id nodes = map fst eps ->
  nodupb (map snd (new_ids_of eps)) = true ->
  NoDup (map en_id (rename_nodes (new_ids_of eps) nodes)).
Proof. exact renamed_ids_unique. Qed.
Print Assumptions C05_renamed_ids_unique.

Theorem C05_ids_match_rels : forall rels ids, ep_ids rels = Some ids -> length ids = length rels.
Proof. exact ep_ids_length. Qed.
Print Assumptions C05_ids_match_rels.
