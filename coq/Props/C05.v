(* C05 — MRS -> EDS conversion is total and dependency-sound on well-formed input. *)
From Coq Require Import List NArith ZArith Bool.
From PyD Require Import Base.Str Model.Hier Model.Mrs Model.Convert Proofs.ConvertP.
Import ListNotations.

Theorem C05_ids_match_rels : forall rels ids, ep_ids rels = Some ids -> length ids = length rels.
Proof. exact ep_ids_length. Qed.
Print Assumptions C05_ids_match_rels.
