(* C05 — MRS -> EDS conversion is total and dependency-sound on well-formed input. *)
From Coq Require Import List NArith ZArith Bool.
From PyD Require Import Base.Str Base.Graph Model.Hier Model.Mrs Model.Convert Proofs.ConvertP Proofs.ConvertP2.
Import ListNotations.

(* one node per predication, in order, carrying its predicate, constant and the
   type and properties of its intrinsic variable; unique node identifiers *)
Theorem C05_nodes : forall m pm uniq e, eds_from_mrs m pm uniq = COk e ->
  exists ids, ep_ids (m_rels m) = Some ids /\
    map (fun n => (en_pred n, en_carg n)) (e_nodes e) = map (fun x => (e_pred x, e_carg x)) (m_rels m) /\
    (forall k n x, nth_error (e_nodes e) k = Some n -> nth_error (m_rels m) k = Some x ->
       is_quant x = false -> forall v, e_iv x = Some v ->
       en_type n = var_type v /\ en_props n = match dict_get v (m_vars m) with Some pr => pr | None => [] end) /\
    (NoDup ids -> NoDup (map en_id (e_nodes e))).
Proof. exact eds_nodes_spec. Qed.
Print Assumptions C05_nodes.

Theorem C05_renamed_ids_unique : forall eps nodes,
  NoDup (map fst eps) -> map en_id nodes = map fst eps ->
  nodupb (map snd (new_ids_of eps)) = true ->
  NoDup (map en_id (rename_nodes (new_ids_of eps) nodes)).
Proof. exact renamed_ids_unique. Qed.
Print Assumptions C05_renamed_ids_unique.

Theorem C05_ids_match_rels : forall rels ids, ep_ids rels = Some ids -> length ids = length rels.
Proof. exact ep_ids_length. Qed.
Print Assumptions C05_ids_match_rels.

(* every edge is justified by the source: the basic dependencies *)
Theorem C05_deps_justified : forall m ids reps deps w,
  eds_deps m ids reps = (COk deps, w) -> deps_ok m ids reps deps.
Proof. exact eds_deps_justified. Qed.
Print Assumptions C05_deps_justified.

(* ... and the edges of the nodes of the result (before the final bijective
   renaming when unique_ids is set): a basic dependency (an argument of that
   role whose value selects the target through a handle constraint, a label or
   an intrinsic variable; or the single BV edge of a quantifier) or an ARG1
   predicate-modifier edge to the first representative of the node's own scope
   from which it was not reachable *)
Theorem C05_edges_justified : forall m pm uniq e, eds_from_mrs m pm uniq = COk e ->
  exists ids reps deps nodes1,
    ep_ids (m_rels m) = Some ids /\ representatives m = Some reps /\
    e_nodes e = (if uniq then rename_nodes (new_ids_of (combine ids (m_rels m))) nodes1 else nodes1) /\
    map en_id nodes1 = ids /\
    let nodes0 := map (base_node m deps) (combine ids (m_rels m)) in
    let gedges := flat_map (fun n => flat_map (fun rt => [(en_id n, snd rt); (snd rt, en_id n)]) (en_edges n)) nodes0 in
    forall n role tgt, In n nodes1 -> In (role, tgt) (en_edges n) ->
      (exists d, dep_ok m ids reps (en_id n) d /\ In (role, tgt) d) \/
      (role = ARG1 /\ pm = true /\ pm_justified reps gedges (en_id n) tgt).
Proof. exact eds_edges_justified. Qed.
Print Assumptions C05_edges_justified.

Theorem C05_bv_edge : forall m ids src p q,
  ivmap m ids src = Some (p, Some q) ->
  is_quant (snd q) = true /\ e_iv (snd q) = Some src /\
  is_quant (snd p) = false /\ e_iv (snd p) = Some src /\
  In p (combine ids (m_rels m)) /\ In q (combine ids (m_rels m)).
Proof. exact bv_edge_spec. Qed.
Print Assumptions C05_bv_edge.
