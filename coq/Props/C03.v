(* C03 — native EDS serialisation is lossless (token level). *)
From Coq Require Import List NArith ZArith Bool Relations.
From PyD Require Import Base.Str Base.Dec Model.Mrs Model.Iso Model.SimpleMrs Model.EdsNative Proofs.SimpleMrsP Proofs.EdsNativeP Model.MrsJson Model.EdsJson Proofs.EdsJsonP.
Import ListNotations.

Theorem C03_unescape_escape : forall s, unescape (escape s) = s.
Proof. exact unescape_escape. Qed.
Print Assumptions C03_unescape_escape.

(* decoding the encoder's token stream returns identifier, top and every
   node (id, predicate, alignment, constant, type, properties in priority
   order, edges in role order), for ANY placement of the "(fragmented)" and
   "|" status markers, with or without a top (the lookahead-based top
   detection never errs on encoder output), whatever follows; suppressing
   properties removes them together with the type, suppressing alignments
   removes exactly those *)
Theorem C03_decode_of_encode : forall frag disc p l g rest, Forall vnode_wf (ve_nodes g) ->
  dec_eds (enc_gen frag disc p l g ++ rest) = Some (proj_veds p l g, rest).
Proof. exact dec_enc_gen. Qed.
Print Assumptions C03_decode_of_encode.

(* the real encoder (status markers from the connectivity computation, shown or hidden) is an instance *)
Theorem C03_decode_of_encode_status : forall p l st g toks rest, Forall vnode_wf (ve_nodes g) ->
  enc_veds p l st g = Some toks -> dec_eds (toks ++ rest) = Some (proj_veds p l g, rest).
Proof. exact dec_enc_veds. Qed.
Print Assumptions C03_decode_of_encode_status.

(* top detection in isolation: top present or absent, fragmented or not, first node marked or not *)
Theorem C03_top_detection : forall (frag : bool) disc p l (top : option str) n nodes (rest : list etok),
  dec_top (match top with Some t => [ESYM t; ECOLON] | None => [] end
           ++ (if frag then [EGSTATUS FRAGMENTED] else [])
           ++ flat_map (node_toks disc p l) (n :: nodes) ++ ERBRACE :: rest)
  = Some (top, flat_map (node_toks disc p l) (n :: nodes) ++ ERBRACE :: rest).
Proof. exact dec_top_enc. Qed.
Print Assumptions C03_top_detection.

(* the component behind the status markers is the reflexive-transitive closure of the undirected edges *)
Theorem C03_main_component : forall g start x,
  (match ve_top g with Some t => Some t | None => hd_error (node_ids g) end) = Some start ->
  (In x (main_comp g) <-> clos_refl_trans _ (fun a b => In (a, b) (und_edges (ve_nodes g))) start x).
Proof. exact main_comp_spec. Qed.
Print Assumptions C03_main_component.

(* non-vacuity: a fragmented graph with a quoted constant, an untyped node and a disconnected node *)
Theorem C03_hypotheses_satisfiable :
  Forall vnode_wf (ve_nodes ex_e) /\
  exists toks, enc_veds true true true ex_e = Some toks /\ length toks = 53%nat
               /\ In (EGSTATUS FRAGMENTED) toks /\ In ENSTATUS toks.
Proof. exact (conj ex_e_wf ex_e_markers). Qed.
Print Assumptions C03_hypotheses_satisfiable.

(* stability: encoding the decoded graph again reproduces the token stream,
   for any placement of the status markers *)
Theorem C03_reencode_stable : forall frag disc p l g,
  enc_gen frag disc p l (proj_veds p l g) = enc_gen frag disc p l g.
Proof. exact enc_gen_stable. Qed.
Print Assumptions C03_reencode_stable.

(* EDS-JSON at the level of the JSON value: reading back the dictionary that
   to_dict writes gives the same top and the same nodes (type kept even when
   properties are suppressed), re-ordered by character span *)
Theorem C03_json_from_to_dict : forall p l g, NoDup (map v_id (ve_nodes g)) ->
  e_from_dict (e_to_dict p l g) =
  Some {| ve_top := ve_top g; ve_nodes := sort_nodes (map (proj_jnode p l) (ve_nodes g)); ve_ident := None |}.
Proof. exact e_from_to_dict. Qed.
Print Assumptions C03_json_from_to_dict.

Theorem C03_json_up_to_node_order : forall p l g,
  Permutation.Permutation (sort_nodes (map (proj_jnode p l) (ve_nodes g))) (map (proj_jnode p l) (ve_nodes g)).
Proof. exact e_json_nodes_permutation. Qed.
Print Assumptions C03_json_up_to_node_order.
