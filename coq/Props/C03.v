(* C03 — native EDS serialisation is lossless (token level). *)
From Coq Require Import List NArith ZArith Bool.
From PyD Require Import Base.Str Base.Dec Model.Mrs Model.Iso Model.SimpleMrs Model.EdsNative Proofs.SimpleMrsP Proofs.EdsNativeP.
Import ListNotations.

Theorem C03_unescape_escape : forall s, unescape (escape s) = s.
Proof. exact unescape_escape. Qed.
Print Assumptions C03_unescape_escape.
