(* C07 — well-formedness tests and scope structure agree with their definitions. *)
From Coq Require Import List NArith ZArith Bool Relations.
From PyD Require Import Base.Str Base.Graph Model.Hier Model.Mrs Proofs.MrsP.
From PyD Require Import Proofs.DescFuel.
Import ListNotations.

(* connectedness = every predication is reachable from the first one in the
   graph of label sharing, shared intrinsic variables and arguments resolved
   through handle constraints *)
Theorem C07_connected_iff : forall m i0 ids, ep_ids (m_rels m) = Some (i0 :: ids) ->
  (is_connected m = Some true <->
   forall i, In i (i0 :: ids) -> clos_refl_trans _ (cedge m (i0 :: ids)) i0 i).
Proof. exact connected_iff. Qed.
Print Assumptions C07_connected_iff.

Theorem C07_connected_empty : forall m, ep_ids (m_rels m) = Some [] -> is_connected m = Some true.
Proof. exact connected_empty. Qed.
Print Assumptions C07_connected_empty.

(* the underlying reachability computation is exact *)
Theorem C07_reach_is_closure : forall (edges : list (str * str)) start x,
  In x (reach str str_eqb edges start) <-> clos_refl_trans _ (edge str edges) start x.
Proof. exact (reach_spec str str_eqb str_eqb_spec). Qed.
Print Assumptions C07_reach_is_closure.

Theorem C07_unique_iv : forall m, has_unique_iv m = true <-> NoDup (nq_ivs m).
Proof. exact unique_iv_iff. Qed.
Print Assumptions C07_unique_iv.

Theorem C07_complete_iv : forall m,
  has_complete_iv m = true <-> forall e, In e (m_rels m) -> is_quant e = false -> e_iv e <> None.
Proof. exact complete_iv_iff. Qed.
Print Assumptions C07_complete_iv.

Theorem C07_well_formed_is_conjunction : forall m c, is_connected m = Some c ->
  is_well_formed m = Some (c && (has_complete_iv m && has_unique_iv m) && plausibly_scopes m).
Proof. exact well_formed_is_conjunction. Qed.
Print Assumptions C07_well_formed_is_conjunction.

(* the scope map: under each label exactly the predications with that label, in order *)
Theorem C07_scopes_partition : forall rels l,
  dict_get l (scope_map rels) = match with_label l rels with [] => None | es => Some es end.
Proof. exact scopes_partition. Qed.
Print Assumptions C07_scopes_partition.

(* conjoining yields exactly the connected components of the equalities *)
Theorem C07_conjoin_components : forall (A : Type) (scopes : list (str * list A)) leqs,
  (forall c, In c (map fst (conjoin scopes leqs)) ->
     exists n, In n (map fst scopes) /\
       forall x, In x c <-> clos_refl_trans _ (edge str (leq_edges leqs)) n x) /\
  (forall n, In n (map fst scopes) -> exists c, In c (map fst (conjoin scopes leqs)) /\ In n c).
Proof. exact @conjoin_components. Qed.
Print Assumptions C07_conjoin_components.

Theorem C07_conjoin_members : forall (A : Type) (scopes : list (str * list A)) leqs c ms,
  In (c, ms) (conjoin scopes leqs) ->
  ms = flat_map (fun l => match dict_get l scopes with Some x => x | None => [] end) c.
Proof. exact @conjoin_members. Qed.
Print Assumptions C07_conjoin_members.

(* DMRS: the top scope is the scope containing the top node itself *)
Theorem C07_dmrs_top_scope : forall nodes links t c,
  dmrs_top_scope nodes links (Some t) = Some c -> In c (dmrs_scopes nodes links) /\ In t c.
Proof. exact dmrs_top_scope_contains. Qed.
Print Assumptions C07_dmrs_top_scope.

Theorem C07_dmrs_top_scope_exists : forall nodes links t,
  In t nodes -> exists c, dmrs_top_scope nodes links (Some t) = Some c.
Proof. exact dmrs_top_scope_exists. Qed.
Print Assumptions C07_dmrs_top_scope_exists.

(* scope descendants and representatives always terminate: the fuel of the
   model (one more than the number of predications) is never exhausted,
   whatever cycles the handle constraints and labels form *)
Theorem C07_descendants_total : forall m ids, ep_ids (m_rels m) = Some ids -> descendants m <> None.
Proof. exact descendants_total. Qed.
Print Assumptions C07_descendants_total.

Theorem C07_representatives_total : forall m ids, ep_ids (m_rels m) = Some ids -> representatives m <> None.
Proof. exact representatives_total. Qed.
Print Assumptions C07_representatives_total.
