(* C06 — MRS isomorphism is exact and renaming-invariant; bag comparison partitions. *)
From Coq Require Import List NArith ZArith Bool.
From PyD Require Import Base.Str Model.Hier Model.Mrs Model.Iso Proofs.IsoP.
From PyD Require Import Proofs.IsoComplete Proofs.IsoSound Proofs.IsoClosure Proofs.IsoExact.
Import ListNotations.

(* comparing two bags returns counts that partition both bags, for any matcher *)
Theorem C06_bags_partition : forall (A : Type) (matches : A -> A -> bool) test gold u s g,
  compare_bags A matches test gold = (u, s, g) ->
  (u + s = length test /\ s + g = length gold)%nat.
Proof. exact @bags_partition. Qed.
Print Assumptions C06_bags_partition.

Theorem C06_bags_self : forall (A : Type) (matches : A -> A -> bool),
  (forall x, matches x x = true) ->
  forall l, compare_bags A matches l l = (0%nat, length l, 0%nat).
Proof. exact @bags_self. Qed.
Print Assumptions C06_bags_self.

(* partial soundness of the VF2 search: a mapping it returns covers the second
   graph and was built only from feasible pairs ... *)
Theorem C06_search_built_partial : forall g1 g2 fuel mp r,
  Built g1 g2 mp -> search fuel g1 g2 mp = Some r ->
  Built g1 g2 r /\ (length g2 <= length r)%nat.
Proof. exact search_built. Qed.
Print Assumptions C06_search_built_partial.

(* ... every pair of which has equal node labels (predicate, constant and, when
   requested, properties), equal self-loop data and equal degree ... *)
Theorem C06_built_labels_partial : forall g1 g2 mp, Built g1 g2 mp ->
  forall n m, In (n, m) mp ->
    node_lbl g1 n = node_lbl g2 m /\
    ed_get (Some n) (g_get g1 n) = ed_get (Some m) (g_get g2 m) /\
    length (g_get g1 n) = length (g_get g2 m).
Proof. exact built_labels. Qed.
Print Assumptions C06_built_labels_partial.

(* ... and whose newest pair is edge-consistent with all older pairs both ways *)
Theorem C06_built_edges_partial : forall g1 g2 mp n m, Built g1 g2 ((n, m) :: mp) ->
  consistent mp g1 g2 n m = true /\ consistent (inv_of mp) g2 g1 m n = true.
Proof. exact built_edges. Qed.
Print Assumptions C06_built_edges_partial.

(* completeness of the search: on isomorphic (augmented) graphs - dictionaries
   of dictionaries with unique keys whose edge targets are nodes - the
   backtracking search, with its candidate ordering, pruning and the fuel vf2
   gives it, always returns a mapping, and its domain is exactly the node set
   of the first graph (the test set(iso) == set(g1) of is_isomorphic):
   equivalent structures are never reported as different *)
Theorem C06_vf2_complete : forall g1 g2 psi psi', giso g1 g2 psi psi' -> wf_graph g1 -> wf_graph g2 ->
  exists r, search (S (length g2)) g1 g2 [] = Some r /\
            forall n, In n (map fst g1) <-> In n (map fst r).
Proof. exact search_covers. Qed.
Print Assumptions C06_vf2_complete.

(* in particular the matcher is reflexive on every well-formed graph *)
Theorem C06_vf2_reflexive : forall g, wf_graph g ->
  exists r, search (S (length g)) g g [] = Some r /\ length g <= length r.
Proof. exact search_reflexive. Qed.
Print Assumptions C06_vf2_reflexive.

(* the hypotheses are satisfiable: two graphs that differ by swapping two node names *)
Theorem C06_vf2_complete_nonvacuous : giso ex_g1 ex_g2 ex_swap ex_swap /\ wf_graph ex_g1 /\ wf_graph ex_g2.
Proof. exact ex_giso. Qed.
Print Assumptions C06_vf2_complete_nonvacuous.

(* what a mapping returned by the search guarantees (partial soundness, stronger form): it
   is one-to-one in both directions and covers the second graph; every pair has equal node
   labels (predicate, constant and, when requested, properties), equal self-loop data and
   equal degree; and for ANY two of its pairs the edge from the pair added later to the pair
   added earlier carries the same data in both graphs - present in both or absent in both.
   (vf2 runs this search on the graphs closed under inverse edges, so every adjacency of
   the MRS graph is compared in one of its two directions.  Not proved: the decoding of
   that closure back to the two directed edges of the MRS graph, which is why exactness on
   the un-augmented structure stays with the exhaustive-bijection oracle.) *)
Theorem C06_vf2_sound_partial : forall g1 g2 r,
  search (S (length g2)) g1 g2 [] = Some r ->
  NoDup (map fst r) /\ NoDup (map snd r) /\ (length g2 <= length r)%nat /\
  (forall n m, In (n, m) r ->
     node_lbl g1 n = node_lbl g2 m /\
     ed_get (Some n) (g_get g1 n) = ed_get (Some m) (g_get g2 m) /\
     length (g_get g1 n) = length (g_get g2 m)) /\
  (forall later n m earlier n' m', r = later ++ (n, m) :: earlier -> In (n', m') earlier ->
     ed_get (Some n') (g_get g1 n) = ed_get (Some m') (g_get g2 m)).
Proof. exact search_sound. Qed.
Print Assumptions C06_vf2_sound_partial.

(* soundness of the VF2 search at the level of the isographs themselves.  vf2 runs the
   search on the two isographs closed under inverse edges (inv_map).  If both isographs are
   well formed (unique keys, edge targets are nodes) and their edge data are clean (no
   data string starts with two dashes or contains blank-dash-dash: the two marks the closure
   itself adds), every mapping the search returns is one-to-one in both directions, covers
   the second graph, pairs nodes with equal labels (predicate, constant and, when requested,
   properties) and, for ANY two of its pairs, the directed edge between them carries the same
   data in both isographs or is absent in both: a changed predicate, argument, constant,
   constraint or property is never reported as isomorphic.  Both hypotheses are decidable
   and are evaluated on every structure of the correspondence run. *)
Theorem C06_vf2_sound : forall g1 g2 r,
  wf_graphb g1 = true -> wf_graphb g2 = true -> clean_graphb g1 = true -> clean_graphb g2 = true ->
  search (S (length (inv_map g2))) (inv_map g1) (inv_map g2) [] = Some r ->
  NoDup (map fst r) /\ NoDup (map snd r) /\ (length (inv_map g2) <= length r)%nat /\
  (forall n m, In (n, m) r -> node_lbl g1 n = node_lbl g2 m) /\
  (forall n m n' m', In (n, m) r -> In (n', m') r -> lk g1 n (Some n') = lk g2 m (Some m')).
Proof. exact vf2_exact_b. Qed.
Print Assumptions C06_vf2_sound.

(* the closure by look-ups: the closed edge a -> b is made of the directed edges a -> b and b -> a *)
Theorem C06_closure_edges : forall g a b, wf_graph g -> a <> b ->
  lk (inv_map g) a (Some b) = F (lk g a (Some b)) (lk g b (Some a)).
Proof. exact inv_map_F. Qed.
Print Assumptions C06_closure_edges.

Theorem C06_vf2_sound_nonvacuous :
  wf_graphb xg1 = true /\ wf_graphb xg2 = true /\ clean_graphb xg1 = true /\ clean_graphb xg2 = true /\
  search (S (length (inv_map xg2))) (inv_map xg1) (inv_map xg2) [] = Some [(xc, xc); (xa, xb); (xb, xa)].
Proof. exact vf2_exact_example. Qed.
Print Assumptions C06_vf2_sound_nonvacuous.
