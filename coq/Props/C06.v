(* C06 — MRS isomorphism is exact and renaming-invariant; bag comparison partitions. *)
From Coq Require Import List NArith ZArith Bool.
From PyD Require Import Base.Str Model.Hier Model.Mrs Model.Iso Proofs.IsoP.
From PyD Require Import Proofs.IsoComplete.
Import ListNotations.

(* comparing two bags returns counts that partition both bags, for any matcher *)
Theorem C06_bags_partition : forall (A : Type) (matches : A -> A -> bool) test gold u s g,
  compare_bags A matches test gold = (u, s, g) ->
  (u + s = length test /\ s + g = length gold)%nat.
Proof. exact @bags_partition. Qed.
Print Assumptions C06_bags_partition.

Theorem C06_bags_self : forall (A : Type) (matches : A -> A -> bool),
  (forall x, matches x x = true) ->
  forall l, compare_bags A matches l l = (0%nat, length l, 0%nat).
Proof. exact @bags_self. Qed.
Print Assumptions C06_bags_self.

(* partial soundness of the VF2 search: a mapping it returns covers the second
   graph and was built only from feasible pairs ... *)
Theorem C06_search_built_partial : forall g1 g2 fuel mp r,
  Built g1 g2 mp -> search fuel g1 g2 mp = Some r ->
  Built g1 g2 r /\ (length g2 <= length r)%nat.
Proof. exact search_built. Qed.
Print Assumptions C06_search_built_partial.

(* ... every pair of which has equal node labels (predicate, constant and, when
   requested, properties), equal self-loop data and equal degree ... *)
Theorem C06_built_labels_partial : forall g1 g2 mp, Built g1 g2 mp ->
  forall n m, In (n, m) mp ->
    node_lbl g1 n = node_lbl g2 m /\
    ed_get (Some n) (g_get g1 n) = ed_get (Some m) (g_get g2 m) /\
    length (g_get g1 n) = length (g_get g2 m).
Proof. exact built_labels. Qed.
Print Assumptions C06_built_labels_partial.

(* ... and whose newest pair is edge-consistent with all older pairs both ways *)
Theorem C06_built_edges_partial : forall g1 g2 mp n m, Built g1 g2 ((n, m) :: mp) ->
  consistent mp g1 g2 n m = true /\ consistent (inv_of mp) g2 g1 m n = true.
Proof. exact built_edges. Qed.
Print Assumptions C06_built_edges_partial.

(* completeness of the search: on isomorphic (augmented) graphs - dictionaries
   of dictionaries with unique keys whose edge targets are nodes - the
   backtracking search, with its candidate ordering, pruning and the fuel vf2
   gives it, always returns a mapping, and its domain is exactly the node set
   of the first graph (the test set(iso) == set(g1) of is_isomorphic):
   equivalent structures are never reported as different *)
Theorem C06_vf2_complete : forall g1 g2 psi psi', giso g1 g2 psi psi' -> wf_graph g1 -> wf_graph g2 ->
  exists r, search (S (length g2)) g1 g2 [] = Some r /\
            forall n, In n (map fst g1) <-> In n (map fst r).
Proof. exact search_covers. Qed.
Print Assumptions C06_vf2_complete.

(* in particular the matcher is reflexive on every well-formed graph *)
Theorem C06_vf2_reflexive : forall g, wf_graph g ->
  exists r, search (S (length g)) g g [] = Some r /\ length g <= length r.
Proof. exact search_reflexive. Qed.
Print Assumptions C06_vf2_reflexive.

(* the hypotheses are satisfiable: two graphs that differ by swapping two node names *)
Theorem C06_vf2_complete_nonvacuous : giso ex_g1 ex_g2 ex_swap ex_swap /\ wf_graph ex_g1 /\ wf_graph ex_g2.
Proof. exact ex_giso. Qed.
Print Assumptions C06_vf2_complete_nonvacuous.
