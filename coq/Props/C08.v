(* C08 — TSDB record encoding is injective, delimiter-safe and type-faithful.
   This file holds only the property theorems, each closed by `exact` of a
   lemma proved in Proofs/, with its Print Assumptions report. *)
From Coq Require Import List NArith ZArith Bool.
From PyD Require Import Base.Str Base.Dec Base.PySlice Model.Tsdb Proofs.TsdbP Proofs.TsdbTie
  Gen.TsdbGen Model.TsdbDate Proofs.TsdbDateP.
Import ListNotations.

(* escape and unescape are mutually inverse *)
Theorem C08_unescape_escape : forall s : str, unescape (escape s) = Some s.
Proof. exact unescape_escape. Qed.
Print Assumptions C08_unescape_escape.

Theorem C08_escape_unescape : forall t s : str,
  ~ In AT t -> ~ In LF t -> unescape t = Some s -> escape s = t.
Proof. exact escape_unescape. Qed.
Print Assumptions C08_escape_unescape.

(* ... and unescape rejects malformed escapes instead of guessing *)
Theorem C08_unescape_rejects : forall t : str, unescape t = None <-> well_escaped t = false.
Proof. exact unescape_rejects. Qed.
Print Assumptions C08_unescape_rejects.

(* the encoded form never contains a raw delimiter or newline *)
Theorem C08_escape_safe : forall s : str, ~ In AT (escape s) /\ ~ In LF (escape s).
Proof. exact escape_safe. Qed.
Print Assumptions C08_escape_safe.

(* join then split returns the same values; '' and None coincide *)
Theorem C08_split_join : forall vs : list raw, vs <> [] ->
  split_raw (join_raw vs) = Some (map none_if_empty vs).
Proof. exact split_join. Qed.
Print Assumptions C08_split_join.

Theorem C08_split_join_newline : forall (vs : list raw) (k : nat), vs <> [] ->
  split_raw (join_raw vs ++ repeat LF k) = Some (map none_if_empty vs).
Proof. exact split_join_newline. Qed.
Print Assumptions C08_split_join_newline.

(* exactly one delimiter per column boundary and no raw newline *)
Theorem C08_delimiters : forall vs : list raw,
  count_char AT (join_raw vs) = (length vs - 1)%nat /\ ~ In LF (join_raw vs).
Proof. exact join_delimiters. Qed.
Print Assumptions C08_delimiters.

Theorem C08_join_injective : forall vs ws : list raw,
  vs <> [] -> ws <> [] -> join_raw vs = join_raw ws ->
  map none_if_empty vs = map none_if_empty ws.
Proof. exact join_injective. Qed.
Print Assumptions C08_join_injective.

(* typed columns *)
Theorem C08_cast_format_int : forall z : Z,
  cast_val TInt (Some (format_val TInt (VInt z) None)) = COk (VInt z).
Proof. exact cast_format_int. Qed.
Print Assumptions C08_cast_format_int.

Theorem C08_cast_format_str : forall s : str, s <> [] ->
  cast_val TStr (Some (format_val TStr (VStr s) None)) = COk (VStr s).
Proof. exact cast_format_str. Qed.
Print Assumptions C08_cast_format_str.

Theorem C08_cast_format_none : forall t : dtype, t <> TInt ->
  cast_val t (Some (format_val t VNone None)) = COk VNone.
Proof. exact cast_format_none. Qed.
Print Assumptions C08_cast_format_none.

Theorem C08_join_typed_split : forall (vs : list value) (fs : list field) (line : str),
  fs <> [] -> join_typed vs fs = Some line ->
  split_raw line = Some (map (fun p => none_if_empty (Some
      (format_val (f_type (fst p)) (snd p)
         (Some (field_default (f_name (fst p)) (f_type (fst p)))))))
      (combine fs vs)).
Proof. exact join_typed_split. Qed.
Print Assumptions C08_join_typed_split.

(* a row exposes exactly the cast of its stored raw data *)
Theorem C08_row_view_int : forall (r : row) (i : Z), row_ok r ->
  row_getitem_int r i = py_getitem (row_iter r) i.
Proof. exact row_view_int. Qed.
Print Assumptions C08_row_view_int.

Theorem C08_row_view_slice : forall (r : row) (s : pyslice), row_ok r ->
  row_getitem_slice r s = py_slice (row_iter r) s.
Proof. exact row_view_slice. Qed.
Print Assumptions C08_row_view_slice.

Theorem C08_row_view_name : forall (r : row) (name : str) (k : nat), row_ok r ->
  field_index (r_fields r) 0 name = Some k ->
  row_getitem_name r name = nth_error (row_iter r) k /\
  exists f, nth_error (r_fields r) k = Some f /\ f_name f = name.
Proof. exact row_view_name. Qed.
Print Assumptions C08_row_view_name.

Theorem C08_row_made_ok : forall fs vs r, mk_row fs vs = Some r -> row_ok r.
Proof. exact mk_row_ok. Qed.
Print Assumptions C08_row_made_ok.

Theorem C08_row_iter_mk : forall fs vs r, mk_row fs vs = Some r ->
  row_iter r = map (fun p => cast_val (f_type (fst p))
                               (Some (format_val (f_type (fst p)) (snd p) None)))
                   (combine fs vs).
Proof. exact row_iter_mk. Qed.
Print Assumptions C08_row_iter_mk.

(* dates: casting the formatted form of a date-time at second resolution, years
   1000-9999, returns it *)
Theorem C08_cast_format_date : forall t : dt,
  valid_dt t = true -> (1000 <= dy t)%N -> parse_datetime (format_date t) = DSome t.
Proof. exact cast_format_date. Qed.
Print Assumptions C08_cast_format_date.

(* every documented spelling of an instant denotes that instant: DD-MM-YY[YY] with
   an optional day, or YYYY-MM[-DD]; the month as one or two digits or a three-letter
   name in any letter case; two-digit years from 1993 to 2092; an optional time
   HH:MM[:SS] after white space and/or an opening parenthesis *)
Theorem C08_date_spellings : forall (t : dt) (a b : str),
  valid_dt t = true -> date_spell t a -> time_spell t b -> parse_datetime (a ++ b) = DSome t.
Proof. exact parse_spelling. Qed.
Print Assumptions C08_date_spellings.

(* the premises are satisfiable: a documented example is a spelling in that sense *)
Theorem C08_date_spellings_nonvacuous :
  let t := {| dy := 2002; dmo := 12; dd := 1; dh := 15; dmi := 31; TsdbDate.ds := 1 |} in
  valid_dt t = true /\
  date_spell t ([48;49] ++ [DASH] ++ [100;101;99] ++ [DASH] ++ [48;50])%N /\
  time_spell t ([32] ++ [40] ++ [49;53] ++ [COLON] ++ [51;49] ++ [COLON] ++ [48;49] ++ [41])%N.
Proof. exact spelling_instance. Qed.
Print Assumptions C08_date_spellings_nonvacuous.

(* Tie A: the regenerated kernels are the modelled ones *)
Theorem C08_tie_escape_chain : gen_escape_chain = escape_chain.
Proof. exact tie_escape_chain. Qed.
Print Assumptions C08_tie_escape_chain.

Theorem C08_tie_unescape_table : gen_unescape_table = unescape_table /\ gen_unescape_lead = BSL
  /\ gen_field_delimiter = AT /\ gen_coded_attributes = coded_attributes.
Proof. exact (conj tie_unescape_table (conj tie_unescape_lead (conj tie_field_delimiter tie_coded_attributes))). Qed.
Print Assumptions C08_tie_unescape_table.
