(* C16 — derivation trees round-trip through UDF, UDX and dictionary forms. *)
From Coq Require Import List NArith ZArith Bool Permutation.
From PyD Require Import Base.Str Base.Dec Model.Deriv Proofs.DerivP.
Import ListNotations.

(* parsing the UDF/UDX token stream of any derivation (with or without a
   root, any head marks and types, any terminals and tokens) returns the
   derivation itself — in UDF minus head marks and types — and ignores
   whatever follows the closing parenthesis *)
Theorem C16_parse_of_print : forall udx id e sc a b h ty dtrs rest,
  wf (TNode id e sc a b h ty dtrs) ->
  build (toks_of udx (TNode id e sc a b h ty dtrs) ++ rest) [] =
  Some (normalise udx (TNode id e sc a b h ty dtrs)).
Proof. exact build_toks. Qed.
Print Assumptions C16_parse_of_print.

(* serialising the parsed tree reproduces the text, at any indentation *)
Theorem C16_print_stable : forall indent udx t level,
  to_udf indent udx level (normalise udx t) = to_udf indent udx level t.
Proof. exact to_udf_normalise. Qed.
Print Assumptions C16_print_stable.

Theorem C16_normalise_idempotent : forall udx t, normalise udx (normalise udx t) = normalise udx t.
Proof. exact normalise_idem. Qed.
Print Assumptions C16_normalise_idempotent.

(* dictionary form and back gives the same derivation *)
Theorem C16_dict_roundtrip : forall t d, to_dict t = Some d -> from_dict d = t.
Proof. exact from_to_dict. Qed.
Print Assumptions C16_dict_roundtrip.

(* terminals, preterminals and internal nodes partition the tree *)
Theorem C16_partition : forall t, shaped t ->
  Permutation (nonterminals t) (preterminals t ++ internals t).
Proof. exact partition. Qed.
Print Assumptions C16_partition.

Theorem C16_terminals_under_preterminals : forall t, shaped t ->
  terminals t = flat_map (fun p => match p with TNode _ _ _ _ _ _ _ [TTerm f tk] => [TTerm f tk] | _ => [] end)
                         (preterminals t).
Proof. exact terminals_of_preterminals. Qed.
Print Assumptions C16_terminals_under_preterminals.
