(* C12 — profiles made by mkprof contain exactly the selected source rows. *)
From Coq Require Import List NArith ZArith Bool.
From PyD Require Import Base.Str Model.Tsdb Model.TsdbFiles Model.TsdbDb Model.Hier Model.Tsql Model.Mkprof
  Proofs.MkprofP Proofs.MkprofP2 Proofs.MkprofP3 Proofs.TsdbDbP.
Import ListNotations.

(* a profile created from sentence lines: record k is built from line k with
   identifier k+1 (numbering from 1) ... *)
Theorem C12_lines_records : forall fields lines i k line,
  nth_error lines k = Some line ->
  nth_error (lines_to_records fields i lines) k = Some (item_record fields (i + Z.of_nat k) line).
Proof. exact lines_records. Qed.
Print Assumptions C12_lines_records.

Theorem C12_one_item_per_line : forall fields lines i,
  length (lines_to_records fields i lines) = length lines.
Proof. exact lines_records_length. Qed.
Print Assumptions C12_one_item_per_line.

(* ... and the well-formedness mark is 0 exactly for lines starting with '*' *)
Theorem C12_sentence_mark : forall line,
  (forall rest, rstrip1 10 line = 42%N :: rest -> sentence line = (0%Z, rest)) /\
  ((forall rest, rstrip1 10 line <> 42%N :: rest) -> sentence line = (1%Z, rstrip1 10 line)).
Proof. exact sentence_mark. Qed.
Print Assumptions C12_sentence_mark.

(* cleanup: a skeleton keeps only the non-empty core relations, a non-skeleton
   keeps every relation of the destination schema; stale files are removed *)
Theorem C12_cleanup : forall fs dst_sch skeleton old_files n,
  NoDup (dst_sch ++ filter (fun x => negb (mem x dst_sch)) old_files) ->
  get_rel (mkprof_cleanup fs dst_sch skeleton old_files) n =
  if mem n (dst_sch ++ filter (fun x => negb (mem x dst_sch)) old_files)
  then cleaned (if skeleton then filter (fun x => mem x CORE_FILES) dst_sch else dst_sch) skeleton n (get_rel fs n)
  else get_rel fs n.
Proof. exact MkprofP.cleanup_spec. Qed.
Print Assumptions C12_cleanup.

(* refreshing in place is write_database onto itself: C09's theorem applies *)
Theorem C12_refresh_preserves : forall (ss : schema) (src dst : files) (inplace : bool)
    (names : option (list str)) (new_schema : option schema) (gzip : bool) (fs' : files),
  let sch := match new_schema with Some s => s | None => ss end in
  let rm := match new_schema with Some _ => true | None => false end in
  let names' := match names with Some l => l | None => map fst sch end in
  let dst0 := if inplace then src else dst in
  NoDup names' ->
  write_database ss src dst inplace names new_schema gzip = DOk fs' ->
  (forall n, In n names' ->
     exists lines, expected_lines ss sch rm (get_rel (if inplace then dst0 else src) n) n = Some lines /\
       read_rel (get_rel fs' n) = Some lines /\
       gz (get_rel fs' n) = (if gzip && negb (is_nil lines) then Some lines else None) /\
       (tx (get_rel fs' n) = None <-> gz (get_rel fs' n) <> None)) /\
  (forall n, In n (map fst sch) -> ~ In n names' -> get_rel fs' n = absent) /\
  (forall n, ~ In n (map fst sch) -> ~ In n names' -> get_rel fs' n = get_rel dst0 n).
Proof. exact write_database_spec. Qed.
Print Assumptions C12_refresh_preserves.

(* the filter path removes records equal to their predecessor: a relation that
   really holds two equal adjacent rows loses one (known finding F15) *)
Theorem C12_distinct_refuted : exists rows : list (list raw), distinct_adj None rows <> rows.
Proof. exact distinct_adj_refuted. Qed.
Print Assumptions C12_distinct_refuted.

Theorem C12_distinct_no_invention : forall prev l x, In x (distinct_adj prev l) -> In x l.
Proof. exact distinct_adj_sub. Qed.
Print Assumptions C12_distinct_no_invention.

(* the duplicate filter of the where path is the identity exactly on selections
   without equal neighbours: outside F15 the copy holds exactly the selected rows *)
Theorem C12_distinct_identity : forall l, no_adj_dup None l = true -> distinct_adj None l = l.
Proof. intros l. exact (distinct_adj_id l None). Qed.
Print Assumptions C12_distinct_identity.

Theorem C12_distinct_changes_only_then : forall l, no_adj_dup None l = false -> distinct_adj None l <> l.
Proof. intros l. exact (distinct_adj_changes l None). Qed.
Print Assumptions C12_distinct_changes_only_then.

(* a profile created from delimited lines (header line naming the columns): one item per
   data line ... *)
Theorem C12_delimited_one_item_per_line : forall delim fields names lines i seen recs,
  delim_records delim fields names i seen lines = Some recs -> length recs = length lines.
Proof. exact delim_records_length. Qed.
Print Assumptions C12_delimited_one_item_per_line.

(* ... item k built from line k alone and its position ... *)
Theorem C12_delimited_records : forall delim fields names lines i seen recs k line,
  delim_records delim fields names i seen lines = Some recs ->
  nth_error lines k = Some line ->
  exists gid, delim_record delim fields names (i + Z.of_nat k) line = Some (nth k recs [], gid) /\
              nth_error recs k <> None.
Proof. exact delim_records_nth. Qed.
Print Assumptions C12_delimited_records.

(* ... a column given in the text written verbatim, a missing identifier the line number, a
   missing length the number of words of the input ... *)
Theorem C12_delimited_fields : forall delim fields names i line rec gid,
  delim_record delim fields names i line = Some (rec, gid) ->
  exists vals, split_cols delim line = Some vals /\ length vals = length names /\
    rec = map (fun f =>
                 match col_lookup (f_name f) names vals with
                 | Some (Some s) => VStr s
                 | Some None => VNone
                 | None =>
                     if str_eqb (f_name f) I_ID then VInt i
                     else if str_eqb (f_name f) I_LENGTH then
                       match col_lookup I_INPUT names vals with
                       | Some v => VInt (word_count (match v with Some s => s | None => [] end))
                       | None => VNone
                       end
                     else VNone
                 end) fields.
Proof. exact delim_record_fields. Qed.
Print Assumptions C12_delimited_fields.

(* ... and identifiers given in the text pairwise different in an accepted input *)
Theorem C12_delimited_ids_distinct : forall delim fields names lines i seen recs,
  delim_records delim fields names i seen lines = Some recs ->
  forall k line rec id, nth_error lines k = Some line ->
    delim_record delim fields names (i + Z.of_nat k) line = Some (rec, Some id) ->
    existsb (raw_eqb' id) seen = false.
Proof. exact delim_records_ids_distinct. Qed.
Print Assumptions C12_delimited_ids_distinct.
