(* C01 — SimpleMRS serialisation is lossless (token level). *)
From Coq Require Import List NArith ZArith Bool.
From PyD Require Import Base.Str Model.Mrs Model.Iso Model.SimpleMrs Proofs.SimpleMrsP Proofs.SimpleMrsStable Model.MrsJson Proofs.MrsJsonP.
Import ListNotations.

(* the decoder's unescaping inverts the encoder's escaping of constants,
   surface strings and quoted predicates, for every string *)
Theorem C01_unescape_escape : forall s, unescape (escape s) = s.
Proof. exact unescape_escape. Qed.
Print Assumptions C01_unescape_escape.

(* decoding the token stream of the encoder (any options, whatever the
   lexer's classification of unquoted predicates, whatever follows) returns
   top, index, predications (arguments in role order), constraints,
   alignment and surface string exactly, minus the alignments when they are
   suppressed; every variable whose properties were emitted carries them in
   priority order *)
Theorem C01_decode_of_encode : forall cls p l m toks vp_left rest,
  mrs_wf m -> enc_mrs_full cls p l m = Some (toks, vp_left) ->
  exists vars', dec_mrs (toks ++ rest) = Some (proj_mrs l m vars', rest) /\
    forall v, getp v vp_left = [] -> getp v vars' = sort_props (getp v (if p then xm_vars m else [])).
Proof. exact dec_enc_mrs. Qed.
Print Assumptions C01_decode_of_encode.

(* properties are written on the first mention of a variable and never again *)
Theorem C01_first_mention_only : forall v vp tv vp', vp_ok vp -> enc_var v vp = Some (tv, vp') ->
  getp v vp' = [] /\ enc_var v vp' = Some ([TSYM v], vp').
Proof. exact first_mention_only. Qed.
Print Assumptions C01_first_mention_only.

(* every mentioned variable's properties are emitted *)
Theorem C01_all_properties_emitted : forall cls l m toks vp_left,
  vp_ok (xm_vars m) -> enc_mrs_full cls true l m = Some (toks, vp_left) ->
  (forall v, In v (mentioned m) -> getp v vp_left = []) /\
  (forall v, getp v (xm_vars m) = [] -> getp v vp_left = []).
Proof. exact enc_mrs_clears. Qed.
Print Assumptions C01_all_properties_emitted.

(* lossless: if every variable with properties is mentioned (index, an
   argument, an individual constraint) nothing at all is lost *)
Theorem C01_lossless : forall cls l m toks vp_left rest,
  mrs_wf m -> enc_mrs_full cls true l m = Some (toks, vp_left) ->
  (forall v, getp v (xm_vars m) <> [] -> In v (mentioned m)) ->
  exists vars', dec_mrs (toks ++ rest) = Some (proj_mrs l m vars', rest) /\
    forall v, getp v vars' = sort_props (getp v (xm_vars m)).
Proof. exact dec_enc_mrs_lossless. Qed.
Print Assumptions C01_lossless.

(* suppressing properties removes exactly the properties *)
Theorem C01_properties_suppressed : forall cls l m toks vp_left rest,
  mrs_wf m -> enc_mrs_full cls false l m = Some (toks, vp_left) ->
  exists vars', dec_mrs (toks ++ rest) = Some (proj_mrs l m vars', rest) /\ forall v, getp v vars' = [].
Proof. exact dec_enc_mrs_noprops. Qed.
Print Assumptions C01_properties_suppressed.

(* the sorts used by the encoder only reorder *)
Theorem C01_sorts_are_permutations : forall ps args,
  Permutation.Permutation (sort_props ps) ps /\ Permutation.Permutation (sort_roles args) args.
Proof. exact sorts_are_permutations. Qed.
Print Assumptions C01_sorts_are_permutations.

(* non-vacuity: a structure with every feature meets the hypotheses *)
Theorem C01_hypotheses_satisfiable :
  mrs_wf ex_m /\ (forall v, getp v (xm_vars ex_m) <> [] -> In v (mentioned ex_m)) /\
  exists toks vp, enc_mrs_full (fun _ => false) true true ex_m = Some (toks, vp) /\ length toks = 65%nat.
Proof. exact (conj ex_wf (conj ex_expressible ex_encodes)). Qed.
Print Assumptions C01_hypotheses_satisfiable.

(* MRS-JSON at the level of the JSON value: reading back the dictionary that
   to_dict writes gives the structure with exactly the suppressed information
   removed (variables and their properties in order; alignments that are not
   character spans degrade to <-1:-1>) *)
Theorem C01_json_from_to_dict : forall p l m d,
  PyD.Model.MrsJson.to_dict p l m = Some d ->
  PyD.Model.MrsJson.from_dict d = Some (PyD.Proofs.MrsJsonP.proj_json p l m).
Proof. exact PyD.Proofs.MrsJsonP.from_to_dict. Qed.
Print Assumptions C01_json_from_to_dict.

(* stability: encoding the decoded structure again reproduces the token
   stream exactly (arguments already in role order, properties already in
   priority order, nothing is emitted twice) *)
Theorem C01_reencode_stable : forall cls l m toks vpl rest,
  mrs_wf m -> enc_mrs_full cls true l m = Some (toks, vpl) ->
  (forall v, getp v (xm_vars m) <> [] -> In v (mentioned m)) ->
  exists m', dec_mrs (toks ++ rest) = Some (m', rest) /\ enc_mrs cls true l m' = Some toks.
Proof. exact reencode_stable. Qed.
Print Assumptions C01_reencode_stable.

Theorem C01_reencode_stable_properties_suppressed : forall cls l m toks vpl rest,
  mrs_wf m -> enc_mrs_full cls false l m = Some (toks, vpl) ->
  exists m', dec_mrs (toks ++ rest) = Some (m', rest) /\ enc_mrs cls false l m' = Some toks.
Proof. exact reencode_stable_noprops. Qed.
Print Assumptions C01_reencode_stable_properties_suppressed.

(* the encoder's sorts are idempotent *)
Theorem C01_sorts_idempotent : forall ps args,
  sort_props (sort_props ps) = sort_props ps /\ sort_roles (sort_roles args) = sort_roles args.
Proof. exact sorts_idempotent. Qed.
Print Assumptions C01_sorts_idempotent.
