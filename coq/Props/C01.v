(* C01 — SimpleMRS serialisation is lossless (token level). *)
From Coq Require Import List NArith ZArith Bool.
From PyD Require Import Base.Str Model.Mrs Model.SimpleMrs Proofs.SimpleMrsP.
Import ListNotations.

(* the decoder's unescaping inverts the encoder's escaping of constants,
   surface strings and quoted predicates, for every string *)
Theorem C01_unescape_escape : forall s, unescape (escape s) = s.
Proof. exact unescape_escape. Qed.
Print Assumptions C01_unescape_escape.
