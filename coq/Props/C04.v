(* C04 — MRS -> DMRS -> MRS conversion preserves the semantics DMRS can express. *)
From Coq Require Import List NArith ZArith Bool.
From PyD Require Import Base.Str Model.Hier Model.Mrs Model.Convert Proofs.ConvertP.
Import ListNotations.

(* one node per predication, in order, carrying its predicate and constant *)
Theorem C04_nodes : forall m d, dmrs_from_mrs m = COk d ->
  map (fun n => (dn_pred n, dn_carg n)) (d_nodes d) = map (fun e => (e_pred e, e_carg e)) (m_rels m).
Proof. exact dmrs_nodes_basic. Qed.
Print Assumptions C04_nodes.
