(* C04 — MRS -> DMRS -> MRS conversion preserves the semantics DMRS can express. *)
From Coq Require Import List NArith ZArith Bool.
From PyD Require Import Base.Str Model.Hier Model.Mrs Model.Convert Model.FromDmrs Proofs.ConvertP Proofs.FromDmrsP.
Import ListNotations.

(* one node per predication, in order *)
Theorem C04_nodes : forall m d, dmrs_from_mrs m = COk d ->
  exists ids reps, ep_ids (m_rels m) = Some ids /\ representatives m = Some reps /\
    d_nodes d = map (node_of m ids) (eps m ids) /\
    map snd (eps m ids) = m_rels m /\
    d_links d = flat_map fst (per_arg m ids reps) ++ mod_links ids reps ++ extra_links m ids reps.
Proof. exact dmrs_nodes_spec. Qed.
Print Assumptions C04_nodes.

(* ... each carrying the predicate and constant of its predication and the type
   and properties of its intrinsic variable *)
Theorem C04_node_attributes : forall m ids i e,
  let n := node_of m ids (i, e) in
  dn_pred n = e_pred e /\ dn_carg n = e_carg e /\ dn_id n = nid_of ids i /\
  (is_quant e = false -> forall v, e_iv e = Some v ->
     dn_type n = var_type v /\
     dn_props n = match dict_get v (m_vars m) with Some p => p | None => [] end) /\
  (is_quant e = true -> dn_type n = None /\ dn_props n = []).
Proof. exact node_of_spec. Qed.
Print Assumptions C04_node_attributes.

Theorem C04_nodes_in_order : forall m d, dmrs_from_mrs m = COk d ->
  map (fun n => (dn_pred n, dn_carg n)) (d_nodes d) = map (fun e => (e_pred e, e_carg e)) (m_rels m).
Proof. exact dmrs_nodes_basic. Qed.
Print Assumptions C04_nodes_in_order.

(* every link the conversion produces is justified by the source: its start
   predication has that role; the target is the predication the argument refers to
   (EQ/NEQ by label identity), or the first representative of the scope a handle
   constraint (H) or a direct label (HEQ) selects (for a quantifier: the member of that
   scope it binds, C04_scopal_target), or it is a MOD/EQ link from a
   later representative, or from another member of the scope that no /EQ link ties to
   it (repaired code, F32), to the first representative of one scope *)
(* the end of a scopal link of a quantifier (repaired code, F34): the first representative
   of the selected scope, unless a non-quantifier member of that scope carries the
   quantifier's own variable - then that member *)
Theorem C04_scopal_target : forall m ids e lbl r,
  scopal_target m ids e lbl r = r \/
  (is_quant e = true /\ exists p, In p (eps m ids) /\ fst p = scopal_target m ids e lbl r /\
     e_label (snd p) = lbl /\ is_quant (snd p) = false /\ e_iv (snd p) = e_iv e).
Proof. exact scopal_target_spec. Qed.
Print Assumptions C04_scopal_target.

Theorem C04_links_justified : forall m d, dmrs_from_mrs m = COk d ->
  exists ids reps, ep_ids (m_rels m) = Some ids /\ representatives m = Some reps /\
    forall l, In l (d_links d) -> link_justified m ids reps l.
Proof. exact dmrs_links_justified. Qed.
Print Assumptions C04_links_justified.

(* DMRS -> MRS: one predication per node, in order, with the node's predicate
   and constant, the label of its scope class and the intrinsic variable given
   to the node (for a quantifier: to the node it binds); only qeq handle
   constraints, no individual constraints; a top handle, qeq the label of the
   top node's scope, exactly when the DMRS has a top.  Holds for every choice of
   class labels that conjoin() may make. *)
Theorem C04_from_dmrs : forall d choice m, mrs_from_dmrs d choice = Some m ->
  exists lq ivs, leqs d = Some lq /\
    Forall2 (ep_of_node d choice (classes d lq) ivs) (d_nodes d) (m_rels m) /\
    all_qeq (m_hcons m) /\ m_icons m = [] /\
    (m_top m = None <-> d_top d = None) /\
    (forall t, d_top d = Some t -> exists h l, m_top m = Some h /\
        scope_label d choice (classes d lq) t = Some l /\ In (h, QEQ, l) (m_hcons m)).
Proof. exact from_dmrs_spec. Qed.
Print Assumptions C04_from_dmrs.

(* the two conversions keep predicates and constants, in order, both ways round *)
Theorem C04_roundtrip_rels : forall m d choice m',
  dmrs_from_mrs m = COk d -> mrs_from_dmrs d choice = Some m' ->
  map (fun e => (e_pred e, e_carg e)) (m_rels m') = map (fun e => (e_pred e, e_carg e)) (m_rels m).
Proof. exact roundtrip_rels_basic. Qed.
Print Assumptions C04_roundtrip_rels.

Theorem C04_roundtrip_nodes : forall d choice m d', roles_ok d = true ->
  mrs_from_dmrs d choice = Some m -> dmrs_from_mrs m = COk d' ->
  map (fun n => (dn_pred n, dn_carg n)) (d_nodes d') = map (fun n => (dn_pred n, dn_carg n)) (d_nodes d).
Proof. exact roundtrip_nodes_basic. Qed.
Print Assumptions C04_roundtrip_nodes.

(* links made from an MRS never use the ARG0 or CARG role (the hypothesis above) *)
Theorem C04_links_roles : forall m d, dmrs_from_mrs m = COk d -> roles_ok d = true.
Proof. exact from_mrs_roles_ok. Qed.
Print Assumptions C04_links_roles.
