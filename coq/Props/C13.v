(* C13 — REPP rewriting equals ordered regex substitution with fixpoint groups. *)
From Coq Require Import List NArith ZArith Bool.
From PyD Require Import Base.Str Base.PySlice Model.Repp Proofs.ReppP.
Import ListNotations.

(* a rewrite rule, for every string and every match list, produces the gaps
   between matches and the template expansions: a global substitution *)
Theorem C13_rule_is_substitution : forall s ms tr un,
  exists st, apply_rule s ms tr un = Some st /\
    st_in st = s /\ st_out st = subst s ms (tr ++ un) 0 /\
    length (st_smap st) = (length (st_out st) + 2)%nat /\
    length (st_emap st) = (length (st_out st) + 2)%nat /\
    st_applied st = negb (match ms with [] => true | _ => false end).
Proof. exact apply_rule_spec. Qed.
Print Assumptions C13_rule_is_substitution.

Theorem C13_segments_are_the_template : forall segs,
  fst (get_segments segs) ++ snd (get_segments segs) = segs.
Proof. exact get_segments_app. Qed.
Print Assumptions C13_segments_are_the_template.

Theorem C13_no_match_identity : forall s tr un,
  exists st, apply_rule s [] tr un = Some st /\ st_out st = s /\ st_applied st = false.
Proof. exact no_match_identity. Qed.
Print Assumptions C13_no_match_identity.

(* every program, for every regex oracle and activation set: the traced run
   computes the reference interpreter's string (rules in order, iterative
   groups to a fixpoint, inactive external modules skipped); all steps carry
   well-sized maps; the rule/mask steps form a chain from input to output *)
Theorem C13_program_semantics : forall orc active fuel,
  (forall o s, good s (run_op orc active fuel o s) (sem_op orc active fuel o s)) /\
  (forall ops s, good s (run_ops orc active fuel ops s) (sem_ops orc active fuel ops s)) /\
  (forall ops s, good s (run_group orc active fuel ops s) (sem_group orc active fuel ops s)) /\
  (forall ops s, good s (run_iter orc active fuel ops s) (sem_iter orc active fuel ops s)).
Proof. exact run_sem. Qed.
Print Assumptions C13_program_semantics.

(* the last element of the trace carries the result of apply *)
Theorem C13_trace_ends_in_result : forall orc active fuel ops s steps out a,
  run_group orc active fuel ops s = ROk steps out a ->
  exists before, steps = before ++ [group_step s out a].
Proof. exact run_group_last. Qed.
Print Assumptions C13_trace_ends_in_result.
