(* C02 — SimpleDMRS serialisation is lossless (token level). *)
From Coq Require Import List NArith ZArith Bool.
From PyD Require Import Base.Str Base.Dec Model.Mrs Model.Iso Model.SimpleMrs Model.SimpleDmrs Proofs.SimpleMrsP Proofs.SimpleDmrsP Model.MrsJson Model.DmrsJson Proofs.DmrsJsonP Model.Dmrx Proofs.DmrxP.
Import ListNotations.

(* escaping of constants and of the surface string is inverted by the decoder *)
Theorem C02_unescape_escape : forall s, unescape (escape s) = s.
Proof. exact unescape_escape. Qed.
Print Assumptions C02_unescape_escape.

(* decoding the encoder's token stream (any options, whatever follows the
   closing brace) returns identifier, graph alignment and surface string,
   top, index, every node (identifier, predicate, alignment, constant, type
   - including u and None -, properties in order) and every link exactly;
   suppressing properties or alignments removes exactly those *)
Theorem C02_decode_of_encode : forall p l g rest, dmrs_wf g ->
  dec_dmrs (enc_dmrs p l g ++ rest) = Some (proj_dmrs p l g, rest).
Proof. exact dec_enc_dmrs. Qed.
Print Assumptions C02_decode_of_encode.

(* a node is read back whatever its alignment, type and constant *)
Theorem C02_node_readable : forall p l n rest, norm_props (n_props n) ->
  dec_node (Z_to_dec (n_id n)) (node_body p l n ++ rest) = Some (proj_node p l n, rest).
Proof. exact dec_node_enc. Qed.
Print Assumptions C02_node_readable.

(* a link is read back whatever its role (present or not) and post *)
Theorem C02_link_readable : forall s e role post rest, role <> Some [] ->
  dec_link (Z_to_dec s) (link_body (s, e, role, post) ++ rest) = Some ((s, e, role, post), rest).
Proof. exact dec_link_enc. Qed.
Print Assumptions C02_link_readable.

(* links that do not start at the legacy node 0 leave top and links alone *)
Theorem C02_no_legacy_top : forall top links, Forall link_ok links -> norm_top top links = (top, links).
Proof. exact norm_top_id. Qed.
Print Assumptions C02_no_legacy_top.

(* non-vacuity *)
Theorem C02_hypotheses_satisfiable : dmrs_wf ex_g /\ length (enc_dmrs true true ex_g) = 54%nat.
Proof. exact (conj ex_g_wf ex_g_len). Qed.
Print Assumptions C02_hypotheses_satisfiable.

(* stability: encoding the decoded graph again reproduces the token stream *)
Theorem C02_reencode_stable : forall p l g, enc_dmrs p l (proj_dmrs p l g) = enc_dmrs p l g.
Proof. exact enc_dmrs_stable. Qed.
Print Assumptions C02_reencode_stable.

(* DMRS-JSON at the level of the JSON value: reading back the dictionary
   that to_dict writes gives the same graph; the node type travels inside
   sortinfo, so suppressing properties removes the type with them *)
Theorem C02_json_from_to_dict : forall p l g,
  Forall (fun n => no_cvarsort (n_props n)) (g_nodes g) -> Forall link_ok (g_links g) ->
  d_from_dict (d_to_dict p l g) = Some (proj_jdmrs p l g).
Proof. exact d_from_to_dict. Qed.
Print Assumptions C02_json_from_to_dict.

(* DMRX at the level of the XML element tree (_encode_dmrs / _decode_dmrs): for any predicate
   oracles (predicate.split / predicate.create) such that create undoes split on the predicates
   of the structure, decoding the encoded element gives back the DMRS - node identifiers,
   predicates, types, properties (names in upper case, values in lower case), constants,
   alignments, links, top, index, surface string and identifier - with exactly the properties
   (and the type stored with them) or the alignments removed when they are suppressed; a node
   without an alignment is written and read as <-1:-1> *)
Theorem C02_dmrx_from_to_element : forall psplit pcreate p l g,
  Forall (node_ok psplit pcreate) (g_nodes g) -> Forall link_ok (g_links g) ->
  decode_dmrs pcreate (encode_dmrs psplit p l g) = Some (proj_xdmrs p l g).
Proof. exact dmrx_roundtrip. Qed.
Print Assumptions C02_dmrx_from_to_element.

Theorem C02_dmrx_nonvacuous :
  Forall (node_ok ex_split ex_create) (g_nodes ex_dmrs) /\ Forall link_ok (g_links ex_dmrs) /\
  decode_dmrs ex_create (encode_dmrs ex_split true true ex_dmrs) = Some (proj_xdmrs true true ex_dmrs).
Proof. exact dmrx_example. Qed.
Print Assumptions C02_dmrx_nonvacuous.
