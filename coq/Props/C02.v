(* C02 — SimpleDMRS serialisation is lossless (token level). *)
From Coq Require Import List NArith ZArith Bool.
From PyD Require Import Base.Str Model.Mrs Model.Iso Model.SimpleMrs Model.SimpleDmrs Proofs.SimpleMrsP Proofs.SimpleDmrsP.
Import ListNotations.

Theorem C02_unescape_escape : forall s, unescape (escape s) = s.
Proof. exact unescape_escape. Qed.
Print Assumptions C02_unescape_escape.
