(* C14 — REPP character spans point back to the original text. *)
From Coq Require Import List NArith ZArith Bool.
From PyD Require Import Base.Str Base.PySlice Model.Repp Proofs.ReppP.
From PyD Require Import Proofs.ReppGroupP.
From PyD Require Model.YY Proofs.YYP.
Import ListNotations.

(* every step of every program has one map entry per output position plus
   two sentinels (part of the `good` invariant of the interpreter) *)
Theorem C14_step_map_lengths : forall orc active fuel ops s steps out a,
  run_group orc active fuel ops s = ROk steps out a -> Forall step_wf steps.
Proof.
  intros orc active fuel ops s steps out a H.
  destruct (run_sem orc active fuel) as (_ & _ & G & _). specialize (G ops s).
  rewrite H in G. exact (proj1 (proj2 G)).
Qed.
Print Assumptions C14_step_map_lengths.

Theorem C14_rule_map_lengths : forall s ms tr un,
  exists st, apply_rule s ms tr un = Some st /\
    length (st_smap st) = (length (st_out st) + 2)%nat /\
    length (st_emap st) = (length (st_out st) + 2)%nat.
Proof.
  intros. destruct (apply_rule_spec s ms tr un) as (st & A & _ & _ & B & C & _).
  exists st. auto.
Qed.
Print Assumptions C14_rule_map_lengths.

(* merging keeps the length of the newer map *)
Theorem C14_mergemap_length : forall map1 map2 l,
  mergemap map1 map2 = Some l -> length l = length map2.
Proof. exact mergemap_length. Qed.
Print Assumptions C14_mergemap_length.

(* every character copied from outside all matches is attributed to exactly
   its original position (start and end maps), whatever earlier matches
   inserted or deleted — provided each match's length change is accounted
   exactly (delta_ok) *)
Theorem C14_gap_provenance : forall s ms tr un st,
  ms <> [] -> apply_rule s ms tr un = Some st ->
  ms_ok s ms 0 -> (forall m, In m ms -> delta_ok s m tr un) ->
  forall j o, In (j, o) (gap_pairs s ms (tr ++ un) 0 0) ->
    nth_error (st_smap st) (S j) = Some (Z.of_nat o - Z.of_nat j)%Z /\
    nth_error (st_emap st) (S j) = Some (Z.of_nat o - Z.of_nat j)%Z.
Proof. exact rule_gap_provenance. Qed.
Print Assumptions C14_gap_provenance.

(* ... which holds for every match and every template (after the repair of F9) *)
Theorem C14_delta_ok : forall s m tr un, delta_ok s m tr un.
Proof. exact delta_ok_all. Qed.
Print Assumptions C14_delta_ok.

Theorem C14_gap_provenance_all : forall s ms tr un st,
  ms <> [] -> apply_rule s ms tr un = Some st -> ms_ok s ms 0 ->
  forall j o, In (j, o) (gap_pairs s ms (tr ++ un) 0 0) ->
    nth_error (st_smap st) (S j) = Some (Z.of_nat o - Z.of_nat j)%Z /\
    nth_error (st_emap st) (S j) = Some (Z.of_nat o - Z.of_nat j)%Z.
Proof. exact rule_gap_provenance_all. Qed.
Print Assumptions C14_gap_provenance_all.

(* every character carried over through a capture group that the template
   references in order is attributed to exactly its original position (start
   and end maps), whatever earlier matches and earlier segments of the same
   match inserted or deleted; optional groups that did not take part and empty
   groups contribute nothing *)
Theorem C14_group_provenance : forall s ms tr un st,
  ms <> [] -> apply_rule s ms tr un = Some st -> ms_ok s ms 0 ->
  forall j o, In (j, o) (all_grp_pairs s ms tr un 0 0) ->
    nth_error (st_smap st) (S j) = Some (Z.of_nat o - Z.of_nat j)%Z /\
    nth_error (st_emap st) (S j) = Some (Z.of_nat o - Z.of_nat j)%Z.
Proof. exact rule_group_provenance. Qed.
Print Assumptions C14_group_provenance.

(* the token lattice survives YY serialisation and parsing unchanged: for every
   list of tokens with at least one path and one lexical rule, lexical rules free
   of white space and a link other than the unset <-1:-1> - whatever the forms
   and surface strings contain (quotes, backslashes, commas, parentheses, white
   space) *)
Theorem C14_yy_roundtrip : forall toks : list YY.yytok,
  Forall YYP.wf_tok toks -> YY.parse_lattice (YY.print_lattice toks) = YY.YOk toks.
Proof. exact YYP.parse_print_lattice. Qed.
Print Assumptions C14_yy_roundtrip.

(* in particular every lattice the tokenizer builds (identifier i from vertex i
   to i+1, a character span inside the text, path 1, rule null), for any forms *)
Theorem C14_yy_repp_lattice : forall l : list (Z * Z * Z * str),
  Forall (fun x => (0 <= snd (fst (fst x)))%Z) l ->
  YY.parse_lattice (YY.print_lattice (map YYP.mk_repp l)) = YY.YOk (map YYP.mk_repp l).
Proof. exact YYP.repp_lattice_roundtrip. Qed.
Print Assumptions C14_yy_repp_lattice.

(* the premises are satisfiable: a lattice with a form made of a quote, two letters,
   a backslash and a quote *)
Theorem C14_yy_nonvacuous :
  let t := YYP.repp_tok 1 4 8 [34; 104; 105; 92; 34]%N in
  YYP.wf_tok t /\
  YY.parse_lattice (YY.print_lattice [YYP.repp_tok 0 0 3 [115; 97; 121]%N; t])
  = YY.YOk [YYP.repp_tok 0 0 3 [115; 97; 121]%N; t].
Proof. exact YYP.lattice_with_quotes. Qed.
Print Assumptions C14_yy_nonvacuous.
