(* C20 — convert emits one correct entry per input item. *)
From Coq Require Import List NArith ZArith Bool.
From PyD Require Import Base.Str Model.ConvertCmd Proofs.ConvertCmdP.
Import ListNotations.

(* when every item converts and encodes there is exactly one part per item,
   in order, each part being what the item gives on its own (conv and enc
   are arbitrary: the converter and the target codec are oracles) *)
Theorem C20_one_part_per_item : forall (X Y : Type) (conv : X -> option Y) (enc : Y -> option str) xs,
  forallb (item_ok X Y conv enc) xs = true ->
  map Some (convert_parts X Y conv enc xs) = map (fun x => match conv x with Some y => enc y | None => None end) xs.
Proof. exact convert_parts_all_ok. Qed.
Print Assumptions C20_one_part_per_item.

Theorem C20_count : forall (X Y : Type) (conv : X -> option Y) (enc : Y -> option str) xs,
  forallb (item_ok X Y conv enc) xs = true -> length (convert_parts X Y conv enc xs) = length xs.
Proof. exact convert_parts_length_ok. Qed.
Print Assumptions C20_count.

(* per-item error isolation: a failing item removes its own part only *)
Theorem C20_error_isolation : forall (X Y : Type) (conv : X -> option Y) (enc : Y -> option str) xs x ys,
  item_ok X Y conv enc x = false ->
  convert_parts X Y conv enc (xs ++ x :: ys) = convert_parts X Y conv enc (xs ++ ys).
Proof. exact convert_parts_skip. Qed.
Print Assumptions C20_error_isolation.

Theorem C20_parts_count_successes : forall (X Y : Type) (conv : X -> option Y) (enc : Y -> option str) xs,
  length (convert_parts X Y conv enc xs) = length (filter (item_ok X Y conv enc) xs).
Proof. exact convert_parts_count. Qed.
Print Assumptions C20_parts_count_successes.

(* the one-item-per-line variants: the lines of the output are the parts *)
Theorem C20_lines : forall header joiner footer ind parts,
  Forall (fun p => ~ In LF p) parts ->
  split_on LF (assemble header joiner footer ind true parts) = match parts with [] => [[]] | _ => parts end.
Proof. exact assemble_lines. Qed.
Print Assumptions C20_lines.

(* documents of zero, one and more items *)
Theorem C20_empty_document : forall header joiner footer, assemble header joiner footer false false [] = header ++ footer.
Proof. exact assemble_empty. Qed.
Print Assumptions C20_empty_document.

Theorem C20_single_item : forall header joiner footer p, assemble header joiner footer false false [p] = header ++ p ++ footer.
Proof. exact assemble_one. Qed.
Print Assumptions C20_single_item.

Theorem C20_more_items : forall header joiner footer p q ps,
  assemble header joiner footer false false (p :: q :: ps) = header ++ p ++ joiner ++ join_sep joiner (q :: ps) ++ footer.
Proof. exact assemble_cons. Qed.
Print Assumptions C20_more_items.
