(* C10 — a test-suite table behaves as a list through any
   edit/commit/reload history.  The abstraction of a table is the list
   t_iter t (what iteration yields); Inv is the representation invariant. *)
From Coq Require Import List ZArith Bool.
From PyD Require Import Base.Str Base.PySlice Model.TsdbFiles Model.Table Proofs.TableP Proofs.TableP2.
From PyD Require Import Model.Process Proofs.ProcessP.
Import ListNotations.

Theorem C10_open : forall f, Inv (open_table f) /\ t_iter (open_table f) = content f.
Proof. exact open_inv. Qed.
Print Assumptions C10_open.

Theorem C10_len : forall t, Inv t -> t_len t = length (t_iter t).
Proof. exact len_refines. Qed.
Print Assumptions C10_len.

Theorem C10_getitem : forall t i, Inv t ->
  t_getitem t i = match py_getitem (t_iter t) i with Some x => GOk x | None => GIndexError end.
Proof. exact getitem_refines. Qed.
Print Assumptions C10_getitem.

Theorem C10_extend : forall t vals, Inv t ->
  Inv (t_extend t vals) /\ t_iter (t_extend t vals) = t_iter t ++ vals /\
  t_file (t_extend t vals) = t_file t.
Proof. exact extend_spec. Qed.
Print Assumptions C10_extend.

Theorem C10_clear : forall t, Inv t ->
  Inv (t_clear t) /\ t_iter (t_clear t) = [] /\ t_file (t_clear t) = t_file t.
Proof. exact clear_spec. Qed.
Print Assumptions C10_clear.

(* commit makes the stored relation equal to the list, keeps the list,
   leaves no transaction open, and keeps compressed data only untouched *)
Theorem C10_commit : forall t, Inv t ->
  let t' := t_commit t in
  Inv t' /\ lines_of t' = t_iter t /\ t_iter t' = t_iter t /\ in_transaction t' = false /\
  (gz (t_file t') <> None -> t_file t' = t_file t).
Proof. exact commit_spec. Qed.
Print Assumptions C10_commit.

Theorem C10_commit_idempotent : forall t, Inv t ->
  t_file (t_commit (t_commit t)) = t_file (t_commit t).
Proof. exact commit_idempotent. Qed.
Print Assumptions C10_commit_idempotent.

Theorem C10_reload : forall t, Inv t ->
  Inv (t_reload t) /\ t_iter (t_reload t) = lines_of t /\ in_transaction (t_reload t) = false /\
  t_file (t_reload t) = t_file t.
Proof. exact reload_spec. Qed.
Print Assumptions C10_reload.

(* slices with any step read the plain list *)
Theorem C10_slice : forall t s, Inv t -> t_slice t s = py_slice (t_iter t) s.
Proof. exact slice_refines. Qed.
Print Assumptions C10_slice.

(* slice assignment (growing, shrinking, extended) is list slice assignment;
   a rejected one (ValueError) leaves the list unchanged *)
Theorem C10_setslice : forall t s vals, Inv t ->
  match t_setslice t s vals with
  | SOk t' => Inv t' /\ abs_setslice (t_iter t) s vals = Some (t_iter t') /\ t_file t' = t_file t
  | SValueError t' => Inv t' /\ abs_setslice (t_iter t) s vals = None /\ t_iter t' = t_iter t /\ t_file t' = t_file t
  | SIndexError => False
  end.
Proof. exact setslice_spec. Qed.
Print Assumptions C10_setslice.

Theorem C10_setitem : forall t i v, Inv t ->
  match py_index (length (t_iter t)) i with
  | Some k => exists t', t_setitem t i v = SOk t' /\ Inv t' /\ t_iter t' = set_nth (t_iter t) k v /\
                         t_file t' = t_file t
  | None => t_setitem t i v = SIndexError
  end.
Proof. exact setitem_spec. Qed.
Print Assumptions C10_setitem.

Theorem C10_update : forall t i k v, Inv t ->
  match py_getitem (t_iter t) i, py_index (length (t_iter t)) i with
  | Some r, Some j => exists t', t_update t i k v = SOk t' /\ Inv t' /\
                        t_iter t' = set_nth (t_iter t) j (set_nth r k v) /\ t_file t' = t_file t
  | _, _ => t_update t i k v = SIndexError
  end.
Proof. exact update_spec. Qed.
Print Assumptions C10_update.

(* every history of extends, item/slice assignments, updates, clears,
   commits, reloads and re-openings, from any stored relation (plain or
   compressed), keeps the invariant and reads as the plain list the history
   describes; view t = (rows iterated, rows stored) *)
Theorem C10_history : forall f ops,
  let t := fold_left t_step ops (open_table f) in
  Inv t /\ view t = fold_left a_step ops (content f, content f) /\
  t_len t = length (fst (view t)) /\
  (forall i, t_getitem t i = match py_getitem (fst (view t)) i with Some x => GOk x | None => GIndexError end) /\
  (forall s, t_slice t s = py_slice (fst (view t)) s).
Proof. exact history_from_open. Qed.
Print Assumptions C10_history.

(* batch processing (TestSuite.process) with any buffer size: afterwards every
   relation holds, in memory and on disk alike, what it held before (nothing, if the
   field mapper clears it) followed by exactly the rows produced for it, in order and
   once each, whatever the commits the buffer triggered on the way; no relation is in
   a transaction and a later commit changes neither *)
Theorem C10_process : forall affected prod bs gzflag ts0,
  Forall (fun nt => Inv (snd nt)) ts0 ->
  Forall2 (fun nt0 nt =>
             fst nt = fst nt0 /\ Inv (snd nt) /\
             t_iter (snd nt) = expected affected prod nt0 /\
             lines_of (snd nt) = expected affected prod nt0 /\
             in_transaction (snd nt) = false /\
             t_len (snd nt) = length (expected affected prod nt0) /\
             t_iter (t_commit (snd nt)) = expected affected prod nt0 /\
             lines_of (t_commit (snd nt)) = expected affected prod nt0)
          ts0 (process affected prod bs gzflag ts0).
Proof. exact process_spec. Qed.
Print Assumptions C10_process.

Theorem C10_process_nonvacuous :
  Forall (fun nt => Inv (snd nt)) ex_ts0 /\
  commits 1 (clear_affected [[112]%N; [114]%N] ex_ts0) ex_prod = 1 /\
  map (fun nt => (t_iter (snd nt), lines_of (snd nt)))
      (process [[112]%N; [114]%N] ex_prod 1 false ex_ts0)
  = [([[[49]%N]], [[[49]%N]]);
     ([[[48]%N]; [[49]%N]], [[[48]%N]; [[49]%N]]);
     ([[[97]%N]; [[98]%N]], [[[97]%N]; [[98]%N]])].
Proof. exact process_example. Qed.
Print Assumptions C10_process_nonvacuous.
