(* C10 — a test-suite table behaves as a list through any
   edit/commit/reload history.  The abstraction of a table is the list
   t_iter t (what iteration yields); Inv is the representation invariant. *)
From Coq Require Import List ZArith Bool.
From PyD Require Import Base.Str Base.PySlice Model.TsdbFiles Model.Table Proofs.TableP.
Import ListNotations.

Theorem C10_open : forall f, Inv (open_table f) /\ t_iter (open_table f) = content f.
Proof. exact open_inv. Qed.
Print Assumptions C10_open.

Theorem C10_len : forall t, Inv t -> t_len t = length (t_iter t).
Proof. exact len_refines. Qed.
Print Assumptions C10_len.

Theorem C10_getitem : forall t i, Inv t ->
  t_getitem t i = match py_getitem (t_iter t) i with Some x => GOk x | None => GIndexError end.
Proof. exact getitem_refines. Qed.
Print Assumptions C10_getitem.

Theorem C10_extend : forall t vals, Inv t ->
  Inv (t_extend t vals) /\ t_iter (t_extend t vals) = t_iter t ++ vals /\
  t_file (t_extend t vals) = t_file t.
Proof. exact extend_spec. Qed.
Print Assumptions C10_extend.

Theorem C10_clear : forall t, Inv t ->
  Inv (t_clear t) /\ t_iter (t_clear t) = [] /\ t_file (t_clear t) = t_file t.
Proof. exact clear_spec. Qed.
Print Assumptions C10_clear.

(* commit makes the stored relation equal to the list, keeps the list,
   leaves no transaction open, and keeps compressed data only untouched *)
Theorem C10_commit : forall t, Inv t ->
  let t' := t_commit t in
  Inv t' /\ lines_of t' = t_iter t /\ t_iter t' = t_iter t /\ in_transaction t' = false /\
  (gz (t_file t') <> None -> t_file t' = t_file t).
Proof. exact commit_spec. Qed.
Print Assumptions C10_commit.

Theorem C10_commit_idempotent : forall t, Inv t ->
  t_file (t_commit (t_commit t)) = t_file (t_commit t).
Proof. exact commit_idempotent. Qed.
Print Assumptions C10_commit_idempotent.

Theorem C10_reload : forall t, Inv t ->
  Inv (t_reload t) /\ t_iter (t_reload t) = lines_of t /\ in_transaction (t_reload t) = false /\
  t_file (t_reload t) = t_file t.
Proof. exact reload_spec. Qed.
Print Assumptions C10_reload.
