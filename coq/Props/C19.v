(* C19 — ACE interaction keeps responses aligned with inputs. *)
From Coq Require Import List NArith ZArith Bool.
From PyD Require Import Base.Str Model.Ace Proofs.AceP.
From PyD Require Import Base.Dec Model.SExpr Proofs.SExprP Proofs.SExprRobust.
Import ListNotations.

(* whatever the line reader returns was read from the front of the
   processor's output: never more than what is there, nothing skipped, and
   the end of the stream is reported only when everything was consumed *)
Theorem C19_reader_reads_a_prefix : forall ts stream acc ls rest eof,
  read_lines ts stream acc = (ls, rest, eof) ->
  exists consumed, stream = consumed ++ rest /\ ls = acc ++ content consumed /\ (eof = true -> rest = []).
Proof. exact read_lines_sound. Qed.
Print Assumptions C19_reader_reads_a_prefix.

(* a complete answer is consumed exactly: nothing of it is left for the next interaction *)
Theorem C19_complete_answer_consumed : forall ts b rest acc, blockb ts b = true ->
  read_lines ts (b ++ rest) acc = (acc ++ content b, rest, false).
Proof. exact read_block. Qed.
Print Assumptions C19_complete_answer_consumed.

(* every sequence of inputs and processor events (answer, exit before, in
   the middle of, or right after an answer, request lost to an exiting
   processor): each response records its own input and only carries lines
   the processor wrote for that very request; nothing is left unread *)
Theorem C19_aligned : forall t tsdb items st rs st',
  ps_pending st = [] -> Forall (ev_ok t tsdb) (map snd items) ->
  interact_all t tsdb st items = (rs, st') ->
  Forall2 (own t tsdb) items rs /\ ps_pending st' = [].
Proof. exact interact_all_aligned. Qed.
Print Assumptions C19_aligned.

(* exactly one response per input, in input order *)
Theorem C19_one_response_per_input : forall t tsdb items st,
  length (fst (interact_all t tsdb st items)) = length items /\
  map r_input (fst (interact_all t tsdb st items)) = map fst items.
Proof. exact one_response_per_input. Qed.
Print Assumptions C19_one_response_per_input.

(* unacceptable inputs are reported as skipped without touching the processor *)
Theorem C19_skipped_not_sent : forall t tsdb st d ev, validate t d = [] ->
  interact t tsdb st d ev = ({| r_input := d; r_skipped := true; r_lines := []; r_run := ps_run st |}, st).
Proof. exact interact_skip. Qed.
Print Assumptions C19_skipped_not_sent.

(* after a failure the next served request runs under a new run record *)
Theorem C19_restart_new_run : forall t tsdb st d lines exits r st',
  ps_alive st = false -> validate t d <> [] -> interact t tsdb st d (EvAnswer lines exits) = (r, st') ->
  r_run r = S (ps_run st) /\ ps_run st' = S (ps_run st).
Proof. exact interact_restart. Qed.
Print Assumptions C19_restart_new_run.

Theorem C19_run_ids_monotone : forall t tsdb st d ev r st', interact t tsdb st d ev = (r, st') ->
  (ps_run st <= r_run r)%nat /\ (r_run r <= ps_run st')%nat.
Proof. exact interact_run_mono. Qed.
Print Assumptions C19_run_ids_monotone.

(* non-vacuity *)
Theorem C19_example :
  Forall (ev_ok TParse true) (map snd ex_items) /\
  let '(rs, st) := interact_all TParse true init_state ex_items in
  map r_lines rs = [[[40;97;41]]; [[40;98]]; []; [[40;99;41]]]%N /\ map r_run rs = [0; 0; 0; 1]%nat
  /\ map r_skipped rs = [false; false; true; false] /\ ps_alive st = true /\ ps_pending st = [].
Proof. exact (conj ex_items_ok ex_run). Qed.
Print Assumptions C19_example.

(* decoding of tsdb-stdout answers: reading a printed answer line (pairs of a
   key and an integer, string, symbol, list or dotted pair, nested to any
   depth; strings with any characters, quoted and escaped) gives back exactly
   the pairs the processor printed, so the results of a response are the
   results produced for that input *)
Theorem C19_answer_line_decoding : forall pairs, Forall (fun kv => wf (snd kv)) pairs ->
  sexpr_data (S (length (fmt_line pairs))) (fmt_line pairs) = POk pairs.
Proof. exact sexpr_data_roundtrip. Qed.
Print Assumptions C19_answer_line_decoding.

Theorem C19_parse_pair : forall a b rest, wf a -> wf b ->
  sx_parse (fmt (SPair a b) ++ rest) = POk (SPair a b, rest).
Proof. exact parse_pair. Qed.
Print Assumptions C19_parse_pair.

(* a processor that exits in the middle of an answer leaves a prefix of an
   answer line: decoding ANY prefix of ANY printed line returns pairs (possibly
   the :error pair standing for the IndexError the decoder catches itself) and
   never raises.  Before the repair of F30 (an asserted string key) this
   statement was false of the decoder: a line cut before one of its last
   parentheses ended in a two-element list with a non-string head. *)
Theorem C19_truncated_answer_never_raises : forall pairs p,
  Forall (fun kv => wf (snd kv)) pairs -> pref p (fmt_line pairs) ->
  exists l, sexpr_data (S (length p)) p = POk l.
Proof. exact sexpr_data_never_raises. Qed.
Print Assumptions C19_truncated_answer_never_raises.

(* the witness of F30: the results list of two results, cut before the last parenthesis *)
Example C19_f30_witness :
  let r i := SList [SPair (SStr [58;105]%N) (SInt i); SPair (SStr [58;109]%N) (SStr [120]%N); SPair (SStr [58;100]%N) (SStr [121]%N)] in
  let line := fmt_line [([58;114]%N, SList [r 0%Z; r 1%Z])] in
  let cut := firstn (length line - 1) line in
  sexpr_data (S (length cut)) cut = POk [].
Proof. vm_compute. reflexivity. Qed.
