(* C11 — TSQL select equals relational semantics; its condition grammar is unambiguous. *)
From Coq Require Import List NArith ZArith Bool.
From PyD Require Import Base.Str Model.Tsdb Model.Tsql Proofs.TsqlP.
Import ListNotations.

(* the hash join computes exactly the nested-loop inner join on the cast key
   columns: same rows, same order (left order, then right order), same multiplicities *)
Theorem C11_join_is_nested_loop :
  forall (rkey lkey : list raw -> list castres) (rvals : list raw -> list raw)
         (left right : list (list raw)),
  flat_map (fun l => map (fun rv => l ++ rv)
                         (group_get (lkey l)
                            (fold_left (fun g r => group_add (rkey r) (rvals r) g) right [])))
           left
  = nested_loop keys_eqb lkey rkey rvals left right.
Proof. exact hash_join_is_nested_loop. Qed.
Print Assumptions C11_join_is_nested_loop.

(* equality and ordering comparisons and ~ never match an empty field; !~ does *)
Theorem C11_none_rules : forall o cols row op q v i,
  sel_index cols q = Some i ->
  cast_val (match nth_error cols i with Some (_, f) => tf_type f | None => TStr end) (nth_raw row i) = COk VNone ->
  eval o cols row (RCmp op q v) = Some (match op with ONre => true | _ => false end).
Proof. exact none_rules. Qed.
Print Assumptions C11_none_rules.

Theorem C11_empty_field_is_none : forall t, cast_val t None = COk VNone /\ cast_val t (Some []) = COk VNone.
Proof. exact empty_field_casts_to_none. Qed.
Print Assumptions C11_empty_field_is_none.
