(* C11 — TSQL select equals relational semantics; its condition grammar is unambiguous. *)
From Coq Require Import List NArith ZArith Bool.
From PyD Require Import Base.Str Model.Tsdb Model.Tsql Proofs.TsqlP.
From PyD Require Import Proofs.TsqlStarP Proofs.TsqlSelectP.
Import ListNotations.

(* the hash join computes exactly the nested-loop inner join on the cast key
   columns: same rows, same order (left order, then right order), same multiplicities *)
Theorem C11_join_is_nested_loop :
  forall (rkey lkey : list raw -> list castres) (rvals : list raw -> list raw)
         (left right : list (list raw)),
  flat_map (fun l => map (fun rv => l ++ rv)
                         (group_get (lkey l)
                            (fold_left (fun g r => group_add (rkey r) (rvals r) g) right [])))
           left
  = nested_loop keys_eqb lkey rkey rvals left right.
Proof. exact hash_join_is_nested_loop. Qed.
Print Assumptions C11_join_is_nested_loop.

(* equality and ordering comparisons and ~ never match an empty field; !~ does *)
Theorem C11_none_rules : forall o cols row op q v i,
  sel_index cols q = Some i ->
  cast_val (match nth_error cols i with Some (_, f) => tf_type f | None => TStr end) (nth_raw row i) = COk VNone ->
  eval o cols row (RCmp op q v) = Some (match op with ONre => true | _ => false end).
Proof. exact none_rules. Qed.
Print Assumptions C11_none_rules.

Theorem C11_empty_field_is_none : forall t, cast_val t None = COk VNone /\ cast_val t (Some []) = COk VNone.
Proof. exact empty_field_casts_to_none. Qed.
Print Assumptions C11_empty_field_is_none.

(* parsing the token stream of any condition tree (and/or with at least two
   children, any nesting of not/and/or, all operators) returns that tree *)
Theorem C11_parse_print : forall c rest fuel, cwf c -> need c + 2 <= fuel ->
  not_and rest -> not_or rest ->
  parse_disj fuel (print 0 c ++ rest) = Some (c, rest).
Proof. exact parse_print. Qed.
Print Assumptions C11_parse_print.

(* with the fuel the where-clause parser itself passes *)
Theorem C11_parse_where_print : forall c, cwf c ->
  parse_where 2 (KWhere :: print 0 c ++ [KDot]) [] = Some (Some c, [KDot]).
Proof. exact parse_where_print. Qed.
Print Assumptions C11_parse_where_print.

(* several where clauses mean conjunction *)
Theorem C11_where_conjunction : forall c1 c2, cwf c1 -> cwf c2 ->
  parse_where 3 (KWhere :: print 0 c1 ++ KWhere :: print 0 c2 ++ [KDot]) [] =
  Some (Some (CAnd [c1; c2]), [KDot]).
Proof. exact where_conjunction. Qed.
Print Assumptions C11_where_conjunction.

(* select * : every non-key column of every relation named is projected, every
   key name at least once, and a name that is a key wherever it occurs exactly
   once however the relations are ordered *)
Theorem C11_star_projection : forall d rels qs, project_all d rels = Some qs ->
  (forall n r f, In n rels -> find_rel d n = Some r -> In f (r_fields r) ->
     (tf_key f = false -> In (n, tf_name f) qs) /\ (tf_key f = true -> exists n', In (n', tf_name f) qs)) /\
  (forall k, (forall n r f, In n rels -> find_rel d n = Some r -> In f (r_fields r) -> tf_name f = k -> tf_key f = true) ->
     cnt k qs <= 1).
Proof. exact project_all_spec. Qed.
Print Assumptions C11_star_projection.

(* the evaluator is project . filter . join: given the join plan, the rows
   returned are exactly the joined rows on which the condition evaluates to
   true, in order and with their multiplicities, projected to the requested
   columns; the condition is evaluated on every joined row *)
Theorem C11_select_is_project_filter_join : forall d o plan proj rc out,
  run_select d o plan proj (Some rc) = Some out ->
  exists s idxs, joined_of d plan = Some (Some s) /\
    seqo (map (sel_index (s_cols s)) proj) = Some idxs /\
    (forall row, In row (s_rows s) -> eval o (s_cols s) row rc <> None) /\
    out = map (fun row => map (nth_raw row) idxs) (filter (holds o (s_cols s) rc) (s_rows s)).
Proof. exact run_select_spec. Qed.
Print Assumptions C11_select_is_project_filter_join.

Theorem C11_select_without_condition : forall d o plan proj out,
  run_select d o plan proj None = Some out ->
  exists s idxs, joined_of d plan = Some (Some s) /\
    seqo (map (sel_index (s_cols s)) proj) = Some idxs /\
    out = map (fun row => map (nth_raw row) idxs) (s_rows s).
Proof. exact run_select_all. Qed.
Print Assumptions C11_select_without_condition.

(* date operands: on a :date column a comparison with a date literal is the comparison
   of the two instants (the stored text read by tsdb.cast, C08), never a regex match;
   together with C11_parse_print (which ranges over date literals as well) and
   C08_date_spellings this is the date clause of the grammar *)
Theorem C11_date_comparison : forall o cols row op q i f s d z,
  sel_index cols q = Some i -> nth_error cols i = Some f -> tf_type (snd f) = TDate ->
  nth_raw row i = Some s -> s <> [] -> TsdbDate.parse_datetime s = TsdbDate.DSome d ->
  eval o cols row (RCmp op q (LDate z)) = cmp_holds op (dt_cmp d z).
Proof. exact date_comparison. Qed.
Print Assumptions C11_date_comparison.

(* a stored text that is not a date reads as an empty field: no comparison matches it *)
Theorem C11_date_unreadable : forall o cols row op q i f s v,
  sel_index cols q = Some i -> nth_error cols i = Some f -> tf_type (snd f) = TDate ->
  nth_raw row i = Some s -> TsdbDate.parse_datetime s = TsdbDate.DNone ->
  eval o cols row (RCmp op q v) = Some (match op with ONre => true | _ => false end).
Proof. exact date_unreadable. Qed.
Print Assumptions C11_date_unreadable.
