(* C17 — hierarchies stay rooted DAGs and failed updates change nothing. *)
From Coq Require Import List NArith Bool Relations.
From PyD Require Import Base.Str Model.Hier Proofs.HierP.
Import ListNotations.

(* every state reachable by any sequence of accepted and rejected updates
   satisfies the invariant: unique nodes, every non-top node has parents, all
   of them inserted earlier (acyclic), none an ancestor of another *)
Theorem C17_reachable_inv : forall (norm : str -> str) (top : str)
    (ops : list (list (str * parents_arg) * list (str * N))),
  Inv (fold_left (fun st o => fst (update norm st (fst o) (snd o))) ops (init norm top)).
Proof. exact reachable_inv. Qed.
Print Assumptions C17_reachable_inv.

(* one update: invariant kept, the fuel bound is never hit, a rejected
   update returns the very same state, the top never changes *)
Theorem C17_update_inv : forall (norm : str -> str) st sub dat, Inv st ->
  let r := update norm st sub dat in
  Inv (fst r) /\ snd r <> UOutOfFuel /\
  (match snd r with UOk _ => True | _ => fst r = st end) /\
  h_top (fst r) = h_top st.
Proof. exact update_inv. Qed.
Print Assumptions C17_update_inv.

Theorem C17_ancestors_closure : forall top h, wfh top h ->
  forall a x, In a (anc h x) <-> clos_trans _ (parent h) a x.
Proof. exact anc_spec. Qed.
Print Assumptions C17_ancestors_closure.

Theorem C17_descendants_inverse : forall h x d,
  In d (desc h x) <-> In d (keys h) /\ In x (anc h d).
Proof. exact desc_spec. Qed.
Print Assumptions C17_descendants_inverse.

Theorem C17_children_parents_inverse : forall top h, wfh top h ->
  forall p c, In c (children h p) <-> parent h p c.
Proof. exact children_spec. Qed.
Print Assumptions C17_children_parents_inverse.

Theorem C17_acyclic : forall top h, wfh top h -> forall a, ~ clos_trans _ (parent h) a a.
Proof. exact acyclic. Qed.
Print Assumptions C17_acyclic.

Theorem C17_rooted : forall top h, wfh top h ->
  forall x, In x (keys h) -> x <> top -> In top (anc h x).
Proof. exact top_is_ancestor. Qed.
Print Assumptions C17_rooted.

Theorem C17_top_has_no_ancestors : forall top h, wfh top h -> anc h top = [].
Proof. exact top_no_ancestors. Qed.
Print Assumptions C17_top_has_no_ancestors.

(* subsumption is a partial order with the top as greatest element *)
Theorem C17_subsumes_refl : forall h a, subs h a a.
Proof. exact subs_refl. Qed.
Print Assumptions C17_subsumes_refl.

Theorem C17_subsumes_trans : forall top h a b c, wfh top h ->
  In b (keys h) -> In c (keys h) -> subs h a b -> subs h b c -> subs h a c.
Proof. exact subs_trans. Qed.
Print Assumptions C17_subsumes_trans.

Theorem C17_subsumes_antisym : forall top h a b, wfh top h ->
  In a (keys h) -> In b (keys h) -> subs h a b -> subs h b a -> a = b.
Proof. exact subs_antisym. Qed.
Print Assumptions C17_subsumes_antisym.

Theorem C17_subsumes_top : forall top h x, wfh top h -> In x (keys h) -> subs h top x.
Proof. exact subs_top. Qed.
Print Assumptions C17_subsumes_top.

Theorem C17_q_subsumes_spec : forall (norm : str -> str) st a b, Inv st ->
  In (norm a) (keys (h_rh st)) ->
  q_subsumes norm st a b = Some true <-> subs (h_rh st) (norm a) (norm b).
Proof. exact q_subsumes_spec. Qed.
Print Assumptions C17_q_subsumes_spec.

(* compatibility is symmetric and means a common descendant-or-self *)
Theorem C17_compatible_spec : forall h a b,
  compat h a b = true <-> exists x, subs h a x /\ subs h b x.
Proof. exact compat_spec. Qed.
Print Assumptions C17_compatible_spec.

Theorem C17_compatible_sym : forall h a b, compat h a b = compat h b a.
Proof. exact compat_sym. Qed.
Print Assumptions C17_compatible_sym.

Theorem C17_q_compatible_spec : forall (norm : str -> str) st a b,
  In (norm a) (keys (h_rh st)) -> In (norm b) (keys (h_rh st)) ->
  q_compatible norm st a b = Some (compat (h_rh st) (norm a) (norm b)).
Proof. exact q_compatible_spec. Qed.
Print Assumptions C17_q_compatible_spec.

(* all spellings identified by the normaliser give the same answers *)
Theorem C17_norm_invariant : forall (norm : str -> str) st x y, norm x = norm y ->
  q_contains norm st x = q_contains norm st y /\
  q_parents norm st x = q_parents norm st y /\
  q_children norm st x = q_children norm st y /\
  q_ancestors norm st x = q_ancestors norm st y /\
  q_descendants norm st x = q_descendants norm st y /\
  q_getitem norm st x = q_getitem norm st y /\
  (forall z, q_subsumes norm st x z = q_subsumes norm st y z) /\
  (forall z, q_subsumes norm st z x = q_subsumes norm st z y) /\
  (forall z, q_compatible norm st x z = q_compatible norm st y z).
Proof. exact norm_invariant. Qed.
Print Assumptions C17_norm_invariant.

(* non-vacuity: a concrete non-trivial reachable state *)
Local Open Scope N_scope.
Example C17_example_state :
  let st := fst (update (fun s => s) (init (fun s => s) [116])
                   [([97], PStr [116]); ([98], PStr [116]); ([99], PTuple [[97]; [98]])] []) in
  Inv st /\ keys (h_rh st) = [[99]; [98]; [97]; [116]] /\
  compat (h_rh st) [97] [98] = true.
Proof. split; [apply (update_inv (fun s => s)); apply init_inv | vm_compute; auto]. Qed.
