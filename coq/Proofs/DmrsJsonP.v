(* Proofs about the DMRS-JSON dictionary model (C02). *)
From Coq Require Import List NArith ZArith Bool Arith Lia.
From PyD Require Import Base.Str Base.Dec Model.Hier Model.Mrs Model.Iso Model.SimpleMrs Model.MrsJson
  Model.SimpleDmrs Model.DmrsJson Proofs.SimpleMrsP Proofs.MrsJsonP Proofs.SimpleDmrsP.
Import ListNotations.

Definition no_cvarsort (ps : list (str * str)) : Prop := ~ In CVARSORT (map fst ps).

Lemma filter_not_key ps : no_cvarsort ps -> filter (fun kv => negb (str_eqb (fst kv) CVARSORT)) ps = ps.
Proof.
  induction ps as [|[k v] ps IH]; intros H; [reflexivity|]. cbn [filter fst].
  rewrite str_eqb_neq by (intros E; apply H; left; exact E). cbn [negb]. f_equal. apply IH.
  intros X. apply H. right. exact X.
Qed.

Lemma filter_set_key t ps : no_cvarsort ps ->
  filter (fun kv => negb (str_eqb (fst kv) CVARSORT)) (dict_set CVARSORT t ps) = ps.
Proof.
  intros H. rewrite dict_set_notin by exact H. rewrite filter_app. rewrite filter_not_key by exact H.
  cbn [filter fst]. rewrite str_eqb_refl. cbn. apply app_nil_r.
Qed.

Definition proj_jdnode (p l : bool) (n : dnode) : dnode :=
  {| n_id := n_id n; n_pred := n_pred n; n_type := if p then n_type n else None;
     n_props := if p then n_props n else []; n_carg := n_carg n;
     n_lnk := if l && lnk_truthy (n_lnk n) then LChar (cfrom (n_lnk n)) (cto (n_lnk n)) else LNone |}.

Lemma sortinfo_back n : no_cvarsort (n_props n) ->
  dict_get CVARSORT (sortinfo n) = n_type n /\
  filter (fun kv => negb (str_eqb (fst kv) CVARSORT)) (sortinfo n) = n_props n.
Proof.
  intros H. unfold sortinfo. destruct (n_type n) as [t|].
  - split; [apply dict_get_set_same' | apply filter_set_key; exact H].
  - split; [apply dict_get_notin; exact H | apply filter_not_key; exact H].
Qed.

Lemma dnode_roundtrip p l n : no_cvarsort (n_props n) -> dnode_from (dnode_to_dict p l n) = Some (proj_jdnode p l n).
Proof.
  intros Hn. destruct (sortinfo_back n Hn) as [Ht Hp].
  unfold dnode_from, dnode_to_dict, proj_jdnode, jget.
  destruct p.
  - destruct (sortinfo n) as [|s0 ss] eqn:Es.
    + cbn [dict_get] in Ht. cbn [filter] in Hp. rewrite <- Ht, <- Hp.
      destruct (n_carg n), (l && lnk_truthy (n_lnk n)); reflexivity.
    + rewrite <- Es in *. destruct (sortinfo n) as [|s1 ss1] eqn:Es'; [discriminate|]. rewrite <- Es' in *.
      rewrite <- Ht, <- Hp.
      destruct (n_carg n), (l && lnk_truthy (n_lnk n)).
      all: cbn [app dict_get].
      all: repeat match goal with
                  | |- context [str_eqb ?a ?b] =>
                      lazymatch a with
                      | CVARSORT => fail
                      | _ => let v := eval vm_compute in (str_eqb a b) in change (str_eqb a b) with v
                      end
                  end.
      all: cbv iota beta; unfold jstr_map, as_ostr, lnk_of, jget; cbn [dict_get].
      all: repeat match goal with
                  | |- context [str_eqb ?a ?b] =>
                      lazymatch a with
                      | CVARSORT => fail
                      | _ => let v := eval vm_compute in (str_eqb a b) in change (str_eqb a b) with v
                      end
                  end.
      all: cbv iota beta; rewrite str_fields_map; reflexivity.
  - destruct (n_carg n), (l && lnk_truthy (n_lnk n)); reflexivity.
Qed.

Lemma dnodes_back p l nodes : Forall (fun n => no_cvarsort (n_props n)) nodes ->
  all_some (map dnode_from (map (dnode_to_dict p l) nodes)) = Some (map (proj_jdnode p l) nodes).
Proof.
  induction nodes as [|n nodes IH]; intros H; [reflexivity|]. inversion H; subst.
  cbn [map all_some]. rewrite dnode_roundtrip by assumption. rewrite IH by assumption. reflexivity.
Qed.

Lemma links_back links : all_some (map link_from (map link_to_dict links)) = Some links.
Proof.
  induction links as [|[[[s e] r] po] links IH]; [reflexivity|]. cbn [map all_some].
  assert (H : link_from (link_to_dict (s, e, r, po)) = Some (s, e, r, po)) by (destruct r; reflexivity).
  rewrite H, IH. reflexivity.
Qed.

Definition proj_jdmrs (p l : bool) (g : dmrs) : dmrs :=
  {| g_top := g_top g; g_index := if nonzero (g_index g) then g_index g else None;
     g_nodes := map (proj_jdnode p l) (g_nodes g); g_links := g_links g;
     g_lnk := if l && lnk_truthy (g_lnk g) then LChar (cfrom (g_lnk g)) (cto (g_lnk g)) else LNone;
     g_surface := if l then match g_surface g with Some (c :: s) => Some (c :: s) | _ => None end else None;
     g_ident := g_ident g |}.

Theorem d_from_to_dict p l g :
  Forall (fun n => no_cvarsort (n_props n)) (g_nodes g) -> Forall link_ok (g_links g) ->
  d_from_dict (d_to_dict p l g) = Some (proj_jdmrs p l g).
Proof.
  intros Hn Hl. unfold d_to_dict, d_from_dict, proj_jdmrs, jget.
  destruct (g_top g) as [t|]; destruct (g_index g) as [i|]; [destruct (Z.eqb i 0) eqn:Ei| | destruct (Z.eqb i 0) eqn:Ei|];
    unfold nonzero; rewrite ?Ei; cbn [negb];
    destruct l; cbn [andb]; try destruct (lnk_truthy (g_lnk g)); try destruct (g_surface g) as [[|c s]|];
    destruct (g_ident g);
    cbn -[dnode_from dnode_to_dict link_from link_to_dict norm_top all_some];
    rewrite dnodes_back by exact Hn; rewrite links_back; rewrite norm_top_id by exact Hl; reflexivity.
Qed.
