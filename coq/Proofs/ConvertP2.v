(* C05: every edge of the converted EDS is justified by the source. *)
From Coq Require Import List NArith ZArith Bool Arith Lia.
From PyD Require Import Base.Str Base.Dec Base.Graph Model.Hier Model.Mrs Model.Convert Proofs.HierP Proofs.MrsP Proofs.ConvertP.
Import ListNotations.

Lemma fold_left_inv {A B} (f : A -> B -> A) (P : A -> Prop) l : forall a,
  P a -> (forall a b, In b l -> P a -> P (f a b)) -> P (fold_left f l a).
Proof.
  induction l as [|b l IH]; intros a Ha Hf; simpl; [exact Ha|].
  apply IH; [apply Hf; [left; reflexivity | exact Ha] | intros a' b' Hb; apply Hf; right; exact Hb].
Qed.

Lemma In_dict_set {A} k (v : A) d k0 v0 :
  In (k0, v0) (dict_set k v d) -> (k0 = k /\ v0 = v) \/ In (k0, v0) d.
Proof.
  induction d as [|[k' v'] d IH]; simpl.
  - intros [E|[]]. inversion E. left. split; reflexivity.
  - destruct (str_eqb k' k) eqn:E.
    + apply str_eqb_spec in E. subst k'. intros [X|X]; [inversion X; left; split; reflexivity | right; right; exact X].
    + intros [X|X]; [right; left; exact X|]. destruct (IH X) as [Y|Y]; [left; exact Y | right; right; exact Y].
Qed.

Lemma dict_get_In' {A} k (v : A) d : dict_get k d = Some v -> In (k, v) d.
Proof.
  induction d as [|[k' v'] d IH]; simpl; [discriminate|].
  destruct (str_eqb k' k) eqn:E.
  - apply str_eqb_spec in E. subst k'. intros H; inversion H. left. reflexivity.
  - intros H. right. apply IH. exact H.
Qed.

Section Edges.
Variable m : mrs.
Variable ids : list str.
Variable reps : list (str * list str).
Let eps := combine ids (m_rels m).

(* how the value of an argument selects its target *)
Inductive arg_target (v tgt : str) : Prop :=
| at_qeq c : hc_get (m_hcons m) v = Some c -> first_rep reps (snd c) = Some (Some tgt) -> arg_target v tgt
| at_label : hc_get (m_hcons m) v = None -> first_rep reps v = Some (Some tgt) -> arg_target v tgt
| at_iv p q : hc_get (m_hcons m) v = None -> first_rep reps v = None ->
              ivmap m ids v = Some (p, q) -> tgt = fst p -> arg_target v tgt.

(* the edges of one identifier are justified *)
Definition dep_ok (i : str) (d : list (str * str)) : Prop :=
  (exists e, In (i, e) eps /\ ivmap m ids i <> None /\
             forall role tgt, In (role, tgt) d ->
               exists v, In (role, v) (ep_arguments None e) /\ arg_target v tgt)
  \/ (exists src e p q, In (src, e) eps /\ ivmap m ids src = Some (p, Some q) /\ i = fst q /\ d = [(BV, src)]).

Definition deps_ok (edges : list (str * list (str * str))) : Prop :=
  forall i d, In (i, d) edges -> dep_ok i d.

Theorem eds_deps_justified deps w : eds_deps m ids reps = (COk deps, w) -> deps_ok deps.
Proof.
  unfold eds_deps. fold eps.
  match goal with |- fold_left ?F eps ?A = _ -> _ => set (F0 := F); set (A0 := A) end.
  intros H.
  assert (G : match fold_left F0 eps A0 with (COk edges, _) => deps_ok edges | _ => True end).
  { apply fold_left_inv.
    - unfold A0. intros i d [].
    - intros [[edges| |] w0] [i e] Hin Hacc; try exact I.
      unfold F0. cbv beta iota.
      destruct (ivmap m ids i) as [[p0 q]|] eqn:Eiv; [|exact Hacc].
      match goal with |- context [fold_left ?F (ep_arguments None e) ?A] => set (F1 := F); set (A1 := A) end.
      assert (G1 : match fold_left F1 (ep_arguments None e) A1 with
                   | (COk d, _) => forall role tgt, In (role, tgt) d ->
                                   exists v, In (role, v) (ep_arguments None e) /\ arg_target v tgt
                   | _ => True end).
      { apply fold_left_inv.
        - unfold A1. intros role tgt [].
        - intros [[d| |] w2] [role v] Hrv Hd; try exact I.
          unfold F1. cbv beta iota.
          destruct (hc_get (m_hcons m) v) as [c|] eqn:Ehc.
          + destruct (first_rep reps (snd c)) as [[t|]|] eqn:Er; try exact I; [|exact Hd].
            intros r0 t0 Hi. unfold edge_set in Hi. apply In_dict_set in Hi. destruct Hi as [[-> ->]|Hi]; [|apply Hd; exact Hi].
            exists v. split; [exact Hrv | eapply at_qeq; eauto].
          + destruct (first_rep reps v) as [[t|]|] eqn:Er; try exact I.
            * intros r0 t0 Hi. unfold edge_set in Hi. apply In_dict_set in Hi. destruct Hi as [[-> ->]|Hi]; [|apply Hd; exact Hi].
              exists v. split; [exact Hrv | eapply at_label; eauto].
            * destruct (ivmap m ids v) as [[p2 q2]|] eqn:Ei2; [|exact Hd].
              intros r0 t0 Hi. unfold edge_set in Hi. apply In_dict_set in Hi. destruct Hi as [[-> ->]|Hi]; [|apply Hd; exact Hi].
              exists v. split; [exact Hrv | eapply at_iv; eauto]. }
      destruct (fold_left F1 (ep_arguments None e) A1) as [[d| |] w2]; try exact I.
      assert (Hself : dep_ok i d).
      { left. exists e. split; [exact Hin|]. split; [congruence | exact G1]. }
      assert (Hedges1 : deps_ok (dict_set i d edges)).
      { intros i' d' Hi. apply In_dict_set in Hi. destruct Hi as [[-> ->]|Hi]; [exact Hself | apply Hacc; exact Hi]. }
      destruct q as [qp|]; [|exact Hedges1].
      intros i' d' Hi. apply In_dict_set in Hi. destruct Hi as [[-> ->]|Hi]; [|apply Hedges1; exact Hi].
      right. exists i, e, p0, qp. repeat split; auto. }
  rewrite H in G. exact G.
Qed.

End Edges.

(* a predicate-modifier edge joins a later representative of a scope to the
   first one, and only when the two were not connected by basic dependencies *)
Definition pm_justified (reps : list (str * list str)) (gedges : list (str * str)) (other first : str) : Prop :=
  exists lbl rest, In (lbl, first :: rest) reps /\ In other rest /\
                   mem other (reach str str_eqb gedges first) = false.

Theorem eds_edges_justified m pm uniq e : eds_from_mrs m pm uniq = COk e ->
  exists ids reps deps nodes1,
    ep_ids (m_rels m) = Some ids /\ representatives m = Some reps /\
    e_nodes e = (if uniq then rename_nodes (new_ids_of (combine ids (m_rels m))) nodes1 else nodes1) /\
    map en_id nodes1 = ids /\
    let nodes0 := map (base_node m deps) (combine ids (m_rels m)) in
    let gedges := flat_map (fun n => flat_map (fun rt => [(en_id n, snd rt); (snd rt, en_id n)]) (en_edges n)) nodes0 in
    forall n role tgt, In n nodes1 -> In (role, tgt) (en_edges n) ->
      (exists d, dep_ok m ids reps (en_id n) d /\ In (role, tgt) d) \/
      (role = ARG1 /\ pm = true /\ pm_justified reps gedges (en_id n) tgt).
Proof.
  unfold eds_from_mrs.
  destruct (ep_ids (m_rels m)) as [ids|] eqn:Ei; [|discriminate].
  destruct (representatives m) as [reps|]; [|discriminate].
  set (eps := combine ids (m_rels m)).
  destruct (eds_top m ids reps) as [[top w1]| |]; try (intros H; discriminate).
  2:{ destruct (eds_deps m ids reps) as [[d| |] w]; intros H; discriminate. }
  destruct (eds_deps m ids reps) as [[deps| |] w2] eqn:Ed; try (intros H; discriminate).
  pose proof (eds_deps_justified m ids reps deps w2 Ed) as Hdeps.
  set (nodes0 := map (base_node m deps) eps).
  set (gedges := flat_map (fun n => flat_map (fun rt => [(en_id n, snd rt); (snd rt, en_id n)]) (en_edges n)) nodes0).
  match goal with |- context [map (add_pm_edge ?A) nodes0] => set (addl := A) end.
  set (nodes1 := map (add_pm_edge addl) nodes0).
  assert (L : length ids = length (m_rels m)) by (apply ep_ids_length; exact Ei).
  assert (Hfst : map fst eps = ids).
  { unfold eps. clear -L. revert L. generalize (m_rels m). induction ids as [|i ids IH]; intros [|r rs] L;
      simpl in *; try lia; try reflexivity. f_equal. apply IH. lia. }
  assert (Hid1 : map en_id nodes1 = ids).
  { unfold nodes1, nodes0. rewrite !map_map. rewrite <- Hfst. apply map_ext. intros [i x].
    unfold add_pm_edge. destruct (dict_get _ addl); unfold base_node; simpl;
      destruct (is_quant x); try destruct (e_iv x); reflexivity. }
  assert (Haddl : forall other first, In (other, first) addl -> pm = true /\ pm_justified reps gedges other first).
  { intros other first Hin. unfold addl in Hin.
    destruct pm; [|simpl in Hin; destruct Hin]. split; [reflexivity|].
    simpl negb in Hin. cbv beta in Hin.
    match type of Hin with In _ (if ?c then _ else _) => destruct c end; [destruct Hin|].
    apply in_flat_map in Hin. destruct Hin as ([lbl rs] & Hlr & Hin). cbn [snd] in Hin.
    destruct rs as [|f rest]; [destruct Hin|].
    match type of Hin with In _ (fst (fold_left ?F rest ?A)) => set (F0 := F) in Hin; set (A0 := A) in Hin end.
    assert (G : let '(out, joined) := fold_left F0 rest A0 in
                In f joined /\ forall o x, In (o, x) out -> x = f /\ In o rest /\
                                           mem o (reach str str_eqb gedges f) = false).
    { apply fold_left_inv.
      - unfold A0. split; [left; reflexivity | intros o x []].
      - intros [out joined] o Ho [Hj Hout]. unfold F0. cbv beta iota.
        match goal with |- context [if ?c then _ else _] => destruct c eqn:Ec end; [|split; assumption].
        split; [apply in_or_app; left; exact Hj|].
        intros o' x Hi. apply in_app_or in Hi. destruct Hi as [Hi|[Hi|[]]]; [apply Hout; exact Hi|].
        inversion Hi; subst o' x. split; [reflexivity|]. split; [exact Ho|].
        apply andb_true_iff in Ec. destruct Ec as [Ec _]. apply negb_true_iff in Ec.
        destruct (mem o (reach str str_eqb gedges f)) eqn:Em; [|reflexivity].
        assert (X : existsb (fun j => mem o (reach str str_eqb gedges j)) joined = true).
        { apply existsb_exists. exists f. split; [exact Hj | exact Em]. }
        rewrite X in Ec. discriminate. }
    destruct (fold_left F0 rest A0) as [out joined]. destruct G as [_ G]. cbn [fst] in Hin.
    destruct (G other first Hin) as (-> & Ho & Hm).
    exists lbl, rest. split; [exact Hlr|]. split; [exact Ho | exact Hm]. }
  assert (Main : forall n role tgt, In n nodes1 -> In (role, tgt) (en_edges n) ->
      (exists d, dep_ok m ids reps (en_id n) d /\ In (role, tgt) d) \/
      (role = ARG1 /\ pm = true /\ pm_justified reps gedges (en_id n) tgt)).
  { intros n role tgt Hn Hrt. unfold nodes1 in Hn. apply in_map_iff in Hn. destruct Hn as (n0 & <- & Hn0).
    unfold nodes0 in Hn0. apply in_map_iff in Hn0. destruct Hn0 as ([i x] & <- & Hp).
    set (b := base_node m deps (i, x)) in *.
    assert (Hbid : en_id b = i) by (unfold b, base_node; destruct (is_quant x); try destruct (e_iv x); reflexivity).
    assert (Hbe : en_edges b = match dict_get i deps with Some d => d | None => [] end)
      by (unfold b, base_node; destruct (is_quant x); try destruct (e_iv x); reflexivity).
    assert (Hbase : In (role, tgt) (en_edges b) -> exists d, dep_ok m ids reps i d /\ In (role, tgt) d).
    { rewrite Hbe. destruct (dict_get i deps) as [d|] eqn:Eg; [|intros []].
      intros Hi. exists d. split; [apply Hdeps; apply dict_get_In'; exact Eg | exact Hi]. }
    unfold add_pm_edge in *. rewrite Hbid in *.
    destruct (dict_get i addl) as [first|] eqn:Ea; cbn [en_id en_edges] in *.
    - unfold edge_set in Hrt. apply In_dict_set in Hrt. destruct Hrt as [[-> ->]|Hrt].
      + right. destruct (Haddl i first (dict_get_In' _ _ _ Ea)) as [P J]. rewrite ?Hbid. auto.
      + left. rewrite ?Hbid. apply Hbase. exact Hrt.
    - left. rewrite ?Hbid. apply Hbase. exact Hrt. }
  destruct uniq.
  - destruct (nodupb (map snd (new_ids_of eps))) eqn:Enb; [|intros H; discriminate].
    intros H. injection H as He. subst e. cbn [e_nodes].
    exists ids, reps, deps, nodes1. repeat split; auto.
  - intros H. injection H as He. subst e. cbn [e_nodes].
    exists ids, reps, deps, nodes1. repeat split; auto.
Qed.

(* what the two maps of quantification_pairs hold *)
Lemma qmap_some m ids v q : qmap m ids v = Some q ->
  In q (combine ids (m_rels m)) /\ is_quant (snd q) = true /\ e_iv (snd q) = Some v.
Proof.
  unfold qmap. intros H.
  match type of H with fold_left ?F ?l None = _ => set (F0 := F) in H; set (l0 := l) in * end.
  assert (G : match fold_left F0 l0 None with
              | Some q' => In q' l0 /\ is_quant (snd q') = true /\ e_iv (snd q') = Some v
              | None => True end).
  { apply fold_left_inv; [exact I|]. intros acc p Hp Hacc. unfold F0.
    destruct (is_quant (snd p) && match e_iv (snd p) with Some x => str_eqb x v | None => false end) eqn:C; [|exact Hacc].
    apply andb_true_iff in C. destruct C as [C1 C2]. destruct (e_iv (snd p)) as [x|]; [|discriminate].
    apply str_eqb_spec in C2. subst x. auto. }
  rewrite H in G. exact G.
Qed.

Lemma ivmap_some m ids v p q : ivmap m ids v = Some (p, q) ->
  In p (combine ids (m_rels m)) /\ is_quant (snd p) = false /\ e_iv (snd p) = Some v /\ q = qmap m ids v.
Proof.
  unfold ivmap. intros H.
  match type of H with fold_left ?F ?l None = _ => set (F0 := F) in H; set (l0 := l) in * end.
  assert (G : match fold_left F0 l0 None with
              | Some (p', q') => In p' l0 /\ is_quant (snd p') = false /\ e_iv (snd p') = Some v /\ q' = qmap m ids v
              | None => True end).
  { apply fold_left_inv; [exact I|]. intros acc p' Hp Hacc. unfold F0.
    destruct (negb (is_quant (snd p')) && match e_iv (snd p') with Some x => str_eqb x v | None => false end) eqn:C; [|exact Hacc].
    apply andb_true_iff in C. destruct C as [C1 C2]. apply negb_true_iff in C1.
    destruct (e_iv (snd p')) as [x|]; [|discriminate].
    apply str_eqb_spec in C2. subst x. auto. }
  rewrite H in G. exact G.
Qed.

(* the bound-variable case of dep_ok spelled out: the only edge of the
   quantifier goes to the non-quantifier predication with the same intrinsic
   variable *)
Theorem bv_edge_spec m ids src p q :
  ivmap m ids src = Some (p, Some q) ->
  is_quant (snd q) = true /\ e_iv (snd q) = Some src /\
  is_quant (snd p) = false /\ e_iv (snd p) = Some src /\
  In p (combine ids (m_rels m)) /\ In q (combine ids (m_rels m)).
Proof.
  intros H. destruct (ivmap_some _ _ _ _ _ H) as (A & B & C & D).
  symmetry in D. destruct (qmap_some _ _ _ _ D) as (E & F & G). repeat split; assumption.
Qed.
