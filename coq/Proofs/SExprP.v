(* Proofs about Model/SExpr.v (C19): reading a printed answer line gives back
   exactly the pairs that were printed. *)
From Coq Require Import List NArith ZArith Bool Arith Lia.
From PyD Require Import Base.Str Base.Dec Model.SExpr.
Import ListNotations.
Open Scope nat_scope.

(* ---- the printer (what a processor writes) ---- *)
Definition esc_string (s : str) : str :=
  flat_map (fun c => if (N.eqb c DQ || N.eqb c BS)%bool then [BS; c] else [c]) s.

Definition sym_safe (s : str) : bool :=
  match s with
  | [] => false
  | c :: r => forallb (fun x => negb (is_special x)) s && negb (is_digit c) &&
              negb (N.eqb c 45 && match r with c2 :: _ => is_digit c2 | [] => false end) &&
              negb (str_eqb s DOT)
  end.

Definition SP : N := 32%N.

Fixpoint join_sp (l : list str) : str :=
  match l with
  | [] => []
  | [x] => x
  | x :: r => x ++ SP :: join_sp r
  end.

Fixpoint fmt (x : sx) : str :=
  match x with
  | SInt z => Z_to_dec z
  | SStr s => if sym_safe s then s else DQ :: esc_string s ++ [DQ]
  | SList l => LP :: join_sp (map fmt l) ++ [RP]
  | SPair a b => LP :: fmt a ++ SP :: 46%N :: SP :: fmt b ++ [RP]
  end.

(* trees the printer can write unambiguously: no three-element list with a
   lone dot in the middle (it reads as a pair) *)
Fixpoint wf (x : sx) : Prop :=
  match x with
  | SInt _ | SStr _ => True
  | SList l => (match l with [_; SStr d; _] => d <> DOT | _ => True end) /\
               (fix all (l : list sx) : Prop := match l with [] => True | y :: r => wf y /\ all r end) l
  | SPair a b => wf a /\ wf b
  end.

Definition delim (rest : str) : Prop := exists r, rest = SP :: r \/ rest = RP :: r.

(* ---- scanners ---- *)
Lemma unescape_esc s : unescape_string (esc_string s) = s.
Proof.
  induction s as [|c s IH]; [reflexivity|]. cbn [esc_string flat_map].
  destruct (N.eqb c DQ || N.eqb c BS)%bool eqn:E.
  - fold (esc_string s). change ([BS; c] ++ esc_string s) with (BS :: c :: esc_string s).
    cbn [unescape_string]. change (N.eqb BS BS) with true. cbv iota. rewrite E. rewrite IH. reflexivity.
  - fold (esc_string s). change ([c] ++ esc_string s) with (c :: esc_string s).
    cbn [unescape_string]. apply orb_false_iff in E. destruct E as [E1 E2].
    rewrite E2. rewrite IH. reflexivity.
Qed.

Lemma scan_string_esc s : forall fuel acc rest, length (esc_string s) < fuel ->
  scan_string fuel (esc_string s ++ DQ :: rest) acc = POk (List.rev acc ++ esc_string s, rest).
Proof.
  induction s as [|c s IH]; intros fuel acc rest Hf.
  - destruct fuel as [|f]; [simpl in Hf; lia|]. cbn [esc_string flat_map app scan_string].
    change (N.eqb DQ DQ) with true. cbv iota. rewrite app_nil_r. reflexivity.
  - cbn [esc_string flat_map] in *. fold (esc_string s) in *.
    destruct (N.eqb c DQ || N.eqb c BS)%bool eqn:E.
    + change ([BS; c] ++ esc_string s) with (BS :: c :: esc_string s) in *. cbn [length] in Hf.
      destruct fuel as [|f]; [lia|]. rewrite <- !app_comm_cons. cbn [scan_string].
      change (N.eqb BS DQ) with false. change (N.eqb BS BS) with true. cbv iota.
      rewrite IH by lia. cbn [List.rev]. rewrite <- !app_assoc. reflexivity.
    + change ([c] ++ esc_string s) with (c :: esc_string s) in *. cbn [length] in Hf.
      destruct fuel as [|f]; [lia|]. rewrite <- !app_comm_cons. cbn [scan_string].
      apply orb_false_iff in E. destruct E as [E1 E2]. rewrite E1, E2.
      rewrite IH by lia. cbn [List.rev]. rewrite <- !app_assoc. reflexivity.
Qed.

Lemma scan_symbol_safe s : forall fuel acc rest,
  forallb (fun x => negb (is_special x)) s = true -> length s < fuel ->
  (match rest with c :: _ => is_special c = true /\ N.eqb c BS = false | [] => True end) ->
  scan_symbol fuel (s ++ rest) acc = (List.rev acc ++ s, rest).
Proof.
  induction s as [|c s IH]; intros fuel acc rest Hs Hf Hr.
  - destruct fuel as [|f]; [simpl in Hf; lia|]. cbn [app]. rewrite app_nil_r.
    destruct rest as [|c r]; [reflexivity|]. cbn [scan_symbol].
    destruct Hr as [Hr1 Hr2]. unfold BS in *. rewrite Hr2, Hr1. reflexivity.
  - cbn [forallb] in Hs. apply andb_true_iff in Hs. destruct Hs as [Hc Hs]. apply negb_true_iff in Hc.
    destruct fuel as [|f]; [simpl in Hf; lia|]. cbn [app scan_symbol].
    assert (Eb : N.eqb c BS = false).
    { destruct (N.eqb c BS) eqn:E; [|reflexivity]. apply N.eqb_eq in E. subst c. discriminate Hc. }
    unfold BS in *. rewrite Eb, Hc. rewrite IH by (try assumption; cbn [length] in Hf; lia).
    cbn [List.rev]. rewrite <- !app_assoc. reflexivity.
Qed.

Lemma unescape_symbol_safe s : forallb (fun x => negb (is_special x)) s = true -> unescape_symbol s = s.
Proof.
  induction s as [|c s IH]; intros H; [reflexivity|]. cbn [forallb] in H. apply andb_true_iff in H.
  destruct H as [Hc Hs]. apply negb_true_iff in Hc. cbn [unescape_symbol].
  assert (Eb : N.eqb c BS = false).
  { destruct (N.eqb c BS) eqn:E; [|reflexivity]. apply N.eqb_eq in E. subst c. discriminate Hc. }
  rewrite Eb, IH by exact Hs. reflexivity.
Qed.

Lemma span_digits_app ds rest : forallb is_digit ds = true ->
  (match rest with c :: _ => is_digit c = false | [] => True end) ->
  span_digits (ds ++ rest) = (ds, rest).
Proof.
  induction ds as [|d ds IH]; intros Hd Hr.
  - cbn [app]. destruct rest as [|c r]; [reflexivity|]. cbn [span_digits]. rewrite Hr. reflexivity.
  - cbn [forallb] in Hd. apply andb_true_iff in Hd. destruct Hd as [H1 H2].
    cbn [app span_digits]. rewrite H1, IH by assumption. reflexivity.
Qed.

(* ---- induction over nested trees ---- *)
Fixpoint sx_ind2 (P : sx -> Prop) (Hi : forall z, P (SInt z)) (Hs : forall s, P (SStr s))
         (Hl : forall l, Forall P l -> P (SList l)) (Hp : forall a b, P a -> P b -> P (SPair a b))
         (x : sx) : P x :=
  match x with
  | SInt z => Hi z
  | SStr s => Hs s
  | SList l => Hl l ((fix go (l : list sx) : Forall P l :=
                        match l with [] => Forall_nil P | y :: r => Forall_cons y (sx_ind2 P Hi Hs Hl Hp y) (go r) end) l)
  | SPair a b => Hp a b (sx_ind2 P Hi Hs Hl Hp a) (sx_ind2 P Hi Hs Hl Hp b)
  end.

Lemma wf_list l : wf (SList l) -> Forall wf l.
Proof.
  intros [_ H]. induction l as [|y r IH]; [constructor|]. destruct H as [Hy Hr]. constructor; [exact Hy | apply IH; exact Hr].
Qed.

Lemma wf_close l : wf (SList l) -> close_list l = SList l.
Proof.
  intros [H _]. unfold close_list. destruct l as [|a [|[z|d|l'|p q] [|b [|c r]]]]; try reflexivity.
  destruct (str_eqb d DOT) eqn:E; [|reflexivity]. apply str_eqb_spec in E. contradiction.
Qed.

(* ---- the number of loop iterations the printed text of a tree takes ---- *)
Fixpoint cost (x : sx) : nat :=
  match x with
  | SInt _ | SStr _ => 1
  | SList l => 2 + (fix items (l : list sx) : nat :=
                      match l with [] => 0 | [y] => cost y | y :: r => cost y + 1 + items r end) l
  | SPair a b => 2 + cost a + 1 + 1 + 1 + cost b
  end.
Definition cost_items := fix items (l : list sx) : nat :=
  match l with [] => 0 | [y] => cost y | y :: r => cost y + 1 + items r end.

Definition data_after (x : sx) (data : sx) : sx :=
  match x with SList _ | SPair _ _ => x | _ => data end.
Fixpoint data_items (l : list sx) (data : sx) : sx :=
  match l with [] => data | y :: r => data_items r (data_after y data) end.

Lemma delim_special rest : delim rest ->
  match rest with c :: _ => is_special c = true /\ N.eqb c BS = false | [] => True end.
Proof. intros [r [-> | ->]]; split; reflexivity. Qed.

Lemma delim_nondigit rest : delim rest -> match rest with c :: _ => is_digit c = false | [] => True end.
Proof. intros [r [-> | ->]]; reflexivity. Qed.

(* shape of a printed integer *)
Lemma uint_digits u : forallb is_digit (uint_to_str u) = true.
Proof. exact (uint_to_str_digits u). Qed.

Lemma Z_to_dec_shape z : exists c ds, Z_to_dec z = c :: ds /\ forallb is_digit ds = true /\
  (is_digit c = true \/ (c = 45%N /\ exists d ds', ds = d :: ds')).
Proof.
  unfold Z_to_dec. destruct z as [|p|p].
  - exists 48%N, []. repeat split; auto.
  - change (Z.to_int (Z.pos p)) with (Decimal.Pos (Pos.to_uint p)).
    pose proof (uint_digits (Pos.to_uint p)) as F.
    destruct (uint_to_str (Pos.to_uint p)) as [|c ds] eqn:E.
    + exfalso. revert E. apply uint_to_str_nonnil, to_uint_nonnil.
    + cbn [forallb] in F. apply andb_true_iff in F. destruct F as [F1 F2]. exists c, ds. auto.
  - change (Z.to_int (Z.neg p)) with (Decimal.Neg (Pos.to_uint p)).
    pose proof (uint_digits (Pos.to_uint p)) as F.
    destruct (uint_to_str (Pos.to_uint p)) as [|c ds] eqn:E.
    + exfalso. revert E. apply uint_to_str_nonnil, to_uint_nonnil.
    + exists 45%N, (c :: ds). split; [cbv iota; rewrite ?E; reflexivity|]. split; [exact F|]. right. split; [reflexivity|]. eauto.
Qed.

(* ---- single steps of the loop ---- *)
Lemma step_lp f rest stack vals data :
  sx_loop (S f) (LP :: rest) stack vals data = sx_loop f rest (vals :: stack) [] data.
Proof. reflexivity. Qed.

Lemma step_sp f rest stack vals data :
  sx_loop (S f) (SP :: rest) stack vals data = sx_loop f rest stack vals data.
Proof. reflexivity. Qed.

Lemma step_rp_nested f rest top stack vals data :
  sx_loop (S f) (RP :: rest) (top :: stack) vals data =
  sx_loop f rest stack (top ++ [close_list vals]) (close_list vals).
Proof. reflexivity. Qed.

Lemma step_rp_top f rest vals data :
  sx_loop (S f) (RP :: rest) [] vals data = POk (close_list vals, rest).
Proof. reflexivity. Qed.

Lemma step_dot f rest stack vals data : delim rest ->
  sx_loop (S f) (46%N :: rest) stack vals data = sx_loop f rest stack (vals ++ [SStr DOT]) data.
Proof.
  intros Hd. cbn [sx_loop]. change (is_digit 46) with false. change (N.eqb 46 45) with false.
  change (N.eqb 46 DQ) with false. change (N.eqb 46 LP) with false. change (N.eqb 46 RP) with false.
  change (is_ws 46) with false. cbn [orb andb].
  change (46%N :: rest) with ([46%N] ++ rest).
  rewrite (scan_symbol_safe [46%N] _ [] rest eq_refl) by (first [apply delim_special; exact Hd | cbn [length app]; lia]).
  reflexivity.
Qed.

Lemma step_atom x f rest stack vals data : (match x with SInt _ | SStr _ => True | _ => False end) -> delim rest ->
  sx_loop (S f) (fmt x ++ rest) stack vals data = sx_loop f rest stack (vals ++ [x]) data.
Proof.
  intros Hx Hd. destruct x as [z|s| |]; try contradiction.
  - (* an integer *)
    cbn [fmt]. destruct (Z_to_dec_shape z) as (c & ds & E & Hds & Hc).
    pose proof (dec_to_Z_to_dec z) as Hz. rewrite E in *. cbn [app sx_loop].
    assert (Hdig : (is_digit c || (N.eqb c 45 && match ds ++ rest with c2 :: _ => is_digit c2 | [] => false end))%bool = true).
    { destruct Hc as [Hc|(-> & d & ds' & ->)]; [rewrite Hc; reflexivity|].
      cbn [forallb] in Hds. apply andb_true_iff in Hds. destruct Hds as [Hd1 _].
      cbn [app]. rewrite Hd1. reflexivity. }
    rewrite Hdig. unfold parse_number. rewrite (span_digits_app ds rest Hds (delim_nondigit rest Hd)).
    destruct Hd as [r [-> | ->]]; cbn [N.eqb orb]; rewrite Hz; reflexivity.
  - (* a string: bare when it is symbol-safe, quoted otherwise *)
    cbn [fmt]. destruct (sym_safe s) eqn:Es.
    + destruct s as [|c r]; [discriminate|]. unfold sym_safe in Es.
      apply andb_true_iff in Es. destruct Es as [Es _].
      apply andb_true_iff in Es. destruct Es as [Es Hnm]. apply negb_true_iff in Hnm.
      apply andb_true_iff in Es. destruct Es as [Es Hnd]. apply negb_true_iff in Hnd.
      pose proof Es as Hall. cbn [forallb] in Es. apply andb_true_iff in Es. destruct Es as [Hc _].
      apply negb_true_iff in Hc.
      assert (Hq : N.eqb c DQ = false /\ N.eqb c LP = false /\ N.eqb c RP = false /\ is_ws c = false).
      { unfold is_special in Hc. repeat (apply orb_false_iff in Hc; destruct Hc as [Hc ?]).
        unfold DQ, LP, RP. repeat split; assumption. }
      destruct Hq as (Q1 & Q2 & Q3 & Q4).
      cbn [app sx_loop]. rewrite Hnd.
      assert (Hm : (N.eqb c 45 && match r ++ rest with c2 :: _ => is_digit c2 | [] => false end)%bool = false).
      { destruct (N.eqb c 45) eqn:E45; [|reflexivity]. cbn [andb] in *.
        destruct r as [|c2 r2]; cbn [app].
        - destruct Hd as [r0 [-> | ->]]; reflexivity.
        - exact Hnm. }
      rewrite Hm, Q1, Q2, Q3, Q4. cbn [orb].
      change (c :: r ++ rest) with ((c :: r) ++ rest).
      rewrite (scan_symbol_safe (c :: r) _ [] rest Hall) by (first [apply delim_special; exact Hd | rewrite app_length; cbn [length]; lia]).
      cbn [List.rev app]. rewrite (unescape_symbol_safe _ Hall). reflexivity.
    + cbn [app sx_loop]. change (is_digit DQ) with false. change (N.eqb DQ 45) with false.
      change (N.eqb DQ DQ) with true. cbn [orb andb]. rewrite <- app_assoc. cbn [app].
      rewrite scan_string_esc by (rewrite app_length; cbn [length]; lia).
      cbn [List.rev app]. rewrite unescape_esc. reflexivity.
Qed.

(* ---- whole trees ---- *)
Definition tree_ok (x : sx) : Prop :=
  wf x -> forall f rest stack vals data, delim rest ->
  sx_loop (cost x + f) (fmt x ++ rest) stack vals data = sx_loop f rest stack (vals ++ [x]) (data_after x data).

Lemma items_ok l : Forall tree_ok l -> Forall wf l -> forall f rest stack vals data, delim rest ->
  sx_loop (cost_items l + f) (join_sp (map fmt l) ++ rest) stack vals data =
  sx_loop f rest stack (vals ++ l) (data_items l data).
Proof.
  induction l as [|x l IH]; intros Ht Hw f rest stack vals data Hd.
  - cbn. rewrite app_nil_r. reflexivity.
  - inversion Ht as [|? ? Hx Ht']; subst. inversion Hw as [|? ? Wx Hw']; subst.
    destruct l as [|y r].
    + cbn [cost_items map join_sp data_items]. rewrite (Hx Wx f rest stack vals data Hd). reflexivity.
    + change (cost_items (x :: y :: r)) with (cost x + 1 + cost_items (y :: r)).
      change (join_sp (map fmt (x :: y :: r))) with (fmt x ++ SP :: join_sp (map fmt (y :: r))).
      rewrite <- app_assoc. cbn [app].
      replace (cost x + 1 + cost_items (y :: r) + f) with (cost x + S (cost_items (y :: r) + f)) by lia.
      rewrite (Hx Wx) by (eexists; left; reflexivity).
      rewrite step_sp. rewrite (IH Ht' Hw' f rest stack (vals ++ [x]) (data_after x data) Hd).
      cbn [data_items]. rewrite <- app_assoc. reflexivity.
Qed.

Theorem tree_ok_all x : tree_ok x.
Proof.
  induction x as [z|s|l IHl|a b IHa IHb] using sx_ind2; intros W f rest stack vals data Hd.
  - apply (step_atom (SInt z)); [exact I | exact Hd].
  - apply (step_atom (SStr s)); [exact I | exact Hd].
  - change (cost (SList l)) with (2 + cost_items l). cbn [fmt]. rewrite <- app_comm_cons, <- app_assoc. cbn [app].
    replace (2 + cost_items l + f) with (S (cost_items l + S f)) by lia.
    rewrite step_lp. rewrite (items_ok l IHl (wf_list l W) (S f) (RP :: rest) (vals :: stack) [] data)
      by (eexists; right; reflexivity).
    rewrite step_rp_nested. cbn [app]. rewrite (wf_close l W). reflexivity.
  - destruct W as [Wa Wb].
    change (cost (SPair a b)) with (2 + cost a + 1 + 1 + 1 + cost b). cbn [fmt].
    rewrite <- app_comm_cons, <- !app_assoc. cbn [app]. rewrite <- !app_assoc. cbn [app].
    replace (2 + cost a + 1 + 1 + 1 + cost b + f) with (S (cost a + S (S (S (cost b + S f))))) by lia.
    rewrite step_lp. rewrite (IHa Wa) by (eexists; left; reflexivity).
    rewrite step_sp. rewrite step_dot by (eexists; left; reflexivity). rewrite step_sp.
    rewrite (IHb Wb) by (eexists; right; reflexivity).
    rewrite step_rp_nested. cbn [app close_list]. rewrite str_eqb_refl. reflexivity.
Qed.

(* every loop iteration consumes at least one character *)
Lemma fmt_nonempty_atom x : (match x with SInt _ | SStr _ => True | _ => False end) -> 1 <= length (fmt x).
Proof.
  destruct x as [z|s| |]; try contradiction; intros _; cbn [fmt].
  - destruct (Z_to_dec_shape z) as (c & ds & E & _). rewrite E. cbn [length]. lia.
  - destruct (sym_safe s) eqn:E.
    + destruct s; [discriminate|]. cbn [length]. lia.
    + cbn [length]. lia.
Qed.

Lemma cost_le x : cost x <= length (fmt x).
Proof.
  induction x as [z|s|l IHl|a b IHa IHb] using sx_ind2.
  - apply (fmt_nonempty_atom (SInt z)). exact I.
  - apply (fmt_nonempty_atom (SStr s)). exact I.
  - change (cost (SList l)) with (2 + cost_items l). cbn [fmt length]. rewrite app_length. cbn [length].
    assert (H : cost_items l <= length (join_sp (map fmt l))).
    { induction IHl as [|x l Hx Hl IH]; [apply le_n|].
      destruct l as [|y r]; [exact Hx|].
      change (cost_items (x :: y :: r)) with (cost x + 1 + cost_items (y :: r)).
      change (join_sp (map fmt (x :: y :: r))) with (fmt x ++ SP :: join_sp (map fmt (y :: r))).
      rewrite app_length. cbn [length]. lia. }
    lia.
  - change (cost (SPair a b)) with (2 + cost a + 1 + 1 + 1 + cost b). cbn [fmt length].
    rewrite !app_length. cbn [length]. rewrite app_length. cbn [length]. lia.
Qed.

(* SExpr.parse on a printed pair followed by anything *)
Theorem parse_pair a b rest : wf a -> wf b ->
  sx_parse (fmt (SPair a b) ++ rest) = POk (SPair a b, rest).
Proof.
  intros Wa Wb. unfold sx_parse. cbn [fmt]. rewrite <- app_comm_cons. cbn [lstrip_ws].
  change (is_ws LP) with false. cbv iota. change (N.eqb LP LP) with true. cbv iota.
  rewrite <- !app_assoc. cbn [app]. rewrite <- !app_assoc. cbn [app].
  set (tail := fmt a ++ SP :: 46%N :: SP :: fmt b ++ RP :: rest).
  assert (Hlen : cost a + S (S (S (cost b + 1))) <= length tail).
  { unfold tail. rewrite app_length. cbn [length]. rewrite app_length. cbn [length].
    pose proof (cost_le a). pose proof (cost_le b). lia. }
  destruct (Nat.le_exists_sub _ _ (Nat.le_trans _ _ _ Hlen (Nat.le_succ_diag_r _))) as (f & Ef & _).
  rewrite Ef. replace (f + (cost a + S (S (S (cost b + 1))))) with (cost a + S (S (S (cost b + S f)))) by lia.
  unfold tail.
  rewrite (tree_ok_all a Wa) by (eexists; left; reflexivity).
  rewrite step_sp. rewrite step_dot by (eexists; left; reflexivity). rewrite step_sp.
  rewrite (tree_ok_all b Wb) by (eexists; right; reflexivity).
  rewrite step_rp_top. cbn [app close_list]. rewrite str_eqb_refl. reflexivity.
Qed.

(* an answer line: the pairs separated by blanks *)
Definition fmt_pair (kv : str * sx) : str := fmt (SPair (SStr (fst kv)) (snd kv)).
Definition fmt_line (pairs : list (str * sx)) : str := join_sp (map fmt_pair pairs).

Lemma fmt_pair_head kv : exists t, fmt_pair kv = LP :: t.
Proof. unfold fmt_pair. cbn [fmt]. eexists. reflexivity. Qed.

(* reading a printed answer line gives back exactly the pairs that were printed *)
Theorem sexpr_data_line pairs : Forall (fun kv => wf (snd kv)) pairs ->
  forall fuel, length pairs < fuel -> sexpr_data fuel (fmt_line pairs) = POk pairs.
Proof.
  induction pairs as [|[k v] ps IH]; intros W fuel Hf.
  - destruct fuel; [lia|]. reflexivity.
  - inversion W as [|? ? Wv W']; subst. cbn [snd] in Wv.
    destruct fuel as [|f]; [lia|]. cbn [length] in Hf.
    assert (Hne : forall r, fmt_pair (k, v) ++ r <> []).
    { intros r. destruct (fmt_pair_head (k, v)) as [t ->]. discriminate. }
    destruct ps as [|q ps'].
    + unfold fmt_line. cbn [map join_sp]. cbn [sexpr_data].
      rewrite <- (app_nil_r (fmt_pair (k, v))).
      destruct (fmt_pair (k, v) ++ []) eqn:E; [exfalso; exact (Hne [] E)|]. rewrite <- E.
      unfold fmt_pair at 1. cbn [fst snd]. rewrite (parse_pair (SStr k) v [] I Wv). cbn [as_pair lstrip_ws].
      destruct f; [lia|]. reflexivity.
    + unfold fmt_line. change (join_sp (map fmt_pair ((k, v) :: q :: ps')))
        with (fmt_pair (k, v) ++ SP :: fmt_line (q :: ps')).
      cbn [sexpr_data].
      destruct (fmt_pair (k, v) ++ SP :: fmt_line (q :: ps')) eqn:E; [exfalso; exact (Hne _ E)|]. rewrite <- E.
      unfold fmt_pair at 1. cbn [fst snd]. rewrite (parse_pair (SStr k) v _ I Wv). cbn [as_pair].
      assert (Hl : lstrip_ws (SP :: fmt_line (q :: ps')) = fmt_line (q :: ps')).
      { cbn [lstrip_ws]. change (is_ws SP) with true. cbv iota.
        unfold fmt_line. destruct (fmt_pair_head q) as [t Ht].
        destruct ps' as [|q2 ps2]; cbn [map join_sp]; rewrite Ht; reflexivity. }
      rewrite Hl. rewrite (IH W' f) by (cbn [length] in *; lia). reflexivity.
Qed.

Lemma join_sp_len (l : list str) : Forall (fun x => 1 <= length x) l -> length l <= length (join_sp l).
Proof.
  induction l as [|x l IH]; intros H; [apply le_n|]. inversion H as [|? ? Hx Hl]; subst.
  destruct l as [|y r]; [cbn [join_sp length]; lia|].
  change (join_sp (x :: y :: r)) with (x ++ SP :: join_sp (y :: r)).
  rewrite app_length. cbn [length]. specialize (IH Hl). cbn [length] in IH. lia.
Qed.

(* with the fuel the decoder model is run with *)
Corollary sexpr_data_roundtrip pairs : Forall (fun kv => wf (snd kv)) pairs ->
  sexpr_data (S (length (fmt_line pairs))) (fmt_line pairs) = POk pairs.
Proof.
  intros W. apply sexpr_data_line; [exact W|].
  assert (H : length pairs <= length (fmt_line pairs)).
  { unfold fmt_line. rewrite <- (map_length fmt_pair pairs). apply join_sp_len.
    apply Forall_forall. intros x Hx. apply in_map_iff in Hx. destruct Hx as (p & <- & _).
    destruct (fmt_pair_head p) as [t ->]. cbn [length]. lia. }
  lia.
Qed.

(* non-vacuity: an answer with a nested result list, a quoted MRS with brackets and an escaped quote *)
Example ex_line :
  let mrs := [91;32;84;79;80;58;32;104;48;32;34;93]%N in              (* an MRS-like text with brackets and a double quote *)
  let pairs := [([58;110]%N, SInt 1); ([58;114]%N, SList [SList [SPair (SStr [58;105]%N) (SInt 0);
                                                                SPair (SStr [58;109]%N) (SStr mrs)]])] in
  Forall (fun kv => wf (snd kv)) pairs /\
  sexpr_data (S (length (fmt_line pairs))) (fmt_line pairs) = POk pairs.
Proof. split; [repeat constructor; cbn; intuition discriminate | vm_compute; reflexivity]. Qed.
