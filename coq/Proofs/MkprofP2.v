(* C12: the duplicate filter of the `where` path is the identity exactly on
   selections without equal neighbours (the guard under which F15 does not bite). *)
From Coq Require Import List NArith ZArith Bool.
From PyD Require Import Base.Str Model.Tsdb Model.TsdbFiles Model.TsdbDb Model.Hier Model.Tsql Model.Mkprof.
Import ListNotations.
Open Scope nat_scope.

Fixpoint no_adj_dup (prev : option (list raw)) (l : list (list raw)) : bool :=
  match l with
  | [] => true
  | r :: l' => negb (match prev with Some p => rec_eqb r p | None => false end) && no_adj_dup (Some r) l'
  end.

Theorem distinct_adj_id : forall l prev, no_adj_dup prev l = true -> distinct_adj prev l = l.
Proof.
  induction l as [|r l IH]; intros prev H; [reflexivity|].
  cbn [no_adj_dup] in H. apply andb_true_iff in H. destruct H as [H1 H2]. apply negb_true_iff in H1.
  cbn [distinct_adj]. destruct prev as [p|]; [rewrite H1|]; rewrite (IH _ H2); reflexivity.
Qed.

Theorem distinct_adj_changes : forall l prev, no_adj_dup prev l = false -> distinct_adj prev l <> l.
Proof.
  intros l prev H E.
  assert (L : forall l prev, length (distinct_adj prev l) <= length l).
  { induction l0 as [|r l0 IH]; intros pv; [apply le_n|]. cbn [distinct_adj].
    destruct pv as [p|]; [destruct (rec_eqb r p)|]; cbn [length]; specialize (IH (Some r)); auto with arith. }
  revert prev H E. induction l as [|r l IH]; intros prev H E; [discriminate|].
  cbn [no_adj_dup] in H. cbn [distinct_adj] in E.
  destruct prev as [p|].
  - destruct (rec_eqb r p) eqn:R.
    + pose proof (L l (Some r)) as Hl. rewrite E in Hl. cbn [length] in Hl.
      exact (PeanoNat.Nat.nle_succ_diag_l _ Hl).
    + cbn [negb andb] in H. inversion E as [E']. exact (IH _ H E').
  - cbn [negb andb] in H. inversion E as [E']. exact (IH _ H E').
Qed.
