(* Proofs about the token-level SimpleDMRS model (C02). *)
From Coq Require Import List NArith ZArith Bool Arith Lia Permutation.
From PyD Require Import Base.Str Base.Dec Model.Hier Model.Mrs Model.Iso Model.SimpleMrs Model.SimpleDmrs
  Proofs.SimpleMrsP.
Import ListNotations.
