(* Proofs about the token-level SimpleDMRS model (C02). *)
From Coq Require Import List NArith ZArith Bool Arith Lia Permutation.
From PyD Require Import Base.Str Base.Dec Model.Hier Model.Mrs Model.Iso Model.SimpleMrs Model.SimpleDmrs
  Proofs.SimpleMrsP.
Import ListNotations.

Arguments Z_to_dec : simpl never.
Arguments dec_to_Z : simpl never.

Lemma lower_Z_to_dec z : ascii_lower (Z_to_dec z) = Z_to_dec z.
Proof.
  unfold ascii_lower. rewrite <- (map_id (Z_to_dec z)) at 2. apply map_ext_in.
  intros c Hc. destruct (Z_to_dec_chars z c Hc) as [->|Hd]; [reflexivity|].
  unfold is_ascii_digit in Hd. apply andb_true_iff in Hd. destruct Hd as [H1 H2].
  apply N.leb_le in H1. apply N.leb_le in H2.
  destruct (N.leb 65 c) eqn:E; [|reflexivity]. apply N.leb_le in E. lia.
Qed.

(* ---------------------------------------------------------------- *)
(* nodes *)

Definition ntoks (kv : str * str) : list dtok := [DSYM (fst kv); DEQ; DSYM (snd kv)].

Lemma dec_nprops_enc L : forall acc rest,
  NoDup (map fst L) -> (forall k, In k (map fst L) -> ~ In k (map fst acc)) -> Forall norm_kv L ->
  dec_nprops (flat_map ntoks L ++ DRBRK :: rest) acc = Some (acc ++ L, rest).
Proof.
  induction L as [|[k v] L IH]; intros acc rest Hnd Hdis Hn.
  - cbn. rewrite app_nil_r. reflexivity.
  - cbn [flat_map ntoks fst snd app dec_nprops].
    inversion Hnd as [|? ? Hk Hnd']; subst. inversion Hn as [|? ? [Hu Hl] Hn']; subst. cbn [fst snd] in Hu, Hl.
    rewrite Hu, Hl. rewrite dict_set_notin by (apply Hdis; left; reflexivity).
    rewrite IH; [rewrite <- app_assoc; reflexivity | exact Hnd' | | exact Hn'].
    intros k' Hk'. rewrite map_app, in_app_iff. cbn. intros [H|[H|[]]].
    + apply (Hdis k'); [right; exact Hk' | exact H].
    + subst. contradiction.
Qed.

Definition proj_node (p l : bool) (n : dnode) : dnode :=
  {| n_id := n_id n; n_pred := n_pred n; n_type := n_type n; n_props := if p then n_props n else [];
     n_carg := n_carg n; n_lnk := if l then n_lnk n else LNone |}.

Definition node_body (p l : bool) (n : dnode) : list dtok :=
  DSYM (n_pred n) :: enc_glnk l (n_lnk n)
  ++ match n_carg n with Some c => [DLPAR; DDQ (escape c); DRPAR] | None => [] end
  ++ match n_type n with Some t => [DSYM t] | None => [] end
  ++ (if p then enc_nprops (n_props n) else [])
  ++ [DRBRK; DSEMI].

Lemma enc_node_shape p l n : enc_node p l n = DSYM (Z_to_dec (n_id n)) :: DLBRK :: node_body p l n.
Proof. reflexivity. Qed.

Lemma dec_node_enc p l n rest : norm_props (n_props n) ->
  dec_node (Z_to_dec (n_id n)) (node_body p l n ++ rest) = Some (proj_node p l n, rest).
Proof.
  intros [Hnd Hn]. unfold node_body. cbn [app dec_node].
  set (ps := if p then n_props n else []).
  replace (if p then enc_nprops (n_props n) else []) with (enc_nprops ps) by (subst ps; destruct p; reflexivity).
  assert (Hps : NoDup (map fst ps) /\ Forall norm_kv ps).
  { subst ps. destruct p; [split; assumption | split; constructor]. }
  destruct Hps as [Hnd' Hn'].
  assert (Hprops : forall X, dec_nprops ((enc_nprops ps ++ [DRBRK; DSEMI]) ++ X) [] = Some (ps, DSEMI :: X)).
  { intros X. rewrite <- app_assoc. cbn [app]. unfold enc_nprops. change (fun kv : str * str => [DSYM (fst kv); DEQ; DSYM (snd kv)]) with ntoks.
    rewrite dec_nprops_enc; [reflexivity | exact Hnd' | intros k _ [] | exact Hn']. }
  (* the tail after the type *)
  set (tailp := enc_nprops ps ++ [DRBRK; DSEMI]).
  assert (Hhead : match tailp ++ rest with DEQ :: _ => False | DLNK _ :: _ => False | DLPAR :: _ => False | _ => True end).
  { subst tailp. unfold enc_nprops. destruct ps as [|[k v] ps']; exact I. }
  assert (Htype : dec_type ((match n_type n with Some t => [DSYM t] | None => [] end ++ tailp) ++ rest)
                  = (n_type n, tailp ++ rest)).
  { destruct (n_type n) as [t|]; cbn [app].
    - revert Hhead. destruct (tailp ++ rest) as [|[] ?]; intros Hhead; try reflexivity. exfalso; exact Hhead.
    - subst tailp. unfold enc_nprops. destruct ps as [|[k v] ps']; reflexivity. }
  assert (Hcarg : forall Y, match Y with DLPAR :: _ => False | _ => True end ->
            dec_carg (match n_carg n with Some c => [DLPAR; DDQ (escape c); DRPAR] | None => [] end ++ Y) = Some (n_carg n, Y)).
  { intros Y HY. destruct (n_carg n) as [c|]; cbn; [rewrite unescape_escape; reflexivity|].
    destruct Y as [|[] ?]; try reflexivity. contradiction. }
  assert (Hlnk : forall Y, match Y with DLNK _ :: _ => False | _ => True end ->
            ddec_lnk (enc_glnk l (n_lnk n) ++ Y) = ((if l then n_lnk n else LNone), Y)).
  { intros Y HY. unfold enc_glnk. destruct l; [destruct (n_lnk n)|]; cbn; try reflexivity;
      destruct Y as [|[] ?]; try reflexivity; contradiction. }
  rewrite <- !app_assoc.
  set (Y2 := match n_type n with Some t => [DSYM t] | None => [] end ++ tailp ++ rest).
  assert (HY2 : match Y2 with DLPAR :: _ => False | DLNK _ :: _ => False | _ => True end).
  { subst Y2. destruct (n_type n); [exact I|]. cbn [app]. revert Hhead. destruct (tailp ++ rest) as [|[] ?]; intros Hhead; try exact I; exfalso; exact Hhead. }
  rewrite Hlnk.
  2:{ destruct (n_carg n); [exact I|]. change (match Y2 with DLNK _ :: _ => False | _ => True end).
      revert HY2; destruct Y2 as [|[] ?]; intros HY2; try exact I; exact HY2. }
  fold Y2. rewrite Hcarg by (revert HY2; destruct Y2 as [|[] ?]; intros HY2; try exact I; exact HY2).
  subst Y2. rewrite app_assoc. rewrite Htype. subst tailp. rewrite Hprops.
  rewrite dec_to_Z_to_dec. reflexivity.
Qed.

(* ---------------------------------------------------------------- *)
(* links *)

Definition link_ok (k : glink) : Prop :=
  let '(s, e, role, post) := k in s <> 0%Z /\ role <> Some [].

Definition link_body (k : glink) : list dtok :=
  let '(s, e, role, post) := k in
  match role with Some (c :: r) => [DSYM (c :: r)] | _ => [] end
  ++ [DSLASH; DSYM post;
      DARROW (if negb (role_empty role) || negb (str_eqb post EQ_POST) then ARROW_DIR else ARROW_UND);
      DSYM (Z_to_dec e); DSEMI].

Lemma dec_link_enc s e role post rest : role <> Some [] ->
  dec_link (Z_to_dec s) (link_body (s, e, role, post) ++ rest) = Some ((s, e, role, post), rest).
Proof.
  intros Hr. unfold link_body, dec_link. destruct role as [[|c r]|]; [contradiction Hr; reflexivity | |];
    cbn [app]; rewrite !dec_to_Z_to_dec; reflexivity.
Qed.

(* ---------------------------------------------------------------- *)
(* the item loop *)

Lemma dec_items_links links : forall accn accl fuel rest,
  Forall link_ok links -> (length (flat_map enc_link links) < fuel)%nat ->
  dec_items fuel (flat_map enc_link links ++ DRBRACE :: rest) accn accl = Some (accn, accl ++ links, rest).
Proof.
  induction links as [|[[[s e] role] post] links IH]; intros accn accl fuel rest Hok Hfuel.
  - destruct fuel as [|fuel]; [cbn in Hfuel; lia|]. cbn. rewrite app_nil_r. reflexivity.
  - inversion Hok as [|? ? Hlk Hok']; subst. cbn in Hlk. destruct Hlk as [Hs Hr].
    destruct fuel as [|fuel]; [cbn in Hfuel; lia|].
    cbn [flat_map]. change (enc_link (s, e, role, post)) with (DSYM (Z_to_dec s) :: DCOLON :: link_body (s, e, role, post)).
    cbn [app dec_items]. rewrite <- app_assoc. rewrite dec_link_enc by exact Hr.
    rewrite IH; [rewrite <- app_assoc; reflexivity | exact Hok' |].
    cbn [flat_map] in Hfuel. rewrite app_length in Hfuel.
    change (enc_link (s, e, role, post)) with (DSYM (Z_to_dec s) :: DCOLON :: link_body (s, e, role, post)) in Hfuel.
    cbn [length] in Hfuel. lia.
Qed.

Lemma dec_items_nodes p l nodes : forall links accn accl fuel rest,
  Forall (fun n => norm_props (n_props n)) nodes -> Forall link_ok links ->
  (length (flat_map (enc_node p l) nodes ++ flat_map enc_link links) < fuel)%nat ->
  dec_items fuel (flat_map (enc_node p l) nodes ++ flat_map enc_link links ++ DRBRACE :: rest) accn accl
  = Some (accn ++ map (proj_node p l) nodes, accl ++ links, rest).
Proof.
  induction nodes as [|n nodes IH]; intros links accn accl fuel rest Hn Hl Hfuel.
  - cbn [flat_map app map]. rewrite app_nil_r. apply dec_items_links; [exact Hl | exact Hfuel].
  - inversion Hn as [|? ? Hn1 Hn']; subst.
    destruct fuel as [|fuel]; [cbn in Hfuel; lia|].
    cbn [flat_map]. rewrite enc_node_shape. cbn [app dec_items]. rewrite <- app_assoc.
    rewrite dec_node_enc by exact Hn1.
    rewrite IH; [cbn [map]; rewrite <- app_assoc; reflexivity | exact Hn' | exact Hl |].
    cbn [flat_map] in Hfuel. rewrite enc_node_shape in Hfuel. cbn [app length] in Hfuel.
    rewrite !app_length in Hfuel. rewrite app_length. lia.
Qed.

(* ---------------------------------------------------------------- *)
(* the whole graph *)

Definition proj_dmrs (p l : bool) (g : dmrs) : dmrs :=
  {| g_top := g_top g; g_index := g_index g; g_nodes := map (proj_node p l) (g_nodes g); g_links := g_links g;
     g_lnk := proj_lnk l (g_lnk g); g_surface := if l then g_surface g else None; g_ident := g_ident g |}.

Definition dmrs_wf (g : dmrs) : Prop :=
  Forall (fun n => norm_props (n_props n)) (g_nodes g) /\ Forall link_ok (g_links g).

Lemma norm_top_id top links : Forall link_ok links -> norm_top top links = (top, links).
Proof.
  induction links as [|[[[s e] r] p] links IH]; intros H; [reflexivity|].
  inversion H as [|? ? Hk H']; subst. cbn in Hk. destruct Hk as [Hs _].
  cbn [norm_top]. destruct (Z.eqb s 0) eqn:E; [apply Z.eqb_eq in E; contradiction|].
  rewrite IH by exact H'. reflexivity.
Qed.

Definition not_lbrk (ts : list dtok) : Prop := match ts with DLBRK :: _ => False | _ => True end.

Lemma dec_attrs_enc l g X : not_lbrk X ->
  dec_attrs (enc_attrs l g ++ X) =
  Some (proj_lnk l (g_lnk g), (if l then g_surface g else None), option_map Z_to_dec (g_top g),
        option_map Z_to_dec (g_index g), X).
Proof.
  intros HX. unfold enc_attrs, proj_lnk.
  destruct l; destruct (lnk_truthy (g_lnk g)) eqn:Et; destruct (g_surface g) as [sf|];
    destruct (g_top g) as [t|]; destruct (g_index g) as [i|];
    cbn [app andb dec_attrs ddec_lnk dec_nprops option_map];
    rewrite ?unescape_escape, ?lower_Z_to_dec;
    try reflexivity;
    try (destruct X as [|[] ?]; try reflexivity; exfalso; exact HX).
Qed.

Lemma opt_int_enc (o : option Z) : opt_int (option_map Z_to_dec o) = Some o.
Proof. destruct o as [z|]; cbn; [rewrite dec_to_Z_to_dec|]; reflexivity. Qed.

Lemma items_not_lbrk p l nodes links rest :
  not_lbrk (flat_map (enc_node p l) nodes ++ flat_map enc_link links ++ DRBRACE :: rest).
Proof.
  destruct nodes as [|n nodes]; [|exact I]. cbn [flat_map app].
  destruct links as [|[[[s e] r] po] links]; exact I.
Qed.

Theorem dec_enc_dmrs p l g rest : dmrs_wf g ->
  dec_dmrs (enc_dmrs p l g ++ rest) = Some (proj_dmrs p l g, rest).
Proof.
  intros [Hn Hl]. unfold enc_dmrs.
  set (items := flat_map (enc_node p l) (g_nodes g) ++ flat_map enc_link (g_links g) ++ DRBRACE :: rest).
  assert (Hshape : (DSYM DMRS_W :: match g_ident g with Some i => [DSYM i] | None => [] end
                     ++ DLBRACE :: enc_attrs l g ++ flat_map (enc_node p l) (g_nodes g)
                     ++ flat_map enc_link (g_links g) ++ [DRBRACE]) ++ rest
                   = DSYM DMRS_W :: match g_ident g with Some i => [DSYM i] | None => [] end
                     ++ DLBRACE :: enc_attrs l g ++ items).
  { subst items. cbn [app]. rewrite <- !app_assoc. cbn [app]. rewrite <- !app_assoc. reflexivity. }
  rewrite Hshape. clear Hshape.
  cbn [dec_dmrs form_is_dmrs]. change (str_eqb DMRS_W DMRS_W) with true. cbn iota.
  assert (Hid : (match (match g_ident g with Some i => [DSYM i] | None => [] end ++ DLBRACE :: enc_attrs l g ++ items) with
                 | DSYM i :: r => (Some i, r)
                 | _ => (None, match g_ident g with Some i => [DSYM i] | None => [] end ++ DLBRACE :: enc_attrs l g ++ items)
                 end) = (g_ident g, DLBRACE :: enc_attrs l g ++ items)).
  { destruct (g_ident g); reflexivity. }
  rewrite Hid. clear Hid.
  rewrite dec_attrs_enc by (subst items; apply items_not_lbrk).
  subst items.
  rewrite (dec_items_nodes p l (g_nodes g) (g_links g) [] [] _ rest Hn Hl).
  2:{ rewrite !app_length. cbn [length]. lia. }
  rewrite !opt_int_enc. rewrite norm_top_id by exact Hl. reflexivity.
Qed.

(* non-vacuity *)
Definition ex_g : dmrs :=
  {| g_top := Some 10001%Z; g_index := Some 10001%Z;
     g_nodes := [ {| n_id := 10000; n_pred := [110;97;109;101;100]%N; n_type := Some [120]%N;
                     n_props := [([80;69;82;83]%N, [51]%N); ([78;85;77]%N, [115;103]%N)];
                     n_carg := Some [75;34;105;109]%N; n_lnk := LChar 0 3 |};
                  {| n_id := 10001; n_pred := [95;98;97;114;107;95;118;95;49]%N; n_type := None;
                     n_props := [([84;69;78;83;69]%N, [112;114;101;115]%N)]; n_carg := None; n_lnk := LToks [1;2]%Z |} ];
     g_links := [ (10001, 10000, Some [65;82;71;49]%N, [78;69;81]%N)%Z; (10000, 10001, None, [69;81]%N)%Z ];
     g_lnk := LChar 0 9; g_surface := Some [97;34;98]%N; g_ident := Some [49;48]%N |}.

Example ex_g_wf : dmrs_wf ex_g.
Proof.
  split.
  - repeat (apply Forall_cons; [split; [cbn [map fst n_props]; repeat (apply NoDup_cons; [cbn; intuition congruence|]); apply NoDup_nil
                                      | repeat (apply Forall_cons; [split; reflexivity|]); apply Forall_nil]|]).
    apply Forall_nil.
  - repeat (apply Forall_cons; [cbn; split; discriminate|]). apply Forall_nil.
Qed.

Example ex_g_len : length (enc_dmrs true true ex_g) = 54%nat.
Proof. vm_compute. reflexivity. Qed.

(* ---------------------------------------------------------------- *)
(* stability: encoding the decoded graph again gives the same tokens *)

Lemma enc_node_proj p l n : enc_node p l (proj_node p l n) = enc_node p l n.
Proof.
  unfold enc_node, proj_node. cbn [n_id n_pred n_lnk n_carg n_type n_props].
  destruct p, l; cbn [enc_glnk]; try reflexivity; destruct (n_lnk n); reflexivity.
Qed.

Lemma enc_attrs_proj p l g : enc_attrs l (proj_dmrs p l g) = enc_attrs l g.
Proof.
  unfold enc_attrs, proj_dmrs, proj_lnk. cbn [g_lnk g_surface g_top g_index].
  destruct l; [|reflexivity]. cbn [andb].
  destruct (lnk_truthy (g_lnk g)) eqn:E; [rewrite E; reflexivity | reflexivity].
Qed.

Theorem enc_dmrs_stable p l g : enc_dmrs p l (proj_dmrs p l g) = enc_dmrs p l g.
Proof.
  unfold enc_dmrs. rewrite enc_attrs_proj. cbn [proj_dmrs g_ident g_nodes g_links].
  rewrite flat_map_concat_map, map_map. rewrite <- flat_map_concat_map.
  assert (H : flat_map (fun x => enc_node p l (proj_node p l x)) (g_nodes g) = flat_map (enc_node p l) (g_nodes g)).
  { induction (g_nodes g) as [|n ns IH]; [reflexivity|]. cbn [flat_map]. rewrite enc_node_proj, IH. reflexivity. }
  rewrite H. reflexivity.
Qed.
