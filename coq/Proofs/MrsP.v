(* Proofs about Model/Mrs.v (C07). *)
From Coq Require Import List NArith ZArith Bool Arith Lia Relations.
From PyD Require Import Base.Str Base.Graph Model.Hier Model.Mrs Proofs.HierP.
Import ListNotations.

Lemma mem_memb x l : mem x l = memb str str_eqb x l.
Proof. reflexivity. Qed.

(* ---- connectedness = graph connectivity ---- *)
Definition cedge (m : mrs) (ids : list str) : str -> str -> Prop :=
  edge str (conn_edges m ids).

Theorem connected_iff m i0 ids : ep_ids (m_rels m) = Some (i0 :: ids) ->
  (is_connected m = Some true <->
   forall i, In i (i0 :: ids) -> clos_refl_trans _ (cedge m (i0 :: ids)) i0 i).
Proof.
  intros E. unfold is_connected. rewrite E. split.
  - intros H i Hi.
    assert (H0 : forallb (fun i => mem i (reach str str_eqb (conn_edges m (i0 :: ids)) i0)) (i0 :: ids) = true)
      by (injection H; auto).
    assert (H1 := proj1 (forallb_forall _ _) H0 i Hi). apply mem_In in H1.
    apply (reach_spec str str_eqb str_eqb_spec) in H1. exact H1.
  - intros H. f_equal. apply forallb_forall. intros i Hi. apply mem_In.
    apply (reach_spec str str_eqb str_eqb_spec). apply H. exact Hi.
Qed.

Theorem connected_empty m : ep_ids (m_rels m) = Some [] -> is_connected m = Some true.
Proof. intros E. unfold is_connected. rewrite E. reflexivity. Qed.

(* ---- the intrinsic-variable tests equal their definitions ---- *)
Lemma nodupb_spec l : nodupb l = true <-> NoDup l.
Proof.
  induction l as [|x l IH]; simpl; [split; [constructor | reflexivity]|].
  rewrite andb_true_iff, negb_true_iff, mem_false, IH. split.
  - intros [A B]. constructor; assumption.
  - intros H. inversion H; auto.
Qed.

Theorem unique_iv_iff m : has_unique_iv m = true <-> NoDup (nq_ivs m).
Proof. apply nodupb_spec. Qed.

Theorem complete_iv_iff m :
  has_complete_iv m = true <-> forall e, In e (m_rels m) -> is_quant e = false -> e_iv e <> None.
Proof.
  unfold has_complete_iv. rewrite forallb_forall. split.
  - intros H e He Hq. specialize (H e He). rewrite Hq in H. simpl in H. destruct (e_iv e); congruence.
  - intros H e He. destruct (is_quant e) eqn:Q; [reflexivity|]. simpl.
    specialize (H e He Q). destruct (e_iv e); [reflexivity | congruence].
Qed.

Theorem well_formed_is_conjunction m c : is_connected m = Some c ->
  is_well_formed m = Some (c && (has_complete_iv m && has_unique_iv m) && plausibly_scopes m).
Proof. intros E. unfold is_well_formed, has_iv_property. rewrite E. reflexivity. Qed.

(* ---- the scope map partitions the predications by label ---- *)
Lemma dict_append_get {A} k (v : A) d k' :
  dict_get k' (dict_append k v d) =
  if str_eqb k k' then Some (match dict_get k d with Some l => l | None => [] end ++ [v])
  else dict_get k' d.
Proof.
  induction d as [|[k0 l] d IH]; simpl.
  - destruct (str_eqb k k'); reflexivity.
  - destruct (str_eqb k0 k) eqn:E0; simpl.
    + apply str_eqb_spec in E0. subst k0. destruct (str_eqb k k') eqn:E; [reflexivity|].
      reflexivity.
    + destruct (str_eqb k0 k') eqn:E1.
      * apply str_eqb_spec in E1. subst k0.
        assert (str_eqb k k' = false) as ->.
        { apply str_eqb_false. apply str_eqb_false in E0. congruence. }
        reflexivity.
      * rewrite IH. destruct (str_eqb k k'); reflexivity.
Qed.

Definition with_label (l : str) (rels : list ep) : list ep :=
  filter (fun e => str_eqb (e_label e) l) rels.

Lemma scope_map_fold rels : forall acc l,
  dict_get l (fold_left (fun a e => dict_append (e_label e) e a) rels acc) =
  match dict_get l acc, with_label l rels with
  | None, [] => None
  | None, es => Some es
  | Some x, es => Some (x ++ es)
  end.
Proof.
  induction rels as [|e rels IH]; intros acc l; simpl.
  - destruct (dict_get l acc); [rewrite app_nil_r|]; reflexivity.
  - rewrite IH, dict_append_get. unfold with_label. simpl.
    destruct (str_eqb (e_label e) l) eqn:E.
    + apply str_eqb_spec in E. subst l.
      destruct (dict_get (e_label e) acc) as [x|]; simpl; [rewrite <- app_assoc; reflexivity|].
      reflexivity.
    + destruct (dict_get l acc); reflexivity.
Qed.

(* every predication is in exactly the list of its own label, in order *)
Theorem scopes_partition rels l :
  dict_get l (scope_map rels) = match with_label l rels with [] => None | es => Some es end.
Proof. unfold scope_map. rewrite scope_map_fold. simpl. destruct (with_label l rels); reflexivity. Qed.

(* ---- conjoin yields the connected components of the equalities ---- *)
Lemma components_are_classes edges : forall nodes seen c,
  In c (components nodes edges seen) -> exists n, In n nodes /\ c = reach str str_eqb edges n.
Proof.
  induction nodes as [|n ns IH]; intros seen c H; simpl in H; [destruct H|].
  destruct (mem n seen).
  - destruct (IH _ _ H) as (k & A & B). exists k. split; [right; exact A | exact B].
  - destruct H as [<-|H]; [exists n; split; [left; reflexivity | reflexivity]|].
    destruct (IH _ _ H) as (k & A & B). exists k. split; [right; exact A | exact B].
Qed.

Lemma components_cover edges : forall nodes seen n,
  In n nodes -> ~ In n seen ->
  (forall x, In x seen -> forall y, clos_refl_trans _ (edge str edges) x y -> In y seen) ->
  exists c, In c (components nodes edges seen) /\ In n c.
Proof.
  induction nodes as [|k ns IH]; intros seen n Hin Hns Hcl; simpl; [destruct Hin|].
  destruct (mem k seen) eqn:E.
  - destruct Hin as [->|Hin]; [apply mem_In in E; contradiction|].
    apply IH; assumption.
  - destruct (str_eqb k n) eqn:Ekn.
    + apply str_eqb_spec in Ekn. subst k. eexists. split; [left; reflexivity|].
      apply (reach_spec str str_eqb str_eqb_spec). apply rt_refl.
    + destruct Hin as [->|Hin]; [rewrite str_eqb_refl in Ekn; discriminate|].
      destruct (in_dec (list_eq_dec N.eq_dec) n (reach str str_eqb edges k)) as [Hr|Hr].
      * eexists. split; [left; reflexivity | exact Hr].
      * destruct (IH (reach str str_eqb edges k ++ seen) n Hin) as (c & A & B).
        -- rewrite in_app_iff. tauto.
        -- intros x Hx y Hy. apply in_app_or in Hx. apply in_or_app. destruct Hx as [Hx|Hx].
           ++ left. apply (reach_spec str str_eqb str_eqb_spec).
              apply (reach_spec str str_eqb str_eqb_spec) in Hx. eapply rt_trans; eassumption.
           ++ right. eapply Hcl; eassumption.
        -- exists c. split; [right; exact A | exact B].
Qed.

Theorem conjoin_components {A} (scopes : list (str * list A)) leqs :
  (* every class is the set of labels connected to one of its labels ... *)
  (forall c, In c (map fst (conjoin scopes leqs)) ->
     exists n, In n (map fst scopes) /\
       forall x, In x c <-> clos_refl_trans _ (edge str (leq_edges leqs)) n x) /\
  (* ... and every label is in some class *)
  (forall n, In n (map fst scopes) -> exists c, In c (map fst (conjoin scopes leqs)) /\ In n c).
Proof.
  unfold conjoin. rewrite map_map. simpl. rewrite map_id. split.
  - intros c Hc. destruct (components_are_classes _ _ _ _ Hc) as (n & Hn & ->).
    exists n. split; [exact Hn|]. intros x. apply (reach_spec str str_eqb str_eqb_spec).
  - intros n Hn. apply components_cover; [exact Hn | intros [] | intros x []].
Qed.

(* members of a conjoined scope are the members of its labels, concatenated *)
Theorem conjoin_members {A} (scopes : list (str * list A)) leqs c ms :
  In (c, ms) (conjoin scopes leqs) ->
  ms = flat_map (fun l => match dict_get l scopes with Some x => x | None => [] end) c.
Proof.
  unfold conjoin. rewrite in_map_iff. intros (c' & E & _). inversion E; subst. reflexivity.
Qed.

(* ---- representatives are members of their scope ---- *)
Lemma insert_by_In {A} (key : A -> nat * nat) x l y : In y (insert_by key x l) <-> y = x \/ In y l.
Proof.
  induction l as [|z l IH]; simpl; [intuition|].
  destruct (key x) as [a1 a2], (key z) as [b1 b2].
  destruct (Nat.ltb a1 b1 || (Nat.eqb a1 b1 && Nat.ltb a2 b2)); simpl; [intuition|].
  rewrite IH. intuition.
Qed.

Lemma sort_by_In {A} (key : A -> nat * nat) l y : In y (sort_by key l) <-> In y l.
Proof.
  induction l as [|x l IH]; simpl; [tauto|]. rewrite insert_by_In, IH. intuition.
Qed.

(* ---- DMRS: the top scope is the scope that contains the top node itself ---- *)
Theorem dmrs_top_scope_contains nodes links t c :
  dmrs_top_scope nodes links (Some t) = Some c -> In c (dmrs_scopes nodes links) /\ In t c.
Proof.
  unfold dmrs_top_scope. intros H. apply find_some in H. destruct H as [A B].
  split; [exact A | apply mem_In; exact B].
Qed.

Theorem dmrs_top_scope_exists nodes links t :
  In t nodes -> exists c, dmrs_top_scope nodes links (Some t) = Some c.
Proof.
  intros Hin. unfold dmrs_top_scope.
  destruct (find (fun c => mem t c) (dmrs_scopes nodes links)) as [c|] eqn:E; [eexists; reflexivity|].
  exfalso. unfold dmrs_scopes in E.
  destruct (proj2 (conjoin_components (map (fun n => (n, [n])) nodes)
             (map (fun l => (dl_start l, dl_end l))
                  (filter (fun l => str_eqb (dl_post l) EQ_POST) links))) t) as (c & Hc & Ht).
  { rewrite map_map. simpl. rewrite map_id. exact Hin. }
  pose proof (find_none _ _ E c Hc) as X. simpl in X. apply mem_false in X. contradiction.
Qed.
