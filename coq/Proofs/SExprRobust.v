(* C19: a processor that exits in the middle of an answer leaves a prefix of
   an answer line.  Decoding ANY prefix of ANY printed line never raises:
   the decoder returns pairs (possibly the :error pair that stands for the
   IndexError it catches itself), never the fatal outcome (AssertionError,
   ValueError) and never a float.  This is the guarantee that F30 violated. *)
From Coq Require Import List NArith ZArith Bool Arith Lia.
From PyD Require Import Base.Str Base.Dec Model.SExpr Proofs.SExprP.
Import ListNotations.
Open Scope nat_scope.

(* outcome of running the loop on a truncated text: the end of the text was reached (nothing is
   left over) or the IndexError that the decoder catches *)
Definition okres (r : pres (sx * str)) : Prop :=
  match r with POk (_, rem) => rem = [] | PIndexError => True | _ => False end.
Ltac fin_ok := unfold okres; lazy beta iota; first [exact I | reflexivity].

Definition pref {A} (p s : list A) : Prop := exists t, s = p ++ t.

Lemma pref_nil {A} (s : list A) : pref [] s.
Proof. exists s. reflexivity. Qed.

Lemma pref_cons_inv {A} (a : A) p b s : pref (a :: p) (b :: s) -> a = b /\ pref p s.
Proof. intros [t E]. cbn [app] in E. inversion E; subst. split; [reflexivity | exists t; reflexivity]. Qed.

Lemma pref_of_nil {A} (p : list A) : pref p [] -> p = [].
Proof. intros [t E]. destruct p; [reflexivity | discriminate]. Qed.

(* a prefix of a ++ b is a prefix of a, or all of a followed by a non-empty prefix of b *)
Lemma pref_app {A} (a : list A) : forall p b, pref p (a ++ b) ->
  pref p a \/ exists q, p = a ++ q /\ pref q b /\ q <> [].
Proof.
  induction a as [|x a IH]; intros p b H.
  - destruct p as [|y p]; [left; apply pref_nil|]. right. exists (y :: p). cbn [app] in *. repeat split; [exact H | discriminate].
  - destruct p as [|y p]; [left; apply pref_nil|].
    cbn [app] in H. apply pref_cons_inv in H. destruct H as [-> H].
    destruct (IH p b H) as [[t E]|(q & E & Hq & Hn)].
    + left. exists t. cbn [app]. rewrite E. reflexivity.
    + right. exists q. cbn [app]. rewrite E. auto.
Qed.

Lemma loop_nil fuel stack vals data : 0 < fuel -> sx_loop fuel [] stack vals data = POk (data, []).
Proof. destruct fuel; [lia | reflexivity]. Qed.

(* ---- scanners on truncated text ---- *)
Lemma scan_string_trunc s : forall q fuel acc, pref q (esc_string s) -> length q < fuel ->
  scan_string fuel q acc = PIndexError.
Proof.
  induction s as [|c s IH]; intros q fuel acc Hq Hf.
  - apply pref_of_nil in Hq. subst q. destruct fuel; [lia | reflexivity].
  - cbn [esc_string flat_map] in Hq. fold (esc_string s) in Hq.
    destruct q as [|x q]; [destruct fuel; [lia | reflexivity]|].
    destruct fuel as [|f]; [simpl in Hf; lia|]. cbn [length] in Hf.
    destruct (N.eqb c DQ || N.eqb c BS)%bool eqn:E.
    + change ([BS; c] ++ esc_string s) with (BS :: c :: esc_string s) in Hq.
      apply pref_cons_inv in Hq. destruct Hq as [-> Hq]. cbn [scan_string].
      change (N.eqb BS DQ) with false. change (N.eqb BS BS) with true. cbv iota.
      destruct q as [|y q]; [reflexivity|]. apply pref_cons_inv in Hq. destruct Hq as [-> Hq].
      apply IH; [exact Hq | cbn [length] in Hf; lia].
    + change ([c] ++ esc_string s) with (c :: esc_string s) in Hq.
      apply pref_cons_inv in Hq. destruct Hq as [-> Hq]. cbn [scan_string].
      apply orb_false_iff in E. destruct E as [E1 E2]. rewrite E1, E2.
      apply IH; [exact Hq | lia].
Qed.

Lemma forallb_pref {A} (f : A -> bool) p s : pref p s -> forallb f s = true -> forallb f p = true.
Proof. intros [t ->] H. rewrite forallb_app in H. apply andb_true_iff in H. apply H. Qed.

(* ---- an atom, cut anywhere (or not at all), is read without a fatal error ---- *)
Lemma atom_pref x p fuel stack vals data :
  (match x with SInt _ | SStr _ => True | _ => False end) ->
  pref p (fmt x) -> length p < fuel -> okres (sx_loop fuel p stack vals data).
Proof.
  intros Hx Hp Hf. destruct p as [|c0 p0]; [rewrite loop_nil by lia; fin_ok|].
  destruct fuel as [|f]; [lia|]. cbn [length] in Hf.
  destruct x as [z|s| |]; try contradiction.
  - (* integer *)
    cbn [fmt] in Hp. destruct (Z_to_dec_shape z) as (c & ds & E & Hds & Hc). rewrite E in Hp.
    apply pref_cons_inv in Hp. destruct Hp as [-> Hp].
    pose proof (forallb_pref _ _ _ Hp Hds) as Hp0.
    cbn [sx_loop].
    destruct (is_digit c || (N.eqb c 45 && match p0 with c2 :: _ => is_digit c2 | [] => false end))%bool eqn:Ed.
    + unfold parse_number. rewrite <- (app_nil_r p0). rewrite (span_digits_app p0 [] Hp0 I). fin_ok.
    + (* a lone minus sign: read as a symbol *)
      destruct Hc as [Hc|(-> & d & ds' & ->)]; [rewrite Hc in Ed; discriminate|].
      destruct p0 as [|d0 p1].
      * change (N.eqb 45 DQ) with false. change (N.eqb 45 LP) with false. change (N.eqb 45 RP) with false.
        change (is_ws 45) with false. cbv iota. cbn [length scan_symbol]. cbn.
        destruct f; [lia|]. fin_ok.
      * apply pref_cons_inv in Hp. destruct Hp as [-> _]. cbn [forallb] in Hds.
        apply andb_true_iff in Hds. destruct Hds as [Hd _]. cbn in Ed. rewrite Hd in Ed. discriminate.
  - (* string *)
    cbn [fmt] in Hp. destruct (sym_safe s) eqn:Es.
    + destruct s as [|c r]; [discriminate|]. unfold sym_safe in Es.
      apply andb_true_iff in Es. destruct Es as [Es _].
      apply andb_true_iff in Es. destruct Es as [Es Hnm]. apply negb_true_iff in Hnm.
      apply andb_true_iff in Es. destruct Es as [Hall Hnd]. apply negb_true_iff in Hnd.
      pose proof (forallb_pref _ _ _ Hp Hall) as Hp1.
      apply pref_cons_inv in Hp. destruct Hp as [-> Hp].
      pose proof Hp1 as Hp2. cbn [forallb] in Hp2. apply andb_true_iff in Hp2. destruct Hp2 as [Hc _].
      apply negb_true_iff in Hc.
      assert (Hq : N.eqb c DQ = false /\ N.eqb c LP = false /\ N.eqb c RP = false /\ is_ws c = false).
      { unfold is_special in Hc. repeat (apply orb_false_iff in Hc; destruct Hc as [Hc ?]).
        unfold DQ, LP, RP. repeat split; assumption. }
      destruct Hq as (Q1 & Q2 & Q3 & Q4).
      cbn [sx_loop]. rewrite Hnd.
      assert (Hm : (N.eqb c 45 && match p0 with c2 :: _ => is_digit c2 | [] => false end)%bool = false).
      { destruct (N.eqb c 45) eqn:E45; [|reflexivity]. cbn [andb] in *.
        destruct p0 as [|c2 p2]; [reflexivity|]. destruct r as [|r1 r2]; [apply pref_of_nil in Hp; discriminate|].
        apply pref_cons_inv in Hp. destruct Hp as [-> _]. exact Hnm. }
      rewrite Hm, Q1, Q2, Q3, Q4. cbn [orb].
      rewrite <- (app_nil_r (c :: p0)).
      rewrite (scan_symbol_safe (c :: p0) _ [] [] Hp1) by (first [exact I | rewrite app_nil_r; cbn [length]; lia]).
      cbn [List.rev app]. rewrite loop_nil; [fin_ok|]. lia.
    + destruct (pref_cons_inv _ _ _ _ Hp) as [-> Hp'].
      cbn [sx_loop]. change (is_digit DQ) with false. change (N.eqb DQ 45) with false.
      change (N.eqb DQ DQ) with true. cbn [orb andb].
      destruct (pref_app (esc_string s) p0 [DQ] Hp') as [Hin|(q & -> & Hq & Hn)].
      * rewrite (scan_string_trunc s p0 _ [] Hin) by lia. fin_ok.
      * (* the whole string was read *)
        destruct q as [|y q]; [contradiction Hn; reflexivity|].
        apply pref_cons_inv in Hq. destruct Hq as [-> Hq]. apply pref_of_nil in Hq. subst q.
        rewrite scan_string_esc by (rewrite app_length; cbn [length]; lia).
        rewrite loop_nil; [fin_ok|]. rewrite app_length in Hf. cbn [length] in Hf. lia.
Qed.

(* ---- whole trees ---- *)
Definition tree_safe (x : sx) : Prop :=
  wf x -> forall p fuel stack vals data, pref p (fmt x) -> length p < fuel ->
  okres (sx_loop fuel p stack vals data).

Lemma delim_sp r : delim (SP :: r). Proof. exists r. left. reflexivity. Qed.
Lemma delim_rp r : delim (RP :: r). Proof. exists r. right. reflexivity. Qed.

(* the closing parenthesis, cut or not *)
Lemma close_pref q fuel stack vals data : pref q [RP] -> length q < fuel ->
  okres (sx_loop fuel q stack vals data).
Proof.
  intros Hq Hf. destruct q as [|c q]; [rewrite loop_nil by lia; fin_ok|].
  apply pref_cons_inv in Hq. destruct Hq as [-> Hq]. apply pref_of_nil in Hq. subst q.
  destruct fuel as [|f]; [lia|]. cbn [length] in Hf.
  destruct stack as [|top st]; [rewrite step_rp_top; fin_ok|].
  rewrite step_rp_nested. rewrite loop_nil by lia. fin_ok.
Qed.

(* stepping over a complete tree that is followed by more text *)
Lemma step_over x q fuel stack vals data : wf x -> delim q -> length (fmt x ++ q) < fuel ->
  exists f, length q < f /\
    sx_loop fuel (fmt x ++ q) stack vals data = sx_loop f q stack (vals ++ [x]) (data_after x data).
Proof.
  intros W Hd Hf. rewrite app_length in Hf. pose proof (cost_le x) as Hc.
  exists (fuel - cost x). split; [lia|].
  replace fuel with (cost x + (fuel - cost x)) at 1 by lia.
  apply (tree_ok_all x W). exact Hd.
Qed.

Lemma items_safe l : Forall tree_safe l -> Forall wf l ->
  forall p fuel stack vals data, pref p (join_sp (map fmt l) ++ [RP]) -> length p < fuel ->
  okres (sx_loop fuel p stack vals data).
Proof.
  induction l as [|x l IH]; intros Ht Hw p fuel stack vals data Hp Hf.
  - cbn [map join_sp app] in Hp. apply close_pref; assumption.
  - inversion Ht as [|? ? Hx Ht']; subst. inversion Hw as [|? ? Wx Hw']; subst.
    destruct l as [|y r].
    + cbn [map join_sp] in Hp.
      destruct (pref_app (fmt x) p [RP] Hp) as [Hin|(q & -> & Hq & Hn)]; [apply (Hx Wx); assumption|].
      destruct q as [|c q]; [contradiction Hn; reflexivity|].
      destruct (pref_cons_inv _ _ _ _ Hq) as [-> Hq'].
      destruct (step_over x (RP :: q) fuel stack vals data Wx (delim_rp q) Hf) as (f & Hf' & ->).
      apply close_pref; assumption.
    + change (join_sp (map fmt (x :: y :: r))) with (fmt x ++ SP :: join_sp (map fmt (y :: r))) in Hp.
      rewrite <- app_assoc in Hp. cbn [app] in Hp.
      destruct (pref_app (fmt x) p _ Hp) as [Hin|(q & -> & Hq & Hn)]; [apply (Hx Wx); assumption|].
      destruct q as [|c q]; [contradiction Hn; reflexivity|].
      destruct (pref_cons_inv _ _ _ _ Hq) as [-> Hq'].
      destruct (step_over x (SP :: q) fuel stack vals data Wx (delim_sp q) Hf) as (f & Hf' & ->).
      destruct f as [|f]; [cbn [length] in Hf'; lia|]. rewrite step_sp.
      apply (IH Ht' Hw'); [exact Hq' | cbn [length] in Hf'; lia].
Qed.

Lemma dot_end f stack vals data : 0 < f ->
  okres (sx_loop (S f) [46%N] stack vals data).
Proof.
  intros Hf. cbn [sx_loop]. change (is_digit 46) with false. change (N.eqb 46 45) with false.
  change (N.eqb 46 DQ) with false. change (N.eqb 46 LP) with false. change (N.eqb 46 RP) with false.
  change (is_ws 46) with false. cbn [orb andb].
  change [46%N] with ([46%N] ++ []).
  rewrite (scan_symbol_safe [46%N] _ [] [] eq_refl) by (first [exact I | cbn [length app]; lia]).
  cbn [List.rev app]. rewrite loop_nil by exact Hf. fin_ok.
Qed.

Theorem tree_safe_all x : tree_safe x.
Proof.
  induction x as [z|s|l IHl|a b IHa IHb] using sx_ind2; intros W p fuel stack vals data Hp Hf.
  - apply (atom_pref (SInt z)); [exact I | exact Hp | exact Hf].
  - apply (atom_pref (SStr s)); [exact I | exact Hp | exact Hf].
  - cbn [fmt] in Hp. destruct p as [|c p]; [rewrite loop_nil by lia; fin_ok|].
    apply pref_cons_inv in Hp. destruct Hp as [-> Hp].
    destruct fuel as [|f]; [lia|]. cbn [length] in Hf. rewrite step_lp.
    apply (items_safe l IHl (wf_list l W)); [exact Hp | lia].
  - destruct W as [Wa Wb]. cbn [fmt] in Hp. destruct p as [|c p]; [rewrite loop_nil by lia; fin_ok|].
    apply pref_cons_inv in Hp. destruct Hp as [-> Hp].
    destruct fuel as [|f]; [lia|]. cbn [length] in Hf. rewrite step_lp.
    destruct (pref_app (fmt a) p _ Hp) as [Hin|(q & -> & Hq & Hn)]; [apply (IHa Wa); [exact Hin | lia]|].
    destruct q as [|c q]; [contradiction Hn; reflexivity|].
    destruct (pref_cons_inv _ _ _ _ Hq) as [-> Hq1].
    destruct (step_over a (SP :: q) f (vals :: stack) [] data Wa (delim_sp q)) as (f1 & Hf1 & ->); [lia|].
    destruct f1 as [|f1]; [cbn [length] in Hf1; lia|]. rewrite step_sp. cbn [length] in Hf1.
    (* the dot *)
    destruct q as [|c q]; [rewrite loop_nil by lia; fin_ok|].
    destruct (pref_cons_inv _ _ _ _ Hq1) as [-> Hq2].
    destruct q as [|c q].
    { destruct f1 as [|f1]; [cbn [length] in Hf1; lia|]. apply dot_end. cbn [length] in Hf1. lia. }
    destruct (pref_cons_inv _ _ _ _ Hq2) as [-> Hq3].
    destruct f1 as [|f1]; [cbn [length] in Hf1; lia|]. rewrite step_dot by apply delim_sp.
    cbn [length] in Hf1. destruct f1 as [|f1]; [lia|]. rewrite step_sp.
    (* the second component and the closing parenthesis *)
    destruct (pref_app (fmt b) q [RP] Hq3) as [Hin|(q' & -> & Hq' & Hn')]; [apply (IHb Wb); [exact Hin | lia]|].
    destruct q' as [|c q']; [contradiction Hn'; reflexivity|].
    destruct (pref_cons_inv _ _ _ _ Hq') as [-> Hq''].
    destruct (step_over b (RP :: q') f1 (vals :: stack) ([] ++ [a] ++ [SStr DOT]) (data_after a data) Wb (delim_rp q'))
      as (f2 & Hf2 & E); [lia|].
    rewrite <- app_assoc in E. cbn [app] in E |- *. rewrite E.
    apply close_pref; assumption.
Qed.

(* the text between the parentheses of a pair, under any stack (so also at the top level) *)
Lemma pair_body_safe a b : wf a -> wf b -> forall p fuel st vs data,
  pref p (fmt a ++ SP :: 46%N :: SP :: fmt b ++ [RP]) -> length p < fuel ->
  okres (sx_loop fuel p st vs data).
Proof.
  intros Wa Wb p fuel st vs data Hp Hf.
  destruct (pref_app (fmt a) p _ Hp) as [Hin|(q & -> & Hq & Hn)]; [apply (tree_safe_all a Wa); assumption|].
  destruct q as [|c q]; [contradiction Hn; reflexivity|].
  destruct (pref_cons_inv _ _ _ _ Hq) as [-> Hq1].
  destruct (step_over a (SP :: q) fuel st vs data Wa (delim_sp q) Hf) as (f1 & Hf1 & ->).
  destruct f1 as [|f1]; [cbn [length] in Hf1; lia|]. rewrite step_sp. cbn [length] in Hf1.
  destruct q as [|c q]; [rewrite loop_nil by lia; fin_ok|].
  destruct (pref_cons_inv _ _ _ _ Hq1) as [-> Hq2].
  destruct q as [|c q].
  { destruct f1 as [|f1]; [cbn [length] in Hf1; lia|]. apply dot_end. cbn [length] in Hf1. lia. }
  destruct (pref_cons_inv _ _ _ _ Hq2) as [-> Hq3].
  destruct f1 as [|f1]; [cbn [length] in Hf1; lia|]. rewrite step_dot by apply delim_sp.
  cbn [length] in Hf1. destruct f1 as [|f1]; [lia|]. rewrite step_sp.
  destruct (pref_app (fmt b) q [RP] Hq3) as [Hin|(q' & -> & Hq' & Hn')]; [apply (tree_safe_all b Wb); [exact Hin | lia]|].
  destruct q' as [|c q']; [contradiction Hn'; reflexivity|].
  destruct (pref_cons_inv _ _ _ _ Hq') as [-> Hq''].
  destruct (step_over b (RP :: q') f1 st ((vs ++ [a]) ++ [SStr DOT]) (data_after a data) Wb (delim_rp q'))
    as (f2 & Hf2 & E); [lia|].
  rewrite E. apply close_pref; assumption.
Qed.

(* SExpr.parse on a truncated pair *)
Lemma parse_pref_ok a b p : wf a -> wf b -> pref p (fmt (SPair a b)) -> okres (sx_parse p).
Proof.
  intros Wa Wb Hp. unfold sx_parse. destruct p as [|c p]; [reflexivity|].
  cbn [fmt] in Hp. apply pref_cons_inv in Hp. destruct Hp as [-> Hp].
  cbn [lstrip_ws]. change (is_ws LP) with false. cbv iota. change (N.eqb LP LP) with true. cbv iota.
  apply (pair_body_safe a b Wa Wb); [exact Hp | lia].
Qed.

Lemma lstrip_line ps : lstrip_ws (fmt_line ps) = fmt_line ps.
Proof.
  unfold fmt_line. destruct ps as [|q r]; [reflexivity|].
  destruct (fmt_pair_head q) as [t Ht]. destruct r as [|q2 r2]; cbn [map join_sp]; rewrite Ht; reflexivity.
Qed.

Lemma lstrip_pref_line ps q : pref q (fmt_line ps) -> lstrip_ws q = q.
Proof.
  intros Hq. destruct q as [|c q]; [reflexivity|].
  unfold fmt_line in Hq. destruct ps as [|k r]; [apply pref_of_nil in Hq; discriminate|].
  destruct (fmt_pair_head k) as [t Ht].
  assert (Hc : c = LP).
  { destruct r as [|k2 r2]; cbn [map join_sp] in Hq; rewrite Ht in Hq; cbn [app] in Hq;
      apply pref_cons_inv in Hq; apply Hq. }
  subst c. reflexivity.
Qed.

(* decoding any truncation of any printed answer line returns pairs: it never
   raises (and the :error pair stands for the IndexError the decoder catches) *)
Theorem sexpr_data_prefix_ok pairs : Forall (fun kv => wf (snd kv)) pairs ->
  forall p fuel, pref p (fmt_line pairs) -> length p < fuel -> exists l, sexpr_data fuel p = POk l.
Proof.
  induction pairs as [|[k v] ps IH]; intros W p fuel Hp Hf.
  - apply pref_of_nil in Hp. subst p. destruct fuel; [lia|]. eexists; reflexivity.
  - inversion W as [|? ? Wv W']; subst. cbn [snd] in Wv.
    destruct p as [|c0 p0]; [destruct fuel; [lia|]; eexists; reflexivity|].
    destruct fuel as [|f]; [lia|]. cbn [length] in Hf.
    set (p := c0 :: p0) in *.
    assert (Hleaf : pref p (fmt_pair (k, v)) -> exists l, sexpr_data (S f) p = POk l).
    { intros Hin. cbn [sexpr_data]. unfold p at 1.
      pose proof (parse_pref_ok (SStr k) v p I Wv Hin) as Hok.
      destruct (sx_parse p) as [[d rem]| | |]; try contradiction.
      - cbn in Hok. subst rem. destruct (as_pair d) as [[[z|s|l|a b] v']|]; try (eexists; reflexivity).
        cbn [lstrip_ws]. destruct f; [unfold p in Hf; cbn [length] in Hf; lia|]. eexists; reflexivity.
      - eexists; reflexivity. }
    destruct ps as [|q ps'].
    + unfold fmt_line in Hp. cbn [map join_sp] in Hp. apply Hleaf. exact Hp.
    + unfold fmt_line in Hp. change (join_sp (map fmt_pair ((k, v) :: q :: ps')))
        with (fmt_pair (k, v) ++ SP :: fmt_line (q :: ps')) in Hp.
      destruct (pref_app (fmt_pair (k, v)) p _ Hp) as [Hin|(r & E & Hr & Hn)]; [apply Hleaf; exact Hin|].
      destruct r as [|c r]; [contradiction Hn; reflexivity|].
      destruct (pref_cons_inv _ _ _ _ Hr) as [-> Hr'].
      cbn [sexpr_data]. unfold p at 1. rewrite E.
      unfold fmt_pair at 1. cbn [fst snd]. rewrite (parse_pair (SStr k) v _ I Wv). cbn [as_pair].
      cbn [lstrip_ws]. change (is_ws SP) with true. cbv iota.
      rewrite (lstrip_pref_line (q :: ps') r Hr').
      destruct (IH W' r f Hr') as (l & Hl).
      { assert (length p = length (fmt_pair (k, v)) + S (length r)) by (rewrite E, app_length; reflexivity).
        destruct (fmt_pair_head (k, v)) as [t Ht]. rewrite Ht in H. cbn [length] in H. unfold p in H. cbn [length] in H. lia. }
      rewrite Hl. eexists; reflexivity.
Qed.

Corollary sexpr_data_never_raises pairs p : Forall (fun kv => wf (snd kv)) pairs -> pref p (fmt_line pairs) ->
  exists l, sexpr_data (S (length p)) p = POk l.
Proof. intros W Hp. apply (sexpr_data_prefix_ok pairs W p (S (length p)) Hp). lia. Qed.
