(* C06: what a mapping returned by the VF2 search guarantees.  It is one-to-one in
   both directions, every pair carries equal labels, self loops and degrees, and for
   ANY two of its pairs the edge from the pair added later to the pair added earlier
   carries the same data in both graphs (present in both or absent in both). *)
From Coq Require Import List NArith Bool Arith Lia.
From PyD Require Import Base.Str Model.Hier Model.Mrs Model.Iso Proofs.HierP Proofs.IsoP Proofs.IsoComplete.
Import ListNotations.

Lemma candidates_fresh2 g1 g2 mp n m : In (n, m) (candidates mp g1 g2) -> ~ In m (map snd mp).
Proof.
  unfold candidates.
  assert (Fallback : In (n, m) match min_str (filter (fun y => negb (mem y (map snd mp))) (map fst g2)) with
                     | Some m0 => map (fun n1 => (n1, m0)) (sort_str (filter (fun y => negb (mem y (map fst mp))) (map fst g1)))
                     | None => [] end -> ~ In m (map snd mp)).
  { destruct (min_str _) as [m0|] eqn:E; [|intros []]. intros H. apply in_map_iff in H. destruct H as (n1 & E1 & _).
    inversion E1; subst. apply min_str_In in E. apply filter_In in E. destruct E as [_ Hu].
    apply negb_true_iff in Hu. apply mem_false in Hu. exact Hu. }
  match goal with |- context [match ?T1 with [] => _ | _ :: _ => _ end] => destruct T1 as [|x1 r1] end; [exact Fallback|].
  match goal with |- context [min_str ?T2] => destruct (min_str T2) as [m0|] eqn:E end; [|exact Fallback].
  intros H. apply in_map_iff in H. destruct H as (n1 & E1 & _). inversion E1; subst.
  apply min_str_In in E. apply (proj1 (dedupe_In _ _)) in E.
  apply in_flat_map in E. destruct E as ([n0 m00] & _ & Hnb). cbn [snd] in Hnb.
  apply in_flat_map in Hnb. destruct Hnb as ([[y|] v] & _ & Hy); cbn [fst] in Hy; [|destruct Hy].
  destruct (mem y (map snd mp)) eqn:Emem; [destruct Hy|]. destruct Hy as [<-|[]].
  apply mem_false in Emem. exact Emem.
Qed.

Lemma candidates_fresh1 g1 g2 mp n m : In (n, m) (candidates mp g1 g2) -> ~ In n (map fst mp).
Proof.
  unfold candidates.
  assert (Fallback : In (n, m) match min_str (filter (fun y => negb (mem y (map snd mp))) (map fst g2)) with
                     | Some m0 => map (fun n1 => (n1, m0)) (sort_str (filter (fun y => negb (mem y (map fst mp))) (map fst g1)))
                     | None => [] end -> ~ In n (map fst mp)).
  { destruct (min_str _) as [m0|]; [|intros []]. intros H. apply in_map_iff in H. destruct H as (n1 & E & H).
    inversion E; subst. apply (proj1 (sort_str_In _ _)) in H. apply filter_In in H. destruct H as [Hn Hu].
    apply negb_true_iff in Hu. apply mem_false in Hu. exact Hu. }
  match goal with |- context [match ?T1 with [] => _ | _ :: _ => _ end] => remember T1 as t1 eqn:Et1 end.
  destruct t1 as [|x1 r1]; [exact Fallback|].
  match goal with |- context [min_str ?T2] => destruct (min_str T2) as [m0|] end; [|exact Fallback].
  intros H. apply in_map_iff in H. destruct H as (n1 & E & H). inversion E; subst.
  apply (proj1 (sort_str_In _ _)) in H. rewrite Et1 in H. apply (proj1 (dedupe_In _ _)) in H.
  apply in_flat_map in H. destruct H as ([n0 m00] & Hp & Hnb). cbn [fst] in Hnb.
  apply in_flat_map in Hnb. destruct Hnb as ([[y|] v] & Hkd & Hy); cbn [fst] in Hy; [|destruct Hy].
  destruct (mem y (map fst mp)) eqn:Emem; [destruct Hy|]. destruct Hy as [<-|[]].
  apply mem_false in Emem. exact Emem.
Qed.

Inductive Built3 (g1 g2 : igraph) : mapping -> Prop :=
| b3_nil : Built3 g1 g2 []
| b3_cons mp n m : Built3 g1 g2 mp -> feasible mp g1 g2 n m = true ->
    ~ In n (map fst mp) -> ~ In m (map snd mp) -> Built3 g1 g2 ((n, m) :: mp).

Theorem search_built3 g1 g2 : forall fuel mp r,
  Built3 g1 g2 mp -> search fuel g1 g2 mp = Some r -> Built3 g1 g2 r.
Proof.
  induction fuel as [|f IH]; intros mp r Hb H; simpl in H.
  - destruct (Nat.leb (length g2) (length mp)); [|discriminate]. inversion H; subst. exact Hb.
  - destruct (Nat.leb (length g2) (length mp)); [inversion H; subst; exact Hb|].
    assert (Hc : forall c, In c (candidates mp g1 g2) -> In c (candidates mp g1 g2)) by auto.
    revert H Hc. generalize (candidates mp g1 g2) at 1 2. intros cands.
    induction cands as [|[n m] rest IHc]; intros H Hc; [discriminate|].
    destruct (feasible mp g1 g2 n m) eqn:F.
    + destruct (search f g1 g2 ((n, m) :: mp)) as [r'|] eqn:S.
      * inversion H; subst r'. apply (IH ((n, m) :: mp) r); [|exact S].
        pose proof (candidates_fresh1 g1 g2 mp n m (Hc _ (or_introl eq_refl))) as A.
        pose proof (candidates_fresh2 g1 g2 mp n m (Hc _ (or_introl eq_refl))) as B.
        constructor; assumption.
      * apply IHc; [exact H | intros c Hin; apply Hc; right; exact Hin].
    + apply IHc; [exact H | intros c Hin; apply Hc; right; exact Hin].
Qed.

Lemma built3_built g1 g2 mp : Built3 g1 g2 mp -> Built g1 g2 mp.
Proof. induction 1; constructor; assumption. Qed.

Lemma built3_inj g1 g2 mp : Built3 g1 g2 mp -> NoDup (map fst mp) /\ NoDup (map snd mp).
Proof.
  induction 1 as [|mp n m _ [IH1 IH2] _ Hn Hm]; [split; constructor|].
  cbn [map fst snd]. split; constructor; assumption.
Qed.

Lemma built3_suffix g1 g2 l1 l2 : Built3 g1 g2 (l1 ++ l2) -> Built3 g1 g2 l2.
Proof. induction l1 as [|x l1 IH]; [auto|]. cbn [app]. intros H. inversion H; subst. auto. Qed.

Lemma map_get_nodup (mp : mapping) a b : NoDup (map fst mp) -> In (a, b) mp -> map_get mp a = Some b.
Proof.
  unfold map_get. induction mp as [|[x y] mp IH]; intros Hnd Hin; [destruct Hin|].
  cbn [map fst] in Hnd. inversion Hnd as [|? ? Hx Hnd']; subst. cbn [dict_get].
  destruct Hin as [E|Hin].
  - inversion E; subst. rewrite str_eqb_refl. reflexivity.
  - destruct (str_eqb x a) eqn:E; [|apply IH; assumption].
    apply str_eqb_spec in E. subst x. exfalso. apply Hx. apply in_map_iff. exists (a, b). auto.
Qed.

Lemma inv_of_fst mp : map fst (inv_of mp) = map snd mp.
Proof. unfold inv_of. rewrite map_map. reflexivity. Qed.

Lemma inv_of_In mp a b : In (a, b) mp -> In (b, a) (inv_of mp).
Proof. intros H. unfold inv_of. apply in_map_iff. exists (a, b). auto. Qed.

(* one direction of an edge comparison out of `consistent` *)
Lemma consistent_edge mp ga gb a b a' b' d : consistent mp ga gb a b = true ->
  map_get mp a' = Some b' -> ed_get (Some a') (g_get ga a) = Some d ->
  ed_get (Some b') (g_get gb b) = Some d.
Proof.
  unfold consistent. intros H Hm He. apply ed_get_In in He.
  rewrite forallb_forall in H. specialize (H _ He). cbn [fst snd] in H. rewrite Hm in H.
  destruct (ed_get (Some b') (g_get gb b)) as [data|]; [|discriminate].
  apply str_eqb_spec in H. subst. reflexivity.
Qed.

(* the newest pair against any older pair: the edge is present in both graphs with the same
   data or absent in both *)
Lemma newest_edge g1 g2 mp n m n' m' : Built3 g1 g2 ((n, m) :: mp) -> In (n', m') mp ->
  ed_get (Some n') (g_get g1 n) = ed_get (Some m') (g_get g2 m).
Proof.
  intros H Hin. inversion H as [|? ? ? Hb F Hn Hm]; subst.
  destruct (built3_inj _ _ _ Hb) as [N1 N2].
  unfold feasible in F. repeat (apply andb_true_iff in F; destruct F as [F ?]).
  match goal with C1 : consistent mp g1 g2 n m = true, C2 : consistent (inv_of mp) g2 g1 m n = true |- _ =>
    pose proof (map_get_nodup mp n' m' N1 Hin) as G1;
    assert (G2 : map_get (inv_of mp) m' = Some n')
      by (apply map_get_nodup; [rewrite inv_of_fst; exact N2 | apply inv_of_In; exact Hin]);
    destruct (ed_get (Some n') (g_get g1 n)) as [d|] eqn:E1;
    [ symmetry; eapply consistent_edge; eassumption
    | destruct (ed_get (Some m') (g_get g2 m)) as [d|] eqn:E2; [|reflexivity];
      pose proof (consistent_edge _ _ _ _ _ _ _ _ C2 G2 E2) as X; congruence ]
  end.
Qed.

(* what the search guarantees about the mapping it returns *)
Theorem search_sound g1 g2 r : search (S (length g2)) g1 g2 [] = Some r ->
  NoDup (map fst r) /\ NoDup (map snd r) /\ length g2 <= length r /\
  (forall n m, In (n, m) r ->
     node_lbl g1 n = node_lbl g2 m /\
     ed_get (Some n) (g_get g1 n) = ed_get (Some m) (g_get g2 m) /\
     length (g_get g1 n) = length (g_get g2 m)) /\
  (forall later n m earlier n' m', r = later ++ (n, m) :: earlier -> In (n', m') earlier ->
     ed_get (Some n') (g_get g1 n) = ed_get (Some m') (g_get g2 m)).
Proof.
  intros H.
  pose proof (search_built3 g1 g2 _ _ _ (b3_nil g1 g2) H) as B.
  destruct (built3_inj _ _ _ B) as [N1 N2].
  destruct (search_built g1 g2 _ _ _ (built_nil g1 g2) H) as [_ L].
  split; [exact N1|]. split; [exact N2|]. split; [exact L|]. split.
  - apply built_labels. apply built3_built. exact B.
  - intros later n m earlier n' m' -> Hin. eapply newest_edge; [|exact Hin].
    eapply built3_suffix. exact B.
Qed.
