(* C18: the scores do not depend on node identifiers: renaming them by any
   injective function leaves every triple list, hence every count and score,
   unchanged. *)
From Coq Require Import List NArith ZArith Bool QArith.
From PyD Require Import Base.Str Model.Edm.
Import ListNotations.

Section Rename.
Variable f : str -> str.
Hypothesis f_inj : forall a b, f a = f b -> a = b.

Lemma f_eqb a b : str_eqb (f a) (f b) = str_eqb a b.
Proof.
  destruct (str_eqb a b) eqn:E.
  - apply str_eqb_spec in E. subst. apply str_eqb_refl.
  - destruct (str_eqb (f a) (f b)) eqn:E2; [|reflexivity].
    apply str_eqb_spec in E2. apply f_inj in E2. subst. rewrite str_eqb_refl in E. discriminate.
Qed.

Definition ren_node (n : node) : node :=
  {| n_id := f (n_id n); n_span := n_span n; n_pred := n_pred n; n_props := n_props n; n_carg := n_carg n;
     n_edges := map (fun rt => (fst rt, f (snd rt))) (n_edges n) |}.
Definition ren_link (l : link) : link :=
  {| l_start := f (l_start l); l_end := f (l_end l); l_role := l_role l |}.
Definition ren_sr (s : srep) : srep :=
  match s with
  | SEds top nodes => SEds (option_map f top) (map ren_node nodes)
  | SDmrs top nodes links => SDmrs (option_map f top) (map ren_node nodes) (map ren_link links)
  end.

Lemma sr_nodes_ren s : sr_nodes (ren_sr s) = map ren_node (sr_nodes s).
Proof. destruct s; reflexivity. Qed.

Lemma find_node_ren ns i : find_node (map ren_node ns) (f i) = option_map ren_node (find_node ns i).
Proof.
  induction ns as [|n ns IH]; [reflexivity|]. cbn [map find_node]. rewrite IH.
  destruct (find_node ns i); [reflexivity|]. cbn [option_map ren_node n_id]. rewrite f_eqb.
  destruct (str_eqb (n_id n) i); reflexivity.
Qed.

Lemma names_ren s : names (ren_sr s) = names s.
Proof. unfold names. rewrite sr_nodes_ren, map_map. reflexivity. Qed.

Lemma properties_ren s : properties (ren_sr s) = properties s.
Proof.
  unfold properties. rewrite sr_nodes_ren. induction (sr_nodes s) as [|n ns IH]; [reflexivity|].
  cbn [map flat_map]. rewrite IH. reflexivity.
Qed.

Lemma constants_ren s : constants (ren_sr s) = constants s.
Proof.
  unfold constants. rewrite sr_nodes_ren. induction (sr_nodes s) as [|n ns IH]; [reflexivity|].
  cbn [map flat_map]. rewrite IH. reflexivity.
Qed.

Lemma args_of_ren s n : args_of (ren_sr s) (ren_node n) = map (fun rt => (fst rt, f (snd rt))) (args_of s n).
Proof.
  destruct s as [top nodes|top nodes links]; [reflexivity|].
  cbn [ren_sr args_of ren_node n_id]. induction links as [|l ls IH]; [reflexivity|].
  cbn [map filter ren_link l_start l_role l_end ren_node n_id]. rewrite f_eqb.
  destruct (str_eqb (l_start l) (n_id n) && negb (str_eqb (l_role l) MOD_EQ)); cbn [map]; rewrite IH; reflexivity.
Qed.

Lemma arguments_ren s : arguments (ren_sr s) = arguments s.
Proof.
  unfold arguments. rewrite sr_nodes_ren.
  assert (G : forall ns, flat_map (fun n => flat_map (fun rt =>
                 match find_node (map ren_node (sr_nodes s)) (snd rt) with
                 | Some m => [{| t_span := n_span n; t_label := fst rt; t_val := TVSpan (n_span m) |}]
                 | None => [] end) (args_of (ren_sr s) n)) (map ren_node ns) =
              flat_map (fun n => flat_map (fun rt =>
                 match find_node (sr_nodes s) (snd rt) with
                 | Some m => [{| t_span := n_span n; t_label := fst rt; t_val := TVSpan (n_span m) |}]
                 | None => [] end) (args_of s n)) ns).
  { induction ns as [|n ns IH]; [reflexivity|]. cbn [map flat_map]. rewrite IH. f_equal.
    rewrite args_of_ren. induction (args_of s n) as [|rt l IHl]; [reflexivity|].
    cbn [map flat_map fst snd]. rewrite IHl, find_node_ren.
    destruct (find_node (sr_nodes s) (snd rt)); reflexivity. }
  apply G.
Qed.

Lemma top_node_ren s : option_map n_span (top_node (ren_sr s)) = option_map n_span (top_node s).
Proof.
  unfold top_node. rewrite sr_nodes_ren.
  assert (T : sr_top (ren_sr s) = option_map f (sr_top s)) by (destruct s; reflexivity).
  rewrite T. destruct (sr_top s) as [t|]; [|reflexivity]. cbn [option_map].
  rewrite find_node_ren. destruct (find_node (sr_nodes s) t); reflexivity.
Qed.

Lemma top_count_ren g t : top_count (ren_sr g) (ren_sr t) = top_count g t.
Proof.
  unfold top_count. pose proof (top_node_ren g) as Hg. pose proof (top_node_ren t) as Ht.
  destruct (top_node (ren_sr g)) as [a|], (top_node g) as [a'|]; try discriminate;
    destruct (top_node (ren_sr t)) as [b|], (top_node t) as [b'|]; try discriminate; try reflexivity.
  cbn in Hg, Ht. inversion Hg. inversion Ht. congruence.
Qed.

Theorem match_pair_ren g t : match_pair (ren_sr g) (ren_sr t) = match_pair g t.
Proof.
  unfold match_pair, count_of.
  rewrite !names_ren, !arguments_ren, !properties_ren, !constants_ren, top_count_ren. reflexivity.
Qed.
End Rename.

Definition ren_opt (f : str -> str) (o : option srep) : option srep := option_map (ren_sr f) o.

Theorem pair_match_ren f ig it p : (forall a b, f a = f b -> a = b) ->
  pair_match ig it (ren_opt f (fst p), ren_opt f (snd p)) = pair_match ig it p.
Proof.
  intros I. destruct p as [[g|] [t|]]; cbn [fst snd ren_opt option_map pair_match]; try reflexivity.
  - apply match_pair_ren. exact I.
  - destruct it; [reflexivity|]. change empty_sr with (ren_sr f empty_sr). apply match_pair_ren. exact I.
  - destruct ig; [reflexivity|]. change empty_sr with (ren_sr f empty_sr). apply match_pair_ren. exact I.
Qed.

Lemma zip_longest_map {A} (h : option A -> option A) (H : h None = None) : forall a b,
  zip_longest (map h a) (map h b) = map (fun p => (h (fst p), h (snd p))) (zip_longest a b).
Proof.
  induction a as [|x a IH]; intros b.
  - destruct b as [|y b]; [reflexivity|]. cbn [map zip_longest fst snd]. rewrite H. f_equal.
    rewrite !map_map. apply map_ext. intros z. cbn. rewrite H. reflexivity.
  - destruct b as [|y b]; cbn [map zip_longest fst snd].
    + rewrite H. f_equal. apply (IH []).
    + f_equal. apply IH.
Qed.

Theorem accumulate_ren f golds tests ig it : (forall a b, f a = f b -> a = b) ->
  accumulate (map (ren_opt f) golds) (map (ren_opt f) tests) ig it = accumulate golds tests ig it.
Proof.
  intros I. unfold accumulate. rewrite (zip_longest_map (ren_opt f) eq_refl).
  generalize mtch0. induction (zip_longest golds tests) as [|p l IH]; intros acc; [reflexivity|].
  cbn [map fold_left]. rewrite IH. f_equal. f_equal.
  destruct p as [g t]. apply (pair_match_ren f ig it (g, t) I).
Qed.

Theorem compute_ren f golds tests ig it : (forall a b, f a = f b -> a = b) ->
  (forall w, compute_Q (map (ren_opt f) golds) (map (ren_opt f) tests) w ig it = compute_Q golds tests w ig it) /\
  (forall w, compute_F (map (ren_opt f) golds) (map (ren_opt f) tests) w ig it = compute_F golds tests w ig it).
Proof.
  intros I. unfold compute_Q, compute_F. split; intros w; rewrite accumulate_ren by exact I; reflexivity.
Qed.
