(* Tie A for C08: the kernels regenerated from delphin/tsdb.py on this run
   are the ones the model (and hence every C08 theorem) is about. *)
From Coq Require Import List NArith.
From PyD Require Import Base.Str Model.Tsdb Gen.TsdbGen.
Import ListNotations.

Lemma tie_field_delimiter : gen_field_delimiter = AT.
Proof. reflexivity. Qed.
Lemma tie_escape_chain : gen_escape_chain = escape_chain.
Proof. reflexivity. Qed.
Lemma tie_unescape_lead : gen_unescape_lead = BSL.
Proof. reflexivity. Qed.
Lemma tie_unescape_table : gen_unescape_table = unescape_table.
Proof. reflexivity. Qed.
Lemma tie_coded_attributes : gen_coded_attributes = coded_attributes.
Proof. reflexivity. Qed.
