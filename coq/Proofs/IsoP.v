(* Proofs about Model/Iso.v (C06). *)
From Coq Require Import List NArith ZArith Bool Arith Lia.
From PyD Require Import Base.Str Model.Hier Model.Mrs Model.Iso.
Import ListNotations.
Open Scope nat_scope.

(* ---- bag comparison partitions both bags, for any matcher ---- *)
Lemma remove_first_length {A} (p : A -> bool) l l' :
  remove_first A p l = Some l' -> length l = S (length l').
Proof.
  revert l'. induction l as [|x l IH]; intros l' H; simpl in H; [discriminate|].
  destruct (p x).
  - inversion H; subst. reflexivity.
  - destruct (remove_first A p l) as [r|] eqn:E; [|discriminate]. simpl in H. inversion H; subst.
    simpl. rewrite (IH r eq_refl). reflexivity.
Qed.

Theorem bags_partition {A} (matches : A -> A -> bool) : forall test gold u s g,
  compare_bags A matches test gold = (u, s, g) ->
  u + s = length test /\ s + g = length gold.
Proof.
  induction test as [|t test IH]; intros gold u s g H; simpl in H.
  - inversion H; subst. simpl. lia.
  - destruct (remove_first A (matches t) gold) as [gold'|] eqn:E.
    + destruct (compare_bags A matches test gold') as [[u' s'] g'] eqn:C. inversion H; subst.
      destruct (IH _ _ _ _ C) as [P Q]. apply remove_first_length in E. simpl. lia.
    + destruct (compare_bags A matches test gold) as [[u' s'] g'] eqn:C. inversion H; subst.
      destruct (IH _ _ _ _ C) as [P Q]. simpl. lia.
Qed.

(* a bag compared with itself under a reflexive matcher is entirely shared *)
Lemma remove_first_head {A} (p : A -> bool) x l : p x = true -> remove_first A p (x :: l) = Some l.
Proof. intros H. simpl. rewrite H. reflexivity. Qed.

Theorem bags_self {A} (matches : A -> A -> bool) :
  (forall x, matches x x = true) ->
  forall l, compare_bags A matches l l = (0, length l, 0).
Proof.
  intros Hr. induction l as [|x l IH]; simpl; [reflexivity|].
  rewrite Hr. rewrite IH. reflexivity.
Qed.

(* ---- what a successful search guarantees ---- *)
(* mappings built from the empty one by adding feasible pairs *)
Inductive Built (g1 g2 : igraph) : mapping -> Prop :=
| built_nil : Built g1 g2 []
| built_cons mp n m : Built g1 g2 mp -> feasible mp g1 g2 n m = true -> Built g1 g2 ((n, m) :: mp).

Theorem search_built g1 g2 : forall fuel mp r,
  Built g1 g2 mp -> search fuel g1 g2 mp = Some r -> Built g1 g2 r /\ length g2 <= length r.
Proof.
  induction fuel as [|f IH]; intros mp r Hb H; simpl in H.
  - destruct (Nat.leb (length g2) (length mp)) eqn:E; [|discriminate].
    inversion H; subst. apply Nat.leb_le in E. auto.
  - destruct (Nat.leb (length g2) (length mp)) eqn:E.
    { inversion H; subst. apply Nat.leb_le in E. auto. }
    revert H. generalize (candidates mp g1 g2). intros cands.
    induction cands as [|[n m] rest IHc]; intros H; [discriminate|].
    destruct (feasible mp g1 g2 n m) eqn:F; [|apply IHc, H].
    destruct (search f g1 g2 ((n, m) :: mp)) as [r'|] eqn:S; [|apply IHc, H].
    inversion H; subst r'. apply (IH ((n, m) :: mp) r); [constructor; assumption | exact S].
Qed.

Definition node_lbl (g : igraph) (n : str) : str :=
  match ed_get None (g_get g n) with Some s => s | None => [] end.

(* every pair of a built mapping carries equal node labels (predicate, constant,
   properties), equal self-loop data and equal degree *)
Theorem built_labels g1 g2 mp : Built g1 g2 mp ->
  forall n m, In (n, m) mp ->
    node_lbl g1 n = node_lbl g2 m /\
    ed_get (Some n) (g_get g1 n) = ed_get (Some m) (g_get g2 m) /\
    length (g_get g1 n) = length (g_get g2 m).
Proof.
  induction 1 as [|mp n0 m0 Hb IH F]; intros n m Hin; [destruct Hin|].
  destruct Hin as [E|Hin]; [|apply IH, Hin]. inversion E; subst n0 m0.
  unfold feasible in F. repeat (apply andb_true_iff in F; destruct F as [F ?]).
  repeat split.
  - apply str_eqb_spec. exact F.
  - destruct (ed_get (Some n) (g_get g1 n)) as [a|], (ed_get (Some m) (g_get g2 m)) as [b|];
      simpl in *; try discriminate; try reflexivity.
    f_equal. apply str_eqb_spec. assumption.
  - apply Nat.eqb_eq. assumption.
Qed.

(* the newest pair is edge-consistent with every older pair, in both graphs *)
Theorem built_edges g1 g2 mp n m : Built g1 g2 ((n, m) :: mp) ->
  consistent mp g1 g2 n m = true /\ consistent (inv_of mp) g2 g1 m n = true.
Proof.
  intros H. inversion H as [|? ? ? _ F]; subst.
  unfold feasible in F. repeat (apply andb_true_iff in F; destruct F as [F ?]). auto.
Qed.
