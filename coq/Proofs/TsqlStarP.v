(* C11: what `select *` projects: every non-key column of every listed
   relation, and every key name exactly once (at its first relation). *)
From Coq Require Import List NArith ZArith Bool Arith Lia.
From PyD Require Import Base.Str Model.Tsdb Model.Hier Model.Tsql Proofs.HierP.
Import ListNotations.
Open Scope nat_scope.

(* the inner loop over the fields of one relation *)
Definition star_step (n : str) (fields : list tfield) (ka : list str) : list qname * list str :=
  fold_left (fun acc f =>
               let '(out, ka) := acc in
               if negb (tf_key f) then (out ++ [(n, tf_name f)], ka)
               else if mem (tf_name f) ka then (out, ka)
               else (out ++ [(n, tf_name f)], tf_name f :: ka))
            fields ([], ka).

Fixpoint star_go (d : db) (rels : list str) (ka : list str) : option (list qname) :=
  match rels with
  | [] => Some []
  | n :: rels' =>
      match find_rel d n with
      | None => None
      | Some r =>
          let step := star_step n (r_fields r) ka in
          match star_go d rels' (snd step) with
          | Some rest => Some (fst step ++ rest)
          | None => None
          end
      end
  end.

Lemma project_all_go d rels : project_all d rels = star_go d rels [].
Proof.
  unfold project_all. generalize (@nil str). induction rels as [|n rels IH]; intros ka; [reflexivity|].
  cbn [star_go]. destruct (find_rel d n) as [r|]; [|reflexivity].
  unfold star_step. rewrite IH. reflexivity.
Qed.

(* the key names emitted by a list of qualified names, given which entries are keys *)
Definition key_entry (d : db) (q : qname) : bool :=
  match find_rel d (fst q) with
  | Some r => existsb (fun f => str_eqb (tf_name f) (snd q) && tf_key f) (r_fields r)
  | None => false
  end.

(* invariant of the inner loop, generalised over the accumulator *)
Lemma star_step_gen n : forall fields (out : list qname) (ka : list str) (out' : list qname) (ka' : list str),
  fold_left (fun acc f =>
               let '(out, ka) := acc in
               if negb (tf_key f) then (out ++ [(n, tf_name f)], ka)
               else if mem (tf_name f) ka then (out, ka)
               else (out ++ [(n, tf_name f)], tf_name f :: ka))
            fields (out, ka) = (out', ka') ->
  (* nothing already emitted or remembered is lost *)
  (exists new, out' = out ++ new /\
     (* every non-key field is emitted *)
     (forall f, In f fields -> tf_key f = false -> In (n, tf_name f) new) /\
     (* every key name is remembered afterwards *)
     (forall f, In f fields -> tf_key f = true -> In (tf_name f) ka') /\
     (forall k, In k ka -> In k ka') /\
     (* a key name is emitted here exactly when it was not remembered before, and then once *)
     (forall f, In f fields -> tf_key f = true -> ~ In (tf_name f) ka -> In (n, tf_name f) new) /\
     (forall q, In q new -> fst q = n /\ exists f, In f fields /\ tf_name f = snd q /\
                                        (tf_key f = true -> ~ In (snd q) ka)) /\
     (forall k, In k ka' -> In k ka \/ exists f, In f fields /\ tf_key f = true /\ tf_name f = k)).
Proof.
  induction fields as [|f fields IH]; intros out ka out' ka' H; cbn [fold_left] in H.
  - inversion H; subst. exists []. rewrite app_nil_r. split; [reflexivity|].
    repeat split; try (intros; contradiction); auto.
  - destruct (negb (tf_key f)) eqn:Ek.
    + apply negb_true_iff in Ek.
      destruct (IH _ _ _ _ H) as (new & E & A & B & C & D & F & G).
      exists ((n, tf_name f) :: new). split; [rewrite E, <- app_assoc; reflexivity|].
      split; [intros g [<-|Hg] Kg; [left; reflexivity | right; apply A; assumption]|].
      split; [intros g [<-|Hg] Kg; [congruence | apply B; assumption]|].
      split; [exact C|].
      split; [intros g [<-|Hg] Kg Hn; [congruence | right; apply D; assumption]|].
      split.
      * intros q [<-|Hq].
        -- split; [reflexivity|]. exists f. split; [left; reflexivity|]. split; [reflexivity|]. congruence.
        -- destruct (F q Hq) as (Q1 & g & Hg & Q2 & Q3). split; [exact Q1|]. exists g. split; [right; exact Hg|]. auto.
      * intros k Hk. destruct (G k Hk) as [X|(g & Hg & Kg & Ng)]; [left; exact X|]. right. exists g. split; [right; exact Hg|]. auto.
    + apply negb_false_iff in Ek.
      destruct (mem (tf_name f) ka) eqn:Em.
      * apply mem_In in Em.
        destruct (IH _ _ _ _ H) as (new & E & A & B & C & D & F & G).
        exists new. split; [exact E|].
        split; [intros g [<-|Hg] Kg; [congruence | apply A; assumption]|].
        split; [intros g [<-|Hg] Kg; [apply C; exact Em | apply B; assumption]|].
        split; [exact C|].
        split; [intros g [<-|Hg] Kg Hn; [contradiction | apply D; assumption]|].
        split.
        -- intros q Hq. destruct (F q Hq) as (Q1 & g & Hg & Q2 & Q3). split; [exact Q1|]. exists g. split; [right; exact Hg|]. auto.
        -- intros k Hk. destruct (G k Hk) as [X|(g & Hg & Kg & Ng)]; [left; exact X|]. right. exists g. split; [right; exact Hg|]. auto.
      * apply mem_false in Em.
        destruct (IH _ _ _ _ H) as (new & E & A & B & C & D & F & G).
        exists ((n, tf_name f) :: new). split; [rewrite E, <- app_assoc; reflexivity|].
        split; [intros g [<-|Hg] Kg; [congruence | right; apply A; assumption]|].
        split; [intros g [<-|Hg] Kg; [apply C; left; reflexivity | apply B; assumption]|].
        split; [intros k Hk; apply C; right; exact Hk|].
        split.
        { intros g [<-|Hg] Kg Hn; [left; reflexivity|].
          destruct (str_eqb (tf_name g) (tf_name f)) eqn:Eq.
          - apply str_eqb_spec in Eq. left. rewrite Eq. reflexivity.
          - right. apply D; try assumption. intros [X|X]; [|exact (Hn X)].
            rewrite X, str_eqb_refl in Eq. discriminate. }
        split.
        -- intros q [<-|Hq].
           ++ split; [reflexivity|]. exists f. split; [left; reflexivity|]. split; [reflexivity|]. intros _. exact Em.
           ++ destruct (F q Hq) as (Q1 & g & Hg & Q2 & Q3). split; [exact Q1|]. exists g. split; [right; exact Hg|].
              split; [exact Q2|]. intros Kg X. apply (Q3 Kg). right. exact X.
        -- intros k Hk. destruct (G k Hk) as [[X|X]|(g & Hg & Kg & Ng)].
           ++ right. exists f. split; [left; reflexivity|]. auto.
           ++ left. exact X.
           ++ right. exists g. split; [right; exact Hg|]. auto.
Qed.

(* `*` lists every non-key column of every relation named, and at least one
   column for every key name *)
Theorem star_complete d : forall rels ka qs, star_go d rels ka = Some qs ->
  forall n r f, In n rels -> find_rel d n = Some r -> In f (r_fields r) ->
    (tf_key f = false -> In (n, tf_name f) qs) /\
    (tf_key f = true -> In (tf_name f) ka \/ exists n', In (n', tf_name f) qs).
Proof.
  induction rels as [|m rels IH]; intros ka qs H n r f Hn Hr Hf; [destruct Hn|].
  cbn [star_go] in H. destruct (find_rel d m) as [rm|] eqn:Em; [|discriminate].
  destruct (star_step m (r_fields rm) ka) as [out ka1] eqn:Es. cbn [fst snd] in H.
  destruct (star_go d rels ka1) as [rest|] eqn:Eg; [|discriminate]. inversion H; subst qs; clear H.
  unfold star_step in Es. destruct (star_step_gen m _ _ _ _ _ Es) as (new & E & A & B & C & D & F & G).
  cbn [app] in E. subst out.
  destruct Hn as [<-|Hn].
  - rewrite Em in Hr. inversion Hr; subst rm. split.
    + intros K. apply in_or_app. left. apply A; assumption.
    + intros K. destruct (in_dec (list_eq_dec N.eq_dec) (tf_name f) ka) as [X|X]; [left; exact X|].
      right. exists m. apply in_or_app. left. apply D; assumption.
  - destruct (IH _ _ Eg n r f Hn Hr Hf) as [P Q]. split.
    + intros K. apply in_or_app. right. apply P. exact K.
    + intros K. destruct (Q K) as [X|(n' & X)].
      * destruct (G _ X) as [Y|(g & Hg & Kg & Ng)]; [left; exact Y|].
        destruct (in_dec (list_eq_dec N.eq_dec) (tf_name g) ka) as [Z|Z].
        -- left. rewrite <- Ng. exact Z.
        -- right. exists m. apply in_or_app. left. rewrite <- Ng. apply D; assumption.
      * right. exists n'. apply in_or_app. right. exact X.
Qed.

(* ---- a key name is projected at most once ---- *)
Definition cnt (k : str) (l : list qname) : nat := length (filter (fun q => str_eqb (snd q) k) l).

Lemma cnt_app k a b : cnt k (a ++ b) = cnt k a + cnt k b.
Proof. unfold cnt. rewrite filter_app, app_length. reflexivity. Qed.

Definition named (k : str) (fields : list tfield) : bool := existsb (fun f => str_eqb (tf_name f) k) fields.

Lemma star_step_count n k : forall fields (out : list qname) (ka : list str) out' ka',
  (forall f, In f fields -> tf_name f = k -> tf_key f = true) ->
  fold_left (fun acc f =>
               let '(out, ka) := acc in
               if negb (tf_key f) then (out ++ [(n, tf_name f)], ka)
               else if mem (tf_name f) ka then (out, ka)
               else (out ++ [(n, tf_name f)], tf_name f :: ka))
            fields (out, ka) = (out', ka') ->
  cnt k out' = cnt k out + (if mem k ka then 0 else if named k fields then 1 else 0) /\
  mem k ka' = mem k ka || named k fields.
Proof.
  induction fields as [|f fields IH]; intros out ka out' ka' Hk H; cbn [fold_left] in H.
  - injection H as Ho Hka. subst out' ka'. cbn [named existsb]. rewrite orb_false_r. destruct (mem k ka); split; auto.
  - assert (Hk' : forall g, In g fields -> tf_name g = k -> tf_key g = true) by (intros g Hg; apply Hk; right; exact Hg).
    cbn [named existsb]. fold (named k fields).
    destruct (str_eqb (tf_name f) k) eqn:En.
    + apply str_eqb_spec in En. pose proof (Hk f (or_introl eq_refl) En) as Kf. rewrite Kf in H. cbn [negb] in H.
      rewrite En in H. destruct (mem k ka) eqn:Em.
      * destruct (IH _ _ _ _ Hk' H) as [A B]. rewrite Em in A, B. cbn [orb] in *. split; [exact A | exact B].
      * destruct (IH _ _ _ _ Hk' H) as [A B].
        assert (M : mem k (k :: ka) = true) by (unfold mem; cbn [existsb]; rewrite str_eqb_refl; reflexivity).
        rewrite M in A, B. cbn [orb]. split; [|exact B].
        rewrite A, cnt_app. unfold cnt at 2. cbn [filter snd]. rewrite str_eqb_refl. cbn [length]. lia.
    + cbn [orb].
      assert (Hne : tf_name f <> k) by (intros X; rewrite X, str_eqb_refl in En; discriminate).
      destruct (negb (tf_key f)).
      * destruct (IH _ _ _ _ Hk' H) as [A B]. split; [|exact B].
        rewrite A, cnt_app. unfold cnt at 2. cbn [filter snd]. rewrite En. cbn [length]. lia.
      * destruct (mem (tf_name f) ka) eqn:Em.
        -- apply (IH _ _ _ _ Hk' H).
        -- destruct (IH _ _ _ _ Hk' H) as [A B].
           assert (M : mem k (tf_name f :: ka) = mem k ka).
           { unfold mem. cbn [existsb]. destruct (str_eqb k (tf_name f)) eqn:E2; [|reflexivity].
             apply str_eqb_spec in E2. congruence. }
           rewrite M in A, B. split; [|exact B].
           rewrite A, cnt_app. unfold cnt at 2. cbn [filter snd]. rewrite En. cbn [length]. lia.
Qed.

Theorem star_key_once d k : forall rels ka qs, star_go d rels ka = Some qs ->
  (forall n r f, In n rels -> find_rel d n = Some r -> In f (r_fields r) -> tf_name f = k -> tf_key f = true) ->
  cnt k qs <= (if mem k ka then 0 else 1).
Proof.
  induction rels as [|m rels IH]; intros ka qs H Hk.
  - inversion H; subst. cbn. destruct (mem k ka); lia.
  - cbn [star_go] in H. destruct (find_rel d m) as [rm|] eqn:Em; [|discriminate].
    destruct (star_step m (r_fields rm) ka) as [out ka1] eqn:Es. cbn [fst snd] in H.
    destruct (star_go d rels ka1) as [rest|] eqn:Eg; [|discriminate]. inversion H; subst qs; clear H.
    unfold star_step in Es.
    destruct (star_step_count m k _ _ _ _ _ (fun f Hf => Hk m rm f (or_introl eq_refl) Em Hf) Es) as [A B].
    pose proof (IH _ _ Eg (fun n r f Hn => Hk n r f (or_intror Hn))) as R.
    rewrite cnt_app, A. cbn [cnt filter length Nat.add]. rewrite B in R.
    destruct (mem k ka); cbn [orb] in *; [lia|].
    destruct (named k (r_fields rm)); cbn [orb] in *; lia.
Qed.

(* the statement for select * itself *)
Theorem project_all_spec d rels qs : project_all d rels = Some qs ->
  (forall n r f, In n rels -> find_rel d n = Some r -> In f (r_fields r) ->
     (tf_key f = false -> In (n, tf_name f) qs) /\ (tf_key f = true -> exists n', In (n', tf_name f) qs)) /\
  (forall k, (forall n r f, In n rels -> find_rel d n = Some r -> In f (r_fields r) -> tf_name f = k -> tf_key f = true) ->
     cnt k qs <= 1).
Proof.
  rewrite project_all_go. intros H. split.
  - intros n r f Hn Hr Hf. destruct (star_complete d rels [] qs H n r f Hn Hr Hf) as [A B].
    split; [exact A|]. intros K. destruct (B K) as [[]|X]; exact X.
  - intros k Hk. exact (star_key_once d k rels [] qs H Hk).
Qed.
