(* Proofs about the DMRX element-tree model (C02): decoding the encoded element gives
   back the DMRS, up to what the options suppress. *)
From Coq Require Import List NArith ZArith Bool Arith Lia.
From PyD Require Import Base.Str Base.Dec Model.Hier Model.Mrs Model.Iso Model.SimpleMrs Model.MrsJson
  Model.SimpleDmrs Model.DmrsJson Model.Dmrx Proofs.SimpleMrsP Proofs.MrsJsonP Proofs.SimpleDmrsP Proofs.DmrsJsonP.
Import ListNotations.

(* evaluate comparisons between constant strings *)
Ltac ceval :=
  repeat match goal with
         | |- context [str_eqb ?a ?b] =>
             let v := eval vm_compute in (str_eqb a b) in
             lazymatch v with
             | true => change (str_eqb a b) with true
             | false => change (str_eqb a b) with false
             end
         end.

Lemma xiter_unfold tag t a x kids :
  xiter tag (XE t a x kids) = (if str_eqb t tag then [XE t a x kids] else []) ++ flat_map (xiter tag) kids.
Proof.
  cbn [xiter]. reflexivity.
Qed.

Lemma mk_dict_app (l : list (str * str)) : forall acc : list (str * str), NoDup (map fst acc ++ map fst l) ->
  fold_left (fun d kv => dict_set (fst kv) (snd kv) d) l acc = acc ++ l.
Proof.
  induction l as [|[k v] l IH]; intros acc H; [rewrite app_nil_r; reflexivity|]. cbn [fold_left fst snd].
  cbn [map fst] in H.
  assert (Hk : ~ In k (map fst acc)).
  { intros X. apply NoDup_remove_2 in H. apply H. apply in_or_app. left. exact X. }
  rewrite dict_set_notin by exact Hk. rewrite IH.
  - rewrite <- app_assoc. reflexivity.
  - rewrite map_app. cbn [map fst]. rewrite <- app_assoc. exact H.
Qed.

Lemma mk_dict_nodup (l : list (str * str)) : NoDup (map fst l) -> mk_dict l = l.
Proof. intros H. unfold mk_dict. rewrite mk_dict_app; [reflexivity | exact H]. Qed.

Lemma ascii_lower_idem s : ascii_lower (ascii_lower s) = ascii_lower s.
Proof.
  unfold ascii_lower. rewrite map_map. apply map_ext. intros c.
  destruct (N.leb 65 c && N.leb c 90)%bool eqn:E; [|rewrite E; reflexivity].
  apply andb_prop in E. destruct E as [E1 E2]. apply N.leb_le in E1, E2.
  assert (X : (N.leb 65 (c + 32) && N.leb (c + 32) 90)%bool = false).
  { apply andb_false_iff. right. apply N.leb_gt. lia. }
  rewrite X. reflexivity.
Qed.

Lemma lower_cvarsort : ascii_lower CVARSORT = CVARSORT.
Proof. reflexivity. Qed.

Definition lowerkv (kv : str * str) : str * str := (ascii_lower (fst kv), ascii_lower (snd kv)).
Definition backkv (kv : str * str) : str * str :=
  (if str_eqb (fst kv) CVARSORT then fst kv else ascii_upper (fst kv), ascii_lower (snd kv)).

(* a property: the name is written in upper case, the value in lower case *)
Definition kv_ok (kv : str * str) : Prop :=
  ascii_upper (ascii_lower (fst kv)) = fst kv /\ ascii_lower (fst kv) <> CVARSORT /\ ascii_lower (snd kv) = snd kv.

Lemma kv_ok_back kv : kv_ok kv -> backkv (lowerkv kv) = kv.
Proof.
  intros (A & B & C). unfold backkv, lowerkv. cbn [fst snd]. rewrite str_eqb_neq by exact B.
  rewrite A, ascii_lower_idem, C. destruct kv; reflexivity.
Qed.

Lemma NoDup_map_on {A B} (f : A -> B) (P : A -> Prop) l :
  (forall a b, P a -> P b -> f a = f b -> a = b) -> Forall P l -> NoDup l -> NoDup (map f l).
Proof.
  intros Hinj. induction l as [|x l IH]; intros HP Hnd; [constructor|].
  inversion HP as [|? ? Px HP']; subst. inversion Hnd as [|? ? Hx Hnd']; subst. cbn [map]. constructor.
  - intros X. apply in_map_iff in X. destruct X as (y & E & Hy). apply Hx.
    rewrite Forall_forall in HP'. rewrite (Hinj x y Px (HP' y Hy) (eq_sym E)). exact Hy.
  - apply IH; assumption.
Qed.

Lemma nodup_snoc {A} (l : list A) x : NoDup l -> ~ In x l -> NoDup (l ++ [x]).
Proof.
  induction l as [|y l IH]; intros H Hx; [constructor; [intros [] | constructor]|].
  inversion H as [|? ? Hy H']; subst. cbn [app]. constructor.
  - intros X. apply in_app_or in X. destruct X as [X|[X|[]]]; [contradiction|]. subst. apply Hx. left. reflexivity.
  - apply IH; [exact H' | intros X; apply Hx; right; exact X].
Qed.

Section P.
Variable psplit : str -> option (str * str * option str).
Variable pcreate : str -> str -> option str -> str.

(* the assumed behaviour of the predicate oracles: create undoes split *)
Definition pred_ok (p : str) : Prop :=
  match psplit p with
  | Some (l, pos, sense) => pcreate l pos (match sense with Some (c :: s) => Some (c :: s) | _ => None end) = p
  | None => True
  end.

Definition node_ok (n : dnode) : Prop :=
  pred_ok (n_pred n) /\ NoDup (map fst (n_props n)) /\ Forall kv_ok (n_props n) /\
  match n_type n with Some t => ascii_lower t = t | None => True end.

Definition proj_xnode (p l : bool) (n : dnode) : dnode :=
  {| n_id := n_id n; n_pred := n_pred n; n_type := if p then n_type n else None;
     n_props := if p then n_props n else []; n_carg := n_carg n;
     n_lnk := if l then LChar (cfrom (n_lnk n)) (cto (n_lnk n)) else LChar (-1) (-1) |}.

Lemma pred_roundtrip p : pred_ok p -> decode_pred pcreate (encode_pred psplit p) = Some p.
Proof.
  unfold pred_ok, encode_pred, decode_pred. destruct (psplit p) as [[[l pos] sense]|]; intros H.
  - cbn [x_tag]. ceval. cbv iota. unfold aget. cbn [x_attrs app dict_get]. ceval. cbv iota.
    destruct sense as [[|c s]|]; cbn [app dict_get]; ceval; cbv iota.
    all: f_equal; exact H.
  - cbn [x_tag x_text]. ceval. reflexivity.
Qed.

Lemma props_no_cvarsort n : Forall kv_ok (n_props n) -> no_cvarsort (n_props n).
Proof.
  intros H X. apply in_map_iff in X. destruct X as (kv & E & Hin). rewrite Forall_forall in H.
  destruct (H kv Hin) as (_ & B & _). apply B. rewrite E. reflexivity.
Qed.

Lemma sortinfo_shape n : no_cvarsort (n_props n) ->
  sortinfo n = n_props n ++ match n_type n with Some t => [(CVARSORT, t)] | None => [] end.
Proof.
  intros H. unfold sortinfo. destruct (n_type n) as [t|]; [apply dict_set_notin; exact H | rewrite app_nil_r; reflexivity].
Qed.

Lemma sortinfo_attrs n : node_ok n ->
  mk_dict (map backkv (mk_dict (map lowerkv (sortinfo n)))) = sortinfo n.
Proof.
  intros (_ & Hnd & Hok & Ht). pose proof (props_no_cvarsort n Hok) as Hnc.
  rewrite (sortinfo_shape n Hnc).
  set (tl := match n_type n with Some t => [(CVARSORT, t)] | None => [] end).
  assert (Hall : Forall (fun kv => backkv (lowerkv kv) = kv) (n_props n ++ tl)).
  { apply Forall_app. split; [eapply Forall_impl; [|exact Hok]; intros kv; apply kv_ok_back|].
    unfold tl. destruct (n_type n) as [t|]; constructor; [|constructor].
    unfold backkv, lowerkv. cbn [fst snd]. rewrite lower_cvarsort, str_eqb_refl, ascii_lower_idem, Ht. reflexivity. }
  assert (Hkeys : NoDup (map fst (n_props n ++ tl))).
  { rewrite map_app. unfold tl. destruct (n_type n) as [t|]; cbn [map fst]; [|rewrite app_nil_r; exact Hnd].
    apply nodup_snoc; [exact Hnd | exact Hnc]. }
  assert (Hlow : NoDup (map fst (map lowerkv (n_props n ++ tl)))).
  { rewrite map_map. cbn [lowerkv fst]. rewrite <- (map_map fst ascii_lower).
    apply (NoDup_map_on ascii_lower
             (fun k => k = CVARSORT \/ (ascii_upper (ascii_lower k) = k /\ ascii_lower k <> CVARSORT))).
    - intros a b [Ha|[Ha1 Ha2]] [Hb|[Hb1 Hb2]] E.
      + congruence.
      + subst a. rewrite lower_cvarsort in E. exfalso. apply Hb2. symmetry. exact E.
      + subst b. rewrite lower_cvarsort in E. exfalso. apply Ha2. exact E.
      + rewrite <- Ha1, <- Hb1, E. reflexivity.
    - rewrite map_app. apply Forall_app. split.
      + apply Forall_forall. intros k Hk. apply in_map_iff in Hk. destruct Hk as (kv & <- & Hin).
        rewrite Forall_forall in Hok. destruct (Hok kv Hin) as (A & B & _). right. split; assumption.
      + unfold tl. destruct (n_type n); cbn [map fst]; constructor; [left; reflexivity | constructor].
    - exact Hkeys. }
  rewrite (mk_dict_nodup _ Hlow). rewrite map_map.
  assert (Hmap : map (fun x => backkv (lowerkv x)) (n_props n ++ tl) = n_props n ++ tl).
  { clear Hlow Hkeys. induction (n_props n ++ tl) as [|kv l IH]; [reflexivity|]. inversion Hall; subst.
    cbn [map]. f_equal; [assumption | apply IH; assumption]. }
  rewrite Hmap. apply mk_dict_nodup. exact Hkeys.
Qed.
End P.

Section Q.
Variable psplit : str -> option (str * str * option str).
Variable pcreate : str -> str -> option str -> str.

Lemma encode_pred_tag p : str_eqb (x_tag (encode_pred psplit p)) T_SORTINFO = false.
Proof. unfold encode_pred. destruct (psplit p) as [[[l pos] s]|]; reflexivity. Qed.

Lemma node_roundtrip p l n : node_ok psplit pcreate n ->
  decode_node pcreate (encode_node psplit p l n) = Some (proj_xnode p l n).
Proof.
  intros Hok. pose proof Hok as (Hp & Hnd & Hkv & Ht).
  pose proof (props_no_cvarsort n Hkv) as Hnc.
  destruct (sortinfo_back n Hnc) as [Sty Spr].
  unfold decode_node, encode_node, proj_xnode.
  unfold xfind. cbn [x_kids find]. rewrite encode_pred_tag. cbn [x_tag]. ceval. cbv iota.
  rewrite (pred_roundtrip psplit pcreate _ Hp).
  unfold int_attr, decode_lnk, int_attr, aget, lnk_attrs. cbn [x_attrs].
  destruct l, p, (n_carg n) as [cg|]; cbn [app dict_get]; ceval; cbv iota;
    rewrite ?dec_to_Z_to_dec; cbn [dict_get]; ceval; cbv iota;
    try (change (dec_to_Z MINUS1) with (Some (-1)%Z); cbv iota).
  all: try (change (fun kv : str * str => (if str_eqb (fst kv) CVARSORT then fst kv else ascii_upper (fst kv), ascii_lower (snd kv))) with backkv;
            change (fun kv : str * str => (ascii_lower (fst kv), ascii_lower (snd kv))) with lowerkv;
            rewrite (sortinfo_attrs psplit pcreate n Hok), Sty, Spr).
  all: try (change (mk_dict (map ?f [])) with (@nil (str * str)); cbn [dict_get filter option_map]).
  all: try (destruct (n_type n) as [t|]; cbn [option_map]; rewrite ?Ht; reflexivity).
  all: try reflexivity.
Qed.
End Q.

Section R.
Variable psplit : str -> option (str * str * option str).
Variable pcreate : str -> str -> option str -> str.

Lemma link_roundtrip k : decode_link (encode_link k) = Some k.
Proof.
  destruct k as [[[s e] role] post]. unfold decode_link, encode_link, int_attr, aget, xfind.
  cbn [x_attrs x_kids dict_get find x_tag x_text]. ceval. cbv iota. rewrite !dec_to_Z_to_dec.
  cbn [find x_tag]. ceval. cbv iota. reflexivity.
Qed.

Lemma xiter_node_self p l n : xiter T_NODE (encode_node psplit p l n) = [encode_node psplit p l n].
Proof.
  unfold encode_node. rewrite xiter_unfold. ceval. cbv iota. cbn [flat_map app].
  unfold encode_pred. destruct (psplit (n_pred n)) as [[[a b] c]|]; rewrite !xiter_unfold; ceval; cbv iota;
    cbn [flat_map app]; reflexivity.
Qed.

Lemma xiter_node_link k : xiter T_NODE (encode_link k) = [].
Proof. destruct k as [[[s e] role] post]. unfold encode_link. rewrite !xiter_unfold. ceval. cbv iota. cbn [flat_map app]. rewrite !xiter_unfold. ceval. reflexivity. Qed.

Lemma xiter_link_self k : xiter T_LINK (encode_link k) = [encode_link k].
Proof. destruct k as [[[s e] role] post]. unfold encode_link. rewrite !xiter_unfold. ceval. cbv iota. cbn [flat_map app]. rewrite !xiter_unfold. ceval. reflexivity. Qed.

Lemma xiter_link_node p l n : xiter T_LINK (encode_node psplit p l n) = [].
Proof.
  unfold encode_node. rewrite xiter_unfold. ceval. cbv iota. cbn [flat_map app].
  unfold encode_pred. destruct (psplit (n_pred n)) as [[[a b] c]|]; rewrite !xiter_unfold; ceval; cbv iota;
    cbn [flat_map app]; reflexivity.
Qed.

Lemma flat_map_single {A B} (f : A -> list B) (g : A -> B) l : (forall x, f x = [g x]) -> flat_map f l = map g l.
Proof. intros H. induction l as [|x l IH]; [reflexivity|]. cbn [flat_map map]. rewrite H, IH. reflexivity. Qed.

Lemma flat_map_nil {A B} (f : A -> list B) l : (forall x, f x = []) -> flat_map f l = [].
Proof. intros H. induction l as [|x l IH]; [reflexivity|]. cbn [flat_map]. rewrite H, IH. reflexivity. Qed.

Definition proj_xdmrs (p l : bool) (g : dmrs) : dmrs :=
  {| g_top := g_top g; g_index := g_index g;
     g_nodes := map (proj_xnode p l) (g_nodes g); g_links := g_links g;
     g_lnk := if l then LChar (cfrom (g_lnk g)) (cto (g_lnk g)) else LChar (-1) (-1);
     g_surface := if l then g_surface g else None; g_ident := g_ident g |}.

Lemma nodes_back p l nodes : Forall (node_ok psplit pcreate) nodes ->
  all_some (map (decode_node pcreate) (map (encode_node psplit p l) nodes)) = Some (map (proj_xnode p l) nodes).
Proof.
  induction nodes as [|n nodes IH]; intros H; [reflexivity|]. inversion H; subst.
  cbn [map all_some]. rewrite node_roundtrip by assumption. rewrite IH by assumption. reflexivity.
Qed.

Lemma links_back' links : all_some (map decode_link (map encode_link links)) = Some links.
Proof.
  induction links as [|k links IH]; [reflexivity|]. cbn [map all_some]. rewrite link_roundtrip, IH. reflexivity.
Qed.

Lemma flat_map_map' {A B C} (f : B -> list C) (h : A -> B) l : flat_map f (map h l) = flat_map (fun x => f (h x)) l.
Proof. induction l as [|x l IH]; [reflexivity|]. cbn [map flat_map]. rewrite IH. reflexivity. Qed.

Lemma flat_map_singletons {A B} (g : A -> B) l : flat_map (fun x => [g x]) l = map g l.
Proof. induction l as [|x l IH]; [reflexivity|]. cbn [map flat_map app]. rewrite IH. reflexivity. Qed.

Lemma iter_nodes p l nodes links :
  flat_map (xiter T_NODE) (map (encode_node psplit p l) nodes ++ map encode_link links) = map (encode_node psplit p l) nodes.
Proof.
  rewrite flat_map_app, !flat_map_map'.
  rewrite (flat_map_ext _ (fun n => [encode_node psplit p l n])) by (intros n; apply xiter_node_self).
  rewrite flat_map_singletons.
  rewrite (flat_map_ext _ (fun _ => [])) by (intros k; apply xiter_node_link).
  rewrite (flat_map_nil (fun _ : glink => @nil xml)) by reflexivity. apply app_nil_r.
Qed.

Lemma iter_links p l nodes links :
  flat_map (xiter T_LINK) (map (encode_node psplit p l) nodes ++ map encode_link links) = map encode_link links.
Proof.
  rewrite flat_map_app, !flat_map_map'.
  rewrite (flat_map_ext _ (fun _ => [])) by (intros n; apply xiter_link_node).
  rewrite (flat_map_nil (fun _ : dnode => @nil xml)) by reflexivity.
  rewrite (flat_map_ext _ (fun k => [encode_link k])) by (intros k; apply xiter_link_self).
  rewrite flat_map_singletons. reflexivity.
Qed.

(* decoding the encoded element gives back the DMRS, up to what the options suppress *)
Theorem dmrx_roundtrip p l g :
  Forall (node_ok psplit pcreate) (g_nodes g) -> Forall link_ok (g_links g) ->
  decode_dmrs pcreate (encode_dmrs psplit p l g) = Some (proj_xdmrs p l g).
Proof.
  intros Hn Hl. unfold decode_dmrs, encode_dmrs.
  rewrite !xiter_unfold. ceval. cbv iota. cbn [app].
  rewrite iter_nodes, iter_links, nodes_back by exact Hn. rewrite links_back'.
  unfold opt_int, decode_lnk, int_attr, aget, lnk_attrs, proj_xdmrs. cbn [x_attrs].
  destruct l, (g_top g) as [t|], (g_index g) as [i|], (g_surface g) as [sf|], (g_ident g) as [idn|];
    cbn [app dict_get]; ceval; cbv iota; rewrite ?dec_to_Z_to_dec; cbn [dict_get]; ceval; cbv iota;
    try (change (dec_to_Z MINUS1) with (Some (-1)%Z); cbv iota);
    rewrite norm_top_id by exact Hl; reflexivity.
Qed.
End R.

(* the premises are satisfiable: a node with a surface predicate, a property and a type *)
Definition ex_split (p : str) : option (str * str * option str) :=
  if str_eqb p [95;100;111;103;95;110;95;49]%N then Some ([100;111;103]%N, [110]%N, Some [49]%N) else None.
Definition ex_create (l pos : str) (s : option str) : str := [95;100;111;103;95;110;95;49]%N.
Definition ex_node : dnode :=
  {| n_id := 10000; n_pred := [95;100;111;103;95;110;95;49]%N; n_type := Some [120]%N;
     n_props := [([80;69;82;83]%N, [51]%N)]; n_carg := None; n_lnk := LChar 0 3 |}.
Definition ex_dmrs : dmrs :=
  {| g_top := Some 10000%Z; g_index := Some 10000%Z; g_nodes := [ex_node]; g_links := [];
     g_lnk := LNone; g_surface := None; g_ident := None |}.

Example dmrx_example :
  Forall (node_ok ex_split ex_create) (g_nodes ex_dmrs) /\ Forall link_ok (g_links ex_dmrs) /\
  decode_dmrs ex_create (encode_dmrs ex_split true true ex_dmrs) = Some (proj_xdmrs true true ex_dmrs).
Proof.
  split; [|split; [constructor | vm_compute; reflexivity]].
  constructor; [|constructor]. unfold node_ok. split; [vm_compute; reflexivity|].
  split; [cbn; constructor; [intros [] | constructor]|]. split.
  - constructor; [|constructor]. unfold kv_ok. cbn. repeat split; discriminate.
  - reflexivity.
Qed.
