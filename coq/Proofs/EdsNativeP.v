(* Proofs about the token-level native EDS model (C03). *)
From Coq Require Import List NArith ZArith Bool Arith Lia Permutation.
From PyD Require Import Base.Str Base.Dec Base.Graph Model.Hier Model.Mrs Model.Iso Model.SimpleMrs Model.EdsNative
  Proofs.SimpleMrsP.
Import ListNotations.
