(* Proofs about the token-level native EDS model (C03). *)
From Coq Require Import List NArith ZArith Bool Arith Lia Permutation Relations.
From PyD Require Import Base.Str Base.Dec Base.Graph Model.Hier Model.Mrs Model.Iso Model.SimpleMrs Model.EdsNative
  Proofs.SimpleMrsP.
Import ListNotations.

(* ---------------------------------------------------------------- *)
(* comma-separated pairs *)

Definition not_comma (ts : list etok) : Prop := match ts with ECOMMA :: _ => False | _ => True end.

Lemma dec_pairs_enc f L : forall acc rest,
  L <> [] -> NoDup (map fst L) -> (forall k, In k (map fst L) -> ~ In k (map fst acc)) ->
  Forall (fun kv => ascii_upper (fst kv) = fst kv /\ f (snd kv) = snd kv) L -> not_comma rest ->
  dec_pairs f (enc_pairs L ++ rest) acc = Some (acc ++ L, rest).
Proof.
  induction L as [|[k v] L IH]; intros acc rest Hne Hnd Hdis Hn Hrest; [contradiction Hne; reflexivity|].
  inversion Hnd as [|? ? Hk Hnd']; subst. inversion Hn as [|? ? [Hu Hf] Hn']; subst. cbn [fst snd] in Hu, Hf.
  destruct L as [|[k2 v2] L'].
  - cbn [enc_pairs app dec_pairs]. rewrite Hu, Hf. rewrite dict_set_notin by (apply Hdis; left; reflexivity).
    destruct rest as [|[] rest']; try reflexivity. contradiction.
  - change (enc_pairs ((k, v) :: (k2, v2) :: L')) with (ESYM k :: ESYM v :: ECOMMA :: enc_pairs ((k2, v2) :: L')).
    cbn [app dec_pairs]. rewrite Hu, Hf. rewrite dict_set_notin by (apply Hdis; left; reflexivity).
    rewrite IH; [rewrite <- app_assoc; reflexivity | discriminate | exact Hnd' | | exact Hn' | exact Hrest].
    intros k' Hk'. rewrite map_app, in_app_iff. cbn [map fst In]. intros [H|[H|[]]].
    + apply (Hdis k'); [right; exact Hk' | exact H].
    + subst. contradiction.
Qed.

Lemma enc_pairs_head L rest : L <> [] -> exists k r, enc_pairs L ++ rest = ESYM k :: r.
Proof. destruct L as [|[k v] [|p L]]; intros H; [contradiction H; reflexivity | |]; eexists; eexists; reflexivity. Qed.

(* ---------------------------------------------------------------- *)
(* nodes *)

Definition vnode_wf (n : vnode) : Prop :=
  ascii_lower (v_pred n) = v_pred n /\ norm_props (v_props n) /\ NoDup (map fst (v_edges n)) /\
  Forall (fun kv => ascii_upper (fst kv) = fst kv) (v_edges n).

Definition proj_type (p : bool) (n : vnode) : option str :=
  if p then match v_type n with
            | Some t => Some t
            | None => match v_props n with [] => None | _ => Some U_TYPE end
            end
  else None.

Definition proj_vnode (p l : bool) (n : vnode) : vnode :=
  {| v_id := v_id n; v_pred := v_pred n; v_type := proj_type p n; v_edges := sort_roles (v_edges n);
     v_props := if p then sort_props (v_props n) else []; v_carg := v_carg n;
     v_lnk := proj_lnk l (v_lnk n) |}.

Definition node_tail (p l : bool) (n : vnode) : list etok :=
  ESYM (v_pred n)
  :: (if l && lnk_truthy (v_lnk n) then [ELNK (v_lnk n)] else [])
  ++ match v_carg n with Some c => [ECARG (escape c)] | None => [] end
  ++ (if p && has_block n then
        ELBRACE :: ESYM (match v_type n with Some t => t | None => U_TYPE end)
                :: enc_pairs (sort_props (v_props n)) ++ [ERBRACE]
      else [])
  ++ ELBRK :: enc_pairs (sort_roles (v_edges n)) ++ [ERBRK].

Lemma enc_vnode_shape p l n : enc_vnode p l n = ESYM (v_id n) :: ECOLON :: node_tail p l n.
Proof. reflexivity. Qed.

Lemma sort_props_nil_iff ps : sort_props ps = [] <-> ps = [].
Proof.
  split; [|intros ->; reflexivity]. intros H.
  pose proof (Permutation_length (sort_props_perm ps)) as L. rewrite H in L. destruct ps; [reflexivity | discriminate].
Qed.

Lemma sort_roles_nil_iff ps : sort_roles ps = [] <-> ps = [].
Proof.
  split; [|intros ->; reflexivity]. intros H.
  pose proof (Permutation_length (sort_roles_perm ps)) as L. rewrite H in L. destruct ps; [reflexivity | discriminate].
Qed.

Lemma dec_edges_enc es rest :
  NoDup (map fst es) -> Forall (fun kv => ascii_upper (fst kv) = fst kv) es ->
  dec_edges (ELBRK :: enc_pairs (sort_roles es) ++ ERBRK :: rest) = Some (sort_roles es, rest).
Proof.
  intros Hnd Hn.
  destruct (sort_roles es) as [|e0 es0] eqn:E.
  - reflexivity.
  - rewrite <- E.
    assert (Hne : sort_roles es <> []) by (rewrite E; discriminate).
    pose proof (sort_roles_perm es) as Hp.
    assert (Hnd' : NoDup (map fst (sort_roles es))).
    { eapply Permutation_NoDup; [apply Permutation_map; apply Permutation_sym; exact Hp | exact Hnd]. }
    assert (Hn' : Forall (fun kv => ascii_upper (fst kv) = fst kv /\ (fun s : str => s) (snd kv) = snd kv) (sort_roles es)).
    { rewrite Forall_forall in *. intros x Hx. split; [|reflexivity]. apply Hn.
      eapply Permutation_in; [exact Hp | exact Hx]. }
    destruct (enc_pairs_head (sort_roles es) (ERBRK :: rest) Hne) as [k [r Hh]].
    unfold dec_edges. rewrite Hh. rewrite <- Hh.
    rewrite (dec_pairs_enc (fun s => s) (sort_roles es) [] (ERBRK :: rest) Hne Hnd' (fun _ _ F => F) Hn' I).
    reflexivity.
Qed.

Lemma dec_block_enc p n rest : norm_props (v_props n) ->
  match rest with ELBRACE :: _ => False | _ => True end ->
  dec_block ((if p && has_block n then
                ELBRACE :: ESYM (match v_type n with Some t => t | None => U_TYPE end)
                        :: enc_pairs (sort_props (v_props n)) ++ [ERBRACE]
              else []) ++ rest)
  = Some (proj_type p n, (if p then sort_props (v_props n) else []), rest).
Proof.
  intros [Hnd Hn] Hrest. unfold proj_type, has_block.
  destruct p; cbn [andb].
  2:{ cbn [app]. unfold dec_block. destruct rest as [|[] ?]; try reflexivity. contradiction. }
  destruct (v_props n) as [|p0 ps] eqn:Ep.
  - destruct (v_type n) as [t|]; cbn [app sort_props fold_right enc_pairs dec_block]; [reflexivity|].
    unfold dec_block. destruct rest as [|[] ?]; try reflexivity. contradiction.
  - remember (p0 :: ps) as P eqn:EP.
    assert (Hne : sort_props P <> []).
    { intros X. apply (proj1 (sort_props_nil_iff _)) in X. destruct P; [discriminate EP | discriminate X]. }
    pose proof (sort_props_perm P) as Hp.
    pose proof (norm_props_perm _ _ (Permutation_sym Hp) (conj Hnd Hn)) as [Hnd' Hn'].
    assert (Hn'' : Forall (fun kv => ascii_upper (fst kv) = fst kv /\ ascii_lower (snd kv) = snd kv) (sort_props P)).
    { exact Hn'. }
    destruct (enc_pairs_head (sort_props P) ([ERBRACE] ++ rest) Hne) as [k [r Hh]].
    cbn [app dec_block]. rewrite <- app_assoc. rewrite Hh. rewrite <- Hh.
    rewrite (dec_pairs_enc ascii_lower (sort_props P) [] ([ERBRACE] ++ rest) Hne Hnd' (fun _ _ F => F) Hn'' I).
    cbn [app].
    destruct (v_type n); reflexivity.
Qed.

Lemma dec_vnode_enc p l n rest : vnode_wf n ->
  dec_vnode (v_id n) (node_tail p l n ++ rest) = Some (proj_vnode p l n, rest).
Proof.
  intros [Hpred [Hprops [Hnd Hroles]]]. unfold node_tail. cbn [app dec_vnode].
  rewrite <- !app_assoc.
  set (tail_e := ELBRK :: enc_pairs (sort_roles (v_edges n)) ++ [ERBRK]).
  set (blk := if p && has_block n then _ else []).
  assert (Hlnk : edec_lnk ((if l && lnk_truthy (v_lnk n) then [ELNK (v_lnk n)] else [])
                           ++ match v_carg n with Some c => [ECARG (escape c)] | None => [] end ++ blk ++ tail_e ++ rest)
                 = (proj_lnk l (v_lnk n), match v_carg n with Some c => [ECARG (escape c)] | None => [] end ++ blk ++ tail_e ++ rest)).
  { unfold proj_lnk. destruct (l && lnk_truthy (v_lnk n)); [reflexivity|]. cbn [app].
    destruct (v_carg n); [reflexivity|]. cbn [app]. subst blk. destruct (p && has_block n); reflexivity. }
  rewrite Hlnk.
  assert (Hcarg : edec_carg (match v_carg n with Some c => [ECARG (escape c)] | None => [] end ++ blk ++ tail_e ++ rest)
                  = (v_carg n, blk ++ tail_e ++ rest)).
  { destruct (v_carg n); cbn [app edec_carg]; [rewrite unescape_escape; reflexivity|].
    subst blk. destruct (p && has_block n); reflexivity. }
  rewrite Hcarg. subst blk.
  rewrite (dec_block_enc p n (tail_e ++ rest) Hprops I).
  subst tail_e. cbn [app]. rewrite <- app_assoc. cbn [app].
  rewrite dec_edges_enc by assumption. rewrite Hpred. reflexivity.
Qed.

(* ---------------------------------------------------------------- *)
(* the node loop *)

Definition node_toks (disc : str -> bool) (p l : bool) (n : vnode) : list etok :=
  (if disc (v_id n) then [ENSTATUS] else []) ++ enc_vnode p l n.

Lemma dec_vnodes_enc disc p l nodes : forall acc fuel rest,
  Forall vnode_wf nodes -> (length (flat_map (node_toks disc p l) nodes) < fuel)%nat ->
  dec_vnodes fuel (flat_map (node_toks disc p l) nodes ++ ERBRACE :: rest) acc
  = Some (acc ++ map (proj_vnode p l) nodes, rest).
Proof.
  induction nodes as [|n nodes IH]; intros acc fuel rest Hwf Hfuel.
  - destruct fuel as [|fuel]; [cbn in Hfuel; lia|]. cbn. rewrite app_nil_r. reflexivity.
  - inversion Hwf as [|? ? Hn Hwf']; subst.
    destruct fuel as [|fuel]; [cbn in Hfuel; lia|].
    cbn [flat_map]. unfold node_toks at 1. rewrite enc_vnode_shape. rewrite <- !app_assoc.
    assert (Hstep : forall pre, (pre = [ENSTATUS] \/ pre = []) ->
              dec_vnodes (S fuel) (pre ++ (ESYM (v_id n) :: ECOLON :: node_tail p l n)
                                   ++ flat_map (node_toks disc p l) nodes ++ ERBRACE :: rest) acc
              = dec_vnodes fuel (flat_map (node_toks disc p l) nodes ++ ERBRACE :: rest) (acc ++ [proj_vnode p l n])).
    { intros pre [-> | ->]; cbn [app dec_vnodes]; rewrite dec_vnode_enc by exact Hn; reflexivity. }
    rewrite Hstep by (destruct (disc (v_id n)); [left | right]; reflexivity).
    rewrite IH; [cbn [map]; rewrite <- app_assoc; reflexivity | exact Hwf' |].
    cbn [flat_map] in Hfuel. rewrite app_length in Hfuel. unfold node_toks at 1 in Hfuel.
    rewrite app_length, enc_vnode_shape in Hfuel. cbn [length] in Hfuel. lia.
Qed.

(* ---------------------------------------------------------------- *)
(* the top *)

Lemma node_tail_shape p l n : exists t3 X, node_tail p l n = ESYM (v_pred n) :: t3 :: X /\ is_colon t3 = false.
Proof.
  unfold node_tail. destruct (l && lnk_truthy (v_lnk n)); [eexists; eexists; split; [reflexivity|reflexivity]|].
  cbn [app]. destruct (v_carg n); [eexists; eexists; split; [reflexivity|reflexivity]|].
  cbn [app]. destruct (p && has_block n); eexists; eexists; split; reflexivity.
Qed.

Lemma dec_top_enc (frag : bool) disc p l (top : option str) n nodes (rest : list etok) :
  dec_top (match top with Some t => [ESYM t; ECOLON] | None => [] end
           ++ (if frag then [EGSTATUS FRAGMENTED] else [])
           ++ flat_map (node_toks disc p l) (n :: nodes) ++ ERBRACE :: rest)
  = Some (top, flat_map (node_toks disc p l) (n :: nodes) ++ ERBRACE :: rest).
Proof.
  cbn [flat_map]. unfold node_toks at 1 3. rewrite enc_vnode_shape.
  destruct (node_tail_shape p l n) as [t3 [X [Ht Hc]]]. rewrite Ht.
  destruct top as [t|]; destruct frag; destruct (disc (v_id n)); cbn [app dec_top is_status skip_gstatus is_colon];
    rewrite ?Hc; reflexivity.
Qed.

(* ---------------------------------------------------------------- *)
(* the whole graph *)

Definition proj_veds (p l : bool) (g : veds) : veds :=
  {| ve_top := match ve_nodes g with [] => None | _ => ve_top g end;
     ve_nodes := map (proj_vnode p l) (ve_nodes g);
     ve_ident := match ve_ident g with Some (c :: i) => Some (c :: i) | _ => None end |}.

Theorem dec_enc_gen frag disc p l g rest : Forall vnode_wf (ve_nodes g) ->
  dec_eds (enc_gen frag disc p l g ++ rest) = Some (proj_veds p l g, rest).
Proof.
  intros Hwf. unfold enc_gen, proj_veds.
  assert (Hid : forall body,
            dec_eds ((match ve_ident g with Some (c :: i) => [EIDENT (c :: i)] | _ => [] end ++ ELBRACE :: body) ++ rest)
            = match dec_top (body ++ rest) with
              | Some (top, ts2) =>
                  match dec_vnodes (S (length ts2)) ts2 [] with
                  | Some (nodes, ts3) =>
                      Some ({| ve_top := top; ve_nodes := nodes;
                               ve_ident := match ve_ident g with Some (c :: i) => Some (c :: i) | _ => None end |}, ts3)
                  | None => None
                  end
              | None => None
              end).
  { intros body. destruct (ve_ident g) as [[|c i]|]; reflexivity. }
  rewrite Hid. clear Hid.
  destruct (ve_nodes g) as [|n nodes] eqn:En.
  - cbn [app dec_top]. cbn [dec_vnodes length]. reflexivity.
  - rewrite <- !app_assoc. cbn [app].
    change (flat_map (fun n0 : vnode => (if disc (v_id n0) then [ENSTATUS] else []) ++ enc_vnode p l n0) (n :: nodes))
      with (flat_map (node_toks disc p l) (n :: nodes)).
    rewrite dec_top_enc.
    rewrite (dec_vnodes_enc disc p l (n :: nodes) [] _ rest Hwf).
    2:{ rewrite app_length. cbn [length]. lia. }
    reflexivity.
Qed.

(* the encoder proper is an instance: its status markers never disturb the decoder *)
Corollary dec_enc_veds p l st g toks rest : Forall vnode_wf (ve_nodes g) ->
  enc_veds p l st g = Some toks -> dec_eds (toks ++ rest) = Some (proj_veds p l g, rest).
Proof.
  intros Hwf H. unfold enc_veds in H. destruct (ve_nodes g) eqn:En.
  - inversion H; subst. apply dec_enc_gen. rewrite En. constructor.
  - destruct (edges_closed g); [|discriminate]. inversion H; subst. apply dec_enc_gen. rewrite En. exact Hwf.
Qed.

(* the main component used for the markers is exactly the set of nodes
   connected to the start by edges taken in either direction *)
Lemma main_comp_spec g start x :
  (match ve_top g with Some t => Some t | None => hd_error (node_ids g) end) = Some start ->
  (In x (main_comp g) <-> clos_refl_trans _ (fun a b => In (a, b) (und_edges (ve_nodes g))) start x).
Proof.
  intros H. unfold main_comp. rewrite H. apply reach_spec. intros a b. apply str_eqb_spec.
Qed.

(* non-vacuity *)
Definition ex_e : veds :=
  {| ve_top := Some [101;50]%N;
     ve_nodes := [ {| v_id := [95;49]%N; v_pred := [95;116;104;101;95;113]%N; v_type := None;
                      v_edges := [([66;86]%N, [120;51]%N)]; v_props := []; v_carg := None; v_lnk := LChar 0 3 |};
                   {| v_id := [120;51]%N; v_pred := [110;97;109;101;100]%N; v_type := Some [120]%N;
                      v_edges := []; v_props := [([78;85;77]%N, [115;103]%N); ([80;69;82;83]%N, [51]%N)];
                      v_carg := Some [75;34;105;109]%N; v_lnk := LChar 4 7 |};
                   {| v_id := [101;50]%N; v_pred := [95;98;97;114;107;95;118;95;49]%N; v_type := Some [101]%N;
                      v_edges := [([65;82;71;50]%N, [120;51]%N); ([65;82;71;49]%N, [120;51]%N)];
                      v_props := [([84;69;78;83;69]%N, [112;114;101;115]%N)]; v_carg := None; v_lnk := LNone |};
                   {| v_id := [105;57]%N; v_pred := [112;114;111;110]%N; v_type := Some [105]%N;
                      v_edges := []; v_props := []; v_carg := None; v_lnk := LNone |} ];
     ve_ident := Some [49;48]%N |}.

Example ex_e_wf : Forall vnode_wf (ve_nodes ex_e).
Proof.
  repeat (apply Forall_cons;
          [split; [reflexivity|]; split;
           [split; [cbn [map fst v_props]; repeat (apply NoDup_cons; [cbn; intuition congruence|]); apply NoDup_nil
                   | repeat (apply Forall_cons; [split; reflexivity|]); apply Forall_nil]|];
           split; [cbn [map fst v_edges]; repeat (apply NoDup_cons; [cbn; intuition congruence|]); apply NoDup_nil
                  | repeat (apply Forall_cons; [reflexivity|]); apply Forall_nil]|]).
  apply Forall_nil.
Qed.

Example ex_e_markers : exists toks, enc_veds true true true ex_e = Some toks /\ length toks = 53%nat
                                     /\ In (EGSTATUS FRAGMENTED) toks /\ In ENSTATUS toks.
Proof. eexists. split; [vm_compute; reflexivity|]. split; [reflexivity|]. split; vm_compute; tauto. Qed.

(* ---------------------------------------------------------------- *)
(* stability: encoding the decoded graph again gives the same tokens *)

From PyD Require Import Proofs.SimpleMrsStable.

Lemma enc_vnode_proj p l n : enc_vnode p l (proj_vnode p l n) = enc_vnode p l n.
Proof.
  unfold enc_vnode, proj_vnode. cbn [v_id v_pred v_lnk v_carg v_type v_props v_edges].
  rewrite sort_roles_idem.
  assert (Hl : (if l && lnk_truthy (proj_lnk l (v_lnk n)) then [ELNK (proj_lnk l (v_lnk n))] else [])
               = (if l && lnk_truthy (v_lnk n) then [ELNK (v_lnk n)] else [])).
  { unfold proj_lnk. destruct l; [|reflexivity]. cbn [andb]. destruct (lnk_truthy (v_lnk n)) eqn:E; [rewrite E|]; reflexivity. }
  rewrite Hl. f_equal. f_equal. f_equal. f_equal.
  unfold has_block, proj_type. cbn [v_props v_type].
  destruct p; cbn [andb]; [|reflexivity].
  rewrite sort_props_idem.
  destruct (v_props n) as [|q qs] eqn:Ep.
  - cbn [sort_props fold_right]. destruct (v_type n); reflexivity.
  - assert (Hne : sort_props (q :: qs) <> []) by (intros X; apply sort_props_nil in X; discriminate).
    destruct (sort_props (q :: qs)) as [|s0 ss] eqn:Es; [contradiction Hne; reflexivity|].
    destruct (v_type n); reflexivity.
Qed.

Theorem enc_gen_stable frag disc p l g : enc_gen frag disc p l (proj_veds p l g) = enc_gen frag disc p l g.
Proof.
  assert (Hn : forall nodes,
            flat_map (fun n => (if disc (v_id n) then [ENSTATUS] else []) ++ enc_vnode p l n) (map (proj_vnode p l) nodes)
            = flat_map (fun n => (if disc (v_id n) then [ENSTATUS] else []) ++ enc_vnode p l n) nodes).
  { induction nodes as [|x xs IH]; [reflexivity|]. cbn [map flat_map]. rewrite IH, enc_vnode_proj. reflexivity. }
  unfold enc_gen, proj_veds. cbn [ve_ident ve_nodes ve_top].
  destruct (ve_ident g) as [[|c i]|]; destruct (ve_nodes g) as [|n ns]; cbn [map]; try reflexivity;
    change (proj_vnode p l n :: map (proj_vnode p l) ns) with (map (proj_vnode p l) (n :: ns)); rewrite Hn; reflexivity.
Qed.
