(* Proofs about Model/Repp.v (C13, C14). *)
From Coq Require Import List NArith ZArith Bool Arith Lia.
From PyD Require Import Base.Str Base.PySlice Model.Repp.
Import ListNotations.

(* ---- a rule is a global substitution ---- *)

(* the text a template stands for in one match: group references replaced *)
Definition expand (s : str) (m : mtch) (segs : list seg) : str := flat_map (seg_text s m) segs.

(* gaps and expansions: what re.sub is documented to produce *)
Fixpoint subst (s : str) (ms : list mtch) (segs : list seg) (pos : nat) : str :=
  match ms with
  | [] => skipn pos s
  | m :: ms' => substr s pos (m_start m) ++ expand s m segs ++ subst s ms' segs (m_end m)
  end.

Lemma tracked_loop_sub s m shift : forall segs start endp delta acc start' delta' acc',
  tracked_loop s m shift segs start endp delta acc = Some (start', delta', acc') ->
  p_sub acc' = p_sub acc ++ expand s m segs /\
  length (p_smap acc') = (length (p_smap acc) + length (expand s m segs))%nat /\
  length (p_emap acc') = (length (p_emap acc) + length (expand s m segs))%nat.
Proof.
  induction segs as [|sg segs IH]; intros start endp delta acc start' delta' acc' H; simpl in H.
  - inversion H; subst. unfold expand; simpl. rewrite app_nil_r. repeat split; lia.
  - destruct sg as [lit|g].
    + apply IH in H. simpl in H. destruct H as (A & B & C).
      unfold expand in *. simpl. rewrite A, B, C, <- app_assoc, !app_length.
      unfold insert_smap, insert_emap. rewrite !map_length, !seq_length. repeat split; lia.
    + destruct (0 <=? grp_start m g)%Z;
        apply IH in H; simpl in H; destruct H as (A & B & C);
        unfold expand in *; simpl; rewrite A, B, C, <- app_assoc, !app_length;
        unfold copy_map; rewrite !repeat_length; repeat split; lia.
Qed.

Lemma tracked_loop_total s m shift : forall segs start endp delta acc,
  tracked_loop s m shift segs start endp delta acc <> None.
Proof.
  induction segs as [|sg segs IH]; intros; simpl; [discriminate|].
  destruct sg; [apply IH|]. destruct (0 <=? grp_start m g)%Z; apply IH.
Qed.

Lemma process_match_raw_spec s m shift tr un :
  exists p, process_match_raw s m shift tr un = Some p /\
    p_sub p = expand s m (tr ++ un) /\
    length (p_smap p) = length (p_sub p) /\ length (p_emap p) = length (p_sub p).
Proof.
  unfold process_match_raw.
  destruct tr as [|t0 tr']; [destruct un as [|u0 un']|].
  - eexists; split; [reflexivity|]. simpl. repeat split; reflexivity.
  - simpl tracked_loop. eexists; split; [reflexivity|]. simpl.
    unfold expand. simpl. unfold insert_smap, insert_emap.
    rewrite !map_length, !seq_length. repeat split; reflexivity.
  - set (tr := t0 :: tr').
    destruct (tracked_loop s m shift tr (Z.of_nat (m_start m)) (first_group_start m tr) 0
                {| p_sub := []; p_smap := []; p_emap := []; p_delta := 0 |})
      as [[[start delta] acc]|] eqn:E; [|exfalso; revert E; apply tracked_loop_total].
    apply tracked_loop_sub in E. cbn [p_sub p_smap p_emap app length Nat.add] in E. destruct E as (A & B & C).
    destruct un as [|u0 un'].
    + eexists; split; [reflexivity|]. simpl. rewrite app_nil_r. rewrite A, B, C.
      repeat split; reflexivity.
    + eexists; split; [reflexivity|]. cbn [p_sub p_smap p_emap].
      unfold expand in *. rewrite flat_map_app. rewrite A.
      rewrite !app_length, B, C. unfold insert_smap, insert_emap.
      rewrite !map_length, !seq_length, ?app_length. repeat split; try reflexivity; lia.
Qed.

Lemma process_match_spec s m shift tr un :
  exists p, process_match s m shift tr un = Some p /\
    p_sub p = expand s m (tr ++ un) /\
    length (p_smap p) = length (p_sub p) /\ length (p_emap p) = length (p_sub p).
Proof.
  destruct (process_match_raw_spec s m shift tr un) as (p & Hp & A & B & C).
  unfold process_match. rewrite Hp. eexists; split; [reflexivity|]. simpl. auto.
Qed.

Lemma rule_loop_spec s tr un : forall ms pos shift acc,
  length (r_smap acc) = S (length (r_out acc)) -> length (r_emap acc) = S (length (r_out acc)) ->
  exists r, rule_loop s ms tr un pos shift acc = Some r /\
    r_out r = r_out acc ++ subst s ms (tr ++ un) pos /\
    length (r_smap r) = (length (r_out r) + 2)%nat /\ length (r_emap r) = (length (r_out r) + 2)%nat.
Proof.
  induction ms as [|m ms IH]; intros pos shift acc Hs He; simpl.
  - eexists; split; [reflexivity|]. simpl. rewrite !app_length, Hs, He. unfold copy_map.
    rewrite repeat_length. simpl. repeat split; lia.
  - destruct (process_match_spec s m shift tr un) as (p & Hp & Hsub & Hps & Hpe).
    rewrite Hp.
    set (acc' := {| r_out := r_out acc ++ substr s pos (m_start m) ++ p_sub p;
                    r_smap := r_smap acc ++ copy_map (length (substr s pos (m_start m))) shift ++ p_smap p;
                    r_emap := r_emap acc ++ copy_map (length (substr s pos (m_start m))) shift ++ p_emap p |}).
    destruct (IH (m_end m) (shift + p_delta p) acc') as (r & Hr & Ho & Hl1 & Hl2).
    + unfold acc'; simpl. rewrite !app_length, Hs, Hps. unfold copy_map. rewrite repeat_length. lia.
    + unfold acc'; simpl. rewrite !app_length, He, Hpe. unfold copy_map. rewrite repeat_length. lia.
    + exists r. split; [exact Hr|]. split; [|split; assumption].
      rewrite Ho. unfold acc'; simpl. rewrite Hsub, <- !app_assoc. reflexivity.
Qed.

(* C13: the output string of a rule = gaps + expansions, for every match list;
   C14: both offset maps have one entry per output position plus two sentinels;
   the rule application is total (no exception) *)
Theorem apply_rule_spec s ms tr un :
  exists st, apply_rule s ms tr un = Some st /\
    st_in st = s /\ st_out st = subst s ms (tr ++ un) 0 /\
    length (st_smap st) = (length (st_out st) + 2)%nat /\
    length (st_emap st) = (length (st_out st) + 2)%nat /\
    st_applied st = negb (match ms with [] => true | _ => false end).
Proof.
  unfold apply_rule. destruct ms as [|m ms].
  - eexists; split; [reflexivity|]. simpl. unfold zeromap. rewrite repeat_length.
    repeat split; try reflexivity; lia.
  - destruct (rule_loop_spec s tr un (m :: ms) 0 0 {| r_out := []; r_smap := [0%Z]; r_emap := [0%Z] |})
      as (r & Hr & Ho & Hl1 & Hl2); [reflexivity | reflexivity |].
    rewrite Hr. eexists; split; [reflexivity|]. cbn [st_in st_out st_smap st_emap st_applied].
    cbn [r_out app] in Ho. repeat split; try assumption; reflexivity.
Qed.

Theorem no_match_identity s tr un :
  exists st, apply_rule s [] tr un = Some st /\ st_out st = s /\ st_applied st = false.
Proof. eexists; split; [reflexivity|]. simpl. auto. Qed.

(* the segments are exactly the parsed template, split in two *)
Theorem get_segments_app segs : fst (get_segments segs) ++ snd (get_segments segs) = segs.
Proof. unfold get_segments. simpl. apply firstn_skipn. Qed.

(* ---- _mergemap keeps the length of the step's map ---- *)
Lemma mergemap_length map1 map2 l : mergemap map1 map2 = Some l -> length l = length map2.
Proof.
  unfold mergemap. generalize 0%Z as i. revert l.
  induction map2 as [|sh map2 IH]; intros l i H.
  - inversion H; reflexivity.
  - destruct (py_getitem map1 (i + sh)) as [v|]; [|discriminate].
    match type of H with context [?f (i + 1)%Z map2] => destruct (f (i + 1)%Z map2) as [rest|] eqn:E end;
      [|discriminate].
    inversion H; subst. simpl. f_equal. eapply IH. exact E.
Qed.

(* ---- program semantics: the string-only reference interpreter ---- *)
Section Sem.
Variable orc : oracle.
Variable active : list str.

Fixpoint sem_op (fuel : nat) (o : op) (s : str) : option str :=
  match fuel with
  | O => None
  | S f =>
      match o with
      | ORule rid tr un =>
          match lookup_orc orc rid s with
          | Some ms => Some (subst s ms (tr ++ un) 0)     (* global substitution *)
          | None => None
          end
      | OMask _ => Some s                                 (* a mask alone changes nothing *)
      | OIter ops => sem_iter f ops s                     (* re-run until the output stops changing *)
      | OExt name ops => if mem_str name active then sem_group f ops s else Some s
      end
  end
with sem_ops (fuel : nat) (ops : list op) (s : str) : option str :=
  match fuel with
  | O => None
  | S f =>
      match ops with
      | [] => Some s
      | o :: ops' => match sem_op f o s with
                     | Some s1 => sem_ops f ops' s1       (* rules in order *)
                     | None => None
                     end
      end
  end
with sem_group (fuel : nat) (ops : list op) (s : str) : option str :=
  match fuel with
  | O => None
  | S f => sem_ops f ops s
  end
with sem_iter (fuel : nat) (ops : list op) (s : str) : option str :=
  match fuel with
  | O => None
  | S f =>
      match sem_group f ops s with
      | Some o => if str_eqb s o then Some o else sem_iter f ops o
      | None => None
      end
  end.

Definition step_wf (st : step) : Prop :=
  length (st_smap st) = (length (st_out st) + 2)%nat /\
  length (st_emap st) = (length (st_out st) + 2)%nat.

(* the rule/mask steps of a trace form a chain from the input to the output *)
Fixpoint chain (s : str) (steps : list step) (out : str) : Prop :=
  match steps with
  | [] => s = out
  | st :: r => st_in st = s /\ chain (st_out st) r out
  end.

Definition leaves (steps : list step) : list step := filter st_leaf steps.

Lemma chain_app s l1 mid l2 out : chain s l1 mid -> chain mid l2 out -> chain s (l1 ++ l2) out.
Proof.
  revert s. induction l1 as [|st l1 IH]; intros s H1 H2; simpl in *.
  - subst. exact H2.
  - destruct H1 as [A B]. split; [exact A | apply IH; assumption].
Qed.

Lemma leaves_app a b : leaves (a ++ b) = leaves a ++ leaves b.
Proof. apply filter_app. Qed.

Definition good (s : str) (r : res) (sem : option str) : Prop :=
  match r with
  | ROk steps out a =>
      sem = Some out /\ Forall step_wf steps /\ chain s (leaves steps) out
  | _ => True
  end.

Lemma zeromap_wf o : length (zeromap o) = (length o + 2)%nat.
Proof. unfold zeromap. apply repeat_length. Qed.

Lemma last_app_single {A} (l : list A) x d : last (l ++ [x]) d = x.
Proof. induction l as [|y l IH]; simpl; [reflexivity|]. destruct (l ++ [x]) eqn:E; [destruct l; discriminate|]. exact IH. Qed.

Theorem run_sem : forall fuel,
  (forall o s, good s (run_op orc active fuel o s) (sem_op fuel o s)) /\
  (forall ops s, good s (run_ops orc active fuel ops s) (sem_ops fuel ops s)) /\
  (forall ops s, good s (run_group orc active fuel ops s) (sem_group fuel ops s)) /\
  (forall ops s, good s (run_iter orc active fuel ops s) (sem_iter fuel ops s)).
Proof.
  induction fuel as [|f (IHop & IHops & IHgrp & IHit)]; [repeat split; intros; exact I|].
  assert (Hop : forall o s, good s (run_op orc active (S f) o s) (sem_op (S f) o s)).
  { intros o s. destruct o as [rid tr un|rid|ops|name ops]; simpl.
    - destruct (lookup_orc orc rid s) as [ms|]; [|exact I].
      destruct (apply_rule_spec s ms tr un) as (st & Hst & Hin & Hout & Hl1 & Hl2 & Ha).
      rewrite Hst. simpl. split; [congruence|]. split; [constructor; [split; assumption | constructor]|].
      unfold leaves; simpl.
      assert (st_leaf st = true) as ->.
      { unfold apply_rule in Hst. destruct ms; [inversion Hst; reflexivity|].
        destruct (rule_loop _ _ _ _ _ _ _); inversion Hst; reflexivity. }
      simpl. split; [exact Hin | reflexivity].
    - split; [reflexivity|]. split; [constructor; [split; simpl; apply zeromap_wf | constructor]|].
      unfold leaves; simpl; split; reflexivity.
    - apply IHit.
    - destruct (mem_str name active); [apply IHgrp|].
      simpl. split; [reflexivity|]. split; [constructor|]. reflexivity. }
  assert (Hops : forall ops s, good s (run_ops orc active (S f) ops s) (sem_ops (S f) ops s)).
  { intros ops s. destruct ops as [|o ops]; simpl.
    - split; [reflexivity|]. split; [constructor|]. reflexivity.
    - specialize (IHop o s). destruct (run_op orc active f o s) as [st1 o1 a1| |]; try exact I.
      destruct IHop as (E1 & W1 & C1). rewrite E1.
      specialize (IHops ops o1). destruct (run_ops orc active f ops o1) as [st2 o2 a2| |]; try exact I.
      destruct IHops as (E2 & W2 & C2). simpl.
      split; [exact E2|]. split; [apply Forall_app; split; assumption|].
      rewrite leaves_app; eapply chain_app; eassumption. }
  assert (Hgrp : forall ops s, good s (run_group orc active (S f) ops s) (sem_group (S f) ops s)).
  { intros ops s. simpl. specialize (IHops ops s).
    destruct (run_ops orc active f ops s) as [st o a| |]; try exact I.
    destruct IHops as (E & W & C). simpl. split; [exact E|].
    split; [apply Forall_app; split; [exact W|]; constructor; [|constructor];
            split; simpl; apply zeromap_wf|].
    rewrite leaves_app; unfold leaves at 2; simpl; rewrite app_nil_r; exact C. }
  assert (Hit : forall ops s, good s (run_iter orc active (S f) ops s) (sem_iter (S f) ops s)).
  { intros ops s. simpl. specialize (IHgrp ops s).
    destruct (run_group orc active f ops s) as [st o a| |]; try exact I.
    destruct IHgrp as (E & W & C). rewrite E.
    destruct (str_eqb s o) eqn:Eso; [simpl; auto|].
    specialize (IHit ops o). destruct (run_iter orc active f ops o) as [st2 o2 a2| |]; try exact I.
    destruct IHit as (E2 & W2 & C2). simpl. split; [exact E2|].
    split; [apply Forall_app; split; assumption|].
    rewrite leaves_app; eapply chain_app; eassumption. }
  repeat split; assumption.
Qed.

(* the last element of a (top-level) trace is the summary step whose output is
   the result of apply *)
Theorem run_group_last fuel ops s steps out a :
  run_group orc active fuel ops s = ROk steps out a ->
  exists before, steps = before ++ [group_step s out a].
Proof.
  destruct fuel as [|f]; simpl; [discriminate|].
  destruct (run_ops orc active f ops s) as [st o a'| |]; try discriminate.
  intros H; inversion H; subst. exists st. reflexivity.
Qed.

End Sem.

(* ---- C14: provenance of characters copied from outside all matches ---- *)
Open Scope nat_scope.

(* matches are in order, do not overlap and lie inside the string *)
Fixpoint ms_ok (s : str) (ms : list mtch) (pos : nat) : Prop :=
  match ms with
  | [] => pos <= length s
  | m :: ms' => pos <= m_start m /\ m_start m <= m_end m /\ m_end m <= length s /\ ms_ok s ms' (m_end m)
  end.

(* the length change a match reports is exactly matched width - replacement length *)
Definition delta_ok (s : str) (m : mtch) (tr un : list seg) : Prop :=
  forall shift p, process_match s m shift tr un = Some p ->
    p_delta p = (Z.of_nat (m_end m) - Z.of_nat (m_start m) - Z.of_nat (length (p_sub p)))%Z.

(* (output position, original position) of every character copied from a gap *)
Fixpoint gap_pairs (s : str) (ms : list mtch) (segs : list seg) (pos outpos : nat) : list (nat * nat) :=
  match ms with
  | [] => map (fun k => (outpos + k, pos + k)) (seq 0 (length s - pos))
  | m :: ms' =>
      map (fun k => (outpos + k, pos + k)) (seq 0 (m_start m - pos)) ++
      gap_pairs s ms' segs (m_end m) (outpos + (m_start m - pos) + length (expand s m segs))
  end.

Lemma substr_length s a b : a <= b -> b <= length s -> length (substr s a b) = b - a.
Proof. intros H1 H2. unfold substr. rewrite firstn_length, skipn_length. lia. Qed.

Lemma rule_loop_prefix s tr un : forall ms pos shift acc r,
  rule_loop s ms tr un pos shift acc = Some r ->
  exists x y, r_smap r = r_smap acc ++ x /\ r_emap r = r_emap acc ++ y.
Proof.
  induction ms as [|m ms IH]; intros pos shift acc r H; simpl in H.
  - inversion H; subst; simpl. eexists; eexists; split; reflexivity.
  - destruct (process_match s m shift tr un) as [p|]; [|discriminate].
    apply IH in H. destruct H as (x & y & Hx & Hy). simpl in Hx, Hy.
    rewrite <- app_assoc in Hx, Hy. eexists; eexists; split; eassumption.
Qed.

Lemma nth_error_repeat_in {A} (x : A) n k : k < n -> nth_error (repeat x n) k = Some x.
Proof. revert k. induction n as [|n IH]; intros k H; [lia|]. destruct k; simpl; [reflexivity|]. apply IH. lia. Qed.

Theorem gap_provenance s tr un : forall ms pos shift acc r,
  rule_loop s ms tr un pos shift acc = Some r ->
  ms_ok s ms pos -> (forall m, In m ms -> delta_ok s m tr un) ->
  length (r_smap acc) = S (length (r_out acc)) -> length (r_emap acc) = S (length (r_out acc)) ->
  shift = (Z.of_nat pos - Z.of_nat (length (r_out acc)))%Z ->
  forall j o, In (j, o) (gap_pairs s ms (tr ++ un) pos (length (r_out acc))) ->
    nth_error (r_smap r) (S j) = Some (Z.of_nat o - Z.of_nat j)%Z /\
    nth_error (r_emap r) (S j) = Some (Z.of_nat o - Z.of_nat j)%Z.
Proof.
  induction ms as [|m ms IH]; intros pos shift acc r H Hok Hd Hs He Hsh j o Hin; simpl in H, Hin.
  - inversion H; subst r; clear H. cbn [r_smap r_emap]. apply in_map_iff in Hin. destruct Hin as (k & E & Hk).
    inversion E; subst j o. apply in_seq in Hk. simpl in Hok.
    assert (Hl : length (skipn pos s) = length s - pos) by apply skipn_length.
    split; (rewrite nth_error_app2 by lia); rewrite ?Hs, ?He;
      replace (S (length (r_out acc) + k) - S (length (r_out acc))) with k by lia;
      unfold copy_map; (rewrite nth_error_app1 by (rewrite repeat_length; lia));
      (rewrite nth_error_repeat_in by lia); f_equal; lia.
  - destruct Hok as (H1 & H2 & H3 & Hok').
    destruct (process_match s m shift tr un) as [p|] eqn:Hp; [|discriminate].
    assert (Hdm : delta_ok s m tr un) by (apply Hd; left; reflexivity).
    pose proof (Hdm shift p Hp) as Hdelta.
    destruct (process_match_spec s m shift tr un) as (p' & Hp' & Hsub & Hps & Hpe).
    rewrite Hp in Hp'. inversion Hp'; subst p'; clear Hp'.
    assert (Hgl : length (substr s pos (m_start m)) = m_start m - pos) by (apply substr_length; lia).
    set (acc' := {| r_out := r_out acc ++ substr s pos (m_start m) ++ p_sub p;
                    r_smap := r_smap acc ++ copy_map (length (substr s pos (m_start m))) shift ++ p_smap p;
                    r_emap := r_emap acc ++ copy_map (length (substr s pos (m_start m))) shift ++ p_emap p |}) in *.
    apply in_app_or in Hin. destruct Hin as [Hin|Hin].
    + apply in_map_iff in Hin. destruct Hin as (k & E & Hk). inversion E; subst j o. apply in_seq in Hk.
      destruct (rule_loop_prefix _ _ _ _ _ _ _ _ H) as (x & y & Hx & Hy). rewrite Hx, Hy. unfold acc'; cbn [r_smap r_emap].
      rewrite <- !app_assoc.
      split; (rewrite nth_error_app2 by lia); rewrite ?Hs, ?He;
        replace (S (length (r_out acc) + k) - S (length (r_out acc))) with k by lia;
        unfold copy_map; (rewrite nth_error_app1 by (rewrite repeat_length; lia));
        (rewrite nth_error_repeat_in by lia); f_equal; lia.
    + apply (IH (m_end m) (shift + p_delta p)%Z acc' r H Hok'); auto.
      * intros m' Hm'. apply Hd. right; exact Hm'.
      * unfold acc'; simpl. rewrite !app_length, Hs, Hps. unfold copy_map. rewrite repeat_length. lia.
      * unfold acc'; simpl. rewrite !app_length, He, Hpe. unfold copy_map. rewrite repeat_length. lia.
      * unfold acc'; simpl. rewrite !app_length, Hgl, Hdelta. lia.
      * unfold acc'; simpl. rewrite !app_length, Hgl, Hsub. rewrite Nat.add_assoc. exact Hin.
Qed.

(* at the level of one rule application *)
Theorem rule_gap_provenance s ms tr un st :
  ms <> [] -> apply_rule s ms tr un = Some st ->
  ms_ok s ms 0 -> (forall m, In m ms -> delta_ok s m tr un) ->
  forall j o, In (j, o) (gap_pairs s ms (tr ++ un) 0 0) ->
    nth_error (st_smap st) (S j) = Some (Z.of_nat o - Z.of_nat j)%Z /\
    nth_error (st_emap st) (S j) = Some (Z.of_nat o - Z.of_nat j)%Z.
Proof.
  intros Hne H Hok Hd j o Hin. unfold apply_rule in H. destruct ms as [|m ms]; [congruence|].
  destruct (rule_loop s (m :: ms) tr un 0 0 {| r_out := []; r_smap := [0%Z]; r_emap := [0%Z] |}) as [r|] eqn:E;
    [|discriminate].
  inversion H; subst st; simpl.
  apply (gap_provenance s tr un (m :: ms) 0 0%Z _ r E Hok Hd); auto.
Qed.

(* the accounting hypothesis holds for every match and every template *)
Theorem delta_ok_all s m tr un : delta_ok s m tr un.
Proof.
  intros shift p H. unfold process_match in H.
  destruct (process_match_raw s m shift tr un) as [q|]; [|discriminate].
  inversion H; subst; simpl. reflexivity.
Qed.

(* hence: every character copied from outside all matches is attributed to its
   original position, for every template *)
Theorem rule_gap_provenance_all s ms tr un st :
  ms <> [] -> apply_rule s ms tr un = Some st -> ms_ok s ms 0 ->
  forall j o, In (j, o) (gap_pairs s ms (tr ++ un) 0 0) ->
    nth_error (st_smap st) (S j) = Some (Z.of_nat o - Z.of_nat j)%Z /\
    nth_error (st_emap st) (S j) = Some (Z.of_nat o - Z.of_nat j)%Z.
Proof.
  intros Hne H Hok. apply (rule_gap_provenance s ms tr un st Hne H Hok).
  intros m _. apply delta_ok_all.
Qed.
