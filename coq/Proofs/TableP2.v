(* More proofs about Model/Table.v (C10): slice reads, slice and item
   assignment, update, and the refinement over whole histories. *)
From Coq Require Import List ZArith Bool Arith Lia.
From PyD Require Import Base.Str Base.PySlice Model.TsdbFiles Model.Table Proofs.TableP.
Import ListNotations.
Open Scope nat_scope.

(* ---- strictly increasing index lists ---- *)
Fixpoint incr_from (lo : Z) (idx : list Z) : Prop :=
  match idx with [] => True | x :: r => (lo <= x)%Z /\ incr_from (x + 1) r end.

Fixpoint decr_from (hi : Z) (idx : list Z) : Prop :=
  match idx with [] => True | x :: r => (x <= hi)%Z /\ decr_from (x - 1) r end.

Lemma incr_from_weaken lo lo' l : incr_from lo l -> (forall x, In x l -> (lo' <= x)%Z) -> incr_from lo' l.
Proof.
  destruct l as [|x r]; simpl; [auto|]. intros [_ H] Hin. split; [apply Hin; left; reflexivity | exact H].
Qed.

Lemma incr_from_ge lo l : incr_from lo l -> forall x, In x l -> (lo <= x)%Z.
Proof.
  revert lo. induction l as [|y r IH]; intros lo H x Hin; [contradiction|].
  destruct H as [H1 H2]. destruct Hin as [<-|Hin]; [exact H1|].
  specialize (IH _ H2 x Hin). lia.
Qed.

Lemma decr_from_le hi l : decr_from hi l -> forall x, In x l -> (x <= hi)%Z.
Proof.
  revert hi. induction l as [|y r IH]; intros hi H x Hin; [contradiction|].
  destruct H as [H1 H2]. destruct Hin as [<-|Hin]; [exact H1|].
  specialize (IH _ H2 x Hin). lia.
Qed.

Lemma incr_from_snoc l : forall lo x, incr_from lo l -> (forall y, In y l -> (y < x)%Z) -> (lo <= x)%Z ->
  incr_from lo (l ++ [x]).
Proof.
  induction l as [|y r IH]; intros lo x H Hlt Hlo; simpl.
  - split; [exact Hlo | exact I].
  - destruct H as [H1 H2]. split; [exact H1|].
    apply IH; [exact H2 | intros z Hz; apply Hlt; right; exact Hz |].
    specialize (Hlt y (or_introl eq_refl)). lia.
Qed.

Lemma incr_rev l : forall hi lo, decr_from hi l -> (forall x, In x l -> (lo <= x)%Z) -> incr_from lo (rev l).
Proof.
  induction l as [|x r IH]; intros hi lo H Hlo; simpl; [exact I|].
  destruct H as [H1 H2].
  apply incr_from_snoc.
  - apply (IH (x - 1)%Z lo H2). intros y Hy. apply Hlo. right. exact Hy.
  - intros y Hy. apply in_rev in Hy. pose proof (decr_from_le _ _ H2 y Hy). lia.
  - apply Hlo. left. reflexivity.
Qed.

Lemma range_incr a c : (c > 0)%Z -> forall n k0 lo, (lo <= a + Z.of_nat k0 * c)%Z ->
  incr_from lo (map (fun k => (a + Z.of_nat k * c)%Z) (seq k0 n)).
Proof.
  intros Hc. induction n as [|n IH]; intros k0 lo Hlo; simpl; [exact I|].
  split; [exact Hlo|]. apply IH. lia.
Qed.

Lemma range_decr a c : (c < 0)%Z -> forall n k0 hi, (a + Z.of_nat k0 * c <= hi)%Z ->
  decr_from hi (map (fun k => (a + Z.of_nat k * c)%Z) (seq k0 n)).
Proof.
  intros Hc. induction n as [|n IH]; intros k0 hi Hhi; simpl; [exact I|].
  split; [exact Hhi|]. apply IH. lia.
Qed.

Lemma py_range_incr a b c : (c > 0)%Z -> incr_from a (py_range a b c).
Proof. intros Hc. unfold py_range. apply range_incr; [exact Hc | lia]. Qed.

Lemma py_range_decr a b c : (c < 0)%Z -> decr_from a (py_range a b c).
Proof. intros Hc. unfold py_range. apply range_decr; [exact Hc | lia]. Qed.

(* ---- reading the selected positions ---- *)
Lemma in_range_nil i : in_range [] i = false.
Proof. reflexivity. Qed.

Lemma in_range_rev idx i : in_range (rev idx) i = in_range idx i.
Proof.
  unfold in_range. destruct (existsb _ idx) eqn:E.
  - apply existsb_exists in E. destruct E as [x [Hx Ex]]. apply existsb_exists. exists x.
    split; [apply in_rev; rewrite rev_involutive; exact Hx | exact Ex].
  - destruct (existsb _ (rev idx)) eqn:E2; [|reflexivity].
    apply existsb_exists in E2. destruct E2 as [x [Hx Ex]]. apply in_rev in Hx.
    assert (existsb (Z.eqb (Z.of_nat i)) idx = true) by (apply existsb_exists; exists x; auto). congruence.
Qed.

Lemma flat_map_ext_in {A B} (f g : A -> list B) l :
  (forall a, In a l -> f a = g a) -> flat_map f l = flat_map g l.
Proof.
  induction l as [|x l IH]; intros H; simpl; [reflexivity|].
  rewrite (H x (or_introl eq_refl)), IH; [reflexivity|]. intros a Ha. apply H. right. exact Ha.
Qed.

Definition sel (l : list row) (off : nat) (x : Z) : list row :=
  match nth_error l (Z.to_nat x - off) with Some r => [r] | None => [] end.

Lemma enum_none rows : forall i lines w, (forall j, i <= j < i + length rows -> w j = false) ->
  enum_go i rows lines w = [].
Proof.
  induction rows as [|r rows IH]; intros i lines w H; simpl; [reflexivity|].
  rewrite (H i) by (simpl; lia). apply IH. intros j Hj. apply H. simpl. lia.
Qed.

Lemma in_range_false idx i : (forall x, In x idx -> x <> Z.of_nat i) -> in_range idx i = false.
Proof.
  intros H. unfold in_range. destruct (existsb _ idx) eqn:E; [|reflexivity].
  apply existsb_exists in E. destruct E as [x [Hx Ex]]. apply Z.eqb_eq in Ex. exfalso. apply (H x Hx). congruence.
Qed.

Lemma mat_cons_nth r rows lines k : covered (r :: rows) lines ->
  nth_error (mat (r :: rows) lines) (S k) = nth_error (mat rows (tl lines)) k.
Proof.
  intros Hc. destruct r as [x|]; simpl; [reflexivity|].
  destruct lines as [|l lines]; [specialize (Hc 0 eq_refl); simpl in Hc; lia | reflexivity].
Qed.

Lemma enum_pick rows : forall i lines idx, covered rows lines ->
  incr_from (Z.of_nat i) idx -> (forall x, In x idx -> (x < Z.of_nat (i + length rows))%Z) ->
  enum_go i rows lines (in_range idx) = flat_map (sel (mat rows lines) i) idx.
Proof.
  induction rows as [|r rows IH]; intros i lines idx Hc Hinc Hub.
  - destruct idx as [|x idx]; [reflexivity|]. exfalso.
    destruct Hinc as [H1 _]. specialize (Hub x (or_introl eq_refl)). simpl in Hub. lia.
  - pose proof (covered_tl _ _ _ Hc) as Hc'.
    cbn [enum_go].
    destruct idx as [|x idx'].
    + rewrite (enum_none rows (S i) (tl lines)) by (intros; reflexivity). reflexivity.
    + destruct Hinc as [Hx Hinc'].
      assert (Hshift : forall l, (forall y, In y l -> (Z.of_nat i + 1 <= y)%Z) ->
                flat_map (sel (mat (r :: rows) lines) i) l = flat_map (sel (mat rows (tl lines)) (S i)) l).
      { intros l Hl. apply flat_map_ext_in. intros y Hy. specialize (Hl y Hy). unfold sel.
        replace (Z.to_nat y - i) with (S (Z.to_nat y - S i)) by lia.
        rewrite mat_cons_nth by exact Hc. reflexivity. }
      destruct (Z.eq_dec x (Z.of_nat i)) as [Exi|Nxi].
      * subst x.
        assert (Hw : in_range (Z.of_nat i :: idx') i = true) by (unfold in_range; simpl; rewrite Z.eqb_refl; reflexivity).
        rewrite Hw.
        rewrite (enum_ext rows (S i) (tl lines) _ (in_range idx')).
        2:{ intros j Hj. unfold in_range. simpl.
            destruct (Z.of_nat j =? Z.of_nat i)%Z eqn:E; [apply Z.eqb_eq in E; lia | reflexivity]. }
        rewrite (IH (S i) (tl lines) idx' Hc').
        2:{ replace (Z.of_nat (S i)) with (Z.of_nat i + 1)%Z by lia. exact Hinc'. }
        2:{ intros y Hy. specialize (Hub y (or_intror Hy)). simpl in Hub. lia. }
        cbn [flat_map]. rewrite Hshift by (intros y Hy; apply (incr_from_ge _ _ Hinc' y Hy)).
        assert (Hs0 : forall L, sel L i (Z.of_nat i) = match L with x :: _ => [x] | [] => [] end).
        { intros L. unfold sel. replace (Z.to_nat (Z.of_nat i) - i) with 0 by lia. destruct L; reflexivity. }
        rewrite Hs0.
        destruct r as [v|]; simpl; [reflexivity|].
        destruct lines as [|l lines]; [specialize (Hc 0 eq_refl); simpl in Hc; lia | reflexivity].
      * assert (Hlt : (Z.of_nat i + 1 <= x)%Z) by lia.
        assert (Hall : forall y, In y (x :: idx') -> (Z.of_nat i + 1 <= y)%Z).
        { intros y [<-|Hy]; [exact Hlt|]. pose proof (incr_from_ge _ _ Hinc' y Hy). lia. }
        rewrite in_range_false by (intros y Hy; specialize (Hall y Hy); lia).
        rewrite (IH (S i) (tl lines) (x :: idx') Hc').
        2:{ split; [lia | exact Hinc']. }
        2:{ intros y Hy. specialize (Hub y Hy). simpl in Hub. lia. }
        rewrite Hshift by exact Hall. reflexivity.
Qed.

Lemma pick_sel l idx : flat_map (sel l 0) idx = pick l idx.
Proof. unfold pick. apply flat_map_ext. intros x. unfold sel. rewrite Nat.sub_0_r. reflexivity. Qed.

Lemma pick_app {A} (l : list A) i1 i2 : pick l (i1 ++ i2) = pick l i1 ++ pick l i2.
Proof. unfold pick. apply flat_map_app. Qed.

Lemma pick_rev {A} (l : list A) idx : pick l (rev idx) = rev (pick l idx).
Proof.
  induction idx as [|x idx IH]; [reflexivity|].
  simpl rev. rewrite pick_app, IH. unfold pick at 2 3. simpl.
  destruct (nth_error l (Z.to_nat x)); simpl; rewrite ?app_nil_r; reflexivity.
Qed.

Lemma slice_indices_step s len a b c : slice_indices s len = Some (a, b, c) -> c <> 0%Z.
Proof.
  unfold slice_indices. destruct (_ =? 0)%Z eqn:E; [discriminate|]. intros H; inversion H; subst. apply Z.eqb_neq in E. exact E.
Qed.

Theorem slice_refines t s : Inv t -> t_slice t s = py_slice (t_iter t) s.
Proof.
  intros H. unfold t_slice, py_slice, slice_positions. rewrite <- (len_refines t H). unfold t_len.
  destruct (slice_indices s (length (t_rows t))) as [[[a b] c]|] eqn:Es; [|reflexivity].
  pose proof (slice_indices_step _ _ _ _ _ Es) as Hc0.
  assert (Hv : forall x, In x (py_range a b c) -> (0 <= x < Z.of_nat (length (t_rows t)))%Z).
  { intros x Hx. apply (slice_positions_valid s (length (t_rows t)) (py_range a b c) x); [|exact Hx].
    unfold slice_positions. rewrite Es. reflexivity. }
  f_equal. fold (lines_of t). rewrite t_iter_mat.
  destruct (c <? 0)%Z eqn:Ec.
  - apply Z.ltb_lt in Ec.
    rewrite (enum_ext (t_rows t) 0 (lines_of t) _ (in_range (rev (py_range a b c))))
      by (intros j _; symmetry; apply in_range_rev).
    rewrite enum_pick.
    + rewrite pick_sel, pick_rev, rev_involutive. reflexivity.
    + apply H.
    + apply (incr_rev _ a). * apply py_range_decr. exact Ec. * intros x Hx. apply Hv in Hx. simpl. lia.
    + intros x Hx. apply in_rev in Hx. apply Hv in Hx. simpl. lia.
  - apply Z.ltb_ge in Ec.
    rewrite enum_pick.
    + apply pick_sel.
    + apply H.
    + apply (incr_from_weaken a). * apply py_range_incr. lia. * intros x Hx. apply Hv in Hx. simpl. lia.
    + intros x Hx. apply Hv in Hx. simpl. lia.
Qed.

(* ---- structural facts about materialisation ---- *)
Definition clean (vi : nat) (rows : list (option row)) (lines : list row) : Prop :=
  forall i x, i < vi -> nth_error rows i = Some (Some x) -> nth_error lines i = Some x.

Definition no_none (rows : list (option row)) : Prop := forall i, nth_error rows i <> Some None.

Lemma skipn_tl {A} n (l : list A) : skipn (S n) l = skipn n (tl l).
Proof. destruct l; simpl; [destruct n; reflexivity | reflexivity]. Qed.

Lemma covered_head_none rows lines : covered (None :: rows) lines -> lines <> [].
Proof. intros Hc ->. specialize (Hc 0 eq_refl). simpl in Hc. lia. Qed.

Lemma mat_firstn rows : forall lines n, covered rows lines ->
  mat (firstn n rows) lines = firstn n (mat rows lines).
Proof.
  induction rows as [|r rows IH]; intros lines n Hc; [destruct n; reflexivity|].
  destruct n as [|n]; [reflexivity|].
  pose proof (covered_tl _ _ _ Hc) as Hc'.
  destruct r as [x|]; simpl.
  - rewrite IH by exact Hc'. reflexivity.
  - destruct lines as [|l lines]; [exfalso; apply (covered_head_none _ _ Hc); reflexivity|].
    simpl. rewrite IH by exact Hc'. reflexivity.
Qed.

Lemma mat_skipn rows : forall lines n, covered rows lines ->
  mat (skipn n rows) (skipn n lines) = skipn n (mat rows lines).
Proof.
  induction rows as [|r rows IH]; intros lines n Hc; [destruct n; reflexivity|].
  destruct n as [|n]; [reflexivity|].
  pose proof (covered_tl _ _ _ Hc) as Hc'.
  rewrite (skipn_tl n lines). change (skipn (S n) (r :: rows)) with (skipn n rows).
  destruct r as [x|].
  - change (mat (Some x :: rows) lines) with (x :: mat rows (tl lines)). cbn [skipn]. apply IH. exact Hc'.
  - destruct lines as [|l lines]; [exfalso; apply (covered_head_none _ _ Hc); reflexivity|].
    change (mat (None :: rows) (l :: lines)) with (l :: mat rows lines). cbn [skipn tl]. apply IH. exact Hc'.
Qed.

Lemma nth_error_firstn' {A} n : forall (l : list A) i, i < n -> nth_error (firstn n l) i = nth_error l i.
Proof.
  induction n as [|n IH]; intros l i H; [lia|]. destruct l as [|x l]; [reflexivity|].
  destruct i; simpl; [reflexivity|]. apply IH. lia.
Qed.

Lemma skipn_skipn' {A} x y (l : list A) : skipn x (skipn y l) = skipn (y + x) l.
Proof. revert l. induction y as [|y IH]; intros l; [reflexivity|]. destruct l; simpl; [apply skipn_nil | apply IH]. Qed.

Lemma covered_firstn rows lines n : covered rows lines -> covered (firstn n rows) lines.
Proof.
  intros Hc i Hi. apply Hc.
  destruct (lt_dec i n) as [L|L].
  - rewrite nth_error_firstn' in Hi by exact L. exact Hi.
  - assert (nth_error (firstn n rows) i = None).
    { apply nth_error_None. rewrite firstn_length. lia. }
    congruence.
Qed.

Lemma nth_error_skipn' {A} n (l : list A) i : nth_error (skipn n l) i = nth_error l (n + i).
Proof. revert l. induction n as [|n IH]; intros l; [reflexivity|]. destruct l; simpl; [destruct i; reflexivity | apply IH]. Qed.

Lemma covered_skipn rows lines n : covered rows lines -> covered (skipn n rows) (skipn n lines).
Proof.
  intros Hc i Hi. rewrite nth_error_skipn' in Hi. specialize (Hc _ Hi). rewrite skipn_length. lia.
Qed.

Lemma covered_no_none rows lines : no_none rows -> covered rows lines.
Proof. intros H i Hi. exfalso. exact (H i Hi). Qed.

Lemma no_none_somes (vals : list row) : no_none (map Some vals).
Proof. intros i Hi. rewrite nth_error_map in Hi. destruct (nth_error vals i); discriminate. Qed.

Lemma no_none_skipn rows n : no_none rows -> no_none (skipn n rows).
Proof. intros H i. rewrite nth_error_skipn'. apply H. Qed.

Lemma no_none_existsb rows : existsb is_none rows = false -> no_none rows.
Proof.
  intros E i Hi. apply nth_error_In in Hi.
  assert (existsb is_none rows = true) by (apply existsb_exists; exists None; auto). congruence.
Qed.

Lemma covered_app r1 r2 lines : covered r1 lines -> covered r2 (skipn (length r1) lines) ->
  covered (r1 ++ r2) lines.
Proof.
  intros H1 H2 i Hi. destruct (lt_dec i (length r1)) as [L|L].
  - rewrite nth_error_app1 in Hi by exact L. apply H1. exact Hi.
  - rewrite nth_error_app2 in Hi by lia. specialize (H2 _ Hi). rewrite skipn_length in H2. lia.
Qed.

Lemma mat_indep rows : forall l1 l2, no_none rows -> mat rows l1 = mat rows l2.
Proof.
  induction rows as [|r rows IH]; intros l1 l2 H; [reflexivity|].
  assert (H' : no_none rows) by (intros i; apply (H (S i))).
  destruct r as [x|]; [|exfalso; apply (H 0); reflexivity].
  simpl. f_equal. apply IH. exact H'.
Qed.

Lemma nth_error_ext {A} (l1 l2 : list A) : (forall i, nth_error l1 i = nth_error l2 i) -> l1 = l2.
Proof.
  revert l2. induction l1 as [|x l1 IH]; intros l2 H.
  - destruct l2; [reflexivity|]. specialize (H 0). discriminate.
  - destruct l2 as [|y l2]; [specialize (H 0); discriminate|].
    pose proof (H 0) as H0. simpl in H0. inversion H0; subst. f_equal. apply IH. intros i. apply (H (S i)).
Qed.

(* ---- loading the tail into memory ---- *)
Definition load (first : nat) (rows : list (option row)) (lines : list row) : list (option row) :=
  firstn first rows ++ map Some (enum_go 0 rows lines (fun i => Nat.leb first i)).

Lemma load_eq first rows lines : covered rows lines ->
  load first rows lines = firstn first rows ++ map Some (skipn first (mat rows lines)).
Proof. intros Hc. unfold load. rewrite (enum_ge first rows 0 lines Hc), Nat.sub_0_r. reflexivity. Qed.

Lemma load_nth first rows lines i : covered rows lines -> first <= length rows ->
  nth_error (load first rows lines) i =
  if i <? first then nth_error rows i else option_map Some (nth_error (mat rows lines) i).
Proof.
  intros Hc Hf. rewrite load_eq by exact Hc.
  assert (Hl : length (firstn first rows) = first) by (apply firstn_length_le; exact Hf).
  destruct (i <? first) eqn:E.
  - apply Nat.ltb_lt in E. rewrite nth_error_app1 by lia. apply nth_error_firstn'. exact E.
  - apply Nat.ltb_ge in E. rewrite nth_error_app2 by lia. rewrite Hl, nth_error_map, nth_error_skipn'.
    replace (first + (i - first)) with i by lia. reflexivity.
Qed.

Lemma load_props first rows lines vi : covered rows lines -> clean vi rows lines -> first <= length rows ->
  let rows1 := load first rows lines in
  length rows1 = length rows /\ covered rows1 lines /\ clean vi rows1 lines /\
  mat rows1 lines = mat rows lines /\ (forall i, i < first -> nth_error rows1 i = nth_error rows i) /\
  no_none (skipn first rows1).
Proof.
  intros Hc Hcl Hf rows1.
  assert (Hnth := fun i => load_nth first rows lines i Hc Hf). fold rows1 in Hnth.
  assert (Hlen : length rows1 = length rows).
  { unfold rows1. rewrite load_eq by exact Hc. rewrite app_length, map_length, skipn_length, mat_length by exact Hc.
    rewrite firstn_length_le by exact Hf. lia. }
  assert (Hcov : covered rows1 lines).
  { intros i Hi. rewrite Hnth in Hi. destruct (i <? first); [apply Hc; exact Hi|].
    destruct (nth_error (mat rows lines) i); discriminate. }
  split; [exact Hlen|]. split; [exact Hcov|]. split; [|split; [|split]].
  - intros i x Hi Hx. rewrite Hnth in Hx. destruct (i <? first); [apply (Hcl i x Hi Hx)|].
    rewrite mat_nth in Hx by exact Hc.
    destruct (nth_error rows i) as [[y|]|] eqn:Er; simpl in Hx.
    + inversion Hx; subst. apply (Hcl i x Hi Er).
    + destruct (nth_error lines i); simpl in Hx; [inversion Hx; reflexivity | discriminate].
    + discriminate.
  - apply nth_error_ext. intros i. rewrite (mat_nth rows1 lines i Hcov), Hnth.
    destruct (i <? first); [rewrite mat_nth by exact Hc; reflexivity|].
    destruct (nth_error (mat rows lines) i); reflexivity.
  - intros i Hi. rewrite Hnth. apply Nat.ltb_lt in Hi. rewrite Hi. reflexivity.
  - intros i. rewrite nth_error_skipn', Hnth.
    destruct (first + i <? first) eqn:E; [apply Nat.ltb_lt in E; lia|].
    destruct (nth_error (mat rows lines) (first + i)); discriminate.
Qed.

(* ---- set_nth ---- *)
Lemma set_nth_length {A} (l : list A) : forall k v, length (set_nth l k v) = length l.
Proof. induction l as [|x l IH]; intros k v; [reflexivity|]. destruct k; simpl; [reflexivity | rewrite IH; reflexivity]. Qed.

Lemma nth_error_set_nth_other {A} (l : list A) : forall k v i, i <> k -> nth_error (set_nth l k v) i = nth_error l i.
Proof.
  induction l as [|x l IH]; intros k v i H; [reflexivity|].
  destruct k; simpl.
  - destruct i; [contradiction | reflexivity].
  - destruct i; [reflexivity|]. simpl. apply IH. lia.
Qed.

Lemma nth_error_set_nth_same {A} (l : list A) : forall k v, k < length l -> nth_error (set_nth l k v) k = Some v.
Proof.
  induction l as [|x l IH]; intros k v H; [simpl in H; lia|].
  destruct k; simpl; [reflexivity|]. apply IH. simpl in H. lia.
Qed.

Lemma set_nth_out {A} (l : list A) : forall k v, length l <= k -> set_nth l k v = l.
Proof.
  induction l as [|x l IH]; intros k v H; [reflexivity|].
  destruct k; simpl in *; [lia|]. rewrite IH by lia. reflexivity.
Qed.

Lemma mat_set_nth rows : forall lines k v, covered rows lines ->
  mat (set_nth rows k (Some v)) lines = set_nth (mat rows lines) k v.
Proof.
  induction rows as [|r rows IH]; intros lines k v Hc; [reflexivity|].
  pose proof (covered_tl _ _ _ Hc) as Hc'.
  destruct k as [|k].
  - destruct r as [x|]; simpl; [reflexivity|].
    destruct lines as [|l lines]; [exfalso; apply (covered_head_none _ _ Hc); reflexivity | reflexivity].
  - destruct r as [x|]; simpl.
    + rewrite IH by exact Hc'. reflexivity.
    + destruct lines as [|l lines]; [exfalso; apply (covered_head_none _ _ Hc); reflexivity|].
      simpl. rewrite IH by exact Hc'. reflexivity.
Qed.

Lemma covered_set_nth rows lines k v : covered rows lines -> covered (set_nth rows k (Some v)) lines.
Proof.
  intros Hc i Hi. destruct (Nat.eq_dec i k) as [->|N].
  - destruct (lt_dec k (length rows)) as [L|L].
    + rewrite nth_error_set_nth_same in Hi by exact L. discriminate.
    + rewrite set_nth_out in Hi by lia. apply Hc. exact Hi.
  - rewrite nth_error_set_nth_other in Hi by exact N. apply Hc. exact Hi.
Qed.

Definition assign_all {A} (l : list A) (pairs : list (Z * A)) : list A :=
  fold_left (fun acc p => set_nth acc (Z.to_nat (fst p)) (snd p)) pairs l.

Lemma combine_map_some (idx : list Z) (vals : list row) :
  combine idx (map Some vals) = map (fun p => (fst p, Some (snd p))) (combine idx vals).
Proof.
  revert vals. induction idx as [|i idx IH]; intros vals; [reflexivity|].
  destruct vals as [|v vals]; [reflexivity|]. simpl. rewrite IH. reflexivity.
Qed.

Lemma assign_all_props lines pairs : forall rows, covered rows lines ->
  let rows' := assign_all rows (map (fun p => (fst p, Some (snd p))) pairs) in
  covered rows' lines /\ mat rows' lines = assign_all (mat rows lines) pairs /\
  length rows' = length rows /\
  (forall i, (forall p, In p pairs -> Z.to_nat (fst p) <> i) -> nth_error rows' i = nth_error rows i).
Proof.
  induction pairs as [|[k v] pairs IH]; intros rows Hc; simpl.
  - repeat split; auto.
  - specialize (IH (set_nth rows (Z.to_nat k) (Some v)) (covered_set_nth _ _ _ _ Hc)).
    simpl in IH. destruct IH as (A & B & C & D).
    unfold assign_all in *. simpl.
    split; [exact A|]. split; [rewrite B, mat_set_nth by exact Hc; reflexivity|].
    split; [rewrite C; apply set_nth_length|].
    intros i Hi. rewrite D by (intros p Hp; apply Hi; right; exact Hp).
    apply nth_error_set_nth_other. intros ->. apply (Hi (k, v)); [left; reflexivity | reflexivity].
Qed.

(* ---- slice.indices bounds ---- *)
Lemma slice_indices_bounds s len a b c : slice_indices s len = Some (a, b, c) ->
  let n := Z.of_nat len in
  ((c > 0 -> 0 <= a <= n /\ 0 <= b <= n) /\ (c < 0 -> -1 <= a <= n - 1 /\ -1 <= b <= n - 1))%Z.
Proof.
  unfold slice_indices.
  set (step := match sl_step s with None => 1%Z | Some k => k end).
  destruct (step =? 0)%Z eqn:E0; [discriminate|].
  intros H. inversion H; subst a b c; clear H.
  destruct (step <? 0)%Z eqn:Es.
  - split; [lia|]. intros _.
    destruct (sl_start s) as [a|]; destruct (sl_stop s) as [b|];
      repeat match goal with |- context [if (?c <? 0)%Z then _ else _] => destruct (c <? 0)%Z eqn:? end; lia.
  - split; [|lia]. intros _.
    destruct (sl_start s) as [a|]; destruct (sl_stop s) as [b|];
      repeat match goal with |- context [if (?c <? 0)%Z then _ else _] => destruct (c <? 0)%Z eqn:? end; lia.
Qed.

Lemma range_len_step1 a b : (0 <= a)%Z -> (0 <= b)%Z ->
  length (py_range a b 1) = Z.to_nat (Z.max a b) - Z.to_nat a.
Proof.
  intros Ha Hb. unfold py_range. rewrite map_length, seq_length. unfold range_len. simpl.
  destruct (a <? b)%Z eqn:E.
  - rewrite Z.div_1_r. lia.
  - apply Z.ltb_ge in E. rewrite Z.max_l by lia. lia.
Qed.

(* positions selected by a slice are never below the first affected position *)
Lemma range_ge_first s len a b c x : slice_indices s len = Some (a, b, c) ->
  In x (py_range a b c) -> Z.to_nat (Z.max 0 (Z.min a b)) <= Z.to_nat x.
Proof.
  intros Es Hx. pose proof (slice_indices_step _ _ _ _ _ Es) as Hc.
  pose proof (slice_indices_bounds _ _ _ _ _ Es) as [Hp Hn].
  apply range_in_bounds in Hx; [|exact Hc]. destruct Hx as [Xp Xn].
  destruct (Z_lt_dec c 0) as [L|L].
  - specialize (Xn L). specialize (Hn L). lia.
  - assert (G : (c > 0)%Z) by lia. specialize (Xp G). specialize (Hp G). lia.
Qed.

(* ---- slice assignment against the plain list ---- *)
Definition abs_setslice (l : list row) (s : pyslice) (vals : list row) : option (list row) :=
  match slice_indices s (length l) with
  | None => None
  | Some (a, b, c) => slice_assign l a b c vals
  end.

Lemma slice_assign_ext {A} (l : list A) a b c vals : c <> 1%Z ->
  slice_assign l a b c vals =
  if Nat.eqb (length (py_range a b c)) (length vals) then Some (assign_all l (combine (py_range a b c) vals)) else None.
Proof. intros H. unfold slice_assign. apply Z.eqb_neq in H. rewrite H. reflexivity. Qed.

Lemma slice_assign_simple {A} (l : list A) a b vals :
  slice_assign l a b 1 vals = Some (firstn (Z.to_nat a) l ++ vals ++ skipn (Z.to_nat (Z.max a b)) l).
Proof. reflexivity. Qed.

Theorem setslice_spec t s vals : Inv t ->
  match t_setslice t s vals with
  | SOk t' => Inv t' /\ abs_setslice (t_iter t) s vals = Some (t_iter t') /\ t_file t' = t_file t
  | SValueError t' => Inv t' /\ abs_setslice (t_iter t) s vals = None /\ t_iter t' = t_iter t /\ t_file t' = t_file t
  | SIndexError => False
  end.
Proof.
  intros H. unfold t_setslice, abs_setslice. rewrite <- (len_refines t H). unfold t_len.
  destruct (slice_indices s (length (t_rows t))) as [[[a b] c]|] eqn:Es.
  2:{ split; [exact H|]. repeat split; reflexivity. }
  pose proof (slice_indices_step _ _ _ _ _ Es) as Hc0.
  pose proof (slice_indices_bounds _ _ _ _ _ Es) as [Hp Hn]. cbv zeta in Hp, Hn.
  pose proof (inv_cov t H) as Hcov. pose proof (inv_clean t H) as Hclean. fold (clean (t_vi t) (t_rows t) (lines_of t)) in Hclean.
  fold (lines_of t).
  set (rows := t_rows t) in *. set (lines := lines_of t) in *.
  set (first := Z.to_nat (Z.max 0 (Z.min a b))).
  set (nsel := length (py_range a b c)).
  assert (Hfirst : first <= length rows).
  { unfold first. destruct (Z_lt_dec c 0) as [L|L]; [specialize (Hn L) | specialize (Hp ltac:(lia))]; lia. }
  set (cond := negb (Nat.eqb (length vals) nsel) && existsb is_none (skipn first rows)).
  fold (load first rows lines).
  set (rows1 := if cond then load first rows lines else rows).
  assert (P1 : length rows1 = length rows /\ covered rows1 lines /\ clean (t_vi t) rows1 lines /\
               mat rows1 lines = mat rows lines /\ (forall i, i < first -> nth_error rows1 i = nth_error rows i) /\
               (length vals <> nsel -> no_none (skipn first rows1))).
  { unfold rows1. destruct cond eqn:Ec.
    - destruct (load_props first rows lines (t_vi t) Hcov Hclean Hfirst) as (A & B & C & D & E & F).
      repeat split; auto.
    - repeat split; auto. intros Hne. unfold cond in Ec. apply andb_false_iff in Ec. destruct Ec as [Ec|Ec].
      + apply negb_false_iff, Nat.eqb_eq in Ec. contradiction.
      + apply no_none_existsb. exact Ec. }
  destruct P1 as (L1 & C1 & Cl1 & M1 & Pre1 & NN1).
  assert (Inv1 : Inv {| t_file := t_file t; t_rows := rows1; t_pc := t_pc t; t_vi := t_vi t |}).
  { constructor; simpl; try apply H.
    - rewrite L1. apply H.
    - exact C1.
    - exact Cl1. }
  assert (Iter1 : t_iter {| t_file := t_file t; t_rows := rows1; t_pc := t_pc t; t_vi := t_vi t |} = t_iter t).
  { rewrite !t_iter_mat. simpl. exact M1. }
  rewrite t_iter_mat. fold rows lines. set (M := mat rows lines) in *.
  destruct (Z.eq_dec c 1) as [->|Hc1].
  - (* simple slice *)
    specialize (Hp ltac:(lia)). destruct Hp as [Ha Hb].
    rewrite !slice_assign_simple.
    set (an := Z.to_nat a). set (bn := Z.to_nat (Z.max a b)).
    assert (Han : an <= length rows) by (unfold an; lia).
    assert (Hbn : bn <= length rows) by (unfold bn; lia).
    assert (Hab : an <= bn) by (unfold an, bn; lia).
    assert (Hfa : first <= an) by (unfold first, an; lia).
    assert (Hnsel : nsel = bn - an) by (unfold nsel, bn, an; apply range_len_step1; lia).
    set (rows2 := firstn an rows1 ++ map Some vals ++ skipn bn rows1).
    assert (Lf : length (firstn an rows1) = an) by (apply firstn_length_le; lia).
    (* the tail keeps its lines, or needs none *)
    assert (Tail : covered (skipn bn rows1) (skipn (length (map Some vals)) (skipn an lines)) /\
                   mat (skipn bn rows1) (skipn (length (map Some vals)) (skipn an lines)) = skipn bn M).
    { rewrite map_length, skipn_skipn'.
      destruct (Nat.eq_dec (length vals) nsel) as [E|N].
      - replace (an + length vals) with bn by lia.
        split; [apply covered_skipn; exact C1 | rewrite mat_skipn by exact C1; rewrite M1; reflexivity].
      - specialize (NN1 N).
        assert (NN : no_none (skipn bn rows1)).
        { replace bn with (first + (bn - first)) by lia. rewrite <- skipn_skipn'. apply no_none_skipn. exact NN1. }
        split; [apply covered_no_none; exact NN|].
        rewrite (mat_indep _ _ (skipn bn lines) NN), mat_skipn by exact C1. rewrite M1. reflexivity. }
    destruct Tail as [TC TM].
    assert (C2 : covered rows2 lines).
    { unfold rows2. apply covered_app; [apply covered_firstn; exact C1|]. rewrite Lf.
      apply covered_app; [apply covered_no_none, no_none_somes | exact TC]. }
    assert (M2 : mat rows2 lines = firstn an M ++ vals ++ skipn bn M).
    { unfold rows2. rewrite mat_app by (apply covered_firstn; exact C1). rewrite Lf.
      rewrite mat_firstn by exact C1. rewrite M1.
      rewrite mat_app by (apply covered_no_none, no_none_somes). rewrite mat_all_some, TM. reflexivity. }
    split; [|split; [|reflexivity]].
    + constructor; simpl; try apply H.
      * pose proof (inv_vi_pc t H). lia.
      * fold rows2. unfold rows2. rewrite app_length, Lf. pose proof (inv_vi_len t H). lia.
      * exact C2.
      * intros i x Hi Hx. fold rows2 in Hx. unfold rows2 in Hx.
        rewrite nth_error_app1 in Hx by lia. rewrite nth_error_firstn' in Hx by lia.
        rewrite Pre1 in Hx by lia. apply (Hclean i x); [lia | exact Hx].
    + rewrite t_iter_mat. unfold lines_of at 1. simpl. fold (lines_of t). fold lines. rewrite M2. reflexivity.
  - (* extended slice *)
    rewrite !slice_assign_ext by exact Hc1. rewrite map_length. fold nsel.
    destruct (Nat.eqb nsel (length vals)) eqn:El.
    + apply Nat.eqb_eq in El.
      assert (Ecnd : cond = false) by (unfold cond; rewrite <- El, Nat.eqb_refl; reflexivity).
      assert (R1 : rows1 = rows) by (unfold rows1; rewrite Ecnd; reflexivity).
      rewrite R1, combine_map_some.
      destruct (assign_all_props lines (combine (py_range a b c) vals) rows Hcov) as (A & B & C & D).
      cbv zeta in A, B, C, D.
      set (rows2 := assign_all rows (map (fun p => (fst p, Some (snd p))) (combine (py_range a b c) vals))) in *.
      assert (Pre2 : forall i, i < first -> nth_error rows2 i = nth_error rows i).
      { intros i Hi. apply D. intros [px pv] Hp' <-. apply in_combine_l in Hp'. cbn [fst] in Hi.
        pose proof (range_ge_first _ _ _ _ _ _ Es Hp'). fold first in H0. lia. }
      split; [|split; [|reflexivity]].
      * constructor; simpl; try apply H.
        -- pose proof (inv_vi_pc t H). lia.
        -- rewrite C. pose proof (inv_vi_len t H). fold rows in H0. lia.
        -- exact A.
        -- intros i x Hi Hx. rewrite Pre2 in Hx by lia. apply (Hclean i x); [lia | exact Hx].
      * rewrite t_iter_mat. unfold lines_of at 1. simpl. fold (lines_of t). fold lines. rewrite B. reflexivity.
    + split; [exact Inv1|]. split; [reflexivity|]. split; [rewrite Iter1; apply t_iter_mat | reflexivity].
Qed.

(* ---- single-row assignment and update ---- *)
Lemma set_nth_split {A} (l : list A) : forall k v, k < length l ->
  firstn k l ++ [v] ++ skipn (S k) l = set_nth l k v.
Proof.
  induction l as [|x l IH]; intros k v H; [simpl in H; lia|].
  destruct k; [reflexivity|]. simpl in *. f_equal. apply IH. lia.
Qed.

Lemma slice_indices_item (k len : nat) : k < len ->
  slice_indices {| sl_start := Some (Z.of_nat k); sl_stop := Some (Z.of_nat k + 1)%Z; sl_step := None |} len
  = Some (Z.of_nat k, (Z.of_nat k + 1)%Z, 1%Z).
Proof.
  intros H. unfold slice_indices. simpl.
  destruct (Z.of_nat k <? 0)%Z eqn:E1; [apply Z.ltb_lt in E1; lia|].
  destruct (Z.of_nat k + 1 <? 0)%Z eqn:E2; [apply Z.ltb_lt in E2; lia|].
  rewrite !Z.min_l by lia. reflexivity.
Qed.

Theorem setitem_spec t i v : Inv t ->
  match py_index (length (t_iter t)) i with
  | Some k => exists t', t_setitem t i v = SOk t' /\ Inv t' /\ t_iter t' = set_nth (t_iter t) k v /\
                         t_file t' = t_file t
  | None => t_setitem t i v = SIndexError
  end.
Proof.
  intros H. unfold t_setitem. rewrite <- (len_refines t H). unfold t_len.
  destruct (py_index (length (t_rows t)) i) as [k|] eqn:Ek; [|reflexivity].
  apply py_index_lt in Ek.
  set (s := {| sl_start := Some (Z.of_nat k); sl_stop := Some (Z.of_nat k + 1)%Z; sl_step := None |}).
  pose proof (setslice_spec t s [v] H) as Hs.
  assert (Ha : abs_setslice (t_iter t) s [v] = Some (set_nth (t_iter t) k v)).
  { unfold abs_setslice. rewrite <- (len_refines t H). unfold t_len, s. rewrite slice_indices_item by exact Ek.
    rewrite slice_assign_simple. f_equal.
    replace (Z.to_nat (Z.max (Z.of_nat k) (Z.of_nat k + 1))) with (S k) by lia. rewrite Nat2Z.id.
    apply set_nth_split. rewrite <- (len_refines t H). exact Ek. }
  destruct (t_setslice t s [v]) as [t'|t'|].
  - exists t'. destruct Hs as (A & B & C). split; [reflexivity|]. split; [exact A|]. split; [congruence | exact C].
  - destruct Hs as (_ & B & _). congruence.
  - contradiction.
Qed.

Theorem update_spec t i k v : Inv t ->
  match py_getitem (t_iter t) i, py_index (length (t_iter t)) i with
  | Some r, Some j => exists t', t_update t i k v = SOk t' /\ Inv t' /\
                        t_iter t' = set_nth (t_iter t) j (set_nth r k v) /\ t_file t' = t_file t
  | _, _ => t_update t i k v = SIndexError
  end.
Proof.
  intros H. unfold t_update. rewrite (getitem_refines t i H).
  destruct (py_getitem (t_iter t) i) as [r|] eqn:Eg.
  - pose proof (setitem_spec t i (set_nth r k v) H) as Hs.
    destruct (py_index (length (t_iter t)) i) as [j|] eqn:Ej; [exact Hs|].
    unfold py_getitem in Eg. rewrite Ej in Eg. discriminate.
  - destruct (py_index (length (t_iter t)) i); reflexivity.
Qed.

(* ---- whole histories ---- *)
Inductive top :=
| OExtend (vals : list row)
| OSetSlice (s : pyslice) (vals : list row)
| OSetItem (i : Z) (v : row)
| OUpdate (i : Z) (k : nat) (v : str)
| OClear | OCommit | OReload | OReopen.

(* a failed operation (IndexError / ValueError) leaves the table as the
   model's error result says: unchanged, or with its tail loaded *)
Definition sres_table (t : table) (r : sres) : table :=
  match r with SOk t' => t' | SValueError t' => t' | SIndexError => t end.

Definition t_step (t : table) (o : top) : table :=
  match o with
  | OExtend vals => t_extend t vals
  | OSetSlice s vals => sres_table t (t_setslice t s vals)
  | OSetItem i v => sres_table t (t_setitem t i v)
  | OUpdate i k v => sres_table t (t_update t i k v)
  | OClear => t_clear t
  | OCommit => t_commit t
  | OReload => t_reload t
  | OReopen => open_table (t_file t)
  end.

(* the plain-list reading of a history: (rows in memory, rows stored) *)
Definition a_step (st : list row * list row) (o : top) : list row * list row :=
  let (m, d) := st in
  match o with
  | OExtend vals => (m ++ vals, d)
  | OSetSlice s vals => (match abs_setslice m s vals with Some m' => m' | None => m end, d)
  | OSetItem i v => (match py_index (length m) i with Some k => set_nth m k v | None => m end, d)
  | OUpdate i k v =>
      (match py_getitem m i, py_index (length m) i with
       | Some r, Some j => set_nth m j (set_nth r k v)
       | _, _ => m
       end, d)
  | OClear => ([], d)
  | OCommit => (m, m)
  | OReload => (d, d)
  | OReopen => (d, d)
  end.

Definition view (t : table) : list row * list row := (t_iter t, lines_of t).

Lemma lines_of_file t t' : t_file t' = t_file t -> lines_of t' = lines_of t.
Proof. unfold lines_of. intros ->. reflexivity. Qed.

Lemma open_view f : view (open_table f) = (content f, content f).
Proof.
  destruct (open_inv f) as [_ B]. unfold view. rewrite B. f_equal.
  unfold open_table, lines_of. destruct (read_rel f) as [l|] eqn:E; [reflexivity|].
  simpl. unfold content at 2. rewrite E. unfold content, read_rel, use_gz in *. simpl.
  destruct (gz f); reflexivity.
Qed.

Theorem step_refines t o : Inv t -> Inv (t_step t o) /\ view (t_step t o) = a_step (view t) o.
Proof.
  intros H. unfold view. destruct o as [vals|s vals|i v|i k v| | | |]; cbn [t_step a_step].
  - destruct (extend_spec t vals H) as (A & B & C). split; [exact A|]. rewrite B, (lines_of_file _ _ C). reflexivity.
  - pose proof (setslice_spec t s vals H) as Hs.
    destruct (t_setslice t s vals) as [t'|t'|]; cbn [sres_table].
    + destruct Hs as (A & B & C). split; [exact A|]. rewrite B, (lines_of_file _ _ C). reflexivity.
    + destruct Hs as (A & B & C & D). split; [exact A|]. rewrite B, C, (lines_of_file _ _ D). reflexivity.
    + contradiction.
  - pose proof (setitem_spec t i v H) as Hs.
    destruct (py_index (length (t_iter t)) i) as [k|].
    + destruct Hs as (t' & E & A & B & C). rewrite E. cbn [sres_table]. split; [exact A|].
      rewrite B, (lines_of_file _ _ C). reflexivity.
    + rewrite Hs. cbn [sres_table]. split; [exact H | reflexivity].
  - pose proof (update_spec t i k v H) as Hs.
    destruct (py_getitem (t_iter t) i) as [r|]; [destruct (py_index (length (t_iter t)) i) as [j|]|].
    + destruct Hs as (t' & E & A & B & C). rewrite E. cbn [sres_table]. split; [exact A|].
      rewrite B, (lines_of_file _ _ C). reflexivity.
    + rewrite Hs. cbn [sres_table]. split; [exact H | reflexivity].
    + rewrite Hs. cbn [sres_table]. split; [exact H | reflexivity].
  - destruct (clear_spec t H) as (A & B & C). split; [exact A|]. rewrite B, (lines_of_file _ _ C). reflexivity.
  - destruct (commit_spec t H) as (A & B & C & _). split; [exact A|]. rewrite B, C. reflexivity.
  - destruct (reload_spec t H) as (A & B & _ & D). split; [exact A|]. rewrite B, (lines_of_file _ _ D). reflexivity.
  - destruct (open_inv (t_file t)) as [A _]. split; [exact A|]. fold (view (open_table (t_file t))). rewrite open_view. reflexivity.
Qed.

Theorem history_refines ops : forall t, Inv t ->
  Inv (fold_left t_step ops t) /\ view (fold_left t_step ops t) = fold_left a_step ops (view t).
Proof.
  induction ops as [|o ops IH]; intros t H; cbn [fold_left]; [split; [exact H | reflexivity]|].
  destruct (step_refines t o H) as [A B]. rewrite <- B. apply IH. exact A.
Qed.

(* every history from opening a stored relation, with any stored rows, plain
   or compressed, behaves as the plain list *)
Theorem history_from_open f ops :
  let t := fold_left t_step ops (open_table f) in
  Inv t /\ view t = fold_left a_step ops (content f, content f) /\
  t_len t = length (fst (view t)) /\
  (forall i, t_getitem t i = match py_getitem (fst (view t)) i with Some x => GOk x | None => GIndexError end) /\
  (forall s, t_slice t s = py_slice (fst (view t)) s).
Proof.
  intros t. destruct (open_inv f) as [A _].
  destruct (history_refines ops (open_table f) A) as [B C]. fold t in B, C.
  split; [exact B|]. split; [rewrite C, open_view; reflexivity|].
  split; [apply len_refines; exact B|]. split; [intros i; apply getitem_refines; exact B|].
  intros s. apply slice_refines. exact B.
Qed.

(* non-vacuity: a history over a stored prefix with a shrinking slice
   assignment, an update, commit and reload *)
Example history_example :
  let f := {| tx := Some [[[49%N]]; [[50%N]]; [[51%N]]]; gz := None; gz_newer := false |} in
  let ops := [OExtend [[[52%N]]]; OSetSlice {| sl_start := Some 0%Z; sl_stop := Some 2%Z; sl_step := None |} [[[57%N]]];
              OUpdate (-1)%Z 0 [48%N]; OCommit; OSetItem 0%Z [[55%N]]; OReload] in
  view (fold_left t_step ops (open_table f)) = ([[[57%N]]; [[51%N]]; [[48%N]]], [[[57%N]]; [[51%N]]; [[48%N]]]).
Proof. vm_compute. reflexivity. Qed.
