(* C01: encoding the decoded structure again reproduces the token stream. *)
From Coq Require Import List NArith ZArith Bool Arith Lia Permutation.
From PyD Require Import Base.Str Base.Dec Model.Hier Model.Mrs Model.Iso Model.SimpleMrs Proofs.SimpleMrsP.
Import ListNotations.

(* ---------------------------------------------------------------- *)
(* insertion sort is idempotent when the strict order is asymmetric *)

Section ISort.
  Variable A : Type.
  Variable lt : A -> A -> bool.
  Hypothesis asym : forall a b, lt a b = true -> lt b a = false.

  Fixpoint ins (x : A) (l : list A) : list A :=
    match l with [] => [x] | y :: l' => if lt y x then y :: ins x l' else x :: y :: l' end.
  Definition isort (l : list A) : list A := fold_right ins [] l.

  (* no adjacent inversion *)
  Fixpoint noinv (l : list A) : Prop :=
    match l with
    | x :: ((y :: _) as l') => lt y x = false /\ noinv l'
    | _ => True
    end.

  Lemma ins_noinv x l : noinv l -> noinv (ins x l).
  Proof.
    induction l as [|y l IH]; intros H; [exact I|].
    cbn [ins]. destruct (lt y x) eqn:E.
    - destruct l as [|z l'].
      + cbn [ins noinv]. split; [apply asym; exact E | exact I].
      + cbn [noinv] in H. destruct H as [Hzy Hl]. specialize (IH Hl). cbn [ins] in *.
        destruct (lt z x) eqn:E2.
        * cbn [noinv]. split; [exact Hzy | exact IH].
        * cbn [noinv]. split; [apply asym; exact E|]. exact IH.
    - cbn [noinv]. split; [exact E | exact H].
  Qed.

  Lemma isort_noinv l : noinv (isort l).
  Proof. induction l as [|x l IH]; [exact I|]. cbn [isort fold_right]. apply ins_noinv. exact IH. Qed.

  Lemma isort_of_noinv l : noinv l -> isort l = l.
  Proof.
    induction l as [|x l IH]; intros H; [reflexivity|].
    cbn [isort fold_right]. fold (isort l).
    destruct l as [|y l'].
    - reflexivity.
    - cbn [noinv] in H. destruct H as [Hyx Hl]. rewrite (IH Hl). cbn [ins]. rewrite Hyx. reflexivity.
  Qed.

  Lemma isort_idem l : isort (isort l) = isort l.
  Proof. apply isort_of_noinv. apply isort_noinv. Qed.
End ISort.

(* ---------------------------------------------------------------- *)
(* the two orders are asymmetric *)

Lemma str_ltb_asym a : forall b, str_ltb a b = true -> str_ltb b a = false.
Proof.
  induction a as [|x a IH]; intros [|y b] H; cbn [str_ltb] in *; try reflexivity; try discriminate.
  destruct (N.ltb x y) eqn:E1.
  - apply N.ltb_lt in E1. assert (E2 : N.ltb y x = false) by (apply N.ltb_ge; lia). rewrite E2.
    assert (E3 : N.eqb y x = false) by (apply N.eqb_neq; lia). rewrite E3. reflexivity.
  - destruct (N.eqb x y) eqn:E2; [|discriminate]. apply N.eqb_eq in E2. subst y.
    rewrite N.ltb_irrefl, N.eqb_refl. apply IH. exact H.
Qed.

Definition prop_lt (y x : str * str) : bool :=
  Nat.ltb (prop_prio (fst y)) (prop_prio (fst x))
  || (Nat.eqb (prop_prio (fst y)) (prop_prio (fst x)) && str_ltb (fst y) (fst x)).

Lemma prop_lt_asym a b : prop_lt a b = true -> prop_lt b a = false.
Proof.
  unfold prop_lt. intros H. apply orb_true_iff in H. apply orb_false_iff.
  destruct H as [H|H].
  - apply Nat.ltb_lt in H. split; [apply Nat.ltb_ge; lia|].
    apply andb_false_iff. left. apply Nat.eqb_neq. lia.
  - apply andb_true_iff in H. destruct H as [H1 H2]. apply Nat.eqb_eq in H1. split.
    + apply Nat.ltb_ge. lia.
    + apply andb_false_iff. right. apply str_ltb_asym. exact H2.
Qed.

Lemma insert_prop_ins x l : insert_prop x l = ins _ prop_lt x l.
Proof. induction l as [|y l IH]; [reflexivity|]. cbn [insert_prop ins]. unfold prop_lt at 1. rewrite IH. reflexivity. Qed.

Lemma sort_props_isort l : sort_props l = isort _ prop_lt l.
Proof. induction l as [|x l IH]; [reflexivity|]. cbn [sort_props isort fold_right]. fold (sort_props l). rewrite IH. apply insert_prop_ins. Qed.

Lemma sort_props_idem l : sort_props (sort_props l) = sort_props l.
Proof. rewrite !sort_props_isort. apply isort_idem. exact prop_lt_asym. Qed.

Definition role_lt (y x : str * str) : bool := role_ltb (fst y) (fst x).

Lemma bool_ltb_asym a b : bool_ltb a b = true -> bool_ltb b a = false.
Proof. destruct a, b; cbn; congruence. Qed.

Lemma role_ltb_asym a b : role_ltb a b = true -> role_ltb b a = false.
Proof.
  unfold role_ltb. destruct (role_key a) as [[a1 a2] a3]. destruct (role_key b) as [[b1 b2] b3].
  intros H. destruct a1, b1, a2, b2; cbn in *; try reflexivity; try discriminate; apply str_ltb_asym; exact H.
Qed.

Lemma insert_role_ins x l : insert_role x l = ins _ role_lt x l.
Proof. induction l as [|y l IH]; [reflexivity|]. cbn [insert_role ins]. unfold role_lt at 1. rewrite IH. reflexivity. Qed.

Lemma sort_roles_isort l : sort_roles l = isort _ role_lt l.
Proof. induction l as [|x l IH]; [reflexivity|]. cbn [sort_roles isort fold_right]. fold (sort_roles l). rewrite IH. apply insert_role_ins. Qed.

Lemma sort_roles_idem l : sort_roles (sort_roles l) = sort_roles l.
Proof. rewrite !sort_roles_isort. apply isort_idem. intros a b. apply role_ltb_asym. Qed.

(* ---------------------------------------------------------------- *)
(* two property states that print alike *)

Definition nd (vp : vprops) : Prop := NoDup (map fst vp).
Definition E (A B : vprops) : Prop := forall v, sort_props (getp v A) = sort_props (getp v B).

Lemma sort_props_nil ps : sort_props ps = [] -> ps = [].
Proof.
  intros H. pose proof (Permutation_length (sort_props_perm ps)) as L. rewrite H in L.
  destruct ps; [reflexivity | discriminate].
Qed.

Lemma getp_cases v vp : (getp v vp = [] /\ (dict_get v vp = None \/ dict_get v vp = Some [])) \/
                        (exists q qs, dict_get v vp = Some (q :: qs) /\ getp v vp = q :: qs).
Proof. unfold getp. destruct (dict_get v vp) as [[|q qs]|]; [left | right; eauto | left]; split; auto. Qed.

Lemma nd_del v vp : nd vp -> nd (dict_del v vp).
Proof. apply dict_del_nodup. Qed.

Lemma getp_del_same v vp : nd vp -> getp v (dict_del v vp) = [].
Proof. intros H. unfold getp. rewrite dict_get_del_same by exact H. reflexivity. Qed.

Lemma getp_del_other v w vp : v <> w -> getp w (dict_del v vp) = getp w vp.
Proof. intros H. unfold getp. rewrite dict_get_del_other by exact H. reflexivity. Qed.

Lemma enc_var_E v A B t A' : E A B -> nd A -> nd B -> enc_var v A = Some (t, A') ->
  exists B', enc_var v B = Some (t, B') /\ E A' B' /\ nd A' /\ nd B'.
Proof.
  intros HE HA HB H. unfold enc_var in *.
  destruct (getp_cases v A) as [[Ga Da]|[q [qs [Da Ga]]]].
  - assert (Gb : getp v B = []).
    { apply sort_props_nil. rewrite <- (HE v), Ga. reflexivity. }
    assert (t = [TSYM v] /\ A' = A).
    { destruct Da as [Da|Da]; rewrite Da in H; inversion H; auto. }
    destruct H0 as [-> ->].
    exists B. split; [|auto].
    destruct (getp_cases v B) as [[_ [Db|Db]]|[q [qs [_ Gb']]]]; [rewrite Db; reflexivity | rewrite Db; reflexivity |].
    rewrite Gb in Gb'. discriminate.
  - rewrite Da in H. destruct (var_type v) as [ty|]; [|discriminate]. inversion H; subst. clear H.
    destruct (getp_cases v B) as [[Gb _]|[r [rs [Db Gb]]]].
    + exfalso. pose proof (HE v) as X. rewrite Ga, Gb in X. apply sort_props_nil in X. discriminate.
    + rewrite Db. exists (dict_del v B). split.
      * unfold enc_props. rewrite <- Ga, <- Gb. rewrite (HE v). reflexivity.
      * split; [|split; apply nd_del; assumption].
        intros w. destruct (str_eqb v w) eqn:Ew.
        -- apply str_eqb_spec in Ew. subst w. rewrite !getp_del_same by assumption. reflexivity.
        -- assert (v <> w) by (intros X; subst; rewrite str_eqb_refl in Ew; discriminate).
           rewrite !getp_del_other by assumption. apply HE.
Qed.

Lemma enc_args_E L : forall A B t A', E A B -> nd A -> nd B -> enc_args L A = Some (t, A') ->
  exists B', enc_args L B = Some (t, B') /\ E A' B' /\ nd A' /\ nd B'.
Proof.
  induction L as [|[r a] L IH]; intros A B t A' HE HA HB H; cbn [enc_args] in *.
  - inversion H; subst. exists B. auto.
  - destruct (str_eqb r CARG_ROLE).
    + destruct (enc_args L A) as [[ts A1]|] eqn:Ea; [|discriminate]. inversion H; subst.
      destruct (IH _ _ _ _ HE HA HB Ea) as [B' [Eb R]]. rewrite Eb. exists B'. auto.
    + destruct (enc_var a A) as [[tv A1]|] eqn:Ev; [|discriminate].
      destruct (enc_args L A1) as [[ts A2]|] eqn:Ea; [|discriminate]. inversion H; subst.
      destruct (enc_var_E _ _ _ _ _ HE HA HB Ev) as [B1 [Ev' [HE1 [HA1 HB1]]]]. rewrite Ev'.
      destruct (IH _ _ _ _ HE1 HA1 HB1 Ea) as [B' [Eb R]]. rewrite Eb. exists B'. auto.
Qed.

Lemma enc_rel_E cls l e A B t A' : E A B -> nd A -> nd B -> enc_rel cls l e A = Some (t, A') ->
  exists B', enc_rel cls l (proj_ep l e) B = Some (t, B') /\ E A' B' /\ nd A' /\ nd B'.
Proof.
  intros HE HA HB H. unfold enc_rel in *. cbn [proj_ep x_args x_pred x_label x_lnk x_surface].
  rewrite sort_roles_idem.
  destruct (enc_args (sort_roles (x_args e)) A) as [[ta A1]|] eqn:Ea; [|discriminate]. inversion H; subst.
  destruct (enc_args_E _ _ _ _ _ HE HA HB Ea) as [B' [Eb R]]. rewrite Eb. exists B'. split; [|exact R].
  destruct l; reflexivity.
Qed.

Lemma enc_rels_E cls l rels : forall A B t A', E A B -> nd A -> nd B -> enc_rels cls l rels A = Some (t, A') ->
  exists B', enc_rels cls l (map (proj_ep l) rels) B = Some (t, B') /\ E A' B' /\ nd A' /\ nd B'.
Proof.
  induction rels as [|e rels IH]; intros A B t A' HE HA HB H; cbn [enc_rels map] in *.
  - inversion H; subst. exists B. auto.
  - destruct (enc_rel cls l e A) as [[t1 A1]|] eqn:Ee; [|discriminate].
    destruct (enc_rels cls l rels A1) as [[ts A2]|] eqn:Er; [|discriminate]. inversion H; subst.
    destruct (enc_rel_E _ _ _ _ _ _ _ HE HA HB Ee) as [B1 [Ee' [HE1 [HA1 HB1]]]]. rewrite Ee'.
    destruct (IH _ _ _ _ HE1 HA1 HB1 Er) as [B' [Er' R]]. rewrite Er'. exists B'. auto.
Qed.

Lemma enc_icons_E ics : forall A B t A', E A B -> nd A -> nd B -> enc_icons ics A = Some (t, A') ->
  exists B', enc_icons ics B = Some (t, B') /\ E A' B' /\ nd A' /\ nd B'.
Proof.
  induction ics as [|[[a rel] b] ics IH]; intros A B t A' HE HA HB H; cbn [enc_icons] in *.
  - inversion H; subst. exists B. auto.
  - destruct (enc_var a A) as [[ta A1]|] eqn:Ea; [|discriminate].
    destruct (enc_var b A1) as [[tb A2]|] eqn:Eb; [|discriminate].
    destruct (enc_icons ics A2) as [[ts A3]|] eqn:Ei; [|discriminate]. inversion H; subst.
    destruct (enc_var_E _ _ _ _ _ HE HA HB Ea) as [B1 [Ea' [HE1 [HA1 HB1]]]]. rewrite Ea'.
    destruct (enc_var_E _ _ _ _ _ HE1 HA1 HB1 Eb) as [B2 [Eb' [HE2 [HA2 HB2]]]]. rewrite Eb'.
    destruct (IH _ _ _ _ HE2 HA2 HB2 Ei) as [B' [Ei' R]]. rewrite Ei'. exists B'. auto.
Qed.

(* re-encoding the decoded structure: any variable map that prints like the
   original one (in particular the decoder's) gives the same token stream *)
Theorem enc_mrs_stable cls p l m vars' toks vpl :
  enc_mrs_full cls p l m = Some (toks, vpl) ->
  nd (xm_vars m) -> nd vars' -> E (if p then xm_vars m else []) (if p then vars' else []) ->
  enc_mrs cls p l (proj_mrs l m vars') = Some toks.
Proof.
  intros Henc HA HB HE. unfold enc_mrs. unfold enc_mrs_full in *. cbv zeta in *.
  cbn [proj_mrs xm_vars xm_top xm_index xm_rels xm_hcons xm_icons xm_lnk xm_surface].
  set (A0 := if p then xm_vars m else @nil (str * list (str * str))) in *.
  set (B0 := if p then vars' else @nil (str * list (str * str))) in *.
  assert (HA0 : nd A0) by (subst A0; destruct p; [exact HA | constructor]).
  assert (HB0 : nd B0) by (subst B0; destruct p; [exact HB | constructor]).
  (* index *)
  match type of Henc with match ?X with _ => _ end = _ => destruct X as [[tindex A1]|] eqn:Hei; [|discriminate] end.
  destruct (enc_rels cls l (xm_rels m) A1) as [[tr A2]|] eqn:Her; [|discriminate].
  destruct (enc_icons (xm_icons m) A2) as [[tic A3]|] eqn:Heic; [|discriminate].
  inversion Henc; subst toks vpl. clear Henc.
  assert (Hidx : exists B1,
            match xm_index m with
            | Some i => match enc_var i B0 with Some (ti, v1) => Some (TFEAT INDEX_F :: ti, v1) | None => None end
            | None => Some ([], B0) end = Some (tindex, B1) /\ E A1 B1 /\ nd A1 /\ nd B1).
  { destruct (xm_index m) as [i|].
    - match type of Hei with match ?X with _ => _ end = _ => destruct X as [[ti v1]|] eqn:Ev; [|discriminate] end.
      inversion Hei; subst.
      destruct (enc_var_E _ _ _ _ _ HE HA0 HB0 Ev) as [B1 [Ev' R]]. rewrite Ev'. exists B1. auto.
    - inversion Hei; subst. exists B0. auto. }
  destruct Hidx as [B1 [Hi [HE1 [HA1 HB1]]]]. rewrite Hi.
  destruct (enc_rels_E _ _ _ _ _ _ _ HE1 HA1 HB1 Her) as [B2 [Hr [HE2 [HA2 HB2]]]]. rewrite Hr.
  destruct (enc_icons_E _ _ _ _ _ HE2 HA2 HB2 Heic) as [B3 [Hic _]]. rewrite Hic.
  cbn [option_map fst]. f_equal. f_equal. f_equal.
  unfold proj_lnk. destruct l; [|reflexivity]. cbn [andb].
  destruct (lnk_truthy (xm_lnk m)) eqn:Et; [rewrite Et; reflexivity | reflexivity].
Qed.

(* ---------------------------------------------------------------- *)
(* the decoder's variable dictionary has no duplicate keys *)

From PyD Require Import Proofs.HierP.

Lemma dec_var_nd ts vars v r vars' : dec_var ts vars = Some (v, r, vars') -> nd vars -> nd vars'.
Proof.
  unfold dec_var. destruct ts as [|[] ts]; try discriminate.
  destruct ts as [|[] ts']; intros H Hn;
    try (inversion H; subst; apply dict_set_nodup; exact Hn).
  match type of H with match ?X with _ => _ end = _ => destruct X as [[ps r4]|]; [|discriminate] end.
  inversion H; subst. apply dict_set_nodup. exact Hn.
Qed.

Lemma dec_args_nd fuel : forall ts args vars a r vars',
  dec_args fuel ts args vars = Some (a, r, vars') -> nd vars -> nd vars'.
Proof.
  induction fuel as [|f IH]; intros ts args vars a r vars' H Hn; [discriminate|].
  cbn [dec_args] in H. destruct ts as [|t ts]; [inversion H; subst; exact Hn|].
  destruct t; try (inversion H; subst; exact Hn).
  destruct (str_eqb (ascii_upper s) CARG_ROLE).
  - destruct ts as [|[] ts']; try discriminate. eapply IH; eassumption.
  - destruct (dec_var ts vars) as [[[v ts2] vars1]|] eqn:Ev; [|discriminate].
    eapply IH; [eassumption|]. eapply dec_var_nd; eassumption.
Qed.

Lemma dec_rel_nd fuel ts vars e r vars' : dec_rel fuel ts vars = Some (e, r, vars') -> nd vars -> nd vars'.
Proof.
  unfold dec_rel. destruct ts as [|[] ts]; try discriminate.
  destruct (dec_pred ts) as [[pred ts2]|]; [|discriminate].
  destruct (dec_lnk ts2) as [lk ts3]. destruct (dec_dq ts3) as [surf ts4].
  unfold dec_rel_tail. destruct ts4 as [|[] ts4]; try discriminate. destruct ts4 as [|[] ts5]; try discriminate.
  destruct (str_eqb s LBL); [|discriminate].
  destruct (dec_args fuel ts5 [] vars) as [[[args r6] v']|] eqn:Ea; [|discriminate].
  destruct r6 as [|[] r6]; try discriminate. intros H Hn. inversion H; subst. eapply dec_args_nd; eassumption.
Qed.

Lemma dec_rels_nd fuel : forall ts acc vars rs r vars',
  dec_rels fuel ts acc vars = Some (rs, r, vars') -> nd vars -> nd vars'.
Proof.
  induction fuel as [|f IH]; intros ts acc vars rs r vars' H Hn; [discriminate|].
  cbn [dec_rels] in H. destruct ts as [|t ts]; [discriminate|]. destruct t; try discriminate.
  - destruct (dec_rel f (TLB :: ts) vars) as [[[e ts'] v1]|] eqn:Er; [|discriminate].
    eapply IH; [eassumption|]. eapply dec_rel_nd; eassumption.
  - inversion H; subst. exact Hn.
Qed.

Lemma dec_cons1_nd ts vars c r vars' : dec_cons1 ts vars = Some (c, r, vars') -> nd vars -> nd vars'.
Proof.
  unfold dec_cons1. destruct (dec_var ts vars) as [[[a r1] v1]|] eqn:E1; [|discriminate].
  destruct r1 as [|[] r1]; try discriminate.
  destruct (dec_var r1 v1) as [[[b r2] v2]|] eqn:E2; [|discriminate].
  intros H Hn. inversion H; subst. eapply dec_var_nd; [exact E2|]. eapply dec_var_nd; eassumption.
Qed.

Lemma dec_conses_nd fuel : forall ts acc vars cs r vars',
  dec_conses fuel ts acc vars = Some (cs, r, vars') -> nd vars -> nd vars'.
Proof.
  induction fuel as [|f IH]; intros ts acc vars cs r vars' H Hn; [discriminate|].
  cbn [dec_conses] in H. destruct ts as [|t ts]; [discriminate|]. destruct t; try discriminate.
  - inversion H; subst. exact Hn.
  - destruct (dec_cons1 (TSYM s :: ts) vars) as [[[c ts'] v1]|] eqn:Ec; [|discriminate].
    eapply IH; [eassumption|]. eapply dec_cons1_nd; eassumption.
Qed.

Lemma dec_feats_nd fuel : forall ts st st' r, dec_feats fuel ts st = Some (st', r) -> nd (ds_vars st) -> nd (ds_vars st').
Proof.
  induction fuel as [|f IH]; intros ts st st' r H Hn; [discriminate|].
  cbn [dec_feats] in H. destruct ts as [|t ts]; [inversion H; subst; exact Hn|].
  destruct t; try (inversion H; subst; exact Hn).
  destruct (str_eqb (ascii_upper s) LTOP_F || str_eqb (ascii_upper s) TOP_F).
  { destruct ts as [|[] ts']; try discriminate. eapply IH in H; [exact H | exact Hn]. }
  destruct (str_eqb (ascii_upper s) INDEX_F).
  { destruct (dec_var ts (ds_vars st)) as [[[v ts2] vars']|] eqn:Ev; [|discriminate].
    eapply IH in H; [exact H|]. cbn [ds_vars]. eapply dec_var_nd; eassumption. }
  destruct (str_eqb (ascii_upper s) RELS_F).
  { destruct ts as [|[] ts']; try discriminate.
    destruct (dec_rels f ts' (ds_rels st) (ds_vars st)) as [[[rels ts3] vars']|] eqn:Er; [|discriminate].
    eapply IH in H; [exact H|]. cbn [ds_vars]. eapply dec_rels_nd; eassumption. }
  destruct (str_eqb (ascii_upper s) HCONS_F).
  { destruct ts as [|[] ts']; try discriminate.
    destruct (dec_conses f ts' (ds_hcons st) (ds_vars st)) as [[[hs ts3] vars']|] eqn:Er; [|discriminate].
    eapply IH in H; [exact H|]. cbn [ds_vars]. eapply dec_conses_nd; eassumption. }
  destruct (str_eqb (ascii_upper s) ICONS_F); [|discriminate].
  destruct ts as [|[] ts']; try discriminate.
  destruct (dec_conses f ts' (ds_icons st) (ds_vars st)) as [[[hs ts3] vars']|] eqn:Er; [|discriminate].
  eapply IH in H; [exact H|]. cbn [ds_vars]. eapply dec_conses_nd; eassumption.
Qed.

Lemma dec_mrs_nd ts m r : dec_mrs ts = Some (m, r) -> nd (xm_vars m).
Proof.
  unfold dec_mrs. destruct ts as [|[] ts]; try discriminate.
  destruct (dec_lnk ts) as [lk ts2]. destruct (dec_dq ts2) as [surf ts3].
  match goal with |- context [dec_feats ?f ?t ?s] => destruct (dec_feats f t s) as [[st r4]|] eqn:Ef; [|discriminate] end.
  destruct r4 as [|[] r4]; try discriminate.
  destruct (forallb xep_ok (ds_rels st)); [|discriminate].
  intros H. inversion H; subst. cbn [xm_vars]. eapply dec_feats_nd in Ef; [exact Ef|]. constructor.
Qed.

(* ---------------------------------------------------------------- *)
(* decode, then encode again: the same token stream *)

Theorem reencode_stable cls l m toks vpl rest :
  mrs_wf m -> enc_mrs_full cls true l m = Some (toks, vpl) ->
  (forall v, getp v (xm_vars m) <> [] -> In v (mentioned m)) ->
  exists m', dec_mrs (toks ++ rest) = Some (m', rest) /\ enc_mrs cls true l m' = Some toks.
Proof.
  intros Hwf Henc Hex.
  destruct (dec_enc_mrs_lossless cls l m toks vpl rest Hwf Henc Hex) as [vars' [Hd Hv]].
  exists (proj_mrs l m vars'). split; [exact Hd|].
  apply (enc_mrs_stable cls true l m vars' toks vpl Henc).
  - apply Hwf.
  - pose proof (dec_mrs_nd _ _ _ Hd) as H. exact H.
  - intros v. rewrite Hv. rewrite sort_props_idem. reflexivity.
Qed.

Theorem reencode_stable_noprops cls l m toks vpl rest :
  mrs_wf m -> enc_mrs_full cls false l m = Some (toks, vpl) ->
  exists m', dec_mrs (toks ++ rest) = Some (m', rest) /\ enc_mrs cls false l m' = Some toks.
Proof.
  intros Hwf Henc.
  destruct (dec_enc_mrs_noprops cls l m toks vpl rest Hwf Henc) as [vars' [Hd _]].
  exists (proj_mrs l m vars'). split; [exact Hd|].
  apply (enc_mrs_stable cls false l m vars' toks vpl Henc).
  - apply Hwf.
  - exact (dec_mrs_nd _ _ _ Hd).
  - intros v. reflexivity.
Qed.

Lemma sorts_idempotent (ps args : list (str * str)) :
  sort_props (sort_props ps) = sort_props ps /\ sort_roles (sort_roles args) = sort_roles args.
Proof. split; [apply sort_props_idem | apply sort_roles_idem]. Qed.
