(* Proofs about Model/Mkprof.v (C12). *)
From Coq Require Import List NArith ZArith Bool Arith Lia.
From PyD Require Import Base.Str Base.Dec Model.Tsdb Model.TsdbFiles Model.TsdbDb Model.Hier Model.Tsql
  Model.Mkprof Proofs.HierP Proofs.TsdbDbP.
Import ListNotations.

(* ---- one item per line, numbered from 1, with mark and length ---- *)
Theorem lines_records fields : forall lines i k line,
  nth_error lines k = Some line ->
  nth_error (lines_to_records fields i lines) k = Some (item_record fields (i + Z.of_nat k) line).
Proof.
  induction lines as [|l ls IH]; intros i k line H; [destruct k; discriminate|].
  destruct k as [|k]; simpl in *.
  - inversion H; subst. rewrite Z.add_0_r. reflexivity.
  - rewrite (IH (i + 1)%Z k line H). f_equal. f_equal. lia.
Qed.

Theorem lines_records_length fields lines i : length (lines_to_records fields i lines) = length lines.
Proof. revert i. induction lines as [|l ls IH]; intros i; simpl; [reflexivity|]. rewrite IH. reflexivity. Qed.

(* the ungrammaticality mark *)
Theorem sentence_mark line :
  (forall rest, rstrip1 10 line = 42%N :: rest -> sentence line = (0%Z, rest)) /\
  ((forall rest, rstrip1 10 line <> 42%N :: rest) -> sentence line = (1%Z, rstrip1 10 line)).
Proof.
  unfold sentence. split.
  - intros rest ->. reflexivity.
  - intros H. destruct (rstrip1 10 line) as [|c r] eqn:E; [reflexivity|].
    destruct (N.eqb_spec c 42) as [->|Hc]; [exfalso; apply (H r); reflexivity|].
    destruct c as [|p]; [reflexivity|].
    do 6 (destruct p as [p|p|]; try reflexivity). all: try (exfalso; apply Hc; reflexivity).
    all: destruct p; reflexivity.
Qed.

(* ---- _tsql_distinct removes exactly the records equal to their predecessor ---- *)
Theorem distinct_adj_refuted :
  exists rows : list (list raw), distinct_adj None rows <> rows.
Proof. exists [[Some [49%N]]; [Some [49%N]]]. vm_compute. discriminate. Qed.

Lemma distinct_adj_sub prev l x : In x (distinct_adj prev l) -> In x l.
Proof.
  revert prev. induction l as [|r l IH]; intros prev H; simpl in *; [exact H|].
  destruct prev as [p|].
  - destruct (rec_eqb r p); [right; eapply IH; exact H|].
    destruct H as [->|H]; [left; reflexivity | right; eapply IH; exact H].
  - destruct H as [->|H]; [left; reflexivity | right; eapply IH; exact H].
Qed.

(* ---- cleanup: one relation ---- *)
Definition cleaned (to_keep : list str) (skeleton : bool) (name : str) (r : rel str) : rel str :=
  {| tx := match tx r with
           | Some l => if negb (mem name to_keep) || (skeleton && match l with [] => true | _ => false end)
                       then None else Some l
           | None => None end;
     gz := match gz r with
           | Some l => if negb (mem name to_keep) then None else Some l
           | None => None end;
     gz_newer := gz_newer r |}.

Lemma cleanup_fold to_keep skeleton : forall names fs n,
  NoDup names ->
  get_rel (fold_left (fun acc name =>
      let r := get_rel acc name in
      let drop_tx := match tx r with
                     | Some l => negb (mem name to_keep) || (skeleton && match l with [] => true | _ => false end)
                     | None => false end in
      let drop_gz := match gz r with Some _ => negb (mem name to_keep) | None => false end in
      set_rel acc name {| tx := if drop_tx then None else tx r;
                          gz := if drop_gz then None else gz r;
                          gz_newer := gz_newer r |}) names fs) n =
  if mem n names then cleaned to_keep skeleton n (get_rel fs n) else get_rel fs n.
Proof.
  induction names as [|m names IH]; intros fs n Hnd; simpl; [reflexivity|].
  inversion Hnd as [|? ? Hm Hnd']; subst. rewrite IH by exact Hnd'.
  unfold mem at 2. simpl. fold (mem n names).
  destruct (str_eqb n m) eqn:E.
  - apply str_eqb_spec in E. subst m. simpl.
    assert (mem n names = false) as -> by (apply mem_false; exact Hm).
    rewrite get_set_same. unfold cleaned.
    destruct (tx (get_rel fs n)) as [l|]; destruct (gz (get_rel fs n)) as [g|]; simpl;
      repeat match goal with |- context [if ?b then _ else _] => destruct b end; reflexivity.
  - simpl. apply str_eqb_false in E.
    destruct (mem n names); rewrite get_set_other by congruence; reflexivity.
Qed.

(* a skeleton keeps only the non-empty core relations; otherwise every relation
   of the destination schema keeps its file and stale relations are removed *)
Theorem cleanup_spec fs dst_sch skeleton old_files n :
  NoDup (dst_sch ++ filter (fun x => negb (mem x dst_sch)) old_files) ->
  get_rel (mkprof_cleanup fs dst_sch skeleton old_files) n =
  if mem n (dst_sch ++ filter (fun x => negb (mem x dst_sch)) old_files)
  then cleaned (if skeleton then filter (fun x => mem x CORE_FILES) dst_sch else dst_sch) skeleton n (get_rel fs n)
  else get_rel fs n.
Proof. intros H. unfold mkprof_cleanup. apply cleanup_fold. exact H. Qed.
