(* C06: completeness of the VF2 search.  If the two (augmented) graphs are
   isomorphic, the backtracking search finds a mapping that covers the second
   graph, whatever candidate order and pruning it uses: equivalent structures
   are never reported as different. *)
From Coq Require Import List NArith ZArith Bool Arith Lia FinFun.
From PyD Require Import Base.Str Model.Hier Model.Mrs Model.Iso Proofs.HierP Proofs.IsoP.
Import ListNotations.
Open Scope nat_scope.

Lemma dict_get_In' {A} k (v : A) d : dict_get k d = Some v -> In (k, v) d.
Proof.
  induction d as [|[k' v'] d IH]; simpl; [discriminate|].
  destruct (str_eqb k' k) eqn:E.
  - apply str_eqb_spec in E. subst k'. intros H; inversion H. left. reflexivity.
  - intros H. right. apply IH. exact H.
Qed.

(* ---- membership through the list helpers ---- *)
Lemma insert_str_In x y l : In x (insert_str y l) <-> y = x \/ In x l.
Proof.
  induction l as [|z l IH]; cbn [insert_str].
  - simpl. tauto.
  - destruct (str_ltb z y); simpl; rewrite ?IH; tauto.
Qed.

Lemma sort_str_In x l : In x (sort_str l) <-> In x l.
Proof.
  unfold sort_str. induction l as [|y l IH]; simpl; [tauto|]. rewrite insert_str_In, IH. tauto.
Qed.

Lemma dedupe_In x l : In x (dedupe l) <-> In x l.
Proof.
  induction l as [|y l IH]; cbn [dedupe]; [tauto|].
  destruct (mem y l) eqn:E.
  - rewrite IH. split; [intros H; right; exact H|]. intros [<-|H]; [apply mem_In; exact E | exact H].
  - simpl. rewrite IH. tauto.
Qed.

Lemma min_str_In l m : min_str l = Some m -> In m l.
Proof.
  unfold min_str. destruct (sort_str l) as [|x r] eqn:E; [discriminate|]. intros H; inversion H; subst.
  apply sort_str_In. rewrite E. left. reflexivity.
Qed.

Lemma min_str_None l : min_str l = None -> l = [].
Proof.
  unfold min_str. destruct (sort_str l) as [|x r] eqn:E; [|discriminate]. intros _.
  destruct l as [|y l]; [reflexivity|]. exfalso.
  assert (H : In y (sort_str (y :: l))) by (apply sort_str_In; left; reflexivity). rewrite E in H. destruct H.
Qed.

(* ---- edge dictionaries ---- *)
Lemma key_eqb_eq a b : key_eqb a b = true <-> a = b.
Proof.
  destruct a as [x|], b as [y|]; simpl; try (split; [discriminate | discriminate]); try tauto.
  - rewrite str_eqb_spec. split; [intros ->; reflexivity | intros H; inversion H; reflexivity].
Qed.

Lemma ed_get_In k v d : ed_get k d = Some v -> In (k, v) d.
Proof.
  induction d as [|[k' v'] d IH]; simpl; [discriminate|].
  destruct (key_eqb k' k) eqn:E.
  - apply key_eqb_eq in E. subst. intros H; inversion H. left. reflexivity.
  - intros H. right. apply IH. exact H.
Qed.

Lemma ed_get_nodup k v d : NoDup (map fst d) -> In (k, v) d -> ed_get k d = Some v.
Proof.
  induction d as [|[k' v'] d IH]; intros Hnd Hin; [destruct Hin|]. simpl in *.
  inversion Hnd as [|? ? Hn Hnd']; subst.
  destruct Hin as [E|Hin].
  - inversion E; subst. assert (X : key_eqb k k = true) by (apply key_eqb_eq; reflexivity). rewrite X. reflexivity.
  - destruct (key_eqb k' k) eqn:E; [|apply IH; assumption].
    apply key_eqb_eq in E. subst. exfalso. apply Hn. apply in_map_iff. exists (k, v). auto.
Qed.

Definition lbl (e : edict) : str := match ed_get None e with Some s => s | None => [] end.

(* ---- isomorphism of two graphs ---- *)
Definition edict_iso (psi : str -> str) (e1 e2 : edict) : Prop :=
  lbl e1 = lbl e2 /\ (forall x, ed_get (Some x) e1 = ed_get (Some (psi x)) e2) /\ length e1 = length e2.

Record giso (g1 g2 : igraph) (psi psi' : str -> str) : Prop := {
  gi_l : forall x, psi' (psi x) = x;
  gi_r : forall y, psi (psi' y) = y;
  gi_nodes : forall n, In n (map fst g1) <-> In (psi n) (map fst g2);
  gi_edges : forall n, edict_iso psi (g_get g1 n) (g_get g2 (psi n)) }.

(* dictionaries of dictionaries: keys are unique; edge targets are nodes *)
Definition wf_graph (g : igraph) : Prop :=
  NoDup (map fst g) /\ (forall n, NoDup (map fst (g_get g n))) /\
  (forall n k v, In (Some k, v) (g_get g n) -> In k (map fst g)).

Definition agrees (psi : str -> str) (mp : mapping) : Prop := forall n m, In (n, m) mp -> psi n = m.

Lemma map_get_In (mp : mapping) a b : map_get mp a = Some b -> In (a, b) mp.
Proof. unfold map_get. apply dict_get_In'. Qed.

Section Complete.
Variables (g1 g2 : igraph) (psi psi' : str -> str).
Hypothesis ISO : giso g1 g2 psi psi'.
Hypothesis WF1 : wf_graph g1.
Hypothesis WF2 : wf_graph g2.

Lemma opt_str_eqb_refl a : opt_str_eqb a a = true.
Proof. destruct a; simpl; [apply str_eqb_refl | reflexivity]. Qed.

(* the pair (psi' m, m) is feasible for every mapping that agrees with psi *)
Lemma iso_pair_feasible mp m : agrees psi mp -> feasible mp g1 g2 (psi' m) m = true.
Proof.
  intros Ha. set (n := psi' m).
  assert (Hn : psi n = m) by (unfold n; apply (gi_r _ _ _ _ ISO)).
  destruct (gi_edges _ _ _ _ ISO n) as (L & E & Len). rewrite Hn in L, E, Len.
  unfold feasible. fold (lbl (g_get g1 n)) (lbl (g_get g2 m)).
  rewrite L, str_eqb_refl. rewrite (E n), Hn, opt_str_eqb_refl. rewrite Len, Nat.eqb_refl. cbn [andb].
  apply andb_true_iff. split.
  - unfold consistent. apply forallb_forall. intros [[a'|] data] Hin; [|reflexivity]. cbn [fst snd].
    destruct (map_get mp a') as [b'|] eqn:Em; [|reflexivity].
    apply map_get_In in Em. apply Ha in Em. subst b'.
    rewrite <- (E a'). rewrite (ed_get_nodup _ _ _ (proj1 (proj2 WF1) n) Hin). apply str_eqb_refl.
  - unfold consistent. apply forallb_forall. intros [[b'|] data] Hin; [|reflexivity]. cbn [fst snd].
    destruct (map_get (inv_of mp) b') as [a''|] eqn:Em; [|reflexivity].
    apply map_get_In in Em. unfold inv_of in Em. apply in_map_iff in Em. destruct Em as ([x y] & Exy & Hxy).
    cbn in Exy. inversion Exy; subst y x. apply Ha in Hxy.
    rewrite (E a''), Hxy. rewrite (ed_get_nodup _ _ _ (proj1 (proj2 WF2) m) Hin). apply str_eqb_refl.
Qed.

(* the candidate list always offers the pair of psi for its target node *)
Lemma candidates_offer mp : agrees psi mp -> length mp < length g2 ->
  NoDup (map snd mp) -> incl (map snd mp) (map fst g2) ->
  exists m L, candidates mp g1 g2 = map (fun n1 => (n1, m)) L /\ In (psi' m) L /\
              ~ In m (map snd mp) /\ In m (map fst g2).
Proof.
  intros Ha Hlen Hnd Hincl. unfold candidates.
  set (m1 := map fst mp). set (m2 := map snd mp).
  assert (Hdom : forall m, ~ In m m2 -> ~ In (psi' m) m1).
  { intros m Hm Hin. unfold m1 in Hin. apply in_map_iff in Hin. destruct Hin as ([x y] & Ex & Hxy). cbn in Ex. subst x.
    pose proof (Ha _ _ Hxy) as E. rewrite (gi_r _ _ _ _ ISO) in E. subst y.
    apply Hm. unfold m2. apply in_map_iff. exists (psi' m, m). auto. }
  assert (Fallback :
    exists m L, match min_str (filter (fun y => negb (mem y m2)) (map fst g2)) with
                | Some m => map (fun n1 => (n1, m)) (sort_str (filter (fun y => negb (mem y m1)) (map fst g1)))
                | None => [] end = map (fun n1 => (n1, m)) L /\ In (psi' m) L /\ ~ In m m2 /\ In m (map fst g2)).
  { destruct (min_str (filter (fun y => negb (mem y m2)) (map fst g2))) as [m|] eqn:Emin.
    - apply min_str_In in Emin. apply filter_In in Emin. destruct Emin as [Hm Hu].
      apply negb_true_iff in Hu. apply mem_false in Hu.
      exists m, (sort_str (filter (fun y => negb (mem y m1)) (map fst g1))).
      split; [reflexivity|]. split; [|split; assumption].
      apply sort_str_In. apply filter_In. split.
      + apply (gi_nodes _ _ _ _ ISO). rewrite (gi_r _ _ _ _ ISO). exact Hm.
      + apply negb_true_iff. apply mem_false. apply Hdom. exact Hu.
    - exfalso. apply min_str_None in Emin.
      assert (Hall : incl (map fst g2) m2).
      { intros y Hy. destruct (mem y m2) eqn:E; [apply mem_In; exact E|].
        assert (X : In y (filter (fun y => negb (mem y m2)) (map fst g2))) by (apply filter_In; rewrite E; auto).
        rewrite Emin in X. destruct X. }
      pose proof (NoDup_incl_length (proj1 WF2) Hall) as Hl. unfold m2 in Hl. rewrite !map_length in Hl. lia. }
  match goal with |- context [match ?T1 with [] => _ | _ :: _ => _ end] => remember T1 as t1 eqn:Et1 end.
  destruct t1 as [|x1 r1]; [exact Fallback|].
  match goal with |- context [min_str ?T2] => destruct (min_str T2) as [m|] eqn:Emin end; [|exact Fallback].
  exists m, (sort_str (x1 :: r1)). split; [reflexivity|].
  apply min_str_In in Emin. apply (proj1 (dedupe_In _ _)) in Emin.
  apply in_flat_map in Emin. destruct Emin as ([n0 m0] & Hp & Hnb). cbn [snd] in Hnb.
  apply in_flat_map in Hnb. destruct Hnb as ([[y|] v] & Hkd & Hy); cbn [fst] in Hy; [|destruct Hy].
  destruct (mem y m2) eqn:Emem; [destruct Hy|]. destruct Hy as [<-|[]].
  apply mem_false in Emem.
  assert (Hnode : In y (map fst g2)) by (apply (proj2 (proj2 WF2) m0 y v Hkd)).
  split; [|split; assumption].
  apply sort_str_In. rewrite Et1. apply dedupe_In.
  apply in_flat_map. exists (n0, m0). split; [exact Hp|]. cbn [fst].
  pose proof (Ha _ _ Hp) as E0.
  destruct (gi_edges _ _ _ _ ISO n0) as (_ & E & _). rewrite E0 in E.
  specialize (E (psi' y)). rewrite (gi_r _ _ _ _ ISO) in E.
  rewrite (ed_get_nodup _ _ _ (proj1 (proj2 WF2) m0) Hkd) in E. apply ed_get_In in E.
  apply in_flat_map. exists (Some (psi' y), v). split; [exact E|]. cbn [fst].
  assert (X : mem (psi' y) m1 = false) by (apply mem_false; apply Hdom; exact Emem).
  rewrite X. left. reflexivity.
Qed.

Theorem search_complete : forall fuel mp, agrees psi mp -> NoDup (map snd mp) ->
  incl (map snd mp) (map fst g2) -> length g2 - length mp <= fuel ->
  exists r, search fuel g1 g2 mp = Some r.
Proof.
  induction fuel as [|f IH]; intros mp Ha Hnd Hincl Hf.
  - cbn [search]. destruct (Nat.leb (length g2) (length mp)) eqn:E; [eexists; reflexivity|].
    apply Nat.leb_gt in E. lia.
  - cbn [search]. destruct (Nat.leb (length g2) (length mp)) eqn:E; [eexists; reflexivity|].
    apply Nat.leb_gt in E.
    destruct (candidates_offer mp Ha E Hnd Hincl) as (m & L & Ec & Hin & Hm2 & Hmn).
    rewrite Ec.
    (* the recursive call on the pair of psi succeeds *)
    assert (Hrec : exists r, search f g1 g2 ((psi' m, m) :: mp) = Some r).
    { apply IH.
      - intros a b [X|X]; [inversion X; subst; apply (gi_r _ _ _ _ ISO) | apply Ha; exact X].
      - cbn [map snd]. constructor; assumption.
      - intros y [<-|Hy]; [exact Hmn | apply Hincl; exact Hy].
      - cbn [length]. lia. }
    pose proof (iso_pair_feasible mp m Ha) as Hfeas.
    clear Ec. induction L as [|n1 L IHL]; [destruct Hin|].
    cbn [map].
    destruct (feasible mp g1 g2 n1 m) eqn:F.
    + destruct (search f g1 g2 ((n1, m) :: mp)) as [r|] eqn:S; [eexists; reflexivity|].
      destruct Hin as [->|Hin]; [destruct Hrec as [r Hr]; rewrite Hr in S; discriminate|].
      apply IHL. exact Hin.
    + destruct Hin as [->|Hin]; [rewrite Hfeas in F; discriminate|].
      apply IHL. exact Hin.
Qed.

(* the whole matcher on graphs: with the fuel vf2 uses, a covering mapping is found *)
Corollary search_complete_start : exists r, search (S (length g2)) g1 g2 [] = Some r /\ length g2 <= length r.
Proof.
  destruct (search_complete (S (length g2)) []) as [r Hr].
  - intros a b [].
  - constructor.
  - intros y [].
  - simpl. lia.
  - exists r. split; [exact Hr|].
    destruct (Proofs.IsoP.search_built g1 g2 _ _ _ (Proofs.IsoP.built_nil g1 g2) Hr) as [_ H]. exact H.
Qed.
End Complete.

(* every well-formed graph is isomorphic to itself: the search never fails on
   a graph against itself (the matcher is reflexive) *)
Lemma giso_refl g : giso g g (fun x => x) (fun x => x).
Proof.
  constructor; try reflexivity; try tauto.
  intros n. repeat split; reflexivity.
Qed.

Corollary search_reflexive g : wf_graph g ->
  exists r, search (S (length g)) g g [] = Some r /\ length g <= length r.
Proof. intros W. exact (search_complete_start g g _ _ (giso_refl g) W W). Qed.

(* non-vacuity: a concrete pair of graphs related by a renaming that swaps two node names *)
Definition ex_a : str := [97]%N.
Definition ex_b : str := [98]%N.
Definition ex_c : str := [99]%N.
Definition ex_swap (x : str) : str := if str_eqb x ex_a then ex_b else if str_eqb x ex_b then ex_a else x.
Definition ex_g1 : igraph :=
  [(ex_a, [(None, [112]%N); (Some ex_c, [114]%N)]); (ex_b, [(None, [113]%N)]); (ex_c, [(Some ex_a, [45;45;114]%N)])].
Definition ex_g2 : igraph :=
  [(ex_b, [(None, [112]%N); (Some ex_c, [114]%N)]); (ex_a, [(None, [113]%N)]); (ex_c, [(Some ex_b, [45;45;114]%N)])].

Lemma ex_swap_invol x : ex_swap (ex_swap x) = x.
Proof.
  unfold ex_swap. destruct (str_eqb x ex_a) eqn:A.
  - apply str_eqb_spec in A. subst. reflexivity.
  - destruct (str_eqb x ex_b) eqn:B.
    + apply str_eqb_spec in B. subst. reflexivity.
    + rewrite A, B. reflexivity.
Qed.

Example ex_search : search 4 ex_g1 ex_g2 [] = Some [(ex_c, ex_c); (ex_a, ex_b); (ex_b, ex_a)].
Proof. vm_compute. reflexivity. Qed.

Lemma ex_cases x : x = ex_a \/ x = ex_b \/ x = ex_c \/ (str_eqb x ex_a = false /\ str_eqb x ex_b = false /\ str_eqb x ex_c = false).
Proof.
  destruct (str_eqb x ex_a) eqn:A; [left; apply str_eqb_spec; exact A|].
  destruct (str_eqb x ex_b) eqn:B; [right; left; apply str_eqb_spec; exact B|].
  destruct (str_eqb x ex_c) eqn:C; [right; right; left; apply str_eqb_spec; exact C|].
  right; right; right. auto.
Qed.

Lemma str_eqb_comm' a b : str_eqb a b = str_eqb b a.
Proof.
  destruct (str_eqb a b) eqn:E.
  - apply str_eqb_spec in E. subst. symmetry. apply str_eqb_refl.
  - destruct (str_eqb b a) eqn:E2; [|reflexivity]. apply str_eqb_spec in E2. subst. rewrite str_eqb_refl in E. discriminate.
Qed.

Example ex_giso : giso ex_g1 ex_g2 ex_swap ex_swap /\ wf_graph ex_g1 /\ wf_graph ex_g2.
Proof.
  split; [|split].
  - constructor; try apply ex_swap_invol.
    + intros n. destruct (ex_cases n) as [->|[->|[->|(A & B & C)]]]; try (vm_compute; tauto).
      unfold ex_swap. rewrite A, B. simpl.
      split; intros [H|[H|[H|[]]]]; subst; vm_compute in A, B, C; discriminate.
    + intros n. destruct (ex_cases n) as [->|[->|[->|(A & B & C)]]].
      * split; [reflexivity|]. split; [|reflexivity]. intros x.
        destruct (ex_cases x) as [->|[->|[->|(A & B & C)]]]; try reflexivity.
        unfold ex_swap. rewrite A, B. change (g_get ex_g1 ex_a) with [(@None str, [112]%N); (Some ex_c, [114]%N)].
        change (g_get ex_g2 (if str_eqb ex_a ex_a then ex_b else if str_eqb ex_a ex_b then ex_a else ex_a))
          with [(@None str, [112]%N); (Some ex_c, [114]%N)].
        cbn [ed_get key_eqb]. rewrite (str_eqb_comm' ex_c x), C. reflexivity.
      * split; [reflexivity|]. split; [|reflexivity]. intros x.
        destruct (ex_cases x) as [->|[->|[->|(A & B & C)]]]; try reflexivity.
      * split; [reflexivity|]. split; [|reflexivity]. intros x.
        destruct (ex_cases x) as [->|[->|[->|(A & B & C)]]]; try reflexivity.
        unfold ex_swap. rewrite A, B.
        change (g_get ex_g1 ex_c) with [(Some ex_a, [45;45;114]%N)].
        change (g_get ex_g2 (if str_eqb ex_c ex_a then ex_b else if str_eqb ex_c ex_b then ex_a else ex_c))
          with [(Some ex_b, [45;45;114]%N)].
        cbn [ed_get key_eqb]. rewrite (str_eqb_comm' ex_a x), A, (str_eqb_comm' ex_b x), B. reflexivity.
      * assert (G1 : g_get ex_g1 n = []).
        { unfold g_get, ex_g1. cbn [dict_get]. rewrite (str_eqb_comm' ex_a n), A, (str_eqb_comm' ex_b n), B, (str_eqb_comm' ex_c n), C. reflexivity. }
        assert (G2 : g_get ex_g2 (ex_swap n) = []).
        { unfold ex_swap. rewrite A, B. unfold g_get, ex_g2. cbn [dict_get].
          rewrite (str_eqb_comm' ex_a n), A, (str_eqb_comm' ex_b n), B, (str_eqb_comm' ex_c n), C. reflexivity. }
        rewrite G1, G2. repeat split; reflexivity.
  - split; [|split].
    + repeat constructor; simpl; intuition discriminate.
    + intros n. destruct (ex_cases n) as [->|[->|[->|(A & B & C)]]]; try (vm_compute; repeat constructor; simpl; intuition discriminate).
      assert (G1 : g_get ex_g1 n = []).
      { unfold g_get, ex_g1. cbn [dict_get]. rewrite (str_eqb_comm' ex_a n), A, (str_eqb_comm' ex_b n), B, (str_eqb_comm' ex_c n), C. reflexivity. }
      rewrite G1. constructor.
    + intros n k v. destruct (ex_cases n) as [->|[->|[->|(A & B & C)]]].
      * vm_compute. intros [H|[H|[]]]; inversion H; subst; tauto.
      * vm_compute. intros [H|[]]; inversion H.
      * vm_compute. intros [H|[]]; inversion H; subst; tauto.
      * assert (G1 : g_get ex_g1 n = []).
        { unfold g_get, ex_g1. cbn [dict_get]. rewrite (str_eqb_comm' ex_a n), A, (str_eqb_comm' ex_b n), B, (str_eqb_comm' ex_c n), C. reflexivity. }
        rewrite G1. intros [].
  - split; [|split].
    + repeat constructor; simpl; intuition discriminate.
    + intros n. destruct (ex_cases n) as [->|[->|[->|(A & B & C)]]]; try (vm_compute; repeat constructor; simpl; intuition discriminate).
      assert (G1 : g_get ex_g2 n = []).
      { unfold g_get, ex_g2. cbn [dict_get]. rewrite (str_eqb_comm' ex_b n), B, (str_eqb_comm' ex_a n), A, (str_eqb_comm' ex_c n), C. reflexivity. }
      rewrite G1. constructor.
    + intros n k v. destruct (ex_cases n) as [->|[->|[->|(A & B & C)]]].
      * vm_compute. intros [H|[]]; inversion H.
      * vm_compute. intros [H|[H|[]]]; inversion H; subst; tauto.
      * vm_compute. intros [H|[]]; inversion H; subst; tauto.
      * assert (G1 : g_get ex_g2 n = []).
        { unfold g_get, ex_g2. cbn [dict_get]. rewrite (str_eqb_comm' ex_b n), B, (str_eqb_comm' ex_a n), A, (str_eqb_comm' ex_c n), C. reflexivity. }
        rewrite G1. intros [].
Qed.

(* ---- the mapping found is a bijection onto the first graph's nodes ---- *)
Lemma candidates_fresh g1 g2 mp n m : wf_graph g1 -> In (n, m) (candidates mp g1 g2) ->
  ~ In n (map fst mp) /\ In n (map fst g1).
Proof.
  intros W. unfold candidates.
  assert (Fallback : In (n, m) match min_str (filter (fun y => negb (mem y (map snd mp))) (map fst g2)) with
                     | Some m0 => map (fun n1 => (n1, m0)) (sort_str (filter (fun y => negb (mem y (map fst mp))) (map fst g1)))
                     | None => [] end -> ~ In n (map fst mp) /\ In n (map fst g1)).
  { destruct (min_str _) as [m0|]; [|intros []]. intros H. apply in_map_iff in H. destruct H as (n1 & E & H).
    inversion E; subst. apply (proj1 (sort_str_In _ _)) in H. apply filter_In in H. destruct H as [Hn Hu].
    apply negb_true_iff in Hu. apply mem_false in Hu. split; assumption. }
  match goal with |- context [match ?T1 with [] => _ | _ :: _ => _ end] => remember T1 as t1 eqn:Et1 end.
  destruct t1 as [|x1 r1]; [exact Fallback|].
  match goal with |- context [min_str ?T2] => destruct (min_str T2) as [m0|] end; [|exact Fallback].
  intros H. apply in_map_iff in H. destruct H as (n1 & E & H). inversion E; subst.
  apply (proj1 (sort_str_In _ _)) in H. rewrite Et1 in H. apply (proj1 (dedupe_In _ _)) in H.
  apply in_flat_map in H. destruct H as ([n0 m00] & Hp & Hnb). cbn [fst] in Hnb.
  apply in_flat_map in Hnb. destruct Hnb as ([[y|] v] & Hkd & Hy); cbn [fst] in Hy; [|destruct Hy].
  destruct (mem y (map fst mp)) eqn:Emem; [destruct Hy|]. destruct Hy as [<-|[]].
  apply mem_false in Emem. split; [exact Emem|]. apply (proj2 (proj2 W) n0 y v Hkd).
Qed.

Inductive Built2 (g1 g2 : igraph) : mapping -> Prop :=
| built2_nil : Built2 g1 g2 []
| built2_cons mp n m : Built2 g1 g2 mp -> ~ In n (map fst mp) -> In n (map fst g1) -> Built2 g1 g2 ((n, m) :: mp).

Theorem search_built2 g1 g2 : wf_graph g1 -> forall fuel mp r,
  Built2 g1 g2 mp -> search fuel g1 g2 mp = Some r -> Built2 g1 g2 r.
Proof.
  intros W. induction fuel as [|f IH]; intros mp r Hb H; simpl in H.
  - destruct (Nat.leb (length g2) (length mp)); [|discriminate]. inversion H; subst. exact Hb.
  - destruct (Nat.leb (length g2) (length mp)); [inversion H; subst; exact Hb|].
    assert (Hc : forall c, In c (candidates mp g1 g2) -> In c (candidates mp g1 g2)) by auto.
    revert H Hc. generalize (candidates mp g1 g2) at 1 2. intros cands.
    induction cands as [|[n m] rest IHc]; intros H Hc; [discriminate|].
    destruct (feasible mp g1 g2 n m).
    + destruct (search f g1 g2 ((n, m) :: mp)) as [r'|] eqn:S.
      * inversion H; subst r'. apply (IH ((n, m) :: mp) r); [|exact S].
        destruct (candidates_fresh g1 g2 mp n m W (Hc _ (or_introl eq_refl))) as [A B]. constructor; assumption.
      * apply IHc; [exact H | intros c Hin; apply Hc; right; exact Hin].
    + apply IHc; [exact H | intros c Hin; apply Hc; right; exact Hin].
Qed.

Lemma built2_nodup g1 g2 mp : Built2 g1 g2 mp -> NoDup (map fst mp) /\ incl (map fst mp) (map fst g1).
Proof.
  induction 1 as [|mp n m Hb [IH1 IH2] Hn Hg]; [split; [constructor | intros x []]|].
  cbn [map fst]. split; [constructor; assumption|]. intros x [<-|Hx]; [exact Hg | apply IH2; exact Hx].
Qed.

Lemma giso_lengths g1 g2 psi psi' : giso g1 g2 psi psi' -> NoDup (map fst g1) -> NoDup (map fst g2) ->
  length g1 = length g2.
Proof.
  intros I N1 N2.
  assert (A : length (map fst g1) <= length (map fst g2)).
  { rewrite <- (map_length psi (map fst g1)). apply NoDup_incl_length.
    - apply Injective_map_NoDup; [|exact N1]. intros a b E.
      rewrite <- (gi_l _ _ _ _ I a), <- (gi_l _ _ _ _ I b), E. reflexivity.
    - intros y Hy. apply in_map_iff in Hy. destruct Hy as (x & <- & Hx). apply (gi_nodes _ _ _ _ I). exact Hx. }
  assert (B : length (map fst g2) <= length (map fst g1)).
  { rewrite <- (map_length psi' (map fst g2)). apply NoDup_incl_length.
    - apply Injective_map_NoDup; [|exact N2]. intros a b E.
      rewrite <- (gi_r _ _ _ _ I a), <- (gi_r _ _ _ _ I b), E. reflexivity.
    - intros y Hy. apply in_map_iff in Hy. destruct Hy as (x & <- & Hx). apply (gi_nodes _ _ _ _ I).
      rewrite (gi_r _ _ _ _ I). exact Hx. }
  rewrite !map_length in A, B. lia.
Qed.

(* on isomorphic graphs the search returns a mapping whose domain is exactly
   the node set of the first graph: the test `set(iso) == set(g1)` of
   is_isomorphic succeeds *)
Theorem search_covers g1 g2 psi psi' : giso g1 g2 psi psi' -> wf_graph g1 -> wf_graph g2 ->
  exists r, search (S (length g2)) g1 g2 [] = Some r /\
            forall n, In n (map fst g1) <-> In n (map fst r).
Proof.
  intros I W1 W2.
  destruct (search_complete_start g1 g2 psi psi' I W1 W2) as (r & Hr & Hlen).
  exists r. split; [exact Hr|].
  pose proof (search_built2 g1 g2 W1 _ _ _ (built2_nil g1 g2) Hr) as Hb.
  destruct (built2_nodup _ _ _ Hb) as [Nd Inc].
  pose proof (giso_lengths _ _ _ _ I (proj1 W1) (proj1 W2)) as L.
  intros n. split; [|apply Inc].
  apply (NoDup_length_incl Nd).
  - rewrite !map_length. lia.
  - exact Inc.
Qed.
