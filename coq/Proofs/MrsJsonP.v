(* Proofs about the MRS-JSON dictionary model (C01). *)
From Coq Require Import List NArith ZArith Bool Arith Lia.
From PyD Require Import Base.Str Base.Dec Model.Hier Model.Mrs Model.Iso Model.SimpleMrs Model.MrsJson.
Import ListNotations.

Lemma str_fields_map l : str_fields (map (fun kv : str * str => (fst kv, JStr (snd kv))) l) = Some l.
Proof. induction l as [|[k v] l IH]; [reflexivity|]. cbn [map fst snd str_fields]. rewrite IH. reflexivity. Qed.

Definition proj_json_ep (l : bool) (e : xep) : xep :=
  {| x_pred := x_pred e; x_label := x_label e; x_args := x_args e;
     x_lnk := if l && lnk_truthy (x_lnk e) then LChar (cfrom (x_lnk e)) (cto (x_lnk e)) else LNone;
     x_surface := if l then match x_surface e with Some (c :: s) => Some (c :: s) | _ => None end else None |}.

Definition proj_json (p l : bool) (m : xmrs) : xmrs :=
  {| xm_top := xm_top m; xm_index := xm_index m; xm_rels := map (proj_json_ep l) (xm_rels m);
     xm_hcons := xm_hcons m; xm_icons := xm_icons m;
     xm_vars := map (fun kv => (fst kv, if p then snd kv else [])) (xm_vars m);
     xm_lnk := LNone; xm_surface := None |}.

Lemma ep_roundtrip l e : ep_from_dict (ep_to_dict l e) = Some (proj_json_ep l e).
Proof.
  unfold ep_to_dict, ep_from_dict, proj_json_ep, jget.
  destruct l; cbn [andb].
  - destruct (lnk_truthy (x_lnk e)); destruct (x_surface e) as [[|c s]|];
      cbn -[str_fields jstr_map]; unfold jstr_map; rewrite str_fields_map; reflexivity.
  - cbn -[str_fields jstr_map]. unfold jstr_map. rewrite str_fields_map. reflexivity.
Qed.

Lemma eps_roundtrip l rels : all_some (map ep_from_dict (map (ep_to_dict l) rels)) = Some (map (proj_json_ep l) rels).
Proof.
  induction rels as [|e rels IH]; [reflexivity|]. cbn [map all_some]. rewrite ep_roundtrip, IH. reflexivity.
Qed.

Lemma constraints_high hs ics :
  all_some (map (cons_from k_high k_low) (filter (has_key k_high) (map hcons_to_dict hs ++ map icons_to_dict ics))) = Some hs.
Proof.
  induction hs as [|[[a r] b] hs IH].
  - cbn [map app]. induction ics as [|[[a r] b] ics IH2]; [reflexivity|]. cbn [map filter]. exact IH2.
  - cbn [map app filter]. change (has_key k_high (hcons_to_dict (a, r, b))) with true. cbn iota.
    cbn [map all_some]. change (cons_from k_high k_low (hcons_to_dict (a, r, b))) with (Some (a, r, b)).
    rewrite IH. reflexivity.
Qed.

Lemma constraints_left hs ics :
  all_some (map (cons_from k_left k_right) (filter (has_key k_left) (map hcons_to_dict hs ++ map icons_to_dict ics))) = Some ics.
Proof.
  induction hs as [|[[a r] b] hs IH].
  - cbn [map app]. induction ics as [|[[a r] b] ics IH2]; [reflexivity|]. cbn [map filter].
    change (has_key k_left (icons_to_dict (a, r, b))) with true. cbn iota. cbn [map all_some].
    change (cons_from k_left k_right (icons_to_dict (a, r, b))) with (Some (a, r, b)). rewrite IH2. reflexivity.
  - cbn [map app filter]. change (has_key k_left (hcons_to_dict (a, r, b))) with false. cbn iota. exact IH.
Qed.

Lemma vars_roundtrip p vs vd : vars_to_dict p vs = Some vd ->
  all_some (map var_from vd) = Some (map (fun kv => (fst kv, if p then snd kv else [])) vs).
Proof.
  revert vd. induction vs as [|[v ps] vs IH]; intros vd H; cbn [vars_to_dict] in H.
  - inversion H; subst. reflexivity.
  - destruct (var_type v) as [t|]; [|discriminate]. destruct (vars_to_dict p vs) as [r|]; [|discriminate].
    inversion H; subst. clear H. cbn [map all_some]. rewrite (IH r eq_refl). cbn [fst snd].
    unfold var_from. cbn [snd fst]. destruct p.
    + destruct ps as [|q qs]; cbn -[str_fields jstr_map]; [reflexivity|]. unfold jstr_map. rewrite str_fields_map. reflexivity.
    + reflexivity.
Qed.

(* reading back the dictionary that to_dict writes gives the structure with
   exactly the suppressed information removed (alignments that are not
   character spans become <-1:-1>, empty surface strings are not written) *)
Theorem from_to_dict p l m d : to_dict p l m = Some d -> from_dict d = Some (proj_json p l m).
Proof.
  unfold to_dict. destruct (vars_to_dict p (xm_vars m)) as [vd|] eqn:Ev; [|discriminate].
  intros H. inversion H; subst. clear H.
  unfold from_dict, jget. cbn [dict_get].
  repeat match goal with
         | |- context [str_eqb ?a ?b] => let v := eval vm_compute in (str_eqb a b) in change (str_eqb a b) with v
         end.
  cbv iota beta.
  rewrite eps_roundtrip, constraints_high, constraints_left, (vars_roundtrip p _ _ Ev).
  unfold proj_json. destruct (xm_top m), (xm_index m); reflexivity.
Qed.
