(* C12: a profile created from delimited text lines has one item per data line, built
   from that line alone and its position. *)
From Coq Require Import List NArith ZArith Bool Lia.
From PyD Require Import Base.Str Model.Tsdb Model.Mkprof.
Import ListNotations.

Theorem delim_records_length delim fields names : forall lines i seen recs,
  delim_records delim fields names i seen lines = Some recs -> length recs = length lines.
Proof.
  induction lines as [|l ls IH]; intros i seen recs H; cbn [delim_records] in H.
  - inversion H. reflexivity.
  - destruct (delim_record delim fields names i l) as [[rec gid]|]; [|discriminate].
    destruct gid as [id|].
    + destruct (existsb (raw_eqb' id) seen); [discriminate|].
      destruct (delim_records delim fields names (i + 1) (id :: seen) ls) as [rs|] eqn:E; [|discriminate].
      inversion H; subst. cbn [length]. f_equal. eapply IH. exact E.
    + destruct (delim_records delim fields names (i + 1) seen ls) as [rs|] eqn:E; [|discriminate].
      inversion H; subst. cbn [length]. f_equal. eapply IH. exact E.
Qed.

(* record k is the record of line k with the identifier 1 + k (when none is given) *)
Theorem delim_records_nth delim fields names : forall lines i seen recs k line,
  delim_records delim fields names i seen lines = Some recs ->
  nth_error lines k = Some line ->
  exists gid, delim_record delim fields names (i + Z.of_nat k) line = Some (nth k recs [], gid) /\
              nth_error recs k <> None.
Proof.
  induction lines as [|l ls IH]; intros i seen recs k line H Hk; [destruct k; discriminate|].
  cbn [delim_records] in H.
  destruct (delim_record delim fields names i l) as [[rec gid]|] eqn:ER; [|discriminate].
  assert (Hrest : exists seen' rs, delim_records delim fields names (i + 1) seen' ls = Some rs /\ recs = rec :: rs).
  { destruct gid as [id|].
    - destruct (existsb (raw_eqb' id) seen); [discriminate|].
      destruct (delim_records delim fields names (i + 1) (id :: seen) ls) as [rs|] eqn:E; [|discriminate].
      inversion H; subst. eauto.
    - destruct (delim_records delim fields names (i + 1) seen ls) as [rs|] eqn:E; [|discriminate].
      inversion H; subst. eauto. }
  destruct Hrest as (seen' & rs & E & ->).
  destruct k as [|k]; cbn [nth_error] in Hk.
  - inversion Hk; subst. exists gid. cbn [nth nth_error]. rewrite Z.add_0_r. split; [exact ER | discriminate].
  - destruct (IH (i + 1)%Z seen' rs k line E Hk) as (g & A & B).
    exists g. cbn [nth nth_error]. split; [|exact B].
    replace (i + Z.of_nat (S k))%Z with (i + 1 + Z.of_nat k)%Z by lia. exact A.
Qed.

(* identifiers given in the text are pairwise different in an accepted input *)
Theorem delim_records_ids_distinct delim fields names : forall lines i seen recs,
  delim_records delim fields names i seen lines = Some recs ->
  forall k line rec id, nth_error lines k = Some line ->
    delim_record delim fields names (i + Z.of_nat k) line = Some (rec, Some id) ->
    existsb (raw_eqb' id) seen = false.
Proof.
  induction lines as [|l ls IH]; intros i seen recs H k line rec id Hk Hr; [destruct k; discriminate|].
  cbn [delim_records] in H.
  destruct (delim_record delim fields names i l) as [[rec0 gid]|] eqn:ER; [|discriminate].
  destruct k as [|k]; cbn [nth_error] in Hk.
  - inversion Hk; subst. rewrite Z.add_0_r in Hr. rewrite ER in Hr. inversion Hr; subst.
    destruct (existsb (raw_eqb' id) seen); [discriminate | reflexivity].
  - replace (i + Z.of_nat (S k))%Z with (i + 1 + Z.of_nat k)%Z in Hr by lia.
    destruct gid as [id0|].
    + destruct (existsb (raw_eqb' id0) seen) eqn:E0; [discriminate|].
      destruct (delim_records delim fields names (i + 1) (id0 :: seen) ls) as [rs|] eqn:E; [|discriminate].
      pose proof (IH _ _ _ E k line rec id Hk Hr) as X. cbn [existsb] in X.
      apply orb_false_iff in X. apply X.
    + destruct (delim_records delim fields names (i + 1) seen ls) as [rs|] eqn:E; [|discriminate].
      exact (IH _ _ _ E k line rec id Hk Hr).
Qed.

(* a column given in the text is written verbatim, a missing i-id is the line number *)
Theorem delim_record_fields delim fields names i line rec gid :
  delim_record delim fields names i line = Some (rec, gid) ->
  exists vals, split_cols delim line = Some vals /\ length vals = length names /\
    rec = map (fun f =>
                 match col_lookup (f_name f) names vals with
                 | Some (Some s) => VStr s
                 | Some None => VNone
                 | None =>
                     if str_eqb (f_name f) I_ID then VInt i
                     else if str_eqb (f_name f) I_LENGTH then
                       match col_lookup I_INPUT names vals with
                       | Some v => VInt (word_count (match v with Some s => s | None => [] end))
                       | None => VNone
                       end
                     else VNone
                 end) fields.
Proof.
  unfold delim_record. destruct (split_cols delim line) as [vals|]; [|discriminate].
  destruct (Nat.eqb (length vals) (length names)) eqn:E; cbn [negb]; [|discriminate].
  intros H. inversion H; subst. exists vals. apply Nat.eqb_eq in E. auto.
Qed.

Example delimited_example :
  items_from_delimited 9 [{| f_name := I_ID; f_type := TInt |}; {| f_name := I_INPUT; f_type := TStr |};
                          {| f_name := I_LENGTH; f_type := TInt |}]
    [[105;45;105;110;112;117;116]%N; [97;32;98]%N; [99]%N]
  = Some [[49;64;97;32;98;64;50]%N; [50;64;99;64;49]%N].
Proof. vm_compute. reflexivity. Qed.
