(* C10: batch processing with any buffer size leaves every produced row exactly
   once on disk and in memory, so that a later commit adds nothing. *)
From Coq Require Import List NArith ZArith Bool Lia.
From PyD Require Import Base.Str Model.TsdbFiles Model.Table Proofs.TsdbFilesP Proofs.TableP Model.Process.
Import ListNotations.

Definition rows_for (name : str) (prod : list (str * row)) : list row :=
  map snd (filter (fun nr => str_eqb (fst nr) name) prod).

Lemma rows_for_app name a b : rows_for name (a ++ b) = rows_for name a ++ rows_for name b.
Proof. unfold rows_for. rewrite filter_app, map_app. reflexivity. Qed.

(* the relation between a table at the start and the same table after some rows were produced *)
Definition R (affected : list str) (done : list (str * row)) (nt0 nt : str * table) : Prop :=
  fst nt = fst nt0 /\ Inv (snd nt) /\
  t_iter (snd nt) = (if existsb (str_eqb (fst nt0)) affected then [] else t_iter (snd nt0))
                    ++ rows_for (fst nt0) done.

Lemma R_clear affected ts0 : Forall (fun nt => Inv (snd nt)) ts0 ->
  Forall2 (R affected []) ts0 (clear_affected affected ts0).
Proof.
  unfold clear_affected. induction ts0 as [|nt ts IH]; intros H; cbn [map]; [constructor|].
  inversion H as [|? ? Hi Hr]; subst. constructor; [|apply IH; exact Hr].
  unfold R. cbn [rows_for filter map]. rewrite app_nil_r.
  destruct (existsb (str_eqb (fst nt)) affected) eqn:E; cbn [fst snd].
  - destruct (clear_spec _ Hi) as (A & B & _). auto.
  - auto.
Qed.

Lemma R_extend affected done name r ts0 ts : Forall2 (R affected done) ts0 ts ->
  Forall2 (R affected (done ++ [(name, r)])) ts0 (on_table name (fun t => t_extend t [r]) ts).
Proof.
  unfold on_table. induction 1 as [|nt0 nt ts0 ts H _ IH]; cbn [map]; constructor; [|exact IH].
  destruct H as (Hn & Hi & Hit). unfold R. rewrite rows_for_app.
  unfold rows_for at 2. cbn [filter fst snd]. rewrite <- Hn.
  destruct (str_eqb (fst nt) name) eqn:E.
  - assert (E' : str_eqb name (fst nt) = true).
    { apply str_eqb_spec. apply str_eqb_spec in E. auto. }
    rewrite E'. cbn [fst snd map]. destruct (extend_spec _ [r] Hi) as (A & B & _).
    rewrite B, Hit, Hn, <- app_assoc. auto.
  - assert (E' : str_eqb name (fst nt) = false).
    { destruct (str_eqb name (fst nt)) eqn:E2; [|reflexivity].
      apply str_eqb_spec in E2. subst name. rewrite str_eqb_refl in E. discriminate. }
    rewrite E'. cbn [map]. rewrite app_nil_r, <- Hn in *. rewrite Hn at 1. auto.
Qed.

Lemma R_commit affected done ts0 ts : Forall2 (R affected done) ts0 ts ->
  Forall2 (R affected done) ts0 (map_tabs t_commit ts).
Proof.
  unfold map_tabs. induction 1 as [|nt0 nt ts0 ts H _ IH]; cbn [map]; constructor; [|exact IH].
  destruct H as (Hn & Hi & Hit). unfold R. cbn [fst snd].
  destruct (commit_spec _ Hi) as (A & _ & C & _). rewrite C. auto.
Qed.

Lemma R_add_row affected done bs nr ts0 ts : Forall2 (R affected done) ts0 ts ->
  Forall2 (R affected (done ++ [nr])) ts0 (add_row bs ts nr).
Proof.
  intros H. destruct nr as [name r]. unfold add_row. cbn [fst snd].
  destruct (bs <? _)%Z; [apply R_commit|]; apply R_extend; exact H.
Qed.

Lemma R_fold affected bs prod : forall done ts0 ts, Forall2 (R affected done) ts0 ts ->
  Forall2 (R affected (done ++ prod)) ts0 (fold_left (add_row bs) prod ts).
Proof.
  induction prod as [|nr prod IH]; intros done ts0 ts H; cbn [fold_left].
  - rewrite app_nil_r. exact H.
  - replace (done ++ nr :: prod) with ((done ++ [nr]) ++ prod) by (rewrite <- app_assoc; reflexivity).
    apply IH. apply R_add_row. exact H.
Qed.

(* writing the relation in full and reloading *)
Lemma finish_spec gzflag t : Inv t ->
  let t' := t_finish gzflag t in
  Inv t' /\ t_iter t' = t_iter t /\ lines_of t' = t_iter t /\ in_transaction t' = false.
Proof.
  intros H. unfold t_finish, write_rel. cbn [andb].
  destruct (gzflag && negb (is_nil (t_iter t)))%bool eqn:E.
  - set (f := {| tx := None; gz := Some (t_iter t); gz_newer := true |}).
    assert (Hr : read_rel f <> None) by (unfold f, read_rel, use_gz; cbn; discriminate).
    destruct (sync_inv f Hr) as (A & B & C).
    assert (Hc : content f = t_iter t) by reflexivity.
    cbv zeta. split; [exact A|]. split; [rewrite B; exact Hc|]. split; [|exact C].
    unfold lines_of. cbn [sync t_file]. exact Hc.
  - set (f := {| tx := Some ([] ++ t_iter t); gz := None; gz_newer := false |}).
    assert (Hr : read_rel f <> None) by (unfold f, read_rel, use_gz; cbn; discriminate).
    destruct (sync_inv f Hr) as (A & B & C).
    assert (Hc : content f = t_iter t) by reflexivity.
    cbv zeta. split; [exact A|]. split; [rewrite B; exact Hc|]. split; [|exact C].
    unfold lines_of. cbn [sync t_file]. exact Hc.
Qed.

(* what a table holds after process, in terms of what it held before and the rows produced *)
Definition expected (affected : list str) (prod : list (str * row)) (nt0 : str * table) : list row :=
  (if existsb (str_eqb (fst nt0)) affected then [] else t_iter (snd nt0)) ++ rows_for (fst nt0) prod.

Theorem process_spec affected prod bs gzflag ts0 : Forall (fun nt => Inv (snd nt)) ts0 ->
  Forall2 (fun nt0 nt =>
             fst nt = fst nt0 /\ Inv (snd nt) /\
             t_iter (snd nt) = expected affected prod nt0 /\       (* in memory *)
             lines_of (snd nt) = expected affected prod nt0 /\     (* on disk *)
             in_transaction (snd nt) = false /\
             t_len (snd nt) = length (expected affected prod nt0) /\
             (* a later commit adds nothing *)
             t_iter (t_commit (snd nt)) = expected affected prod nt0 /\
             lines_of (t_commit (snd nt)) = expected affected prod nt0)
          ts0 (process affected prod bs gzflag ts0).
Proof.
  intros H. unfold process.
  pose proof (R_fold affected bs prod [] ts0 _ (R_clear affected ts0 H)) as HF. cbn [app] in HF.
  set (ts := fold_left (add_row bs) prod (clear_affected affected ts0)) in *. clearbody ts.
  clear H. unfold map_tabs. induction HF as [|nt0 nt ts0' ts' HR _ IH]; cbn [map]; [constructor|].
  constructor; [|exact IH].
  destruct HR as (Hn & Hi & Hit). cbn [fst snd].
  destruct (finish_spec gzflag _ Hi) as (A & B & C & D).
  destruct (commit_spec _ A) as (A2 & B2 & C2 & _).
  unfold expected. rewrite <- Hit.
  split; [exact Hn|]. split; [exact A|]. split; [exact B|]. split; [exact C|]. split; [exact D|].
  split; [rewrite (len_refines _ A), B; reflexivity|].
  split; [rewrite C2, B; reflexivity | rewrite B2, B; reflexivity].
Qed.

(* the premises are satisfiable and the buffer matters: three relations (one with a stored
   row that is cleared), four produced rows, buffer size 1 *)
Definition ex_ts0 : tabs :=
  [([105]%N, open_table {| tx := Some [[[49]%N]]; gz := None; gz_newer := false |});
   ([112]%N, open_table {| tx := None; gz := Some [[[57]%N]]; gz_newer := true |});
   ([114]%N, open_table {| tx := None; gz := None; gz_newer := false |})].
Definition ex_prod : list (str * row) :=
  [([112]%N, [[48]%N]); ([114]%N, [[97]%N]); ([114]%N, [[98]%N]); ([112]%N, [[49]%N])].

Example process_example :
  Forall (fun nt => Inv (snd nt)) ex_ts0 /\
  commits 1 (clear_affected [[112]%N; [114]%N] ex_ts0) ex_prod = 1 /\
  map (fun nt => (t_iter (snd nt), lines_of (snd nt)))
      (process [[112]%N; [114]%N] ex_prod 1 false ex_ts0)
  = [([[[49]%N]], [[[49]%N]]);
     ([[[48]%N]; [[49]%N]], [[[48]%N]; [[49]%N]]);
     ([[[97]%N]; [[98]%N]], [[[97]%N]; [[98]%N]])].
Proof.
  split; [|split; vm_compute; reflexivity].
  unfold ex_ts0.
  constructor; [exact (proj1 (open_inv _))|]. constructor; [exact (proj1 (open_inv _))|].
  constructor; [exact (proj1 (open_inv _))|]. constructor.
Qed.
