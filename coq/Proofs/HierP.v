(* Proofs about Model/Hier.v (C17). *)
From Coq Require Import List NArith Bool Lia Relations.
From PyD Require Import Base.Str Model.Hier.
Import ListNotations.
Open Scope nat_scope.

Lemma mem_In x l : mem x l = true <-> In x l.
Proof.
  unfold mem. rewrite existsb_exists. split.
  - intros [y [Hy E]]. apply str_eqb_spec in E. subst. exact Hy.
  - intros H. exists x. split; [exact H | apply str_eqb_refl].
Qed.

Lemma mem_false x l : mem x l = false <-> ~ In x l.
Proof.
  rewrite <- mem_In. destruct (mem x l); split; intros H; congruence.
Qed.

Lemma str_eqb_false x y : str_eqb x y = false <-> x <> y.
Proof.
  pose proof (str_eqb_spec x y) as H. destruct (str_eqb x y); split; intros; try congruence.
  - exfalso. apply H0. apply H. reflexivity.
  - intros E. apply H in E. discriminate.
Qed.

Definition parent (h : rhier) (p x : str) : Prop :=
  exists ps, In (x, ps) h /\ In p ps.

Inductive wfh (top : str) : rhier -> Prop :=
| wfh_top : wfh top [(top, [])]
| wfh_cons nid ps rest :
    wfh top rest -> ~ In nid (keys rest) -> ps <> [] ->
    (forall p, In p ps -> In p (keys rest)) ->
    (forall p, In p ps -> ~ In p (flat_map (anc rest) ps)) ->
    wfh top ((nid, ps) :: rest).

Lemma wfh_nodup top h : wfh top h -> NoDup (keys h).
Proof.
  induction 1; simpl.
  - constructor; [simpl; tauto | constructor].
  - constructor; assumption.
Qed.

Lemma In_keys (h : rhier) x ps : In (x, ps) h -> In x (keys h).
Proof. intros H. apply in_map_iff. exists (x, ps). split; [reflexivity | exact H]. Qed.

Lemma wfh_top_in top h : wfh top h -> In top (keys h).
Proof. induction 1; simpl; auto. Qed.

Lemma wfh_parent_keys top h p x : wfh top h -> parent h p x -> In p (keys h) /\ In x (keys h).
Proof.
  induction 1 as [|nid ps rest Hw IH Hnew Hne Hin Hred]; intros [qs [Hx Hp]].
  - simpl in Hx. destruct Hx as [E|[]]. inversion E; subst. destruct Hp.
  - simpl in Hx. destruct Hx as [E|Hx].
    + inversion E; subst. split; [right; apply Hin; exact Hp | left; reflexivity].
    + destruct IH as [A B]; [exists qs; split; assumption|]. split; right; assumption.
Qed.

Lemma anc_notin h x : ~ In x (keys h) -> anc h x = [].
Proof.
  induction h as [|[y ps] rest IH]; simpl; intros Hn; [reflexivity|].
  destruct (str_eqb y x) eqn:E.
  - apply str_eqb_spec in E. subst. exfalso. apply Hn. left; reflexivity.
  - apply IH. intros H. apply Hn. right; exact H.
Qed.

Lemma parent_cons_other (nid : str) ps rest p x :
  x <> nid -> (parent ((nid, ps) :: rest) p x <-> parent rest p x).
Proof.
  intros Hne. split; intros [qs [Hx Hp]].
  - simpl in Hx. destruct Hx as [E|Hx]; [inversion E; subst; congruence|].
    exists qs; split; assumption.
  - exists qs; split; [right; exact Hx | exact Hp].
Qed.

Lemma wfh_head_notin top (nid : str) ps rest : wfh top ((nid, ps) :: rest) -> ~ In nid (keys rest).
Proof. intros H. inversion H; subst; simpl; auto. Qed.

Lemma wfh_tail_parent_keys top (nid : str) ps rest p x :
  wfh top ((nid, ps) :: rest) -> parent rest p x -> In p (keys rest).
Proof.
  intros H Hp. inversion H as [|? ? ? Hw1 Hnew Hne Hin Hred]; subst.
  - destruct Hp as [qs [Hq _]]. destruct Hq.
  - destruct (wfh_parent_keys _ _ _ _ Hw1 Hp) as [A _]. exact A.
Qed.

Lemma parent_cons_new top (nid : str) ps rest p :
  wfh top ((nid, ps) :: rest) -> (parent ((nid, ps) :: rest) p nid <-> In p ps).
Proof.
  intros Hw. split.
  - intros [qs [Hx Hp]]. simpl in Hx. destruct Hx as [E|Hx]; [inversion E; subst; exact Hp|].
    exfalso. apply (wfh_head_notin _ _ _ _ Hw). eapply In_keys; eauto.
  - intros Hp. exists ps. split; [left; reflexivity | exact Hp].
Qed.

(* a path ending at an old node only uses old edges *)
Lemma clos_old top (nid : str) ps rest a z :
  wfh top ((nid, ps) :: rest) -> z <> nid ->
  clos_trans _ (parent ((nid, ps) :: rest)) a z -> clos_trans _ (parent rest) a z.
Proof.
  intros Hw Hz H. apply clos_trans_tn1 in H.
  induction H as [z Hs | z w Hs Hc IH].
  - apply t_step. apply (parent_cons_other nid ps rest a z Hz). exact Hs.
  - pose proof (proj1 (parent_cons_other nid ps rest z w Hz) Hs) as Hs'.
    pose proof (wfh_tail_parent_keys _ _ _ _ _ _ Hw Hs') as Hzk.
    assert (z <> nid) by (intros ->; apply (wfh_head_notin _ _ _ _ Hw); exact Hzk).
    eapply t_trans; [apply IH; assumption | apply t_step; exact Hs'].
Qed.

Lemma clos_mono (nid : str) ps rest a z :
  ~ In nid (keys rest) ->
  clos_trans _ (parent rest) a z -> clos_trans _ (parent ((nid, ps) :: rest)) a z.
Proof.
  intros Hn H. induction H as [a z Hs | a m z _ IH1 _ IH2].
  - apply t_step. destruct Hs as [qs [Hx Hp]]. exists qs. split; [right; exact Hx | exact Hp].
  - eapply t_trans; eassumption.
Qed.

(* ancestors = transitive closure of the parent relation *)
Theorem anc_spec top h : wfh top h ->
  forall a x, In a (anc h x) <-> clos_trans _ (parent h) a x.
Proof.
  induction 1 as [|nid ps rest Hw IH Hnew Hne Hin Hred]; intros a x.
  - simpl. destruct (str_eqb top x); simpl; split; try tauto.
    + intros H. apply clos_trans_tn1 in H. destruct H as [z [qs [Hx Hp]] | z w [qs [Hx Hp]] _];
        simpl in Hx; destruct Hx as [E|[]]; inversion E; subst; destruct Hp.
    + intros H. apply clos_trans_tn1 in H. destruct H as [z [qs [Hx Hp]] | z w [qs [Hx Hp]] _];
        simpl in Hx; destruct Hx as [E|[]]; inversion E; subst; destruct Hp.
  - assert (Hw' : wfh top ((nid, ps) :: rest)) by (constructor; assumption).
    simpl. destruct (str_eqb nid x) eqn:E.
    + apply str_eqb_spec in E. subst x. rewrite in_app_iff, in_flat_map. split.
      * intros [Ha | [p [Hp Hap]]].
        -- apply t_step. exists ps. split; [left; reflexivity | exact Ha].
        -- eapply t_trans.
           ++ apply clos_mono; [exact Hnew|]. apply IH. exact Hap.
           ++ apply t_step. exists ps. split; [left; reflexivity | exact Hp].
      * intros H. apply clos_trans_tn1 in H. inversion H as [y Hs Ey | w z Hs Hc Ez]; subst.
        -- left. apply (parent_cons_new top nid ps rest a Hw'). exact Hs.
        -- right. apply (parent_cons_new top nid ps rest w Hw') in Hs.
           exists w. split; [exact Hs|]. apply IH.
           apply (clos_old top nid ps rest a w Hw').
           ++ intros ->. apply Hnew. apply Hin. exact Hs.
           ++ apply clos_tn1_trans. exact Hc.
    + apply str_eqb_false in E. rewrite IH. split.
      * apply clos_mono. exact Hnew.
      * apply (clos_old top nid ps rest a x Hw'). congruence.
Qed.

(* age of a node: number of entries inserted before it *)
Fixpoint age (h : rhier) (x : str) : nat :=
  match h with
  | [] => 0
  | (y, _) :: rest => if str_eqb y x then length rest else age rest x
  end.

Lemma age_lt h x : In x (keys h) -> age h x < length h.
Proof.
  induction h as [|[y ps] rest IH]; simpl; [tauto|].
  intros [E|H].
  - subst. rewrite str_eqb_refl. lia.
  - destruct (str_eqb y x); [lia|]. specialize (IH H). lia.
Qed.

Lemma parent_age top h p x : wfh top h -> parent h p x -> age h p < age h x.
Proof.
  induction 1 as [|nid ps rest Hw IH Hnew Hne Hin Hred]; intros [qs [Hx Hp]].
  - simpl in Hx. destruct Hx as [E|[]]. inversion E; subst. destruct Hp.
  - simpl in Hx. destruct Hx as [E|Hx].
    + inversion E; subst. simpl. rewrite str_eqb_refl.
      assert (Hpk : In p (keys rest)) by (apply Hin; exact Hp).
      assert (Hxp : x <> p) by (intros ->; contradiction).
      rewrite (proj2 (str_eqb_false x p) Hxp). apply age_lt. exact Hpk.
    + assert (Hpar : parent rest p x) by (exists qs; split; assumption).
      destruct (wfh_parent_keys _ _ _ _ Hw Hpar) as [A B].
      simpl.
      assert (nid <> p) by (intros ->; contradiction).
      assert (nid <> x) by (intros ->; contradiction).
      rewrite (proj2 (str_eqb_false nid p) H), (proj2 (str_eqb_false nid x) H0).
      apply IH. exact Hpar.
Qed.

Theorem acyclic top h : wfh top h -> forall a, ~ clos_trans _ (parent h) a a.
Proof.
  intros Hw a H.
  assert (G : forall a b, clos_trans _ (parent h) a b -> age h a < age h b).
  { intros x y Hc. induction Hc as [x y Hs | x m y _ IH1 _ IH2].
    - eapply parent_age; eauto.
    - lia. }
  specialize (G a a H). lia.
Qed.

(* every node other than the top descends from the top *)
Theorem top_is_ancestor top h : wfh top h ->
  forall x, In x (keys h) -> x <> top -> In top (anc h x).
Proof.
  induction 1 as [|nid ps rest Hw IH Hnew Hne Hin Hred]; intros x Hx Hxt.
  - simpl in Hx. destruct Hx as [E|[]]. congruence.
  - simpl. simpl in Hx. destruct (str_eqb nid x) eqn:E.
    + destruct ps as [|p ps']; [congruence|].
      destruct (str_eqb p top) eqn:Ep.
      * apply str_eqb_spec in Ep. subst p. left. reflexivity.
      * apply str_eqb_false in Ep. apply in_or_app. right. simpl. apply in_or_app. left.
        apply IH; [apply Hin; left; reflexivity | exact Ep].
    + apply str_eqb_false in E. destruct Hx as [Hx|Hx]; [congruence|].
      apply IH; assumption.
Qed.

(* the top has no ancestors, so nothing subsumes it but itself *)
Theorem top_no_ancestors top h : wfh top h -> anc h top = [].
Proof.
  induction 1 as [|nid ps rest Hw IH Hnew Hne Hin Hred]; simpl.
  - rewrite str_eqb_refl. reflexivity.
  - assert (nid <> top) by (intros ->; apply Hnew; eapply wfh_top_in; eauto).
    rewrite (proj2 (str_eqb_false nid top) H). exact IH.
Qed.

(* children and parents are mutual inverses (derived view) *)
Theorem children_spec top h : wfh top h ->
  forall p c, In c (children h p) <-> parent h p c.
Proof.
  intros _ p c. unfold children, parent. rewrite in_map_iff. split.
  - intros [[c' ps] [E H]]. simpl in E. subst c'. apply filter_In in H. destruct H as [H M].
    exists ps. split; [exact H | apply mem_In; exact M].
  - intros [ps [H M]]. exists (c, ps). split; [reflexivity|]. apply filter_In.
    split; [exact H | apply mem_In; exact M].
Qed.

Theorem desc_spec h x d : In d (desc h x) <-> In d (keys h) /\ In x (anc h d).
Proof. unfold desc. rewrite filter_In, mem_In. tauto. Qed.

(* ---- subsumption is a partial order with top greatest ---- *)
Definition subs (h : rhier) (a b : str) : Prop := a = b \/ In b (desc h a).

Lemma subs_clos top h a b : wfh top h -> In b (keys h) ->
  (subs h a b <-> a = b \/ clos_trans _ (parent h) a b).
Proof.
  intros Hw Hb. unfold subs. rewrite desc_spec, (anc_spec top h Hw). tauto.
Qed.

Theorem subs_refl h a : subs h a a.
Proof. left; reflexivity. Qed.

Theorem subs_trans top h a b c : wfh top h -> In b (keys h) -> In c (keys h) ->
  subs h a b -> subs h b c -> subs h a c.
Proof.
  intros Hw Hb Hc H1 H2.
  apply (subs_clos top h a b Hw Hb) in H1. apply (subs_clos top h b c Hw Hc) in H2.
  apply (subs_clos top h a c Hw Hc).
  destruct H1 as [->|H1]; [exact H2|]. destruct H2 as [->|H2]; [right; exact H1|].
  right. eapply t_trans; eassumption.
Qed.

Theorem subs_antisym top h a b : wfh top h -> In a (keys h) -> In b (keys h) ->
  subs h a b -> subs h b a -> a = b.
Proof.
  intros Hw Ha Hb H1 H2.
  apply (subs_clos top h a b Hw Hb) in H1. apply (subs_clos top h b a Hw Ha) in H2.
  destruct H1 as [->|H1]; [reflexivity|]. destruct H2 as [->|H2]; [reflexivity|].
  exfalso. apply (acyclic top h Hw a). eapply t_trans; eassumption.
Qed.

Theorem subs_top top h x : wfh top h -> In x (keys h) -> subs h top x.
Proof.
  intros Hw Hx. destruct (str_eqb x top) eqn:E.
  - apply str_eqb_spec in E. left. congruence.
  - apply str_eqb_false in E. right. apply desc_spec. split; [exact Hx|].
    apply (top_is_ancestor top h Hw); assumption.
Qed.

(* ---- compatibility ---- *)
Definition compat (h : rhier) (a b : str) : bool :=
  existsb (fun x => mem x (b :: desc h b)) (a :: desc h a).

Theorem compat_spec h a b :
  compat h a b = true <-> exists x, subs h a x /\ subs h b x.
Proof.
  unfold compat, subs. rewrite existsb_exists. split.
  - intros [x [Hx M]]. apply mem_In in M. exists x.
    simpl in Hx, M. split; [destruct Hx; auto | destruct M; auto].
  - intros [x [H1 H2]]. exists x. split.
    + simpl. destruct H1; auto.
    + apply mem_In. simpl. destruct H2; auto.
Qed.

Theorem compat_sym h a b : compat h a b = compat h b a.
Proof.
  apply eq_true_iff_eq. rewrite !compat_spec. split; intros [x [A B]]; exists x; tauto.
Qed.

(* ---- update preserves well-formedness; rejected updates change nothing ---- *)

Lemma parentage_ok_spec h ps : parentage_ok h ps = true ->
  ps <> [] /\ forall p, In p ps -> ~ In p (flat_map (anc h) ps).
Proof.
  unfold parentage_ok. rewrite andb_true_iff, !negb_true_iff. intros [A B]. split.
  - destruct ps; congruence.
  - intros p Hp Hin. assert (existsb (fun p => mem p (flat_map (anc h) ps)) ps = true) as X.
    { apply existsb_exists. exists p. split; [exact Hp | apply mem_In; exact Hin]. }
    congruence.
Qed.

Lemma insert_all_wf top : forall el h h', wfh top h ->
  NoDup (map fst el) ->
  (forall k, In k (map fst el) -> ~ In k (keys h)) ->
  (forall e, In e el -> forall p, In p (snd e) -> In p (keys h)) ->
  insert_all el h = Some h' ->
  wfh top h' /\ keys h' = rev (map fst el) ++ keys h.
Proof.
  induction el as [|[nid ps] el IH]; intros h h' Hw Hnd Hnew Hpar Hins; simpl in Hins.
  - inversion Hins; subst. split; [exact Hw | reflexivity].
  - destruct (parentage_ok h ps) eqn:Eok; [|discriminate].
    apply parentage_ok_spec in Eok. destruct Eok as [Hne Hred].
    inversion Hnd as [|? ? Hnotin Hnd']; subst.
    assert (Hw1 : wfh top ((nid, ps) :: h)).
    { constructor; auto.
      - apply Hnew. left; reflexivity.
      - intros p Hp. apply (Hpar (nid, ps)); [left; reflexivity | exact Hp]. }
    destruct (IH ((nid, ps) :: h) h' Hw1 Hnd') as [A B]; auto.
    + intros k Hk [E|Hin].
      * subst. simpl in Hnotin. contradiction.
      * apply (Hnew k); [right; exact Hk | exact Hin].
    + intros e He p Hp. right. apply (Hpar e); [right; exact He | exact Hp].
    + split; [exact A|]. rewrite B. simpl. rewrite <- app_assoc. reflexivity.
Qed.

Lemma nodup_fst_inj {A B} (l : list (A * B)) e1 e2 :
  NoDup (map fst l) -> In e1 l -> In e2 l -> fst e1 = fst e2 -> e1 = e2.
Proof.
  induction l as [|e l IH]; simpl; intros Hnd H1 H2 E; [tauto|].
  inversion Hnd as [|? ? Hn Hnd']; subst.
  destruct H1 as [->|H1], H2 as [->|H2]; auto.
  - exfalso. apply Hn. rewrite E. apply in_map. exact H2.
  - exfalso. apply Hn. rewrite <- E. apply in_map. exact H1.
Qed.

Lemma nodup_map_filter {A B} (f : A -> B) (p : A -> bool) l :
  NoDup (map f l) -> NoDup (map f (filter p l)).
Proof.
  induction l as [|x l IH]; simpl; intros H; [constructor|].
  inversion H as [|? ? Hn Hnd]; subst. destruct (p x); simpl; auto.
  constructor; auto. intros Hin. apply Hn. apply in_map_iff in Hin.
  destruct Hin as [y [E Hy]]. apply filter_In in Hy. rewrite <- E. apply in_map. tauto.
Qed.

Lemma filter_partition_length {A} (p : A -> bool) l :
  length (filter p l) + length (filter (fun x => negb (p x)) l) = length l.
Proof. induction l as [|x l IH]; simpl; [reflexivity|]. destruct (p x); simpl; lia. Qed.

Lemma rounds_S f h sub : sub <> [] ->
  rounds (S f) h sub =
  match eligible h sub with
  | [] => URejected
  | _ => match insert_all (eligible h sub) h with
         | None => URejected
         | Some h' => rounds f h' (remaining h sub)
         end
  end.
Proof.
  destruct sub as [|e sub]; [congruence|]. intros _.
  change (rounds (S f) h (e :: sub)) with
    (match eligible h (e :: sub) with
     | [] => URejected
     | el => match insert_all el h with
             | None => URejected
             | Some h' => rounds f h' (remaining h (e :: sub))
             end
     end).
  destruct (eligible h (e :: sub)); reflexivity.
Qed.

Lemma rounds_wf top : forall fuel h sub, wfh top h ->
  NoDup (map fst sub) ->
  (forall k, In k (map fst sub) -> ~ In k (keys h)) ->
  length sub <= fuel ->
  match rounds fuel h sub with
  | UOk h' => wfh top h' /\
              (forall k, In k (keys h') <-> In k (keys h) \/ In k (map fst sub))
  | URejected => True
  | UOutOfFuel => False
  end.
Proof.
  induction fuel as [|f IH]; intros h sub Hw Hnd Hnew Hlen.
  - destruct sub; simpl in *; [|lia]. split; [exact Hw | intros; simpl; tauto].
  - destruct sub as [|e0 sub0] eqn:Esub; [simpl; split; [exact Hw | intros; simpl; tauto]|].
    rewrite <- Esub in *. assert (Hsub : sub <> []) by (rewrite Esub; discriminate).
    rewrite (rounds_S f h sub Hsub).
    destruct (eligible h sub) as [|e1 el1] eqn:Eel; [exact I|]. rewrite <- Eel.
    destruct (insert_all (eligible h sub) h) as [h1|] eqn:Eins; [|exact I].
    assert (Hins := Eins).
    apply (insert_all_wf top) in Hins; auto.
    2:{ apply nodup_map_filter. exact Hnd. }
    2:{ intros k Hk. apply Hnew. apply in_map_iff in Hk. destruct Hk as [e [E He]].
        apply filter_In in He. rewrite <- E. apply in_map. tauto. }
    2:{ intros e He p Hp. apply filter_In in He. destruct He as [_ Hall].
        rewrite forallb_forall in Hall. apply mem_In. apply Hall. exact Hp. }
    destruct Hins as [Hw1 Hk1].
    assert (Hkeys1 : forall k, In k (keys h1) <-> In k (map fst (eligible h sub)) \/ In k (keys h)).
    { intros k. rewrite Hk1, in_app_iff, <- in_rev. tauto. }
    specialize (IH h1 (remaining h sub) Hw1).
    assert (Hlen2 : length (remaining h sub) <= f).
    { pose proof (filter_partition_length
                    (fun e => forallb (fun p => mem p (keys h)) (snd e)) sub) as P.
      unfold eligible in Eel. unfold remaining. rewrite Eel in P. simpl in P. lia. }
    assert (Hnd2 : NoDup (map fst (remaining h sub))) by (apply nodup_map_filter; exact Hnd).
    assert (Hnew2 : forall k, In k (map fst (remaining h sub)) -> ~ In k (keys h1)).
    { intros k Hk Hin. apply Hkeys1 in Hin.
      apply in_map_iff in Hk. destruct Hk as [e [E He]]. apply filter_In in He.
      destruct He as [He Hp]. destruct Hin as [Hin|Hin].
      - apply in_map_iff in Hin. destruct Hin as [e' [E' He']]. apply filter_In in He'.
        destruct He' as [He' Hp']. assert (e = e').
        { apply (nodup_fst_inj sub e e' Hnd He He'). congruence. }
        subst e'. rewrite Hp' in Hp. discriminate.
      - apply (Hnew k); [|exact Hin]. rewrite <- E. apply in_map. exact He. }
    specialize (IH Hnd2 Hnew2 Hlen2).
    destruct (rounds f h1 (remaining h sub)) as [h2| |]; auto.
    destruct IH as [Hw2 Hk2]. split; [exact Hw2|].
    intros k. rewrite Hk2, Hkeys1. split.
    + intros [[H|H]|H]; auto.
      * right. apply in_map_iff in H. destruct H as [e [E He]]. apply filter_In in He.
        rewrite <- E. apply in_map. tauto.
      * right. apply in_map_iff in H. destruct H as [e [E He]]. apply filter_In in He.
        rewrite <- E. apply in_map. tauto.
    + intros [H|H]; auto. apply in_map_iff in H. destruct H as [e [E He]].
      destruct (forallb (fun p => mem p (keys h)) (snd e)) eqn:Ep.
      * left; left. rewrite <- E. apply in_map. apply filter_In. tauto.
      * right. rewrite <- E. apply in_map. apply filter_In. rewrite Ep. tauto.
Qed.

Lemma dict_set_keys {A} k (v : A) d :
  map fst (dict_set k v d) = if mem k (map fst d) then map fst d else map fst d ++ [k].
Proof.
  induction d as [|[k' v'] d IH]; simpl; [reflexivity|].
  destruct (str_eqb k' k) eqn:E.
  - apply str_eqb_spec in E. subst. unfold mem. simpl. rewrite str_eqb_refl. reflexivity.
  - simpl. rewrite IH. unfold mem. simpl.
    assert (str_eqb k k' = false) as ->.
    { apply str_eqb_false. apply str_eqb_false in E. congruence. }
    simpl. fold (mem k (map fst d)). destruct (mem k (map fst d)); reflexivity.
Qed.

Lemma nodup_snoc {A} (l : list A) x : NoDup l -> ~ In x l -> NoDup (l ++ [x]).
Proof.
  induction l as [|y l IH]; simpl; intros Hnd Hn.
  - constructor; [simpl; tauto | constructor].
  - inversion Hnd as [|? ? Hy Hnd']; subst. constructor.
    + rewrite in_app_iff. simpl. intros [H|[H|[]]]; [contradiction|]. subst. apply Hn. left; reflexivity.
    + apply IH; [exact Hnd'|]. intros H. apply Hn. right; exact H.
Qed.

Lemma dict_set_nodup {A} k (v : A) d : NoDup (map fst d) -> NoDup (map fst (dict_set k v d)).
Proof.
  intros H. rewrite dict_set_keys. destruct (mem k (map fst d)) eqn:E; [exact H|].
  apply mem_false in E. apply nodup_snoc; assumption.
Qed.

Lemma fold_dict_set_nodup {A B} (fk : B -> str) (fv : B -> A) l acc :
  NoDup (map fst acc) ->
  NoDup (map fst (fold_left (fun a e => dict_set (fk e) (fv e) a) l acc)).
Proof.
  revert acc. induction l as [|e l IH]; simpl; intros acc H; [exact H|].
  apply IH. apply dict_set_nodup. exact H.
Qed.

Section Update.
Variable norm : str -> str.

Definition Inv (st : hstate) : Prop := wfh (h_top st) (h_rh st).

Theorem init_inv top : Inv (init norm top).
Proof. unfold Inv, init. simpl. constructor. Qed.

Theorem update_inv st sub dat : Inv st ->
  let r := update norm st sub dat in
  Inv (fst r) /\ snd r <> UOutOfFuel /\
  (match snd r with UOk _ => True | _ => fst r = st end) /\
  h_top (fst r) = h_top st.
Proof.
  intros Hinv. unfold update.
  set (nsub := normalize_sub norm sub). set (ndat := normalize_data norm dat).
  destruct (existsb (fun k => mem k (keys (h_rh st))) (map fst nsub)) eqn:E1.
  { simpl. repeat split; auto; discriminate. }
  destruct (existsb _ (map fst ndat)) eqn:E2.
  { simpl. repeat split; auto; discriminate. }
  assert (Hnd : NoDup (map fst nsub)).
  { unfold nsub, normalize_sub.
    apply (fold_dict_set_nodup (fun e => norm (fst e)) (fun e => map norm (parents_list (snd e)))).
    constructor. }
  assert (Hnew : forall k, In k (map fst nsub) -> ~ In k (keys (h_rh st))).
  { intros k Hk Hin.
    assert (existsb (fun k => mem k (keys (h_rh st))) (map fst nsub) = true) as X.
    { apply existsb_exists. exists k. split; [exact Hk | apply mem_In; exact Hin]. }
    congruence. }
  pose proof (rounds_wf (h_top st) (length nsub) (h_rh st) nsub Hinv Hnd Hnew (le_n _)) as R.
  destruct (rounds (length nsub) (h_rh st) nsub) as [h'| |]; simpl.
  - destruct R as [Hw _]. repeat split; auto. discriminate.
  - repeat split; auto. discriminate.
  - destruct R.
Qed.

(* every state reachable by any sequence of updates is well-formed *)
Theorem reachable_inv top (ops : list (list (str * parents_arg) * list (str * N))) :
  Inv (fold_left (fun st o => fst (update norm st (fst o) (snd o))) ops (init norm top)).
Proof.
  assert (G : forall ops st, Inv st ->
            Inv (fold_left (fun st o => fst (update norm st (fst o) (snd o))) ops st)).
  { induction ops0 as [|o ops0 IH]; simpl; intros st H; [exact H|].
    apply IH. apply (update_inv st (fst o) (snd o) H). }
  apply G. apply init_inv.
Qed.

(* queries depend on an identifier only through the normaliser *)
Theorem norm_invariant st x y : norm x = norm y ->
  q_contains norm st x = q_contains norm st y /\ q_parents norm st x = q_parents norm st y /\ q_children norm st x = q_children norm st y /\ q_ancestors norm st x = q_ancestors norm st y /\ q_descendants norm st x = q_descendants norm st y /\ q_getitem norm st x = q_getitem norm st y /\ (forall z, q_subsumes norm st x z = q_subsumes norm st y z) /\ (forall z, q_subsumes norm st z x = q_subsumes norm st z y) /\ (forall z, q_compatible norm st x z = q_compatible norm st y z).
Proof.
  intros E. unfold q_contains, q_parents, q_children, q_ancestors, q_descendants,
    q_getitem, q_subsumes, q_compatible, q_descendants. rewrite E.
  repeat split; reflexivity.
Qed.

(* the query-level statements of the order laws *)
Theorem q_subsumes_spec st a b : Inv st ->
  In (norm a) (keys (h_rh st)) ->
  q_subsumes norm st a b = Some true <-> subs (h_rh st) (norm a) (norm b).
Proof.
  intros _ Ha. unfold q_subsumes, q_descendants, subs.
  destruct (str_eqb (norm a) (norm b)) eqn:E.
  - apply str_eqb_spec in E. split; auto.
  - apply str_eqb_false in E. apply mem_In in Ha. rewrite Ha. split.
    + intros H. inversion H as [M]. right. apply mem_In. exact M.
    + intros [H|H]; [congruence|]. apply mem_In in H. rewrite H. reflexivity.
Qed.

Theorem q_compatible_spec st a b :
  In (norm a) (keys (h_rh st)) -> In (norm b) (keys (h_rh st)) ->
  q_compatible norm st a b = Some (compat (h_rh st) (norm a) (norm b)).
Proof.
  intros Ha Hb. unfold q_compatible, q_descendants. apply mem_In in Ha, Hb.
  rewrite Ha, Hb. reflexivity.
Qed.

End Update.
