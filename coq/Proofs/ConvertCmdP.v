(* Proofs about the document assembly of commands.convert (C20). *)
From Coq Require Import List NArith ZArith Bool Arith Lia.
From PyD Require Import Base.Str Model.SimpleMrs Model.ConvertCmd.
Import ListNotations.

Lemma join_sep_single (d : N) (l : list str) : join_sep [d] l = join_on d l.
Proof.
  induction l as [|x [|y l] IH]; [reflexivity | reflexivity |].
  change (join_sep [d] (x :: y :: l)) with (x ++ [d] ++ join_sep [d] (y :: l)). rewrite IH. reflexivity.
Qed.

Section Items.
  Variables X Y : Type.
  Variable conv : X -> option Y.
  Variable enc : Y -> option str.

  (* when every item converts and encodes, there is exactly one part per
     item, in order, and each part is what the item gives on its own *)
  Lemma convert_parts_all_ok xs :
    forallb (item_ok X Y conv enc) xs = true ->
    map Some (convert_parts X Y conv enc xs) = map (fun x => match conv x with Some y => enc y | None => None end) xs.
  Proof.
    induction xs as [|x xs IH]; intros H; [reflexivity|].
    cbn [forallb] in H. apply andb_true_iff in H. destruct H as [H1 H2].
    unfold convert_parts in *. cbn [flat_map map]. unfold item_ok in H1.
    destruct (conv x) as [y|]; [|discriminate]. destruct (enc y) as [s0|]; [|discriminate].
    cbn [app map]. rewrite IH by exact H2. reflexivity.
  Qed.

  Lemma convert_parts_length_ok xs :
    forallb (item_ok X Y conv enc) xs = true -> length (convert_parts X Y conv enc xs) = length xs.
  Proof.
    intros H. pose proof (convert_parts_all_ok xs H) as E.
    apply (f_equal (@length _)) in E. rewrite !map_length in E. exact E.
  Qed.

  (* error isolation: a failing item removes its own part and nothing else *)
  Lemma convert_parts_app xs ys :
    convert_parts X Y conv enc (xs ++ ys) = convert_parts X Y conv enc xs ++ convert_parts X Y conv enc ys.
  Proof. unfold convert_parts. apply flat_map_app. Qed.

  Lemma convert_parts_skip xs x ys : item_ok X Y conv enc x = false ->
    convert_parts X Y conv enc (xs ++ x :: ys) = convert_parts X Y conv enc (xs ++ ys).
  Proof.
    intros H. rewrite !convert_parts_app. f_equal. unfold convert_parts. cbn [flat_map].
    unfold item_ok in H. destruct (conv x) as [y|]; [destruct (enc y); [discriminate|]|]; reflexivity.
  Qed.

  Lemma convert_parts_count xs :
    length (convert_parts X Y conv enc xs) = length (filter (item_ok X Y conv enc) xs).
  Proof.
    induction xs as [|x xs IH]; [reflexivity|].
    unfold convert_parts in *. cbn [flat_map filter]. rewrite app_length, IH. unfold item_ok.
    destruct (conv x) as [y|]; [destruct (enc y)|]; reflexivity.
  Qed.
End Items.

(* the one-item-per-line variant: the lines of the output are exactly the
   parts (no header, joiner or footer is written, indentation is off) *)
Lemma assemble_lines header joiner footer ind parts :
  Forall (fun p => ~ In LF p) parts ->
  split_on LF (assemble header joiner footer ind true parts) = match parts with [] => [[]] | _ => parts end.
Proof.
  intros H. unfold assemble. rewrite join_sep_single. destruct parts as [|p ps]; [reflexivity|].
  apply split_join_on; [discriminate | apply Forall_forall; exact H].
Qed.

Lemma assemble_empty header joiner footer : assemble header joiner footer false false [] = header ++ footer.
Proof. reflexivity. Qed.

Lemma assemble_one header joiner footer p : assemble header joiner footer false false [p] = header ++ p ++ footer.
Proof. reflexivity. Qed.

Lemma assemble_cons header joiner footer p q ps :
  assemble header joiner footer false false (p :: q :: ps)
  = header ++ p ++ joiner ++ join_sep joiner (q :: ps) ++ footer.
Proof. unfold assemble. cbn [andb]. change (join_sep joiner (p :: q :: ps)) with (p ++ joiner ++ join_sep joiner (q :: ps)).
  rewrite <- !app_assoc. reflexivity. Qed.

(* the number of joiners written is one less than the number of parts: the
   length of the document is determined by the parts *)
Lemma join_sep_length sep l :
  length (join_sep sep l) = (fold_right (fun p a => length p + a) 0 l + length sep * (length l - 1))%nat.
Proof.
  induction l as [|x [|y l] IH]; [cbn; lia | cbn; lia |].
  change (join_sep sep (x :: y :: l)) with (x ++ sep ++ join_sep sep (y :: l)).
  rewrite !app_length, IH. cbn [fold_right length]. lia.
Qed.
