(* Proofs about Model/TsdbDb.v (C09, database level). *)
From Coq Require Import List NArith Bool Lia.
From PyD Require Import Base.Str Model.Tsdb Model.TsdbFiles Model.TsdbDb Model.Hier Proofs.HierP.
Import ListNotations.

Lemma dict_get_set_same {A} k (v : A) d : dict_get k (dict_set k v d) = Some v.
Proof.
  induction d as [|[k' v'] d IH]; simpl.
  - rewrite str_eqb_refl. reflexivity.
  - destruct (str_eqb k' k) eqn:E; simpl; rewrite E; [reflexivity | exact IH].
Qed.

Lemma dict_get_set_other {A} k k' (v : A) d : k <> k' -> dict_get k' (dict_set k v d) = dict_get k' d.
Proof.
  intros Hne. induction d as [|[k0 v0] d IH]; simpl.
  - assert (str_eqb k k' = false) as -> by (apply str_eqb_false; exact Hne). reflexivity.
  - destruct (str_eqb k0 k) eqn:E; simpl.
    + apply str_eqb_spec in E. subst k0.
      assert (str_eqb k k' = false) as -> by (apply str_eqb_false; exact Hne). reflexivity.
    + destruct (str_eqb k0 k'); [reflexivity | exact IH].
Qed.

Lemma get_set_same fs n r : get_rel (set_rel fs n r) n = r.
Proof. unfold get_rel, set_rel. rewrite dict_get_set_same. reflexivity. Qed.

Lemma get_set_other fs n n' r : n <> n' -> get_rel (set_rel fs n r) n' = get_rel fs n'.
Proof. intros H. unfold get_rel, set_rel. rewrite dict_get_set_other by exact H. reflexivity. Qed.

(* _cleanup_files *)
Theorem cleanup_spec names : forall fs n,
  get_rel (cleanup fs names) n = if mem n names then absent else get_rel fs n.
Proof.
  unfold cleanup. induction names as [|m names IH]; intros fs n; simpl; [reflexivity|].
  rewrite IH. unfold mem at 2. simpl. fold (mem n names).
  destruct (mem n names) eqn:E; [rewrite orb_true_r; reflexivity|]. rewrite orb_false_r.
  destruct (str_eqb n m) eqn:Enm.
  - apply str_eqb_spec in Enm. subst. apply get_set_same.
  - apply str_eqb_false in Enm. apply get_set_other. congruence.
Qed.

(* the lines write_database stores for one relation, as a function of what
   the source held for it *)
Definition expected_lines (src_schema sch : schema) (remake_records : bool)
           (srcrel : rel str) (name : str) : option (list str) :=
  match dict_get name sch with
  | None => None
  | Some fields =>
      match dict_get name src_schema with
      | None => Some []
      | Some old_fields =>
          match read_rel srcrel with
          | None => Some []
          | Some lines =>
              match sequence (map split_raw lines) with
              | None => None
              | Some recs =>
                  sequence (map (join_record fields)
                                (if remake_records then map (remake old_fields fields) recs else recs))
              end
          end
      end
  end.

Lemma write_one_spec ss sch rm gzip src dst name dst' :
  write_one ss sch rm gzip src dst name = Some dst' ->
  exists lines r, expected_lines ss sch rm (get_rel src name) name = Some lines /\
    write_rel (get_rel dst name) lines false gzip = WOk r /\ dst' = set_rel dst name r.
Proof.
  unfold write_one, expected_lines.
  destruct (dict_get name sch) as [fields|]; [|discriminate].
  destruct (dict_get name ss) as [old|].
  - destruct (read_rel (get_rel src name)) as [lines|].
    + destruct (sequence (map split_raw lines)) as [recs|]; [|discriminate].
      destruct (sequence (map (join_record fields) _)) as [ls|]; [|discriminate].
      destruct (write_rel (get_rel dst name) ls false gzip) as [r|] eqn:W; [|discriminate].
      intros H; inversion H; subst. exists ls, r. auto.
    + simpl. destruct (write_rel (get_rel dst name) [] false gzip) as [r|] eqn:W; [|discriminate].
      intros H; inversion H; subst. exists [], r. auto.
  - simpl. destruct (write_rel (get_rel dst name) [] false gzip) as [r|] eqn:W; [|discriminate].
    intros H; inversion H; subst. exists [], r. auto.
Qed.

(* every written relation holds exactly the expected lines, in one physical
   form; relations written earlier are not disturbed by later ones *)
Lemma write_names_spec ss sch rm gzip inplace src : forall names dst fs',
  NoDup names ->
  write_names ss sch rm gzip inplace src dst names = DOk fs' ->
  (forall n, ~ In n names -> get_rel fs' n = get_rel dst n) /\
  (forall n, In n names ->
     exists lines, expected_lines ss sch rm (get_rel (if inplace then dst else src) n) n = Some lines /\
       read_rel (get_rel fs' n) = Some lines /\
       gz (get_rel fs' n) = (if gzip && negb (is_nil lines) then Some lines else None) /\
       (tx (get_rel fs' n) = None <-> gz (get_rel fs' n) <> None)).
Proof.
  induction names as [|m names IH]; intros dst fs' Hnd H; simpl in H.
  - inversion H; subst. split; [reflexivity | intros n []].
  - inversion Hnd as [|? ? Hm Hnd']; subst.
    destruct (write_one ss sch rm gzip (if inplace then dst else src) dst m) as [dst1|] eqn:W; [|discriminate].
    apply write_one_spec in W. destruct W as (lines & r & He & Hw & ->).
    destruct (IH _ _ Hnd' H) as [Hother Hin]. split.
    + intros n Hn. rewrite Hother by (intros X; apply Hn; right; exact X).
      apply get_set_other. intros ->. apply Hn. left; reflexivity.
    + intros n [->|Hn].
      * exists lines. split; [exact He|].
        rewrite (Hother n Hm), get_set_same.
        unfold write_rel in Hw. simpl in Hw.
        destruct (gzip && negb (is_nil lines)) eqn:G; inversion Hw; subst; simpl;
          unfold read_rel, use_gz; simpl; repeat split; try congruence; try discriminate.
      * destruct (Hin n Hn) as (ls & He' & R).
        exists ls. split; [|exact R].
        destruct inplace; [|exact He'].
        rewrite get_set_other in He'; [exact He'|]. intros ->. contradiction.
Qed.

Theorem write_database_spec (ss : schema) (src dst : files) (inplace : bool)
    (names : option (list str)) (new_schema : option schema) (gzip : bool) (fs' : files) :
  let sch := match new_schema with Some s => s | None => ss end in
  let rm := match new_schema with Some _ => true | None => false end in
  let names' := match names with Some l => l | None => map fst sch end in
  let dst0 := if inplace then src else dst in
  NoDup names' ->
  write_database ss src dst inplace names new_schema gzip = DOk fs' ->
  (* every written relation holds the remade source records, in one form *)
  (forall n, In n names' ->
     exists lines, expected_lines ss sch rm (get_rel (if inplace then dst0 else src) n) n = Some lines /\
       read_rel (get_rel fs' n) = Some lines /\
       gz (get_rel fs' n) = (if gzip && negb (is_nil lines) then Some lines else None) /\
       (tx (get_rel fs' n) = None <-> gz (get_rel fs' n) <> None)) /\
  (* relations of the target schema that were not written have no file *)
  (forall n, In n (map fst sch) -> ~ In n names' -> get_rel fs' n = absent) /\
  (* anything else is untouched *)
  (forall n, ~ In n (map fst sch) -> ~ In n names' -> get_rel fs' n = get_rel dst0 n).
Proof.
  intros sch rm names' dst0 Hnd. unfold write_database.
  fold sch rm names' dst0.
  destruct (write_names ss sch rm gzip inplace src dst0 names') as [fs1|fs1] eqn:W; [|discriminate].
  intros H; inversion H; subst fs'; clear H.
  destruct (write_names_spec _ _ _ _ _ _ _ _ _ Hnd W) as [Hother Hin].
  set (cl := filter (fun n => negb (mem n names')) (map fst sch)).
  assert (Hcl : forall n, mem n cl = true <-> In n (map fst sch) /\ ~ In n names').
  { intros n. rewrite mem_In. unfold cl. rewrite filter_In, negb_true_iff, mem_false. tauto. }
  repeat split.
  - intros n Hn. rewrite cleanup_spec.
    destruct (mem n cl) eqn:E; [apply Hcl in E; tauto|]. apply Hin. exact Hn.
  - intros n Hs Hn. rewrite cleanup_spec.
    assert (mem n cl = true) as -> by (apply Hcl; tauto). reflexivity.
  - intros n Hs Hn. rewrite cleanup_spec.
    destruct (mem n cl) eqn:E; [apply Hcl in E; tauto|]. apply Hother. exact Hn.
Qed.
