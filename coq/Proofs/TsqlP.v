(* Proofs about Model/Tsql.v (C11). *)
From Coq Require Import List NArith ZArith Bool Arith Lia.
From PyD Require Import Base.Str Base.Dec Model.Tsdb Model.TsdbDate Model.Hier Model.Tsql.
Import ListNotations.

(* ---- key equality is symmetric and transitive ---- *)
Lemma str_eqb_sym a b : str_eqb a b = str_eqb b a.
Proof.
  destruct (str_eqb a b) eqn:E1, (str_eqb b a) eqn:E2; try reflexivity.
  - apply str_eqb_spec in E1. subst. rewrite str_eqb_refl in E2. discriminate.
  - apply str_eqb_spec in E2. subst. rewrite str_eqb_refl in E1. discriminate.
Qed.

Lemma castres_eqb_sym a b : castres_eqb a b = castres_eqb b a.
Proof.
  destruct a as [[|x|x]|], b as [[|y|y]|]; simpl; try reflexivity.
  - apply Z.eqb_sym.
  - apply str_eqb_sym.
Qed.

Lemma castres_eqb_trans a b c : castres_eqb a b = true -> castres_eqb b c = true -> castres_eqb a c = true.
Proof.
  destruct a as [[|x|x]|], b as [[|y|y]|], c as [[|z|z]|]; simpl; try discriminate; try reflexivity.
  - intros H1 H2. apply Z.eqb_eq in H1, H2. apply Z.eqb_eq. congruence.
  - intros H1 H2. apply str_eqb_spec in H1, H2. apply str_eqb_spec. congruence.
Qed.

Lemma keys_eqb_sym : forall a b, keys_eqb a b = keys_eqb b a.
Proof.
  unfold keys_eqb. induction a as [|x a IH]; intros [|y b]; simpl; try reflexivity.
  rewrite castres_eqb_sym, IH. reflexivity.
Qed.

Lemma keys_eqb_trans : forall a b c, keys_eqb a b = true -> keys_eqb b c = true -> keys_eqb a c = true.
Proof.
  unfold keys_eqb. induction a as [|x a IH]; intros [|y b] [|z c]; simpl; try discriminate; try reflexivity.
  intros H1 H2. apply andb_true_iff in H1, H2. destruct H1 as [A1 B1], H2 as [A2 B2].
  apply andb_true_iff. split; [eapply castres_eqb_trans; eassumption | eapply IH; eassumption].
Qed.

(* ---- grouping: looking a key up returns the rows with that key, in order ---- *)
Lemma group_add_get kr vr k : forall g,
  group_get k (group_add kr vr g) = group_get k g ++ (if keys_eqb kr k then [vr] else []).
Proof.
  induction g as [|[k' rows] g IH]; simpl.
  - destruct (keys_eqb kr k); reflexivity.
  - destruct (keys_eqb k' kr) eqn:E1; simpl.
    + destruct (keys_eqb k' k) eqn:E2.
      * assert (keys_eqb kr k = true) as ->.
        { eapply keys_eqb_trans; [|exact E2]. rewrite keys_eqb_sym. exact E1. }
        reflexivity.
      * destruct (keys_eqb kr k) eqn:E3; [|rewrite app_nil_r; reflexivity].
        rewrite (keys_eqb_trans _ _ _ E1 E3) in E2. discriminate.
    + destruct (keys_eqb k' k) eqn:E2.
      * destruct (keys_eqb kr k) eqn:E3; [|rewrite app_nil_r; reflexivity].
        assert (keys_eqb k' kr = true).
        { eapply keys_eqb_trans; [exact E2|]. rewrite keys_eqb_sym. exact E3. }
        congruence.
      * apply IH.
Qed.

Lemma group_fold (rkey : list raw -> list castres) (rvals : list raw -> list raw) k : forall rows g,
  group_get k (fold_left (fun g r => group_add (rkey r) (rvals r) g) rows g) =
  group_get k g ++ map rvals (filter (fun r => keys_eqb (rkey r) k) rows).
Proof.
  induction rows as [|r rows IH]; intros g; simpl; [rewrite app_nil_r; reflexivity|].
  rewrite IH, group_add_get, <- app_assoc. f_equal.
  destruct (keys_eqb (rkey r) k); reflexivity.
Qed.

(* the hash join equals the nested-loop join: same rows, same order, same multiplicities *)
Theorem hash_join_is_nested_loop (rkey lkey : list raw -> list castres) (rvals : list raw -> list raw)
        (left right : list (list raw)) :
  flat_map (fun l => map (fun rv => l ++ rv)
                         (group_get (lkey l)
                            (fold_left (fun g r => group_add (rkey r) (rvals r) g) right [])))
           left
  = nested_loop keys_eqb lkey rkey rvals left right.
Proof.
  unfold nested_loop. apply flat_map_ext. intros l.
  rewrite group_fold. simpl.
  induction right as [|r right IH]; simpl; [reflexivity|].
  destruct (keys_eqb (rkey r) (lkey l)); simpl; rewrite IH; reflexivity.
Qed.

(* ---- comparisons never hold on an empty field; a negated match does ---- *)
Theorem none_rules o cols row op q v i :
  sel_index cols q = Some i ->
  cast_val (match nth_error cols i with Some (_, f) => tf_type f | None => TStr end) (nth_raw row i) = COk VNone ->
  eval o cols row (RCmp op q v) = Some (match op with ONre => true | _ => false end).
Proof.
  intros Hi Hc. simpl. rewrite Hi.
  destruct (match nth_error cols i with Some (_, f) => tf_type f | None => TStr end) eqn:ET;
    cbn [is_tdate]; try (rewrite Hc; destruct op; reflexivity).
  (* a :date column *)
  unfold eval_date. destruct (nth_raw row i) as [[|c s]|]; try (destruct op; reflexivity).
  simpl in Hc. discriminate.
Qed.

Theorem empty_field_casts_to_none t : cast_val t None = COk VNone /\ cast_val t (Some []) = COk VNone.
Proof. split; reflexivity. Qed.

(* ---- parsing the printed token stream of a condition returns the condition ---- *)
Open Scope nat_scope.

Section cond_ind2.
Variable P : cond -> Prop.
Hypothesis Hc : forall o col v, P (CCmp o col v).
Hypothesis Ha : forall cs, Forall P cs -> P (CAnd cs).
Hypothesis Ho : forall cs, Forall P cs -> P (COr cs).
Hypothesis Hn : forall x, P x -> P (CNot x).
Fixpoint cond_ind2 (c : cond) : P c :=
  match c with
  | CCmp o col v => Hc o col v
  | CAnd cs => Ha cs ((fix go (l : list cond) : Forall P l :=
                         match l with [] => Forall_nil P | x :: l' => Forall_cons x (cond_ind2 x) (go l') end) cs)
  | COr cs => Ho cs ((fix go (l : list cond) : Forall P l :=
                        match l with [] => Forall_nil P | x :: l' => Forall_cons x (cond_ind2 x) (go l') end) cs)
  | CNot x => Hn x (cond_ind2 x)
  end.
End cond_ind2.

(* the trees the parser can produce: and/or have at least two children, integer
   operands and dates are not used with ~ / !~ and strings not with ordering operators *)
Definition lit_ok (o : cmpop) (v : lit) : bool :=
  match v with LInt _ => negb (regex_op o) | LStr _ => negb (order_op o) | LDate _ => negb (regex_op o) end.

Fixpoint cwf (c : cond) : Prop :=
  match c with
  | CCmp o _ v => lit_ok o v = true
  | CAnd cs | COr cs =>
      2 <= length cs /\
      (fix all (l : list cond) : Prop := match l with [] => True | x :: l' => cwf x /\ all l' end) cs
  | CNot x => cwf x
  end.

Lemma cwf_list cs :
  (fix all (l : list cond) : Prop := match l with [] => True | x :: l' => cwf x /\ all l' end) cs
  <-> Forall cwf cs.
Proof.
  induction cs as [|x l IH]; simpl; [split; [constructor | trivial]|].
  rewrite IH. split; [intros [A B]; constructor; assumption | intros H; inversion H; auto].
Qed.

Fixpoint need (c : cond) : nat :=
  match c with
  | CCmp _ _ _ => 10
  | CNot x => 10 + need x
  | CAnd cs | COr cs => 10 + fold_right (fun c acc => 10 + need c + acc) 0 cs
  end.
Definition need_list (cs : list cond) : nat := fold_right (fun c acc => 10 + need c + acc) 0 cs.
Definition reqC (c : cond) : nat := match c with CAnd cs => need_list cs | _ => need c + 1 end.
Definition reqD (c : cond) : nat :=
  match c with COr cs => need_list cs | CAnd cs => need_list cs + 1 | _ => need c + 2 end.

Lemma reqC_le c : reqC c <= need c + 1.
Proof. destruct c; unfold reqC, need_list; cbn [need]; lia. Qed.
Lemma reqD_le c : reqD c <= need c + 2.
Proof. destruct c; unfold reqD, need_list; cbn [need]; lia. Qed.

Definition disj_list (c : cond) : list cond := match c with COr cs => cs | _ => [c] end.
Definition conj_list (c : cond) : list cond := match c with CAnd cs => cs | _ => [c] end.

Definition not_and (ts : list tok) : Prop := match ts with KAnd :: _ => False | _ => True end.
Definition not_or (ts : list tok) : Prop := match ts with KOr :: _ => False | _ => True end.

Lemma mk_or_disj_list c : cwf c -> mk_or (disj_list c) = c.
Proof.
  destruct c as [o col v|cs|cs|x]; simpl; try reflexivity.
  intros [Hl _]. destruct cs as [|a [|b cs']]; simpl in *; try lia. reflexivity.
Qed.

Lemma mk_and_conj_list c : cwf c -> mk_and (conj_list c) = c.
Proof.
  destruct c as [o col v|cs|cs|x]; simpl; try reflexivity.
  intros [Hl _]. destruct cs as [|a [|b cs']]; simpl in *; try lia. reflexivity.
Qed.

Definition PA (c : cond) : Prop := forall rest fuel, need c <= fuel ->
  pitem fuel (print 2 c ++ rest) = Some (c, rest).
Definition PC (c : cond) : Prop := forall rest fuel, reqC c <= fuel -> not_and rest ->
  pcl fuel (print 1 c ++ rest) = Some (conj_list c, rest).
Definition PD (c : cond) : Prop := forall rest fuel, reqD c <= fuel -> not_and rest -> not_or rest ->
  pdl fuel (print 0 c ++ rest) = Some (disj_list c, rest).

Lemma pcl_single c rest fuel : pitem fuel (print 2 c ++ rest) = Some (c, rest) -> not_and rest ->
  pcl (S fuel) (print 2 c ++ rest) = Some ([c], rest).
Proof.
  intros H Hr. simpl. rewrite H. destruct rest as [|t rest']; [reflexivity|].
  destruct t; try reflexivity. destruct Hr.
Qed.

Lemma pdl_single cs c rest fuel : pcl fuel (print 1 c ++ rest) = Some (cs, rest) -> not_or rest ->
  pdl (S fuel) (print 1 c ++ rest) = Some ([mk_and cs], rest).
Proof.
  intros H Hr. simpl. rewrite H. destruct rest as [|t rest']; [reflexivity|].
  destruct t; try reflexivity. destruct Hr.
Qed.

Lemma pcl_list : forall cs rest fuel, cs <> [] -> Forall PA cs ->
  need_list cs <= fuel -> not_and rest ->
  pcl fuel (join_tok KAnd (map (print 2) cs) ++ rest) = Some (cs, rest).
Proof.
  induction cs as [|c cs IH]; intros rest fuel Hne Hall Hf Hr; [congruence|].
  inversion Hall as [|? ? Hc Hcs]; subst. unfold need_list in Hf. simpl in Hf.
  destruct cs as [|c2 cs'].
  - simpl. destruct fuel as [|f]; [lia|].
    apply pcl_single; [apply Hc; lia | exact Hr].
  - assert (E : join_tok KAnd (map (print 2) (c :: c2 :: cs')) ++ rest =
                print 2 c ++ KAnd :: (join_tok KAnd (map (print 2) (c2 :: cs')) ++ rest)).
    { change (join_tok KAnd (map (print 2) (c :: c2 :: cs')))
        with (print 2 c ++ KAnd :: join_tok KAnd (map (print 2) (c2 :: cs'))).
      rewrite <- app_assoc. reflexivity. }
    rewrite E. clear E.
    destruct fuel as [|f]; [lia|]. cbn [pcl].
    rewrite (Hc (KAnd :: (join_tok KAnd (map (print 2) (c2 :: cs')) ++ rest)) f) by lia.
    rewrite (IH rest f); [reflexivity | discriminate | exact Hcs | | exact Hr].
    unfold need_list. simpl. simpl in Hf. lia.
Qed.

Lemma pdl_list : forall cs rest fuel, cs <> [] -> Forall PC cs -> Forall cwf cs ->
  need_list cs <= fuel -> not_and rest -> not_or rest ->
  pdl fuel (join_tok KOr (map (print 1) cs) ++ rest) = Some (cs, rest).
Proof.
  induction cs as [|c cs IH]; intros rest fuel Hne Hall Hwf Hf Hr1 Hr2; [congruence|].
  inversion Hall as [|? ? Hc Hcs]; subst. inversion Hwf as [|? ? Wc Wcs]; subst.
  unfold need_list in Hf. simpl in Hf. pose proof (reqC_le c) as Rc.
  destruct cs as [|c2 cs'].
  - simpl. destruct fuel as [|f]; [lia|].
    rewrite (pdl_single (conj_list c) c rest f); [rewrite mk_and_conj_list by exact Wc; reflexivity | | exact Hr2].
    apply Hc; [lia | exact Hr1].
  - assert (E : join_tok KOr (map (print 1) (c :: c2 :: cs')) ++ rest =
                print 1 c ++ KOr :: (join_tok KOr (map (print 1) (c2 :: cs')) ++ rest)).
    { change (join_tok KOr (map (print 1) (c :: c2 :: cs')))
        with (print 1 c ++ KOr :: join_tok KOr (map (print 1) (c2 :: cs'))).
      rewrite <- app_assoc. reflexivity. }
    rewrite E. clear E.
    destruct fuel as [|f]; [lia|]. cbn [pdl].
    rewrite (Hc (KOr :: (join_tok KOr (map (print 1) (c2 :: cs')) ++ rest)) f) by (try lia; exact I).
    rewrite (IH rest f); [rewrite mk_and_conj_list by exact Wc; reflexivity | discriminate | exact Hcs | exact Wcs | | exact Hr1 | exact Hr2].
    unfold need_list. simpl. simpl in Hf. lia.
Qed.

Lemma pitem_paren c rest fuel : PD c -> cwf c -> reqD c + 1 <= fuel ->
  pitem fuel (KLp :: print 0 c ++ KRp :: rest) = Some (c, rest).
Proof.
  intros HD Hw Hf. destruct fuel as [|f]; [lia|]. cbn [pitem].
  rewrite (HD (KRp :: rest) f) by (try lia; exact I).
  rewrite mk_or_disj_list by exact Hw. reflexivity.
Qed.

Theorem parse_print_all c : cwf c -> PA c /\ PC c /\ PD c.
Proof.
  induction c as [o col v | cs IH | cs IH | x IH] using cond_ind2; intros Hw.
  - (* comparison *)
    assert (A : PA (CCmp o col v)).
    { intros rest fuel Hf. destruct fuel as [|f]; [simpl in Hf; lia|].
      simpl in Hw. destruct v as [z|s|d]; simpl; unfold lit_ok in Hw; simpl in Hw;
        apply negb_true_iff in Hw; rewrite Hw; reflexivity. }
    assert (C : PC (CCmp o col v)).
    { intros rest fuel Hf Hr. destruct fuel as [|f]; [simpl in Hf; lia|].
      change (print 1 (CCmp o col v)) with (print 2 (CCmp o col v)).
      apply pcl_single; [apply A; simpl in *; lia | exact Hr]. }
    split; [exact A|]. split; [exact C|].
    intros rest fuel Hf Hr1 Hr2. destruct fuel as [|f]; [simpl in Hf; lia|].
    change (print 0 (CCmp o col v)) with (print 1 (CCmp o col v)).
    rewrite (pdl_single [CCmp o col v] (CCmp o col v) rest f); [reflexivity | | exact Hr2].
    apply C; [simpl in *; lia | exact Hr1].
  - (* and *)
    simpl in Hw. destruct Hw as [Hlen Hall]. apply cwf_list in Hall.
    assert (HPA : Forall PA cs).
    { rewrite Forall_forall in *. intros c Hc. apply (IH c Hc). apply Hall, Hc. }
    assert (Hne : cs <> []) by (destruct cs; simpl in Hlen; [lia | discriminate]).
    assert (Hwf' : cwf (CAnd cs)) by (simpl; split; [exact Hlen | apply cwf_list; exact Hall]).
    assert (Cc : PC (CAnd cs)).
    { intros rest fuel Hf Hr. simpl print. simpl in Hf. apply pcl_list; auto. }
    assert (Dc : PD (CAnd cs)).
    { intros rest fuel Hf Hr1 Hr2. destruct fuel as [|f]; [simpl in Hf; lia|].
      change (print 0 (CAnd cs)) with (print 1 (CAnd cs)).
      rewrite (pdl_single cs (CAnd cs) rest f); [|apply Cc; [simpl in *; lia | exact Hr1] | exact Hr2].
      assert (mk_and cs = CAnd cs) as ->.
      { destruct cs as [|a [|b cs']]; simpl in Hlen; try lia. reflexivity. }
      reflexivity. }
    split; [|split; [exact Cc | exact Dc]].
    intros rest fuel Hf.
    change (print 2 (CAnd cs) ++ rest) with (KLp :: (print 0 (CAnd cs) ++ [KRp]) ++ rest).
    rewrite <- app_assoc. change ([KRp] ++ rest) with (KRp :: rest).
    apply (pitem_paren (CAnd cs) rest fuel); [exact Dc | exact Hwf' | ].
    unfold reqD, need_list. cbn [need] in Hf. lia.
  - (* or *)
    simpl in Hw. destruct Hw as [Hlen Hall]. apply cwf_list in Hall.
    assert (HPC : Forall PC cs).
    { rewrite Forall_forall in *. intros c Hc. apply (IH c Hc). apply Hall, Hc. }
    assert (Hne : cs <> []) by (destruct cs; simpl in Hlen; [lia | discriminate]).
    assert (Hwf' : cwf (COr cs)) by (simpl; split; [exact Hlen | apply cwf_list; exact Hall]).
    assert (Dc : PD (COr cs)).
    { intros rest fuel Hf Hr1 Hr2. simpl print. simpl in Hf. apply pdl_list; auto. }
    assert (Ac : PA (COr cs)).
    { intros rest fuel Hf.
      change (print 2 (COr cs) ++ rest) with (KLp :: (print 0 (COr cs) ++ [KRp]) ++ rest).
      rewrite <- app_assoc. change ([KRp] ++ rest) with (KRp :: rest).
      apply (pitem_paren (COr cs) rest fuel); [exact Dc | exact Hwf' | ].
      unfold reqD, need_list. cbn [need] in Hf. lia. }
    split; [exact Ac|]. split; [|exact Dc].
    intros rest fuel Hf Hr. destruct fuel as [|f]; [simpl in Hf; lia|].
    change (print 1 (COr cs)) with (print 2 (COr cs)).
    apply pcl_single; [apply Ac; simpl in *; lia | exact Hr].
  - (* not *)
    simpl in Hw. destruct (IH Hw) as (Ax & Cx & Dx). pose proof (reqD_le x) as Rx.
    assert (A : PA (CNot x)).
    { intros rest fuel Hf. simpl in Hf.
      change (print 2 (CNot x)) with ([KLp; KNot] ++ print 0 x ++ [KRp]).
      rewrite <- !app_assoc. simpl app.
      destruct fuel as [|f1]; [lia|]. destruct f1 as [|f2]; [lia|]. destruct f2 as [|f3]; [lia|].
      destruct f3 as [|f4]; [lia|].
      assert (Hi : pitem (S f4) (KNot :: print 0 x ++ KRp :: rest) = Some (CNot x, KRp :: rest)).
      { cbn [pitem]. rewrite (Dx (KRp :: rest) f4) by (try lia; exact I).
        rewrite mk_or_disj_list by exact Hw. reflexivity. }
      assert (Hc : pcl (S (S f4)) (KNot :: print 0 x ++ KRp :: rest) = Some ([CNot x], KRp :: rest)).
      { cbn [pcl]. rewrite Hi. reflexivity. }
      assert (Hd : pdl (S (S (S f4))) (KNot :: print 0 x ++ KRp :: rest) = Some ([CNot x], KRp :: rest)).
      { cbn [pdl]. rewrite Hc. reflexivity. }
      cbn [pitem]. rewrite Hd. reflexivity. }
    assert (C : PC (CNot x)).
    { intros rest fuel Hf Hr. destruct fuel as [|f]; [simpl in Hf; lia|].
      change (print 1 (CNot x)) with (print 2 (CNot x)).
      apply pcl_single; [apply A; simpl in *; lia | exact Hr]. }
    split; [exact A|]. split; [exact C|].
    intros rest fuel Hf Hr1 Hr2. destruct fuel as [|f]; [simpl in Hf; lia|].
    change (print 0 (CNot x)) with (print 1 (CNot x)).
    rewrite (pdl_single [CNot x] (CNot x) rest f); [reflexivity | | exact Hr2].
    apply C; [simpl in *; lia | exact Hr1].
Qed.

(* parsing the text (token stream) of any condition tree returns that tree *)
Theorem parse_print c rest fuel : cwf c -> need c + 2 <= fuel -> not_and rest -> not_or rest ->
  parse_disj fuel (print 0 c ++ rest) = Some (c, rest).
Proof.
  intros Hw Hf Hr1 Hr2. unfold parse_disj. pose proof (reqD_le c) as R.
  destruct (parse_print_all c Hw) as (_ & _ & D). rewrite (D rest fuel) by (try lia; assumption).
  rewrite mk_or_disj_list by exact Hw. reflexivity.
Qed.

(* the fuel the model's parse_where passes (40 per token) is always enough *)
Lemma join_tok_length sep l :
  length (join_tok sep l) = fold_right (fun x acc => length x + acc) 0 l + (length l - 1).
Proof.
  induction l as [|x l IH]; [reflexivity|].
  destruct l as [|y l']; [simpl; lia|].
  change (join_tok sep (x :: y :: l')) with (x ++ sep :: join_tok sep (y :: l')).
  rewrite app_length.
  change (length (sep :: join_tok sep (y :: l'))) with (S (length (join_tok sep (y :: l')))).
  rewrite IH. simpl. lia.
Qed.

Lemma need_le_tokens c : cwf c -> forall ctx, need c <= 40 * length (print ctx c) - 20.
Proof.
  induction c as [o col v | cs IH | cs IH | x IH] using cond_ind2; intros Hw ctx.
  - destruct v; cbn [need print length]; lia.
  - simpl in Hw. destruct Hw as [Hlen Hall]. apply cwf_list in Hall.
    assert (G : need_list cs + 10 * length cs <=
                40 * fold_right (fun x acc => length x + acc) 0 (map (print 2) cs)).
    { clear Hlen. induction cs as [|c cs IHc]; [unfold need_list; cbn [map fold_right length]; lia|].
      inversion IH as [|? ? Hc Hcs]; subst. inversion Hall as [|? ? Wc Wcs]; subst.
      specialize (IHc Hcs Wcs). specialize (Hc Wc 2). unfold need_list in *.
      cbn [map fold_right length].
      assert (1 <= length (print 2 c)).
      { destruct c as [? ? []|?|?|?]; cbn [print]; rewrite ?app_length; cbn [length]; lia. }
      lia. }
    cbn [need print]. fold (need_list cs).
    assert (L : length (join_tok KAnd (map (print 2) cs)) =
                fold_right (fun x acc => length x + acc) 0 (map (print 2) cs) + (length cs - 1)).
    { rewrite join_tok_length, map_length. reflexivity. }
    destruct ctx as [|[|ctx]]; rewrite ?app_length; cbn [length]; rewrite ?app_length, ?L; cbn [length]; lia.
  - simpl in Hw. destruct Hw as [Hlen Hall]. apply cwf_list in Hall.
    assert (G : need_list cs + 10 * length cs <=
                40 * fold_right (fun x acc => length x + acc) 0 (map (print 1) cs)).
    { clear Hlen. induction cs as [|c cs IHc]; [unfold need_list; cbn [map fold_right length]; lia|].
      inversion IH as [|? ? Hc Hcs]; subst. inversion Hall as [|? ? Wc Wcs]; subst.
      specialize (IHc Hcs Wcs). specialize (Hc Wc 1). unfold need_list in *.
      cbn [map fold_right length].
      assert (1 <= length (print 1 c)).
      { destruct c as [? ? []|cs'|?|?]; cbn [print]; rewrite ?app_length; cbn [length]; try lia.
        simpl in Wc. destruct Wc as [Wl _]. destruct cs' as [|a [|b r]]; simpl in Wl; try lia.
        change (join_tok KAnd (map (print 2) (a :: b :: r)))
          with (print 2 a ++ KAnd :: join_tok KAnd (map (print 2) (b :: r))).
        rewrite app_length. cbn [length]. lia. }
      lia. }
    cbn [need print]. fold (need_list cs).
    assert (L : length (join_tok KOr (map (print 1) cs)) =
                fold_right (fun x acc => length x + acc) 0 (map (print 1) cs) + (length cs - 1)).
    { rewrite join_tok_length, map_length. reflexivity. }
    destruct ctx as [|ctx]; rewrite ?app_length; cbn [length]; rewrite ?app_length, ?L; cbn [length]; lia.
  - simpl in Hw. specialize (IH Hw 0). cbn [need print]. rewrite !app_length. cbn [length]. lia.
Qed.

(* with the fuel parse_where itself uses *)
Theorem parse_where_print c : cwf c ->
  parse_where 2 (KWhere :: print 0 c ++ [KDot]) [] = Some (Some c, [KDot]).
Proof.
  intros Hw. cbn [parse_where].
  rewrite (parse_print c [KDot]); [reflexivity | exact Hw | | exact I | exact I].
  pose proof (need_le_tokens c Hw 0). rewrite app_length. simpl. lia.
Qed.

(* several where clauses mean conjunction *)
Theorem where_conjunction c1 c2 : cwf c1 -> cwf c2 ->
  parse_where 3 (KWhere :: print 0 c1 ++ KWhere :: print 0 c2 ++ [KDot]) [] =
  Some (Some (CAnd [c1; c2]), [KDot]).
Proof.
  intros W1 W2. cbn [parse_where].
  rewrite (parse_print c1 (KWhere :: print 0 c2 ++ [KDot])); [| exact W1 | | exact I | exact I].
  2:{ pose proof (need_le_tokens c1 W1 0). rewrite app_length. simpl. lia. }
  cbn [parse_where app].
  rewrite (parse_print c2 [KDot]); [reflexivity | exact W2 | | exact I | exact I].
  pose proof (need_le_tokens c2 W2 0). rewrite app_length. simpl. lia.
Qed.

(* ---- date columns: a comparison with a date literal is the comparison of the instants ---- *)
Definition cmp_holds (op : cmpop) (c : comparison) : option bool :=
  match op with
  | OEq => Some (match c with Eq => true | _ => false end)
  | ONe => Some (match c with Eq => false | _ => true end)
  | OLt => Some (match c with Lt => true | _ => false end)
  | OLe => Some (match c with Gt => false | _ => true end)
  | OGt => Some (match c with Gt => true | _ => false end)
  | OGe => Some (match c with Lt => false | _ => true end)
  | ORe | ONre => None
  end.

Theorem date_comparison o cols row op q i f s d z :
  sel_index cols q = Some i -> nth_error cols i = Some f -> tf_type (snd f) = TDate ->
  nth_raw row i = Some s -> s <> [] -> parse_datetime s = DSome d ->
  eval o cols row (RCmp op q (LDate z)) = cmp_holds op (dt_cmp d z).
Proof.
  intros Hi Hn Ht Hr Hs Hp. cbn [eval]. rewrite Hi, Hn. destruct f as [nm tf]. cbn [snd] in Ht.
  rewrite Ht. cbn [is_tdate]. unfold eval_date. rewrite Hr.
  destruct s as [|c s]; [congruence|]. rewrite Hp. destruct op; reflexivity.
Qed.

(* a stored text that is not a date reads as an empty field *)
Theorem date_unreadable o cols row op q i f s v :
  sel_index cols q = Some i -> nth_error cols i = Some f -> tf_type (snd f) = TDate ->
  nth_raw row i = Some s -> parse_datetime s = DNone ->
  eval o cols row (RCmp op q v) = Some (match op with ONre => true | _ => false end).
Proof.
  intros Hi Hn Ht Hr Hp. cbn [eval]. rewrite Hi, Hn. destruct f as [nm tf]. cbn [snd] in Ht.
  rewrite Ht. cbn [is_tdate]. unfold eval_date. rewrite Hr.
  destruct s as [|c s]; [destruct op; reflexivity|]. rewrite Hp. destruct op; reflexivity.
Qed.
