(* Proofs about Model/Tsql.v (C11). *)
From Coq Require Import List NArith ZArith Bool Arith Lia.
From PyD Require Import Base.Str Base.Dec Model.Tsdb Model.Hier Model.Tsql.
Import ListNotations.

(* ---- key equality is symmetric and transitive ---- *)
Lemma str_eqb_sym a b : str_eqb a b = str_eqb b a.
Proof.
  destruct (str_eqb a b) eqn:E1, (str_eqb b a) eqn:E2; try reflexivity.
  - apply str_eqb_spec in E1. subst. rewrite str_eqb_refl in E2. discriminate.
  - apply str_eqb_spec in E2. subst. rewrite str_eqb_refl in E1. discriminate.
Qed.

Lemma castres_eqb_sym a b : castres_eqb a b = castres_eqb b a.
Proof.
  destruct a as [[|x|x]|], b as [[|y|y]|]; simpl; try reflexivity.
  - apply Z.eqb_sym.
  - apply str_eqb_sym.
Qed.

Lemma castres_eqb_trans a b c : castres_eqb a b = true -> castres_eqb b c = true -> castres_eqb a c = true.
Proof.
  destruct a as [[|x|x]|], b as [[|y|y]|], c as [[|z|z]|]; simpl; try discriminate; try reflexivity.
  - intros H1 H2. apply Z.eqb_eq in H1, H2. apply Z.eqb_eq. congruence.
  - intros H1 H2. apply str_eqb_spec in H1, H2. apply str_eqb_spec. congruence.
Qed.

Lemma keys_eqb_sym : forall a b, keys_eqb a b = keys_eqb b a.
Proof.
  unfold keys_eqb. induction a as [|x a IH]; intros [|y b]; simpl; try reflexivity.
  rewrite castres_eqb_sym, IH. reflexivity.
Qed.

Lemma keys_eqb_trans : forall a b c, keys_eqb a b = true -> keys_eqb b c = true -> keys_eqb a c = true.
Proof.
  unfold keys_eqb. induction a as [|x a IH]; intros [|y b] [|z c]; simpl; try discriminate; try reflexivity.
  intros H1 H2. apply andb_true_iff in H1, H2. destruct H1 as [A1 B1], H2 as [A2 B2].
  apply andb_true_iff. split; [eapply castres_eqb_trans; eassumption | eapply IH; eassumption].
Qed.

(* ---- grouping: looking a key up returns the rows with that key, in order ---- *)
Lemma group_add_get kr vr k : forall g,
  group_get k (group_add kr vr g) = group_get k g ++ (if keys_eqb kr k then [vr] else []).
Proof.
  induction g as [|[k' rows] g IH]; simpl.
  - destruct (keys_eqb kr k); reflexivity.
  - destruct (keys_eqb k' kr) eqn:E1; simpl.
    + destruct (keys_eqb k' k) eqn:E2.
      * assert (keys_eqb kr k = true) as ->.
        { eapply keys_eqb_trans; [|exact E2]. rewrite keys_eqb_sym. exact E1. }
        reflexivity.
      * destruct (keys_eqb kr k) eqn:E3; [|rewrite app_nil_r; reflexivity].
        rewrite (keys_eqb_trans _ _ _ E1 E3) in E2. discriminate.
    + destruct (keys_eqb k' k) eqn:E2.
      * destruct (keys_eqb kr k) eqn:E3; [|rewrite app_nil_r; reflexivity].
        assert (keys_eqb k' kr = true).
        { eapply keys_eqb_trans; [exact E2|]. rewrite keys_eqb_sym. exact E3. }
        congruence.
      * apply IH.
Qed.

Lemma group_fold (rkey : list raw -> list castres) (rvals : list raw -> list raw) k : forall rows g,
  group_get k (fold_left (fun g r => group_add (rkey r) (rvals r) g) rows g) =
  group_get k g ++ map rvals (filter (fun r => keys_eqb (rkey r) k) rows).
Proof.
  induction rows as [|r rows IH]; intros g; simpl; [rewrite app_nil_r; reflexivity|].
  rewrite IH, group_add_get, <- app_assoc. f_equal.
  destruct (keys_eqb (rkey r) k); reflexivity.
Qed.

(* the hash join equals the nested-loop join: same rows, same order, same multiplicities *)
Theorem hash_join_is_nested_loop (rkey lkey : list raw -> list castres) (rvals : list raw -> list raw)
        (left right : list (list raw)) :
  flat_map (fun l => map (fun rv => l ++ rv)
                         (group_get (lkey l)
                            (fold_left (fun g r => group_add (rkey r) (rvals r) g) right [])))
           left
  = nested_loop keys_eqb lkey rkey rvals left right.
Proof.
  unfold nested_loop. apply flat_map_ext. intros l.
  rewrite group_fold. simpl.
  induction right as [|r right IH]; simpl; [reflexivity|].
  destruct (keys_eqb (rkey r) (lkey l)); simpl; rewrite IH; reflexivity.
Qed.

(* ---- comparisons never hold on an empty field; a negated match does ---- *)
Theorem none_rules o cols row op q v i :
  sel_index cols q = Some i ->
  cast_val (match nth_error cols i with Some (_, f) => tf_type f | None => TStr end) (nth_raw row i) = COk VNone ->
  eval o cols row (RCmp op q v) = Some (match op with ONre => true | _ => false end).
Proof.
  intros Hi Hc. simpl. rewrite Hi, Hc. destruct op; reflexivity.
Qed.

Theorem empty_field_casts_to_none t : cast_val t None = COk VNone /\ cast_val t (Some []) = COk VNone.
Proof. split; reflexivity. Qed.
