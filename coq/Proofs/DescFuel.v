(* C07: scope.descendants terminates: the fuel of the model (one more than the
   number of predications) is never exhausted. *)
From Coq Require Import List NArith ZArith Bool Arith Lia.
From PyD Require Import Base.Str Model.Hier Model.Mrs.
Import ListNotations.
Open Scope nat_scope.

Definition hasb {A} (k : str) (d : list (str * A)) : bool :=
  match dict_get k d with Some _ => true | None => false end.

Lemma str_eqb_sym a b : str_eqb a b = str_eqb b a.
Proof.
  destruct (str_eqb a b) eqn:E.
  - apply str_eqb_spec in E. subst. symmetry. apply str_eqb_refl.
  - destruct (str_eqb b a) eqn:E2; [|reflexivity]. apply str_eqb_spec in E2. subst.
    rewrite str_eqb_refl in E. discriminate.
Qed.

Lemma hasb_extend k i vs (d : dmap) : hasb k (dict_extend i vs d) = str_eqb i k || hasb k d.
Proof.
  unfold hasb. induction d as [|[k' l] d IH]; cbn [dict_extend dict_get].
  - destruct (str_eqb i k); reflexivity.
  - destruct (str_eqb k' i) eqn:Ei; cbn [dict_get].
    + apply str_eqb_spec in Ei. subst k'. destruct (str_eqb i k); reflexivity.
    + destruct (str_eqb k' k) eqn:Ek; [rewrite orb_true_r; reflexivity|]. exact IH.
Qed.

Section Fuel.
Variable scargs : list (str * list str).
Variable scopes : list (str * list str).
Variable U : list str.
Hypothesis closed : forall l ps p, dict_get l scopes = Some ps -> In p ps -> In p U.

Definition absent (d : dmap) (u : str) : bool := negb (hasb u d).
Definition missing (d : dmap) : nat := length (filter (absent d) U).
Definition keys_sub (d d' : dmap) : Prop := forall k, hasb k d = true -> hasb k d' = true.

Lemma filter_le {A} (p q : A -> bool) l : (forall x, q x = true -> p x = true) ->
  length (filter q l) <= length (filter p l).
Proof.
  intros H. induction l as [|x l IH]; [apply le_n|]. cbn [filter].
  destruct (q x) eqn:Q.
  - rewrite (H x Q). simpl. lia.
  - destruct (p x); simpl; lia.
Qed.

Lemma filter_lt {A} (p q : A -> bool) l x : (forall x, q x = true -> p x = true) ->
  In x l -> p x = true -> q x = false -> length (filter q l) < length (filter p l).
Proof.
  intros H. induction l as [|y l IH]; intros Hin Px Qx; [destruct Hin|]. cbn [filter].
  destruct Hin as [->|Hin].
  - rewrite Px, Qx. simpl. pose proof (filter_le p q l H). lia.
  - specialize (IH Hin Px Qx). destruct (q y) eqn:Q.
    + rewrite (H y Q). simpl. lia.
    + destruct (p y); simpl; lia.
Qed.

Lemma missing_mono d d' : keys_sub d d' -> missing d' <= missing d.
Proof.
  intros H. unfold missing. apply filter_le. intros x. unfold absent.
  destruct (hasb x d) eqn:E; [rewrite (H x E); discriminate | reflexivity].
Qed.

Lemma missing_add i vs d : In i U -> hasb i d = false -> missing (dict_extend i vs d) < missing d.
Proof.
  intros Hin Hab. unfold missing. apply (filter_lt _ _ U i).
  - intros x. unfold absent. rewrite hasb_extend. destruct (hasb x d); [rewrite orb_true_r; discriminate | reflexivity].
  - exact Hin.
  - unfold absent. rewrite Hab. reflexivity.
  - unfold absent. rewrite hasb_extend, str_eqb_refl. reflexivity.
Qed.

Lemma keys_sub_extend i vs d : keys_sub d (dict_extend i vs d).
Proof. intros k H. rewrite hasb_extend, H. apply orb_true_r. Qed.

Lemma keys_sub_trans a b c : keys_sub a b -> keys_sub b c -> keys_sub a c.
Proof. intros H1 H2 k H. apply H2, H1, H. Qed.

Lemma keys_same_extend i vs d : hasb i d = true -> keys_sub (dict_extend i vs d) d.
Proof.
  intros Hi k H. rewrite hasb_extend in H. apply orb_true_iff in H. destruct H as [E|H]; [|exact H].
  apply str_eqb_spec in E. subst. exact Hi.
Qed.

Theorem desc_go_total : forall fuel i d, In i U -> missing d < fuel ->
  exists d', desc_go scargs scopes fuel i d = Some d' /\ keys_sub d d' /\ hasb i d' = true.
Proof.
  induction fuel as [|f IH]; intros i d Hi Hm; [lia|].
  cbn [desc_go]. destruct (dict_get i d) as [l|] eqn:Eg.
  - exists d. split; [reflexivity|]. split; [intros k H; exact H|]. unfold hasb. rewrite Eg. reflexivity.
  - assert (Hab : hasb i d = false) by (unfold hasb; rewrite Eg; reflexivity).
    set (members := flat_map (fun l => match dict_get l scopes with Some ps => ps | None => [] end)
                             (match dict_get i scargs with Some ls => ls | None => [] end)).
    assert (Hmem : forall p, In p members -> In p U).
    { intros p Hp. unfold members in Hp. apply in_flat_map in Hp. destruct Hp as (l & _ & Hp).
      destruct (dict_get l scopes) as [ps|] eqn:E; [|destruct Hp]. apply (closed l ps p E Hp). }
    set (d0 := dict_extend i [] d).
    assert (M0 : missing d0 < f) by (pose proof (missing_add i [] d Hi Hab); unfold d0; lia).
    assert (G : forall ms dcur, (forall p, In p ms -> In p U) -> keys_sub d0 dcur -> hasb i dcur = true ->
              exists d', fold_left (fun acc p =>
                           match acc with
                           | None => None
                           | Some d =>
                               match desc_go scargs scopes f p (dict_extend i [p] d) with
                               | None => None
                               | Some d' => Some (dict_extend i (match dict_get p d' with Some l => l | None => [] end) d')
                               end
                           end) ms (Some dcur) = Some d' /\ keys_sub d0 d' /\ hasb i d' = true).
    { induction ms as [|p ms IHm]; intros dcur Hms Hsub Hic.
      - exists dcur. auto.
      - cbn [fold_left].
        set (d1 := dict_extend i [p] dcur).
        assert (M1 : missing d1 < f).
        { eapply Nat.le_lt_trans; [apply (missing_mono d0 d1 (keys_sub_trans _ _ _ Hsub (keys_sub_extend i [p] dcur))) | exact M0]. }
        destruct (IH p d1 (Hms p (or_introl eq_refl)) M1) as (d' & E & S1 & _).
        rewrite E.
        apply IHm.
        + intros q Hq. apply Hms. right. exact Hq.
        + eapply keys_sub_trans; [exact Hsub|]. eapply keys_sub_trans; [apply (keys_sub_extend i [p] dcur)|].
          eapply keys_sub_trans; [exact S1 | apply keys_sub_extend].
        + rewrite hasb_extend, str_eqb_refl. reflexivity. }
    destruct (G members d0 Hmem (fun k H => H)) as (d' & E & S & Hi').
    { unfold d0. rewrite hasb_extend, str_eqb_refl. reflexivity. }
    exists d'. split; [exact E|]. split; [|exact Hi'].
    eapply keys_sub_trans; [apply (keys_sub_extend i [] d) | exact S].
Qed.

Lemma filter_len_le {A} (p : A -> bool) l : length (filter p l) <= length l.
Proof. induction l as [|x l IH]; [apply le_n|]. cbn [filter]. destruct (p x); simpl; lia. Qed.

Lemma missing_le d : missing d <= length U.
Proof. apply filter_len_le. Qed.

Theorem desc_all_total ids : (forall i, In i ids -> In i U) -> forall d,
  exists d', fold_left (fun acc i => match acc with
                                     | None => None
                                     | Some d => desc_go scargs scopes (S (length U)) i d
                                     end) ids (Some d) = Some d'.
Proof.
  induction ids as [|i ids IH]; intros Hs d; cbn [fold_left]; [exists d; reflexivity|].
  destruct (desc_go_total (S (length U)) i d (Hs i (or_introl eq_refl))) as (d' & E & _).
  { pose proof (missing_le d). lia. }
  rewrite E. apply IH. intros j Hj. apply Hs. right. exact Hj.
Qed.
End Fuel.

(* the members of the scope map built from (id, ep) pairs are ids *)
Lemma dict_append_members {A} (k : str) (v : A) d l vs x :
  dict_get l (dict_append k v d) = Some vs -> In x vs -> x = v \/ exists vs0, dict_get l d = Some vs0 /\ In x vs0.
Proof.
  revert vs. induction d as [|[k' l0] d IH]; intros vs; cbn [dict_append dict_get].
  - destruct (str_eqb k l); [|discriminate]. intros H Hx. inversion H; subst. destruct Hx as [<-|[]]. left. reflexivity.
  - destruct (str_eqb k' k) eqn:Ek; cbn [dict_get].
    + destruct (str_eqb k' l) eqn:El.
      * intros H Hx. inversion H; subst. apply in_app_or in Hx. destruct Hx as [Hx|[<-|[]]]; [|left; reflexivity].
        right. exists l0. split; [reflexivity | exact Hx].
      * intros H Hx. right. exists vs. split; assumption.
    + destruct (str_eqb k' l) eqn:El.
      * intros H Hx. right. exists vs. split; assumption.
      * apply IH.
Qed.

Theorem descendants_total m ids : ep_ids (m_rels m) = Some ids -> descendants m <> None.
Proof.
  intros Hi. unfold descendants. rewrite Hi.
  set (reps := combine ids (m_rels m)).
  set (scargs := map (fun p => (fst p, map snd (scopal_args m (map fst (scope_map (m_rels m))) (snd p)))) reps).
  set (scopes := fold_left (fun acc p => dict_append (e_label (snd p)) (fst p) acc) reps []).
  assert (Hclosed : forall l ps p, dict_get l scopes = Some ps -> In p ps -> In p ids).
  { unfold scopes.
    assert (G : forall rs acc, (forall l ps p, dict_get l acc = Some ps -> In p ps -> In p ids) ->
                (forall r, In r rs -> In (fst r) ids) ->
                forall l ps p, dict_get l (fold_left (fun acc p => dict_append (e_label (snd p)) (fst p) acc) rs acc) = Some ps ->
                               In p ps -> In p ids).
    { induction rs as [|r rs IH]; intros acc Ha Hr l ps p; cbn [fold_left]; [apply Ha|].
      apply IH.
      - intros l' ps' p' Hg Hp. destruct (dict_append_members _ _ _ _ _ _ Hg Hp) as [->|(vs0 & Hg0 & Hp0)].
        + apply Hr. left. reflexivity.
        + apply (Ha _ _ _ Hg0 Hp0).
      - intros r' Hr'. apply Hr. right. exact Hr'. }
    apply G.
    - intros l ps p H. discriminate.
    - intros r Hr. unfold reps in Hr. destruct r as [i e]. apply in_combine_l in Hr. exact Hr. }
  destruct (desc_all_total scargs scopes ids Hclosed ids (fun i H => H) []) as (d' & E).
  match goal with |- ?L <> None => replace L with (Some d') by (symmetry; exact E) end. discriminate.
Qed.

Theorem representatives_total m ids : ep_ids (m_rels m) = Some ids -> representatives m <> None.
Proof.
  intros Hi. unfold representatives. rewrite Hi.
  destruct (descendants m) as [d|] eqn:E; [discriminate|].
  exfalso. exact (descendants_total m ids Hi E).
Qed.
