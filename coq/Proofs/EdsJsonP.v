(* Proofs about the EDS-JSON dictionary model (C03). *)
From Coq Require Import List NArith ZArith Bool Arith Lia Permutation.
From PyD Require Import Base.Str Base.Dec Model.Hier Model.Mrs Model.Iso Model.SimpleMrs Model.MrsJson
  Model.EdsNative Model.EdsJson Proofs.SimpleMrsP Proofs.MrsJsonP.
Import ListNotations.

Definition proj_jnode (p l : bool) (n : vnode) : vnode :=
  {| v_id := v_id n; v_pred := v_pred n; v_type := v_type n; v_edges := v_edges n;
     v_props := if p then v_props n else []; v_carg := v_carg n;
     v_lnk := if l then LChar (cfrom (v_lnk n)) (cto (v_lnk n)) else LNone |}.

Lemma node_roundtrip p l n : node_from (v_id n, node_to_dict p l n) = Some (proj_jnode p l n).
Proof.
  unfold node_from, node_to_dict, proj_jnode, jget. cbn [snd fst].
  destruct l, (v_type n) as [t|], p, (v_props n) as [|q qs], (v_carg n) as [c|];
    cbn -[str_fields jstr_map]; unfold jstr_map; rewrite ?str_fields_map; reflexivity.
Qed.

Lemma fold_set_fresh p l nodes : forall acc,
  NoDup (map v_id nodes) -> (forall i, In i (map v_id nodes) -> ~ In i (map fst acc)) ->
  fold_left (fun d n => dict_set (v_id n) (node_to_dict p l n) d) nodes acc
  = acc ++ map (fun n => (v_id n, node_to_dict p l n)) nodes.
Proof.
  induction nodes as [|n nodes IH]; intros acc Hnd Hdis; cbn [fold_left map]; [rewrite app_nil_r; reflexivity|].
  inversion Hnd as [|? ? Hn Hnd']; subst.
  rewrite dict_set_notin by (apply Hdis; left; reflexivity).
  rewrite IH; [rewrite <- app_assoc; reflexivity | exact Hnd' |].
  intros i Hi. rewrite map_app, in_app_iff. cbn. intros [H|[H|[]]].
  - apply (Hdis i); [right; exact Hi | exact H].
  - subst. contradiction.
Qed.

Lemma nodes_back p l nodes :
  all_some (map node_from (map (fun n => (v_id n, node_to_dict p l n)) nodes)) = Some (map (proj_jnode p l) nodes).
Proof.
  induction nodes as [|n nodes IH]; [reflexivity|]. cbn [map all_some]. rewrite node_roundtrip, IH. reflexivity.
Qed.

Lemma ins_node_perm x l : Permutation (ins_node x l) (x :: l).
Proof.
  induction l as [|y l IH]; cbn [ins_node]; [apply Permutation_refl|].
  destruct (span_lt y x); [|apply Permutation_refl].
  eapply perm_trans; [apply perm_skip; exact IH | apply perm_swap].
Qed.

Lemma sort_nodes_perm l : Permutation (sort_nodes l) l.
Proof.
  induction l as [|x l IH]; cbn; [constructor|].
  eapply perm_trans; [apply ins_node_perm | apply perm_skip; exact IH].
Qed.

(* reading back what to_dict writes: the same top and the same nodes (type
   kept even when properties are suppressed, every alignment as a character
   span), re-ordered by span *)
Theorem e_from_to_dict p l g : NoDup (map v_id (ve_nodes g)) ->
  e_from_dict (e_to_dict p l g) =
  Some {| ve_top := ve_top g; ve_nodes := sort_nodes (map (proj_jnode p l) (ve_nodes g)); ve_ident := None |}.
Proof.
  intros Hnd. unfold e_to_dict, e_from_dict, jget. cbn [dict_get].
  repeat match goal with
         | |- context [str_eqb ?a ?b] => let v := eval vm_compute in (str_eqb a b) in change (str_eqb a b) with v
         end.
  cbv iota beta.
  rewrite (fold_set_fresh p l (ve_nodes g) [] Hnd (fun _ _ F => F)). cbn [app].
  rewrite nodes_back. destruct (ve_top g); reflexivity.
Qed.

Theorem e_json_nodes_permutation p l g :
  Permutation (sort_nodes (map (proj_jnode p l) (ve_nodes g))) (map (proj_jnode p l) (ve_nodes g)).
Proof. apply sort_nodes_perm. Qed.
