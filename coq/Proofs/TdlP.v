(* Proofs about the syntax-level TDL model (C15). *)
From Coq Require Import List NArith ZArith Bool Arith Lia.
From PyD Require Import Base.Str Model.Hier Model.Mrs Model.Iso Model.SimpleMrs Model.Tdl.
Import ListNotations.
Open Scope nat_scope.

(* ---------------------------------------------------------------- *)
(* induction over terms with their nested lists *)

Section TtermInd.
  Variable P : tterm -> Prop.
  Hypothesis HId : forall d s, P (MId d s).
  Hypothesis HStr : forall d s, P (MStr d s).
  Hypothesis HRegex : forall d s, P (MRegex d s).
  Hypothesis HCoref : forall d s, P (MCoref d s).
  Hypothesis HAvm : forall d feats, Forall (fun pc => Forall P (snd pc)) feats -> P (MAvm d feats).
  Hypothesis HCons : forall d vs e dt, Forall (Forall P) vs ->
    (match dt with Some c => Forall P c | None => True end) -> P (MCons d vs e dt).
  Hypothesis HDiff : forall d vs, Forall (Forall P) vs -> P (MDiff d vs).

  Fixpoint tterm_ind2 (t : tterm) : P t :=
    let conj_all := fix ca (c : list tterm) : Forall P c :=
                      match c with [] => Forall_nil _ | t :: c' => Forall_cons _ (tterm_ind2 t) (ca c') end in
    let vals_all := fix va (vs : list (list tterm)) : Forall (Forall P) vs :=
                      match vs with [] => Forall_nil _ | c :: vs' => Forall_cons _ (conj_all c) (va vs') end in
    match t with
    | MId d s => HId d s
    | MStr d s => HStr d s
    | MRegex d s => HRegex d s
    | MCoref d s => HCoref d s
    | MAvm d feats =>
        HAvm d feats ((fix fa (fs : list (list str * list tterm)) : Forall (fun pc => Forall P (snd pc)) fs :=
                         match fs with
                         | [] => Forall_nil _
                         | pc :: fs' => Forall_cons _ (conj_all (snd pc)) (fa fs')
                         end) feats)
    | MCons d vs e dt =>
        HCons d vs e dt (vals_all vs) (match dt with Some c => conj_all c | None => I end)
    | MDiff d vs => HDiff d vs (vals_all vs)
    end.
End TtermInd.

(* ---------------------------------------------------------------- *)
(* well-formed terms: what the formatter can be asked to print *)

Definition upper_path (p : list str) : Prop := p <> [] /\ Forall (fun a => ascii_upper a = a) p.

Inductive wf_term : tterm -> Prop :=
| W_Id d s : wf_term (MId d s)
| W_Str d s : wf_term (MStr d s)
| W_Regex d s : wf_term (MRegex d s)
| W_Coref d s : wf_term (MCoref d s)
| W_Avm d feats :
    Forall (fun pc => upper_path (fst pc) /\ snd pc <> [] /\ Forall wf_term (snd pc)) feats -> wf_term (MAvm d feats)
| W_Cons d vs e :
    Forall (fun c => c <> [] /\ Forall wf_term c) vs -> wf_term (MCons d vs e None)
| W_ConsDot d vs c :
    Forall (fun c => c <> [] /\ Forall wf_term c) vs -> vs <> [] -> c <> [] -> Forall wf_term c ->
    wf_term (MCons d vs CClosed (Some c))
| W_Diff d vs : Forall (fun c => c <> [] /\ Forall wf_term c) vs -> wf_term (MDiff d vs).

Definition wf_conj (c : conj) : Prop := c <> [] /\ Forall wf_term c.

(* ---------------------------------------------------------------- *)
(* fuel: a structural bound on the depth of the parser's calls *)

Fixpoint need (t : tterm) : nat :=
  let cneed := fix cn (c : list tterm) : nat := match c with [] => 0 | t :: c' => S (need t + cn c') end in
  let vneed := fix vn (vs : list (list tterm)) : nat := match vs with [] => 0 | c :: vs' => S (cneed c + vn vs') end in
  match t with
  | MAvm _ feats =>
      S ((fix fn (fs : list (list str * list tterm)) : nat :=
            match fs with [] => 0 | pc :: fs' => S (cneed (snd pc) + fn fs') end) feats)
  | MCons _ vs _ dt => S (S (vneed vs + match dt with Some e => S (cneed e) | None => 0 end))
  | MDiff _ vs => S (S (vneed vs))
  | _ => 1
  end.

Fixpoint cneed (c : list tterm) : nat := match c with [] => 0 | t :: c' => S (need t + cneed c') end.
Fixpoint vneed (vs : list (list tterm)) : nat := match vs with [] => 0 | c :: vs' => S (cneed c + vneed vs') end.
Fixpoint fneed (fs : list (list str * list tterm)) : nat :=
  match fs with [] => 0 | pc :: fs' => S (cneed (snd pc) + fneed fs') end.

Lemma cneed_fix c : (fix cn (c : list tterm) : nat := match c with [] => 0 | t :: c' => S (need t + cn c') end) c = cneed c.
Proof. reflexivity. Qed.

Lemma need_avm d feats : need (MAvm d feats) = S (fneed feats).
Proof.
  reflexivity.
Qed.

Lemma vneed_fix vs :
  (fix vn (vs : list (list tterm)) : nat :=
     match vs with
     | [] => 0
     | c :: vs' => S ((fix cn (c : list tterm) : nat := match c with [] => 0 | t :: c' => S (need t + cn c') end) c + vn vs')
     end) vs = vneed vs.
Proof. reflexivity. Qed.

Lemma need_cons d vs e dt : need (MCons d vs e dt) = S (S (vneed vs + match dt with Some c => S (cneed c) | None => 0 end)).
Proof. destruct dt; reflexivity. Qed.

Lemma need_diff d vs : need (MDiff d vs) = S (S (vneed vs)).
Proof. reflexivity. Qed.

(* ---------------------------------------------------------------- *)
(* shapes of the printed token lists *)

Lemma sep_by_one {A} (sep : list A) x : sep_by sep [x] = x.
Proof. reflexivity. Qed.

Lemma sep_by_more {A} (sep : list A) x y l : sep_by sep (x :: y :: l) = x ++ sep ++ sep_by sep (y :: l).
Proof. reflexivity. Qed.

(* the first token of a term *)
Definition starter (k : ttok) : bool :=
  match k with KDoc _ | KIdent _ | KStr _ | KRegex _ | KCoref _ | KLBrk | KLAngle | KLDiff => true | _ => false end.

Lemma fmt_term_head t : exists k r, fmt_term t = k :: r /\ starter k = true.
Proof. destruct t as [[d|] s|[d|] s|[d|] s|[d|] s|[d|] fs|[d|] vs e dt|[d|] vs]; cbn [fmt_term doc_toks app]; eexists; eexists; split; reflexivity. Qed.

Lemma fmt_conj_head c : c <> [] -> exists k r, fmt_conj c = k :: r /\ starter k = true.
Proof.
  destruct c as [|t [|t2 c]]; intros H; [contradiction H; reflexivity | |].
  - unfold fmt_conj. cbn [map sep_by]. apply fmt_term_head.
  - unfold fmt_conj. cbn [map]. rewrite sep_by_more. destruct (fmt_term_head t) as [k [r [E S]]]. rewrite E.
    eexists; eexists; split; [reflexivity | exact S].
Qed.

Lemma starter_hd p (Hp : forall k, starter k = true -> p k = false) ts X :
  (exists k r, ts = k :: r /\ starter k = true) -> hd_is p (ts ++ X) = false.
Proof. intros [k [r [E S]]]. subst. cbn. apply Hp. exact S. Qed.

Lemma st_dot k : starter k = true -> k_dot k = false. Proof. destruct k; cbn; congruence. Qed.
Lemma st_comma k : starter k = true -> k_comma k = false. Proof. destruct k; cbn; congruence. Qed.
Lemma st_amp k : starter k = true -> k_amp k = false. Proof. destruct k; cbn; congruence. Qed.
Lemma st_rbrk k : starter k = true -> k_rbrk k = false. Proof. destruct k; cbn; congruence. Qed.
Lemma st_ell k : starter k = true -> k_ell k = false. Proof. destruct k; cbn; congruence. Qed.
Lemma st_brk brk k : starter k = true -> is_brk brk k = false. Proof. destruct brk, k; cbn; congruence. Qed.

(* ---------------------------------------------------------------- *)
(* the round trip, term by term *)

Definition Pt (t : tterm) : Prop :=
  wf_term t -> forall f rest, need t <= f -> p_term f (fmt_term t ++ rest) = Some (t, rest).

Lemma conj_ok c : c <> [] -> Forall Pt c -> Forall wf_term c ->
  forall f rest, cneed c <= f -> hd_is k_amp rest = false -> p_conj f (fmt_conj c ++ rest) = Some (c, rest).
Proof.
  induction c as [|t c IH]; intros Hne HP Hwf f rest Hf Hrest; [contradiction Hne; reflexivity|].
  inversion HP as [|? ? Ht HP']; subst. inversion Hwf as [|? ? Wt Hwf']; subst.
  destruct f as [|f]; [cbn [cneed] in Hf; lia|]. cbn [cneed] in Hf.
  destruct c as [|t2 c'].
  - unfold fmt_conj. cbn [map sep_by]. cbn [p_conj]. rewrite (Ht Wt f rest) by lia. rewrite Hrest. reflexivity.
  - unfold fmt_conj in *. cbn [map]. rewrite sep_by_more. rewrite <- !app_assoc. cbn [p_conj].
    rewrite (Ht Wt f) by lia. cbn [app hd_is k_amp tl].
    fold (fmt_conj (t2 :: c')). unfold fmt_conj. cbn [map] in IH.
    rewrite IH; [reflexivity | discriminate | exact HP' | exact Hwf' | lia | exact Hrest].
Qed.

(* feature paths *)
Definition dots (p : list str) : list ttok := flat_map (fun b => [KDot; KIdent b]) p.

Lemma path_toks_shape a p : path_toks (a :: p) = KIdent a :: dots p.
Proof.
  revert a. induction p as [|b p IH]; intros a; [reflexivity|].
  unfold path_toks. cbn [map]. rewrite sep_by_more. cbn [app]. f_equal. cbn [dots flat_map app]. f_equal.
  specialize (IH b). unfold path_toks in IH. cbn [map] in IH. rewrite IH. reflexivity.
Qed.

Lemma p_path_dots p : forall acc X, Forall (fun a => ascii_upper a = a) p -> hd_is k_dot X = false ->
  p_path acc (dots p ++ X) = (acc ++ p, X).
Proof.
  induction p as [|b p IH]; intros acc X Hu HX.
  - cbn [dots flat_map app]. rewrite app_nil_r. destruct X as [|[] X']; try reflexivity.
    + cbn in HX. discriminate.
  - inversion Hu as [|? ? Hb Hu']; subst. cbn [dots flat_map app p_path]. rewrite Hb.
    change (flat_map (fun b0 : str => [KDot; KIdent b0]) p) with (dots p).
    rewrite IH by assumption. rewrite <- app_assoc. reflexivity.
Qed.

Definition ftoks (pc : list str * list tterm) : list ttok := path_toks (fst pc) ++ fmt_conj (snd pc).
Definition feat_ok (pc : list str * list tterm) : Prop := upper_path (fst pc) /\ snd pc <> [] /\ Forall wf_term (snd pc).

Lemma feats_ok feats : feats <> [] -> Forall feat_ok feats -> Forall (fun pc => Forall Pt (snd pc)) feats ->
  forall f rest, fneed feats <= f ->
  p_feats f (sep_by [KComma] (map ftoks feats) ++ KRBrk :: rest) = Some (feats, rest).
Proof.
  induction feats as [|[p c] feats IH]; intros Hne Hok HP f rest Hf; [contradiction Hne; reflexivity|].
  inversion Hok as [|? ? [[Hp Hup] [Hc Hw]] Hok']; subst. inversion HP as [|? ? HPc HP']; subst.
  cbn [fst snd] in *. destruct p as [|a p]; [contradiction Hp; reflexivity|].
  inversion Hup as [|? ? Ha Hup']; subst.
  destruct f as [|f]; [cbn [fneed] in Hf; lia|]. cbn [fneed snd] in Hf.
  assert (Hstep : forall TAIL, hd_is k_amp TAIL = false ->
            p_feats (S f) ((ftoks (a :: p, c)) ++ TAIL) =
            (if hd_is k_comma TAIL then
               match p_feats f (tl TAIL) with Some (fs, r3) => Some ((a :: p, c) :: fs, r3) | None => None end
             else if hd_is k_rbrk TAIL then Some ([(a :: p, c)], tl TAIL) else None)).
  { intros TAIL HT. unfold ftoks. cbn [fst snd]. rewrite path_toks_shape. rewrite <- app_assoc. cbn [app p_feats].
    rewrite Ha.
    rewrite p_path_dots; [| exact Hup' | apply (starter_hd k_dot st_dot); apply fmt_conj_head; exact Hc].
    rewrite (starter_hd k_dot st_dot) by (apply fmt_conj_head; exact Hc).
    rewrite (conj_ok c Hc HPc Hw f TAIL) by (lia || exact HT). reflexivity. }
  destruct feats as [|pc2 feats'].
  - cbn [map sep_by]. rewrite Hstep by reflexivity. reflexivity.
  - cbn [map]. rewrite sep_by_more. rewrite <- !app_assoc. rewrite Hstep by reflexivity. cbn [app hd_is k_comma tl].
    cbn [map] in IH. rewrite IH; [reflexivity | discriminate | exact Hok' | exact HP' | cbn [fneed] in *; lia].
Qed.

(* ---------------------------------------------------------------- *)
(* lists *)

Definition vtoks (vs : list (list tterm)) : list ttok := sep_by [KComma] (map fmt_conj vs).

Definition ltail (e : cons_end) (dt : option (list tterm)) : list ttok :=
  match e, dt with
  | COpen, _ => [KComma; KEllipsis]
  | CClosed, Some d => KDot :: fmt_conj d
  | CClosed, None => []
  end.

Definition lend (e : cons_end) (dt : option (list tterm)) : option (list tterm) :=
  match e with COpen => None | CClosed => dt end.

Definition dneed (dt : option (list tterm)) : nat := match dt with Some d => S (cneed d) | None => 0 end.

Definition val_ok (c : list tterm) : Prop := c <> [] /\ Forall wf_term c.

Lemma brk_self brk : (brk = KRDiff \/ brk = KRAngle) -> is_brk brk brk = true.
Proof. intros [-> | ->]; reflexivity. Qed.

Lemma brk_not_special brk : (brk = KRDiff \/ brk = KRAngle) ->
  k_amp brk = false /\ k_dot brk = false /\ k_comma brk = false /\ k_ell brk = false /\ is_brk brk KEllipsis = false.
Proof. intros [-> | ->]; repeat split; reflexivity. Qed.

Lemma list_values_ok brk vs : (brk = KRDiff \/ brk = KRAngle) -> vs <> [] ->
  Forall val_ok vs -> Forall (Forall Pt) vs ->
  forall e dt f rest,
    (match dt with Some d => e = CClosed /\ d <> [] /\ Forall wf_term d /\ Forall Pt d | None => True end) ->
    vneed vs + dneed (lend e dt) + 1 <= f ->
    p_list f brk (vtoks vs ++ ltail e dt ++ brk :: rest) = Some (vs, e, lend e dt, rest).
Proof.
  intros Hb. destruct (brk_not_special brk Hb) as [Ba [Bd [Bc [Be Bel]]]]. pose proof (brk_self brk Hb) as Bs.
  induction vs as [|v vs IH]; intros Hne Hok HP e dt f rest Hdt Hf; [contradiction Hne; reflexivity|].
  inversion Hok as [|? ? [Hv Hw] Hok']; subst. inversion HP as [|? ? HPv HP']; subst.
  destruct f as [|f]; [lia|]. cbn [vneed] in Hf.
  assert (Hhead : forall X, hd_is (is_brk brk) (fmt_conj v ++ X) = false /\ hd_is k_ell (fmt_conj v ++ X) = false).
  { intros X. split; [apply (starter_hd _ (st_brk brk)) | apply (starter_hd _ st_ell)]; apply fmt_conj_head; exact Hv. }
  destruct vs as [|v2 vs'].
  - (* last value *)
    unfold vtoks. cbn [map sep_by]. cbn [p_list].
    destruct (Hhead (ltail e dt ++ brk :: rest)) as [H1 H2]. rewrite H1, H2.
    assert (Hamp : hd_is k_amp (ltail e dt ++ brk :: rest) = false).
    { destruct e; [destruct dt|]; cbn; try reflexivity. exact Ba. }
    rewrite (conj_ok v Hv HPv Hw f _) by (lia || exact Hamp).
    destruct e; [destruct dt as [d|]|].
    + (* dotted *)
      destruct Hdt as [_ [Hd [Hwd HPd]]]. cbn [ltail app hd_is k_dot tl lend].
      rewrite (conj_ok d Hd HPd Hwd f (brk :: rest)) by (cbn [lend dneed vneed] in Hf; try lia; cbn; exact Ba).
      cbn [hd_is tl]. rewrite Bs. reflexivity.
    + cbn [ltail app hd_is lend]. rewrite Bd, Bc, Bs. reflexivity.
    + cbn [ltail app hd_is k_dot k_comma tl lend]. rewrite Bel.
      destruct f as [|f]; [cbn [lend dneed vneed] in Hf; lia|].
      cbn [p_list hd_is k_ell tl]. rewrite Bel. cbn [k_ell]. rewrite Bs. reflexivity.
  - unfold vtoks in *. cbn [map]. rewrite sep_by_more. rewrite <- !app_assoc. cbn [p_list].
    rewrite (proj1 (Hhead _)), (proj2 (Hhead _)).
    rewrite (conj_ok v Hv HPv Hw f _) by (lia || reflexivity).
    cbn [app hd_is k_dot k_comma tl].
    inversion Hok' as [|? ? [Hv2 _] _]; subst.
    assert (H3 : hd_is (is_brk brk) (sep_by [KComma] (map fmt_conj (v2 :: vs')) ++ ltail e dt ++ brk :: rest) = false).
    { destruct vs' as [|v3 vs'']; cbn [map].
      - rewrite sep_by_one. apply (starter_hd _ (st_brk brk)). apply fmt_conj_head. exact Hv2.
      - rewrite sep_by_more. rewrite <- app_assoc. apply (starter_hd _ (st_brk brk)). apply fmt_conj_head. exact Hv2. }
    cbn [map] in H3. rewrite H3. cbn [map] in IH.
    rewrite (IH ltac:(discriminate) Hok' HP' e dt f rest Hdt) by (cbn [vneed] in *; lia). reflexivity.
Qed.

(* ---------------------------------------------------------------- *)
(* every term *)

Lemma p_term_doc f d ts : p_term (S f) (doc_toks d ++ ts) =
  match ts with
  | KDoc d2 :: _ => match d with Some _ => None | None => p_term (S f) ts end
  | _ => p_term (S f) ts
  end \/ True.
Proof. right. exact I. Qed.

Theorem term_ok : forall t, Pt t.
Proof.
  apply tterm_ind2; unfold Pt.
  - intros d s _ f rest Hf. destruct f as [|f]; [cbn in Hf; lia|]. destruct d; reflexivity.
  - intros d s _ f rest Hf. destruct f as [|f]; [cbn in Hf; lia|]. destruct d; reflexivity.
  - intros d s _ f rest Hf. destruct f as [|f]; [cbn in Hf; lia|]. destruct d; reflexivity.
  - intros d s _ f rest Hf. destruct f as [|f]; [cbn in Hf; lia|]. destruct d; reflexivity.
  - (* feature structures *)
    intros d feats HF W f rest Hf. inversion W as [| | | |? ? Hfe| | |]; subst. rewrite need_avm in Hf.
    destruct f as [|f]; [lia|].
    assert (Hcore : p_term (S f) (doc_toks d ++ KLBrk :: (sep_by [KComma] (map ftoks feats) ++ KRBrk :: rest))
                    = Some (MAvm d feats, rest)).
    { destruct feats as [|pc feats'].
      - destruct d; reflexivity.
      - assert (Hh : hd_is k_rbrk (sep_by [KComma] (map ftoks (pc :: feats')) ++ KRBrk :: rest) = false).
        { inversion Hfe as [|? ? [[Hp _] _] _]; subst. destruct pc as [[|a p] c]; [contradiction Hp; reflexivity|].
          destruct feats'; cbn [map]; [rewrite sep_by_one | rewrite sep_by_more; rewrite <- app_assoc];
            unfold ftoks; cbn [fst]; rewrite path_toks_shape; reflexivity. }
        assert (Hp := feats_ok (pc :: feats') ltac:(discriminate) Hfe HF f rest ltac:(lia)).
        destruct d; cbn [doc_toks app p_term]; rewrite Hh, Hp; reflexivity. }
    cbn [fmt_term].
    replace ((doc_toks d ++ KLBrk :: sep_by [KComma] (map (fun pc : list str * list tterm => path_toks (fst pc) ++ sep_by [KAmp] (map fmt_term (snd pc))) feats) ++ [KRBrk]) ++ rest)
      with (doc_toks d ++ KLBrk :: (sep_by [KComma] (map ftoks feats) ++ KRBrk :: rest)).
    2:{ rewrite <- app_assoc. cbn [app]. rewrite <- app_assoc. reflexivity. }
    exact Hcore.
  - (* cons lists *)
    intros d vs e dt HV HD W f rest Hf. rewrite need_cons in Hf. destruct f as [|f]; [lia|].
    assert (Hvals : Forall val_ok vs) by (inversion W; subst; assumption).
    assert (Hshape : dt = None \/ exists c, dt = Some c /\ e = CClosed /\ vs <> [] /\ c <> [] /\ Forall wf_term c).
    { inversion W; subst; [left; reflexivity | right; eexists; repeat split; eauto]. }
    destruct vs as [|v vs'].
    + (* no values *)
      destruct Hshape as [-> | [c [_ [_ [Hne _]]]]]; [|contradiction Hne; reflexivity].
      destruct f as [|f]; [lia|]. destruct d, e; reflexivity.
    + assert (Hbody : forall X, (match e, dt with
                                 | COpen, _ => vtoks (v :: vs') ++ [KComma; KEllipsis]
                                 | CClosed, Some c => vtoks (v :: vs') ++ KDot :: fmt_conj c
                                 | CClosed, None => vtoks (v :: vs')
                                 end ++ [KRAngle]) ++ X = vtoks (v :: vs') ++ ltail e dt ++ KRAngle :: X).
      { intros X. destruct e; [destruct dt|]; cbn [ltail]; rewrite <- ?app_assoc; cbn [app]; rewrite <- ?app_assoc; reflexivity. }
      assert (Hl : p_list f KRAngle (vtoks (v :: vs') ++ ltail e dt ++ KRAngle :: rest) = Some (v :: vs', e, dt, rest)).
      { destruct Hshape as [-> | [c [-> [-> [_ [Hc Hwc]]]]]].
        - rewrite (list_values_ok KRAngle (v :: vs') (or_intror eq_refl) ltac:(discriminate) Hvals HV e None f rest I).
          + destruct e; reflexivity.
          + destruct e; cbn [lend dneed] in *; lia.
        - rewrite (list_values_ok KRAngle (v :: vs') (or_intror eq_refl) ltac:(discriminate) Hvals HV CClosed (Some c) f rest).
          + reflexivity.
          + repeat split; assumption.
          + cbn [lend dneed] in *. lia. }
      cbn [fmt_term]. rewrite <- app_assoc. cbn [app].
      change (sep_by [KComma] (map (fun c : list tterm => sep_by [KAmp] (map fmt_term c)) (v :: vs'))) with (vtoks (v :: vs')).
      change (sep_by [KAmp] (map fmt_term ?c)) with (fmt_conj c) in *.
      rewrite Hbody. destruct d; cbn [doc_toks app p_term]; rewrite Hl; reflexivity.
  - (* diff lists *)
    intros d vs HV W f rest Hf. rewrite need_diff in Hf. destruct f as [|f]; [lia|].
    assert (Hvals : Forall val_ok vs) by (inversion W; subst; assumption).
    destruct vs as [|v vs'].
    + destruct f as [|f]; [lia|]. destruct d; reflexivity.
    + assert (Hl : p_list f KRDiff (vtoks (v :: vs') ++ ltail CClosed None ++ KRDiff :: rest) = Some (v :: vs', CClosed, None, rest)).
      { rewrite (list_values_ok KRDiff (v :: vs') (or_introl eq_refl) ltac:(discriminate) Hvals HV CClosed None f rest I);
          [reflexivity | cbn [lend dneed]; lia]. }
      cbn [ltail app] in Hl. cbn [fmt_term]. rewrite <- app_assoc. cbn [app]. rewrite <- app_assoc. cbn [app].
      change (sep_by [KComma] (map (fun c : list tterm => sep_by [KAmp] (map fmt_term c)) (v :: vs'))) with (vtoks (v :: vs')).
      destruct d; cbn [doc_toks app p_term]; rewrite Hl; reflexivity.
Qed.

(* ---------------------------------------------------------------- *)
(* conjunctions of well-formed terms *)

Corollary conj_all_ok c : c <> [] -> Forall wf_term c ->
  forall f rest, cneed c <= f -> hd_is k_amp rest = false -> p_conj f (fmt_conj c ++ rest) = Some (c, rest).
Proof.
  intros Hne Hw. apply conj_ok; [exact Hne | | exact Hw].
  apply Forall_forall. intros t _. apply term_ok.
Qed.

(* ---------------------------------------------------------------- *)
(* letter sets and wild cards *)

Definition plain_chars (cs : str) : Prop := Forall (fun c => is_space c = false \/ c = 32%N) cs.

Lemma scan_esc cs : forall X, plain_chars cs -> scan_chars (esc_chars cs ++ 41%N :: X) = (cs, 41%N :: X).
Proof.
  induction cs as [|c cs IH]; intros X Hp; [reflexivity|].
  inversion Hp as [|? ? Hc Hp']; subst. cbn [esc_chars].
  destruct (N.eqb c 41 || N.eqb c 32 || N.eqb c 92) eqn:E.
  - cbn [app scan_chars]. change (N.eqb 92 92) with true. cbn iota. rewrite IH by exact Hp'. reflexivity.
  - apply orb_false_iff in E. destruct E as [E E3]. apply orb_false_iff in E. destruct E as [E1 E2].
    cbn [app scan_chars]. rewrite E3, E1, E2. cbn [orb]. rewrite IH by exact Hp'. reflexivity.
Qed.

Lemma esc_head_not_space cs X : plain_chars cs -> cs <> [] ->
  drop_while is_space (esc_chars cs ++ X) = esc_chars cs ++ X.
Proof.
  intros Hp Hne. destruct cs as [|c cs]; [contradiction Hne; reflexivity|].
  inversion Hp as [|? ? Hc _]; subst. cbn [esc_chars].
  destruct (N.eqb c 41 || N.eqb c 32 || N.eqb c 92) eqn:E; [reflexivity|].
  apply orb_false_iff in E. destruct E as [E _]. apply orb_false_iff in E. destruct E as [_ E2].
  destruct Hc as [Hc | ->]; [|discriminate E2]. cbn [app drop_while]. rewrite Hc. reflexivity.
Qed.

Lemma strip_prefix_app p X : strip_prefix p (p ++ X) = Some X.
Proof. induction p as [|a p IH]; [reflexivity|]. cbn [app strip_prefix]. rewrite N.eqb_refl. exact IH. Qed.

Lemma drop_space_nonspace c r : is_space c = false -> drop_while is_space (c :: r) = c :: r.
Proof. intros H. cbn [drop_while]. rewrite H. reflexivity. Qed.

Lemma parse_as_fmt l v cs : v <> 10%N -> cs <> [] -> plain_chars cs ->
  parse_morph_as l (fmt_morph l v cs) = Some (l, v, cs).
Proof.
  intros Hv Hne Hp. assert (Ev : N.eqb v 10 = false) by (apply N.eqb_neq; exact Hv).
  unfold parse_morph_as, fmt_morph. rewrite strip_prefix_app.
  change (drop_while is_space ([32%N; 40%N] ++ [if l then 33%N else 63%N; v] ++ [32%N] ++ esc_chars cs ++ [41%N]))
    with (40%N :: (if l then 33%N else 63%N) :: v :: 32%N :: esc_chars cs ++ [41%N]).
  cbv iota beta. rewrite N.eqb_refl, N.eqb_refl, Ev. cbn [negb andb hd_space]. change (is_space 32) with true. cbv iota.
  change (drop_while is_space (32%N :: esc_chars cs ++ [41%N])) with (drop_while is_space (esc_chars cs ++ [41%N])).
  rewrite esc_head_not_space by assumption. rewrite scan_esc by exact Hp.
  destruct cs; [contradiction Hne; reflexivity | reflexivity].
Qed.

Lemma parse_fmt_morph l v cs : v <> 10%N -> cs <> [] -> plain_chars cs ->
  parse_morph (fmt_morph l v cs) = Some (l, v, cs).
Proof.
  intros Hv Hne Hp. unfold parse_morph.
  assert (Hd : drop_while is_space (fmt_morph l v cs) = fmt_morph l v cs) by (destruct l; reflexivity).
  rewrite Hd. destruct l.
  - rewrite parse_as_fmt by assumption. reflexivity.
  - assert (Hn : parse_morph_as true (fmt_morph false v cs) = None) by reflexivity.
    rewrite Hn. apply parse_as_fmt; assumption.
Qed.

(* ---------------------------------------------------------------- *)
(* affix patterns *)

Lemma take_while_app_stop {A} (p : A -> bool) a x r : Forall (fun c => p c = true) a -> p x = false ->
  take_while p (a ++ x :: r) = a.
Proof.
  induction a as [|c a IH]; intros Ha Hx; cbn [app take_while]; [rewrite Hx; reflexivity|].
  inversion Ha as [|? ? Hc Ha']; subst. rewrite Hc. rewrite IH by assumption. reflexivity.
Qed.

Lemma drop_while_app_stop {A} (p : A -> bool) a x r : Forall (fun c => p c = true) a -> p x = false ->
  drop_while p (a ++ x :: r) = x :: r.
Proof.
  induction a as [|c a IH]; intros Ha Hx; cbn [app drop_while]; [rewrite Hx; reflexivity|].
  inversion Ha as [|? ? Hc Ha']; subst. rewrite Hc. apply IH; assumption.
Qed.

Definition pat_ok (p : str * str) : Prop :=
  fst p <> [] /\ Forall (fun c => is_space c = false) (fst p) /\
  exists b0 b', snd p = b0 :: b' /\ is_space b0 = false.

Lemma split_pat_text p : pat_ok p -> split_pat (pat_text p) = Some p.
Proof.
  destruct p as [a b]. intros [Ha [Hns [b0 [b' [Hb Hb0]]]]]. cbn [fst snd] in *. subst b.
  unfold split_pat, pat_text. cbn [fst snd].
  destruct a as [|a0 a']; [contradiction Ha; reflexivity|]. inversion Hns as [|? ? Ha0 Hns']; subst.
  assert (Hd : drop_while is_space ((a0 :: a') ++ [32%N] ++ b0 :: b') = (a0 :: a') ++ [32%N] ++ b0 :: b').
  { cbn [app drop_while]. rewrite Ha0. reflexivity. }
  rewrite Hd. change ((a0 :: a') ++ [32%N] ++ b0 :: b') with ((a0 :: a') ++ 32%N :: b0 :: b').
  assert (Hall : Forall (fun c => negb (is_space c) = true) (a0 :: a')).
  { apply Forall_forall. intros c Hc. rewrite Forall_forall in Hns. rewrite (Hns c Hc). reflexivity. }
  rewrite (take_while_app_stop (fun c => negb (is_space c)) (a0 :: a') 32%N (b0 :: b') Hall eq_refl).
  rewrite (drop_while_app_stop (fun c => negb (is_space c)) (a0 :: a') 32%N (b0 :: b') Hall eq_refl).
  cbn [drop_while]. change (is_space 32) with true. cbn iota. cbn [drop_while]. rewrite Hb0. reflexivity.
Qed.

Lemma take_pats_ok ps X : Forall pat_ok ps -> hd_is (fun t => match t with KAffixPat _ => true | _ => false end) X = false ->
  take_pats (map (fun p => KAffixPat (pat_text p)) ps ++ X) = (Some ps, X).
Proof.
  induction ps as [|p ps IH]; intros Hok HX.
  - cbn [map app]. destruct X as [|[] X']; try reflexivity. cbn in HX. discriminate.
  - inversion Hok as [|? ? Hp Hok']; subst. cbn [map app take_pats]. rewrite IH by assumption.
    rewrite split_pat_text by exact Hp. reflexivity.
Qed.

(* ---------------------------------------------------------------- *)
(* entities *)

Definition wf_event (e : tevent) : Prop :=
  match e with
  | VDef _ c _ => c <> [] /\ Forall wf_term c /\ existsb is_type_term c = true
  | VAdd _ c d => Forall wf_term c /\ (c = [] -> d <> None)
  | VLex _ _ ps c _ => Forall pat_ok ps /\ c <> [] /\ Forall wf_term c
  | VMorph _ v cs => v <> 10%N /\ cs <> [] /\ plain_chars cs
  | VBegin t st => (t = ENV_TYPE /\ st = None) \/ (t = ENV_INSTANCE /\ exists s, st = Some s)
  | _ => True
  end.

Fixpoint env_run (evs : list tevent) (envs : list str) : option (list str) :=
  match evs with
  | [] => Some envs
  | VBegin t _ :: r => env_run r (t :: envs)
  | VEnd t :: r => match envs with
                   | cur :: envs' => if str_eqb t cur then env_run r envs' else None
                   | [] => None
                   end
  | _ :: r => env_run r envs
  end.

Definition ev_conj (e : tevent) : list tterm :=
  match e with VDef _ c _ | VAdd _ c _ | VLex _ _ _ c _ => c | _ => [] end.

Fixpoint eneed (evs : list tevent) : nat :=
  match evs with [] => 1 | e :: r => S (cneed (ev_conj e) + eneed r) end.

Lemma p_def_end_ok d X : p_def_end (doc_toks d ++ KDot :: X) = Some (d, X).
Proof. destruct d; reflexivity. Qed.

Lemma def_tail_no_amp d X : hd_is k_amp (doc_toks d ++ KDot :: X) = false.
Proof. destruct d; reflexivity. Qed.

(* the second token after a docstring is never a dot *)
Lemma fmt_term_not_doc_dot t X : is_doc_dot (fmt_term t ++ X) = false.
Proof.
  destruct t as [[d|] s|[d|] s|[d|] s|[d|] s|[d|] fs|[d|] vs e dt|[d|] vs]; reflexivity.
Qed.

Lemma fmt_conj_not_doc_dot c X : c <> [] -> is_doc_dot (fmt_conj c ++ X) = false.
Proof.
  destruct c as [|t [|t2 c]]; intros H; [contradiction H; reflexivity | |].
  - unfold fmt_conj. cbn [map sep_by]. apply fmt_term_not_doc_dot.
  - unfold fmt_conj. cbn [map]. rewrite sep_by_more. rewrite <- app_assoc. apply fmt_term_not_doc_dot.
Qed.

Lemma event_step e more envs f : wf_event e -> cneed (ev_conj e) <= f ->
  p_events (S f) (fmt_event e ++ more) envs =
  match e with
  | VBegin t _ => option_map (cons e) (p_events f more (t :: envs))
  | VEnd t => match envs with
              | cur :: envs' => if str_eqb t cur then option_map (cons e) (p_events f more envs') else None
              | [] => None
              end
  | _ => option_map (cons e) (p_events f more envs)
  end.
Proof.
  intros W Hf. destruct e as [i c d|i c d|i a ps c d|l v cs|t st|t|s|s|s]; cbn [wf_event ev_conj] in *.
  - (* definition *)
    destruct W as [Hc [Hw Ht]]. cbn [fmt_event]. rewrite <- !app_assoc. cbn [app p_events].
    unfold p_definition.
    rewrite (starter_hd k_affix) by (first [apply fmt_conj_head; exact Hc | intros k Hk; destruct k; cbn in *; congruence]).
    rewrite (conj_all_ok c Hc Hw f _ Hf (def_tail_no_amp d _)). rewrite Ht. rewrite p_def_end_ok. reflexivity.
  - (* addendum *)
    destruct W as [Hw Hd]. cbn [fmt_event]. rewrite <- !app_assoc. cbn [app p_events]. unfold p_definition.
    destruct c as [|t0 c'].
    + destruct d as [d|]; [|contradiction (Hd eq_refl); reflexivity]. reflexivity.
    + rewrite fmt_conj_not_doc_dot by discriminate.
      rewrite (conj_all_ok (t0 :: c') ltac:(discriminate) Hw f _ Hf (def_tail_no_amp d _)).
      rewrite p_def_end_ok. reflexivity.
  - (* lexical rule *)
    destruct W as [Hp [Hc Hw]]. cbn [fmt_event]. rewrite <- !app_assoc. cbn [app p_events]. unfold p_definition.
    cbn [hd_is k_affix].
    rewrite take_pats_ok; [| exact Hp |].
    2:{ apply (starter_hd (fun t => match t with KAffixPat _ => true | _ => false end)).
        - intros k Hk. destruct k; cbn in *; congruence.
        - apply fmt_conj_head. exact Hc. }
    rewrite (conj_all_ok c Hc Hw f _ Hf (def_tail_no_amp d _)). rewrite p_def_end_ok. reflexivity.
  - destruct W as [Hv [Hne Hp]]. cbn [fmt_event app p_events]. rewrite parse_fmt_morph by assumption. reflexivity.
  - destruct W as [[-> ->] | [-> [s ->]]]; reflexivity.
  - cbn [fmt_event app p_events]. destruct envs; reflexivity.
  - reflexivity.
  - reflexivity.
  - reflexivity.
Qed.

(* a whole file: the events of the printed entities are the entities *)
Theorem events_ok evs : forall envs f, Forall wf_event evs -> env_run evs envs <> None -> eneed evs <= f ->
  p_events f (flat_map fmt_event evs) envs = Some evs.
Proof.
  induction evs as [|e evs IH]; intros envs f HW Hrun Hf.
  - destruct f as [|f]; [cbn in Hf; lia|]. reflexivity.
  - inversion HW as [|? ? We HW']; subst. cbn [eneed] in Hf. destruct f as [|f]; [lia|].
    cbn [flat_map]. rewrite event_step by (assumption || lia).
    destruct e; cbn [env_run] in Hrun;
      try (rewrite IH by (assumption || lia); reflexivity).
    destruct envs as [|cur envs']; [contradiction Hrun; reflexivity|].
    destruct (str_eqb envtype cur); [|contradiction Hrun; reflexivity].
    rewrite IH by (assumption || lia). reflexivity.
Qed.

(* ---------------------------------------------------------------- *)
(* non-vacuity: a file with a definition (dotted paths, every kind of list,
   docstrings on the definition and on a term), a docstring-only addendum, a
   lexical rule in an instance environment and a letter set *)

Definition w (l : list N) : str := l.
Definition ex_term : tterm :=
  MAvm None [ ([[83;89;78]; [76;79;67]]%N, [MId None [120]%N; MCoref (Some [100]%N) [49]%N]);
              ([[65;82;71;83]]%N, [MCons None [[MId None [97]%N]; [MStr None [98]%N; MRegex None [99]%N]] CClosed (Some [MCoref None [49]%N])]);
              ([[67]]%N, [MCons None [[MId None [97]%N]] COpen None; MCons None [] COpen None; MCons None [] CClosed None]);
              ([[68]]%N, [MDiff None [[MId None [97]%N]; [MAvm None []]]; MDiff None []]) ].

Definition ex_events : list tevent :=
  [ VLineC [32;99]%N;
    VDef [116]%N [MId None [115]%N; ex_term] (Some [100;111;99]%N);
    VAdd [116]%N [] (Some [100]%N);
    VBegin ENV_INSTANCE (Some [114]%N);
    VLex [114]%N [115;117;102;102;105;120]%N [([33;115]%N, [33;115;115]%N)] [MId None [108]%N; MAvm None []] None;
    VMorph true 99%N [97;41;32;98]%N;
    VEnd ENV_INSTANCE;
    VInclude [120]%N ].

Example ex_term_wf : wf_term ex_term.
Proof.
  unfold ex_term.
  repeat first
    [ apply W_Id | apply W_Str | apply W_Regex | apply W_Coref | apply W_Avm | apply W_Cons | apply W_ConsDot
    | apply W_Diff | apply Forall_nil | apply Forall_cons | split | discriminate | reflexivity
    | (intro; discriminate) ].
Qed.

Example ex_events_wf : Forall wf_event ex_events /\ env_run ex_events [] = Some [].
Proof.
  split; [|reflexivity].
  repeat (apply Forall_cons; [|]); try apply Forall_nil; cbn [wf_event]; try exact I.
  - split; [discriminate|]. split; [|reflexivity].
    repeat (apply Forall_cons; [|]); try apply Forall_nil; [apply W_Id | exact ex_term_wf].
  - split; [apply Forall_nil | intros _; discriminate].
  - right. split; [reflexivity | eexists; reflexivity].
  - split.
    + apply Forall_cons; [|apply Forall_nil]. split; [discriminate|]. split.
      * repeat (apply Forall_cons; [reflexivity|]). apply Forall_nil.
      * eexists; eexists; split; reflexivity.
    + split; [discriminate|]. repeat (apply Forall_cons; [|]); try apply Forall_nil; [apply W_Id | apply W_Avm; apply Forall_nil].
  - split; [discriminate|]. split; [discriminate|].
    repeat (apply Forall_cons; [first [left; reflexivity | right; reflexivity]|]). apply Forall_nil.
Qed.

Example ex_events_roundtrip :
  p_events (eneed ex_events) (flat_map fmt_event ex_events) [] = Some ex_events /\
  length (flat_map fmt_event ex_events) = 77.
Proof. split; vm_compute; reflexivity. Qed.

Lemma ex_all :
  wf_term ex_term /\ (Forall wf_event ex_events /\ env_run ex_events [] = Some []) /\
  (p_events (eneed ex_events) (flat_map fmt_event ex_events) [] = Some ex_events /\
   length (flat_map fmt_event ex_events) = 77).
Proof. split; [exact ex_term_wf|]. split; [exact ex_events_wf | exact ex_events_roundtrip]. Qed.

(* ---------------------------------------------------------------- *)
(* fuel adequacy: twice the number of tokens is always enough *)

Lemma sep_by_length_ge {A} (sep : list A) (l : list (list A)) :
  fold_right (fun x a => length x + a) 0 l + length sep * (length l - 1) = length (sep_by sep l).
Proof.
  induction l as [|x [|y l] IH]; [cbn; lia | cbn; lia |].
  rewrite sep_by_more. rewrite !app_length. rewrite <- IH. cbn [fold_right length]. lia.
Qed.

Definition Pn (t : tterm) : Prop := wf_term t -> need t + 1 <= 2 * length (fmt_term t).

Lemma cneed_bound c : Forall Pn c -> Forall wf_term c -> cneed c <= 2 * length (fmt_conj c).
Proof.
  induction c as [|t c IH]; intros HP HW; [cbn; lia|].
  inversion HP as [|? ? Ht HP']; subst. inversion HW as [|? ? Wt HW']; subst.
  specialize (Ht Wt). specialize (IH HP' HW'). cbn [cneed].
  destruct c as [|t2 c'].
  - unfold fmt_conj. cbn [map sep_by cneed]. lia.
  - unfold fmt_conj in *. cbn [map]. rewrite sep_by_more. rewrite !app_length. cbn [map] in IH. cbn [length]. lia.
Qed.

Lemma vneed_bound vs : Forall (Forall Pn) vs -> Forall val_ok vs -> vneed vs <= 2 * length (vtoks vs) + 1.
Proof.
  induction vs as [|v vs IH]; intros HP HW; [cbn; lia|].
  inversion HP as [|? ? Hv HP']; subst. inversion HW as [|? ? [_ Wv] HW']; subst.
  pose proof (cneed_bound v Hv Wv) as Bv. specialize (IH HP' HW'). cbn [vneed].
  destruct vs as [|v2 vs'].
  - unfold vtoks. cbn [map sep_by vneed]. lia.
  - unfold vtoks in *. cbn [map]. rewrite sep_by_more. rewrite !app_length. cbn [map] in IH. cbn [length]. lia.
Qed.

Lemma fneed_bound feats : Forall (fun pc => Forall Pn (snd pc)) feats -> Forall feat_ok feats ->
  fneed feats <= 2 * length (sep_by [KComma] (map ftoks feats)).
Proof.
  induction feats as [|[p c] feats IH]; intros HP HW; [cbn; lia|].
  inversion HP as [|? ? Hc HP']; subst. inversion HW as [|? ? [[Hp _] [_ Wc]] HW']; subst. cbn [fst snd] in *.
  pose proof (cneed_bound c Hc Wc) as Bc. specialize (IH HP' HW'). cbn [fneed snd].
  assert (Hpl : 1 <= length (path_toks p)).
  { destruct p as [|a p']; [contradiction Hp; reflexivity|]. rewrite path_toks_shape. cbn [length]. lia. }
  assert (Hft : length (ftoks (p, c)) = length (path_toks p) + length (fmt_conj c)).
  { unfold ftoks. cbn [fst snd]. apply app_length. }
  destruct feats as [|pc2 feats'].
  - cbn [map sep_by fneed]. rewrite Hft. lia.
  - cbn [map]. rewrite sep_by_more. rewrite !app_length. cbn [map] in IH. rewrite Hft. cbn [length]. lia.
Qed.

Theorem need_bound : forall t, Pn t.
Proof.
  apply tterm_ind2; unfold Pn.
  - intros d s _. destruct d; cbn; lia.
  - intros d s _. destruct d; cbn; lia.
  - intros d s _. destruct d; cbn; lia.
  - intros d s _. destruct d; cbn; lia.
  - intros d feats HF W. inversion W as [| | | |? ? Hfe| | |]; subst. rewrite need_avm.
    pose proof (fneed_bound feats HF Hfe) as B.
    cbn [fmt_term]. rewrite app_length. cbn [length]. rewrite app_length. cbn [length].
    change (sep_by [KComma] (map (fun pc : list str * list tterm => path_toks (fst pc) ++ sep_by [KAmp] (map fmt_term (snd pc))) feats))
      with (sep_by [KComma] (map ftoks feats)). lia.
  - intros d vs e dt HV HD W. rewrite need_cons.
    assert (Hvals : Forall val_ok vs) by (inversion W; subst; assumption).
    pose proof (vneed_bound vs HV Hvals) as B.
    assert (Bd : match dt with Some c => S (cneed c) <= 2 * length (fmt_conj c) + 1 | None => True end).
    { destruct dt as [c|]; [|exact I]. inversion W; subst. pose proof (cneed_bound c HD ltac:(assumption)). lia. }
    cbn [fmt_term]. rewrite app_length. cbn [length]. rewrite app_length. cbn [length].
    change (sep_by [KComma] (map (fun c : list tterm => sep_by [KAmp] (map fmt_term c)) vs)) with (vtoks vs).
    destruct e; [destruct dt as [c|]|].
    + rewrite app_length. cbn [length]. change (sep_by [KAmp] (map fmt_term c)) with (fmt_conj c). lia.
    + lia.
    + destruct vs as [|v vs']; [cbn; destruct dt; [inversion W|]; cbn; lia|].
      rewrite app_length. cbn [length]. inversion W; subst. lia.
  - intros d vs HV W. rewrite need_diff.
    assert (Hvals : Forall val_ok vs) by (inversion W; subst; assumption).
    pose proof (vneed_bound vs HV Hvals) as B.
    cbn [fmt_term]. rewrite app_length. cbn [length]. rewrite app_length. cbn [length].
    change (sep_by [KComma] (map (fun c : list tterm => sep_by [KAmp] (map fmt_term c)) vs)) with (vtoks vs). lia.
Qed.

Lemma cneed_bound_wf c : Forall wf_term c -> cneed c <= 2 * length (fmt_conj c).
Proof. intros H. apply cneed_bound; [|exact H]. apply Forall_forall. intros t _. apply need_bound. Qed.

Lemma event_need_bound e : wf_event e -> S (cneed (ev_conj e)) <= 2 * length (fmt_event e).
Proof.
  destruct e as [i c d|i c d|i a ps c d|l v cs|t st|t|s|s|s]; cbn [wf_event ev_conj fmt_event]; intros W;
    try (cbn; lia).
  - destruct W as [_ [Hw _]]. pose proof (cneed_bound_wf c Hw). rewrite !app_length. cbn [length]. lia.
  - destruct W as [Hw _]. pose proof (cneed_bound_wf c Hw). rewrite !app_length. cbn [length]. lia.
  - destruct W as [_ [_ Hw]]. pose proof (cneed_bound_wf c Hw). rewrite !app_length. cbn [length]. lia.
Qed.

Lemma eneed_bound evs : Forall wf_event evs -> eneed evs <= 2 * length (flat_map fmt_event evs) + 1.
Proof.
  induction evs as [|e evs IH]; intros H; [cbn; lia|].
  inversion H as [|? ? We H']; subst. specialize (IH H'). pose proof (event_need_bound e We).
  cbn [eneed flat_map]. rewrite app_length. lia.
Qed.

(* the fuel the correspondence check uses is always adequate *)
Theorem events_ok_tokens evs envs : Forall wf_event evs -> env_run evs envs <> None ->
  p_events (2 * length (flat_map fmt_event evs) + 2) (flat_map fmt_event evs) envs = Some evs.
Proof.
  intros HW Hrun. apply events_ok; [exact HW | exact Hrun |]. pose proof (eneed_bound evs HW). lia.
Qed.
