(* Proofs about the syntax-level TDL model (C15). *)
From Coq Require Import List NArith ZArith Bool Arith Lia.
From PyD Require Import Base.Str Model.Hier Model.Mrs Model.Iso Model.SimpleMrs Model.Tdl.
Import ListNotations.
Open Scope nat_scope.

(* ---------------------------------------------------------------- *)
(* induction over terms with their nested lists *)

Section TtermInd.
  Variable P : tterm -> Prop.
  Hypothesis HId : forall d s, P (MId d s).
  Hypothesis HStr : forall d s, P (MStr d s).
  Hypothesis HRegex : forall d s, P (MRegex d s).
  Hypothesis HCoref : forall d s, P (MCoref d s).
  Hypothesis HAvm : forall d feats, Forall (fun pc => Forall P (snd pc)) feats -> P (MAvm d feats).
  Hypothesis HCons : forall d vs e dt, Forall (Forall P) vs ->
    (match dt with Some c => Forall P c | None => True end) -> P (MCons d vs e dt).
  Hypothesis HDiff : forall d vs, Forall (Forall P) vs -> P (MDiff d vs).

  Fixpoint tterm_ind2 (t : tterm) : P t :=
    let conj_all := fix ca (c : list tterm) : Forall P c :=
                      match c with [] => Forall_nil _ | t :: c' => Forall_cons _ (tterm_ind2 t) (ca c') end in
    let vals_all := fix va (vs : list (list tterm)) : Forall (Forall P) vs :=
                      match vs with [] => Forall_nil _ | c :: vs' => Forall_cons _ (conj_all c) (va vs') end in
    match t with
    | MId d s => HId d s
    | MStr d s => HStr d s
    | MRegex d s => HRegex d s
    | MCoref d s => HCoref d s
    | MAvm d feats =>
        HAvm d feats ((fix fa (fs : list (list str * list tterm)) : Forall (fun pc => Forall P (snd pc)) fs :=
                         match fs with
                         | [] => Forall_nil _
                         | pc :: fs' => Forall_cons _ (conj_all (snd pc)) (fa fs')
                         end) feats)
    | MCons d vs e dt =>
        HCons d vs e dt (vals_all vs) (match dt with Some c => conj_all c | None => I end)
    | MDiff d vs => HDiff d vs (vals_all vs)
    end.
End TtermInd.

(* ---------------------------------------------------------------- *)
(* well-formed terms: what the formatter can be asked to print *)

Definition upper_path (p : list str) : Prop := p <> [] /\ Forall (fun a => ascii_upper a = a) p.

Inductive wf_term : tterm -> Prop :=
| W_Id d s : wf_term (MId d s)
| W_Str d s : wf_term (MStr d s)
| W_Regex d s : wf_term (MRegex d s)
| W_Coref d s : wf_term (MCoref d s)
| W_Avm d feats :
    Forall (fun pc => upper_path (fst pc) /\ snd pc <> [] /\ Forall wf_term (snd pc)) feats -> wf_term (MAvm d feats)
| W_Cons d vs e :
    Forall (fun c => c <> [] /\ Forall wf_term c) vs -> wf_term (MCons d vs e None)
| W_ConsDot d vs c :
    Forall (fun c => c <> [] /\ Forall wf_term c) vs -> vs <> [] -> c <> [] -> Forall wf_term c ->
    wf_term (MCons d vs CClosed (Some c))
| W_Diff d vs : Forall (fun c => c <> [] /\ Forall wf_term c) vs -> wf_term (MDiff d vs).

Definition wf_conj (c : conj) : Prop := c <> [] /\ Forall wf_term c.

(* ---------------------------------------------------------------- *)
(* fuel: a structural bound on the depth of the parser's calls *)

Fixpoint need (t : tterm) : nat :=
  let cneed := fix cn (c : list tterm) : nat := match c with [] => 0 | t :: c' => S (need t + cn c') end in
  let vneed := fix vn (vs : list (list tterm)) : nat := match vs with [] => 0 | c :: vs' => S (cneed c + vn vs') end in
  match t with
  | MAvm _ feats =>
      S ((fix fn (fs : list (list str * list tterm)) : nat :=
            match fs with [] => 0 | pc :: fs' => S (cneed (snd pc) + fn fs') end) feats)
  | MCons _ vs _ dt => S (S (vneed vs + match dt with Some e => S (cneed e) | None => 0 end))
  | MDiff _ vs => S (S (vneed vs))
  | _ => 1
  end.

Fixpoint cneed (c : list tterm) : nat := match c with [] => 0 | t :: c' => S (need t + cneed c') end.
Fixpoint vneed (vs : list (list tterm)) : nat := match vs with [] => 0 | c :: vs' => S (cneed c + vneed vs') end.
Fixpoint fneed (fs : list (list str * list tterm)) : nat :=
  match fs with [] => 0 | pc :: fs' => S (cneed (snd pc) + fneed fs') end.

Lemma cneed_fix c : (fix cn (c : list tterm) : nat := match c with [] => 0 | t :: c' => S (need t + cn c') end) c = cneed c.
Proof. reflexivity. Qed.

Lemma need_avm d feats : need (MAvm d feats) = S (fneed feats).
Proof.
  reflexivity.
Qed.

Lemma vneed_fix vs :
  (fix vn (vs : list (list tterm)) : nat :=
     match vs with
     | [] => 0
     | c :: vs' => S ((fix cn (c : list tterm) : nat := match c with [] => 0 | t :: c' => S (need t + cn c') end) c + vn vs')
     end) vs = vneed vs.
Proof. reflexivity. Qed.

Lemma need_cons d vs e dt : need (MCons d vs e dt) = S (S (vneed vs + match dt with Some c => S (cneed c) | None => 0 end)).
Proof. destruct dt; reflexivity. Qed.

Lemma need_diff d vs : need (MDiff d vs) = S (S (vneed vs)).
Proof. reflexivity. Qed.
