(* C06: the graphs the VF2 search runs on are the isographs closed under inverse
   edges (inv_map).  This file characterises that closure by look-ups and shows that
   the data of a closed edge determine both directed edges it was made from. *)
From Coq Require Import List NArith Bool Arith Lia.
From PyD Require Import Base.Str Model.Hier Model.Mrs Model.Iso Proofs.HierP Proofs.IsoP Proofs.IsoComplete.
Import ListNotations.

Definition lk (g : igraph) (a : str) (k : key) : option str := ed_get k (g_get g a).

(* ---------------------------------------------------------------- get/set laws *)

Lemma key_eqb_refl k : key_eqb k k = true.
Proof. apply key_eqb_eq. reflexivity. Qed.

Lemma key_eqb_neq a b : a <> b -> key_eqb a b = false.
Proof. intros H. destruct (key_eqb a b) eqn:E; [|reflexivity]. apply key_eqb_eq in E. contradiction. Qed.

Lemma ed_get_set_same k v d : ed_get k (ed_set k v d) = Some v.
Proof.
  induction d as [|[k' v'] d IH]; cbn [ed_set ed_get]; [rewrite key_eqb_refl; reflexivity|].
  destruct (key_eqb k' k) eqn:E; cbn [ed_get]; rewrite E; [reflexivity | exact IH].
Qed.

Lemma ed_get_set_other k k' v d : k <> k' -> ed_get k' (ed_set k v d) = ed_get k' d.
Proof.
  intros H. induction d as [|[k0 v0] d IH]; cbn [ed_set ed_get].
  - rewrite key_eqb_neq by exact H. reflexivity.
  - destruct (key_eqb k0 k) eqn:E; cbn [ed_get].
    + apply key_eqb_eq in E. subst k0. rewrite key_eqb_neq by exact H. reflexivity.
    + destruct (key_eqb k0 k'); [reflexivity | exact IH].
Qed.

Lemma dget_set_same {A} k (v : A) d : dict_get k (dict_set k v d) = Some v.
Proof.
  induction d as [|[k' v'] d IH]; cbn [dict_set dict_get]; [rewrite str_eqb_refl; reflexivity|].
  destruct (str_eqb k' k) eqn:E; cbn [dict_get]; rewrite E; [reflexivity | exact IH].
Qed.

Lemma str_eqb_neq a b : a <> b -> str_eqb a b = false.
Proof. intros H. destruct (str_eqb a b) eqn:E; [|reflexivity]. apply str_eqb_spec in E. contradiction. Qed.

Lemma dget_set_other {A} k k' (v : A) d : k <> k' -> dict_get k' (dict_set k v d) = dict_get k' d.
Proof.
  intros H. induction d as [|[k0 v0] d IH]; cbn [dict_set dict_get].
  - rewrite str_eqb_neq by exact H. reflexivity.
  - destruct (str_eqb k0 k) eqn:E; cbn [dict_get].
    + apply str_eqb_spec in E. subst k0. rewrite str_eqb_neq by exact H. reflexivity.
    + destruct (str_eqb k0 k'); [reflexivity | exact IH].
Qed.

Lemma g_get_upd_same g n f : g_get (g_upd g n f) n = f (g_get g n).
Proof. unfold g_upd, g_get at 1. rewrite dget_set_same. reflexivity. Qed.

Lemma g_get_upd_other g n a f : n <> a -> g_get (g_upd g n f) a = g_get g a.
Proof. intros H. unfold g_upd, g_get at 1 3. rewrite dget_set_other by exact H. reflexivity. Qed.

(* ---------------------------------------------------------------- the merge of one inverse edge *)

Definition mg (o : option str) (x : str) : str :=
  match o with Some old => old ++ [32%N] ++ x | None => x end.

Definition step (d : edict) (sd : key * str) : edict :=
  match ed_get (fst sd) d with
  | Some old => ed_set (fst sd) (old ++ [32%N] ++ snd sd) d
  | None => ed_set (fst sd) (snd sd) d
  end.

Lemma ed_get_step_same d k x : ed_get k (step d (k, x)) = Some (mg (ed_get k d) x).
Proof. unfold step. cbn [fst snd]. destruct (ed_get k d); rewrite ed_get_set_same; reflexivity. Qed.

Lemma ed_get_step_other d k k' x : k <> k' -> ed_get k' (step d (k, x)) = ed_get k' d.
Proof. intros H. unfold step. cbn [fst snd]. destruct (ed_get k d); apply ed_get_set_other; exact H. Qed.

Lemma ed_get_notin k (d : edict) : ~ In k (map fst d) -> ed_get k d = None.
Proof.
  induction d as [|[k' v] d IH]; intros H; [reflexivity|]. cbn [ed_get].
  rewrite key_eqb_neq; [apply IH; intros X; apply H; right; exact X|].
  intros E. apply H. left. exact E.
Qed.

Lemma fold_step_get l : NoDup (map fst l) -> forall d k,
  ed_get k (fold_left step l d) =
  match ed_get k l with Some x => Some (mg (ed_get k d) x) | None => ed_get k d end.
Proof.
  induction l as [|[k1 x1] l IH]; intros Hnd d k; [reflexivity|].
  cbn [map fst] in Hnd. inversion Hnd as [|? ? Hn Hnd']; subst. cbn [fold_left ed_get].
  rewrite (IH Hnd'). destruct (key_eqb k1 k) eqn:E.
  - apply key_eqb_eq in E. subst k1. rewrite (ed_get_notin k l Hn). apply ed_get_step_same.
  - assert (k1 <> k) by (intros X; subst; rewrite key_eqb_refl in E; discriminate).
    rewrite ed_get_step_other by assumption. reflexivity.
Qed.

(* the inner loop of inv_map on one node *)
Definition inner (g : igraph) (t : str) (l : edict) : igraph :=
  fold_left (fun g sd => g_upd g t (fun d => match ed_get (fst sd) d with
                                             | Some old => ed_set (fst sd) (old ++ [32%N] ++ snd sd) d
                                             | None => ed_set (fst sd) (snd sd) d end)) l g.

Lemma inner_same l : forall g t, g_get (inner g t l) t = fold_left step l (g_get g t).
Proof.
  induction l as [|sd l IH]; intros g t; [reflexivity|]. unfold inner in *. cbn [fold_left].
  rewrite IH. rewrite g_get_upd_same. reflexivity.
Qed.

Lemma inner_other l : forall g t a, t <> a -> g_get (inner g t l) a = g_get g a.
Proof.
  induction l as [|sd l IH]; intros g t a H; [reflexivity|]. unfold inner in *. cbn [fold_left].
  rewrite IH by exact H. apply g_get_upd_other. exact H.
Qed.

Lemma inv_map_inner g : inv_map g = fold_left (fun g kd => inner g (fst kd) (snd kd)) (inv_dict g) g.
Proof. reflexivity. Qed.

Lemma dict_get_notin' {A} k (d : list (str * A)) : ~ In k (map fst d) -> dict_get k d = None.
Proof.
  induction d as [|[k' v] d IH]; intros H; [reflexivity|]. cbn [dict_get].
  rewrite str_eqb_neq; [apply IH; intros X; apply H; right; exact X|].
  intros E. apply H. left. exact E.
Qed.

Lemma outer_get (D : list (str * edict)) : NoDup (map fst D) -> Forall (fun kd => NoDup (map fst (snd kd))) D ->
  forall g a k,
  lk (fold_left (fun g kd => inner g (fst kd) (snd kd)) D g) a k =
  match dict_get a D with
  | Some l => match ed_get k l with Some x => Some (mg (lk g a k) x) | None => lk g a k end
  | None => lk g a k
  end.
Proof.
  induction D as [|[t l] D IH]; intros Hnd Hin g a k; [reflexivity|].
  cbn [map fst] in Hnd. inversion Hnd as [|? ? Hn Hnd']; subst.
  inversion Hin as [|? ? Hl Hin']; subst. cbn [snd] in Hl.
  cbn [fold_left fst snd dict_get]. rewrite (IH Hnd' Hin').
  destruct (str_eqb t a) eqn:E.
  - apply str_eqb_spec in E. subst t. rewrite (dict_get_notin' a D Hn).
    unfold lk. rewrite inner_same. apply fold_step_get. exact Hl.
  - assert (t <> a) by (intros X; subst; rewrite str_eqb_refl in E; discriminate).
    unfold lk. rewrite inner_other by assumption. reflexivity.
Qed.

(* ---------------------------------------------------------------- inv_dict *)

Definition setter (acc : list (str * edict)) (t : str * str * str) : list (str * edict) :=
  let '(tgt, src, data) := t in
  dict_set tgt (ed_set (Some src) data (match dict_get tgt acc with Some d => d | None => [] end)) acc.

Lemma inv_dict_setter g : inv_dict g = fold_left setter (inv_edges g) [].
Proof. reflexivity. Qed.

Definition lk2 (acc : list (str * edict)) (t : str) (k : key) : option str :=
  match dict_get t acc with Some l => ed_get k l | None => None end.

Lemma lk2_setter_same acc t s x : lk2 (setter acc (t, s, x)) t (Some s) = Some x.
Proof. unfold lk2, setter. rewrite dget_set_same. apply ed_get_set_same. Qed.

Lemma lk2_setter_other acc t s x t' k' : (t, Some s) <> (t', k') ->
  lk2 (setter acc (t, s, x)) t' k' = lk2 acc t' k'.
Proof.
  intros H. unfold lk2, setter. destruct (str_eqb t t') eqn:E.
  - apply str_eqb_spec in E. subst t'. rewrite dget_set_same.
    rewrite ed_get_set_other by (intros X; apply H; rewrite X; reflexivity).
    destruct (dict_get t acc); reflexivity.
  - assert (t <> t') by (intros X; subst; rewrite str_eqb_refl in E; discriminate).
    rewrite dget_set_other by assumption. reflexivity.
Qed.

Lemma fold_setter_none E : forall acc t k, (forall s x, k = Some s -> ~ In (t, s, x) E) ->
  lk2 (fold_left setter E acc) t k = lk2 acc t k.
Proof.
  induction E as [|[[t0 s0] x0] E IH]; intros acc t k H; [reflexivity|]. cbn [fold_left].
  rewrite IH by (intros s x Hk Hin; apply (H s x Hk); right; exact Hin).
  apply lk2_setter_other. intros X. inversion X; subst. apply (H s0 x0 eq_refl). left. reflexivity.
Qed.

Lemma fold_setter_some E : forall acc t s x, (forall x', In (t, s, x') E -> x' = x) ->
  (lk2 acc t (Some s) = Some x \/ In (t, s, x) E) ->
  lk2 (fold_left setter E acc) t (Some s) = Some x.
Proof.
  induction E as [|[[t0 s0] x0] E IH]; intros acc t s x Hf H; cbn [fold_left].
  - destruct H as [H|[]]. exact H.
  - apply IH; [intros x' Hin; apply Hf; right; exact Hin|].
    destruct (str_eqb t0 t && str_eqb s0 s)%bool eqn:Ets.
    + apply andb_prop in Ets. destruct Ets as [E1 E2]. apply str_eqb_spec in E1, E2. subst t0 s0.
      left. rewrite lk2_setter_same. f_equal. apply Hf. left. reflexivity.
    + assert (Hne : (t0, Some s0) <> (t, Some s)).
      { intros X. inversion X; subst. rewrite !str_eqb_refl in Ets. discriminate. }
      destruct H as [H|[H|H]].
      * left. rewrite lk2_setter_other by exact Hne. exact H.
      * inversion H; subst. exfalso. apply Hne. reflexivity.
      * right. exact H.
Qed.

(* keys: every inner key is Some, keys stay unique, outer keys come from the edges *)
Lemma ed_set_keys k v d : NoDup (map fst d) -> NoDup (map fst (ed_set k v d)) /\
  (forall k', In k' (map fst (ed_set k v d)) -> k' = k \/ In k' (map fst d)).
Proof.
  induction d as [|[k0 v0] d IH]; intros Hnd; cbn [ed_set].
  - split; [constructor; [intros [] | constructor] | intros k' [E|[]]; left; symmetry; exact E].
  - cbn [map fst] in Hnd. inversion Hnd as [|? ? Hn Hnd']; subst.
    destruct (key_eqb k0 k) eqn:E.
    + cbn [map fst]. split; [constructor; assumption | intros k' H; right; exact H].
    + destruct (IH Hnd') as [A B]. cbn [map fst]. split.
      * constructor; [|exact A]. intros X. destruct (B _ X) as [X1|X1]; [|contradiction].
        subst. rewrite key_eqb_refl in E. discriminate.
      * intros k' [X|X]; [right; left; exact X|]. destruct (B _ X); [left | right; right]; assumption.
Qed.

Lemma dict_set_keys {A} k (v : A) d : NoDup (map fst d) -> NoDup (map fst (dict_set k v d)) /\
  (forall k', In k' (map fst (dict_set k v d)) -> k' = k \/ In k' (map fst d)).
Proof.
  induction d as [|[k0 v0] d IH]; intros Hnd; cbn [dict_set].
  - split; [constructor; [intros [] | constructor] | intros k' [E|[]]; left; symmetry; exact E].
  - cbn [map fst] in Hnd. inversion Hnd as [|? ? Hn Hnd']; subst.
    destruct (str_eqb k0 k) eqn:E.
    + cbn [map fst]. split; [constructor; assumption | intros k' H; right; exact H].
    + destruct (IH Hnd') as [HA HB]. cbn [map fst]. split.
      * constructor; [|exact HA]. intros X. destruct (HB _ X) as [X1|X1]; [|contradiction].
        subst. rewrite str_eqb_refl in E. discriminate.
      * intros k' [X|X]; [right; left; exact X|]. destruct (HB _ X); [left | right; right]; assumption.
Qed.

Lemma dict_get_of_In {A} k (v : A) d : NoDup (map fst d) -> In (k, v) d -> dict_get k d = Some v.
Proof.
  induction d as [|[k0 v0] d IH]; intros Hnd Hin; [destruct Hin|].
  cbn [map fst] in Hnd. inversion Hnd as [|? ? Hn Hnd']; subst. cbn [dict_get].
  destruct Hin as [E|Hin].
  - inversion E; subst. rewrite str_eqb_refl. reflexivity.
  - destruct (str_eqb k0 k) eqn:E; [|apply IH; assumption].
    apply str_eqb_spec in E. subst k0. exfalso. apply Hn. apply in_map_iff. exists (k, v). auto.
Qed.

(* the invariant of the accumulator of inv_dict *)
Definition acc_ok (nodes : list str) (acc : list (str * edict)) : Prop :=
  NoDup (map fst acc) /\ incl (map fst acc) nodes /\
  (forall t l, dict_get t acc = Some l -> NoDup (map fst l) /\ ~ In None (map fst l)).

Lemma setter_ok nodes acc t s x : acc_ok nodes acc -> In t nodes -> acc_ok nodes (setter acc (t, s, x)).
Proof.
  intros (N & I & L) Ht. unfold setter.
  set (old := match dict_get t acc with Some d => d | None => [] end).
  assert (Hold : NoDup (map fst old) /\ ~ In None (map fst old)).
  { unfold old. destruct (dict_get t acc) as [d|] eqn:E; [exact (L t d E)|]. split; [constructor | intros []]. }
  destruct (dict_set_keys t (ed_set (Some s) x old) acc N) as [A B].
  split; [exact A|]. split.
  - intros k Hk. destruct (B k Hk) as [->|Hk']; [exact Ht | apply I; exact Hk'].
  - intros t' l Hl. destruct (str_eqb t t') eqn:E.
    + apply str_eqb_spec in E. subst t'. rewrite dget_set_same in Hl. inversion Hl; subst l.
      destruct (ed_set_keys (Some s) x old (proj1 Hold)) as [A2 B2]. split; [exact A2|].
      intros X. destruct (B2 _ X) as [X1|X1]; [discriminate | exact (proj2 Hold X1)].
    + assert (t <> t') by (intros X; subst; rewrite str_eqb_refl in E; discriminate).
      rewrite dget_set_other in Hl by assumption. exact (L t' l Hl).
Qed.

Lemma fold_setter_ok nodes E : forall acc, acc_ok nodes acc -> (forall t s x, In (t, s, x) E -> In t nodes) ->
  acc_ok nodes (fold_left setter E acc).
Proof.
  induction E as [|[[t s] x] E IH]; intros acc H HE; [exact H|]. cbn [fold_left].
  apply IH; [apply setter_ok; [exact H | apply (HE t s x); left; reflexivity]|].
  intros t' s' x' Hin. apply (HE t' s' x'). right. exact Hin.
Qed.

(* ---------------------------------------------------------------- inv_edges *)

Lemma inv_edges_In g t s x : In (t, s, x) (inv_edges g) <->
  exists ed data, In (s, ed) g /\ In (Some t, data) ed /\ str_eqb s t = false /\ x = DASHES ++ data.
Proof.
  unfold inv_edges. rewrite in_flat_map. split.
  - intros ([s0 ed] & Hnd & H). cbn [fst snd] in H. apply in_flat_map in H.
    destruct H as ([[t0|] data] & Hkd & H); cbn [fst snd] in H; [|destruct H].
    destruct (str_eqb s0 t0) eqn:E; [destruct H|]. destruct H as [H|[]]. inversion H; subst.
    exists ed, data. auto.
  - intros (ed & data & Hnd & Hkd & E & ->). exists (s, ed). split; [exact Hnd|]. cbn [fst snd].
    apply in_flat_map. exists (Some t, data). split; [exact Hkd|]. cbn [fst snd]. rewrite E. left. reflexivity.
Qed.

Lemma inv_edges_lk g t s x : wf_graph g ->
  (In (t, s, x) (inv_edges g) <-> exists data, lk g s (Some t) = Some data /\ s <> t /\ x = DASHES ++ data).
Proof.
  intros (N & K & _). rewrite inv_edges_In. split.
  - intros (ed & data & Hnd & Hkd & E & ->). exists data.
    assert (G : g_get g s = ed) by (unfold g_get; rewrite (dict_get_of_In s ed g N Hnd); reflexivity).
    split; [|split; [|reflexivity]].
    + unfold lk. rewrite G. apply ed_get_nodup; [rewrite <- G; apply K | exact Hkd].
    + intros X. subst. rewrite str_eqb_refl in E. discriminate.
  - intros (data & L & Hne & ->). unfold lk in L. pose proof (ed_get_In _ _ _ L) as Hin.
    unfold g_get in *. destruct (dict_get s g) as [ed|] eqn:E; [|destruct Hin].
    exists ed, data. split; [apply dict_get_In'; exact E|]. split; [exact Hin|]. split; [|reflexivity].
    apply str_eqb_neq. exact Hne.
Qed.

(* ---------------------------------------------------------------- the closure by look-ups *)

Lemma inv_dict_ok g : wf_graph g -> acc_ok (map fst g) (inv_dict g).
Proof.
  intros W. rewrite inv_dict_setter. apply fold_setter_ok.
  - split; [constructor|]. split; [intros x []|]. intros t l H. discriminate.
  - intros t s x Hin. apply (inv_edges_lk g t s x W) in Hin. destruct Hin as (data & L & _ & _).
    destruct W as (_ & _ & T). apply (T s t data). apply ed_get_In. exact L.
Qed.

Lemma inv_map_lk2 g a k : wf_graph g ->
  lk (inv_map g) a k =
  match lk2 (inv_dict g) a k with Some x => Some (mg (lk g a k) x) | None => lk g a k end.
Proof.
  intros W. destruct (inv_dict_ok g W) as (N & _ & L).
  rewrite inv_map_inner. rewrite (outer_get (inv_dict g) N).
  - unfold lk2. destruct (dict_get a (inv_dict g)) as [l|]; reflexivity.
  -
    apply Forall_forall. intros [t l] Hin. cbn [snd]. apply (L t l). apply dict_get_of_In; assumption.
Qed.

Theorem inv_map_lbl g a : wf_graph g -> lk (inv_map g) a None = lk g a None.
Proof.
  intros W. rewrite inv_map_lk2 by exact W. destruct (inv_dict_ok g W) as (_ & _ & L).
  unfold lk2. destruct (dict_get a (inv_dict g)) as [l|] eqn:E; [|reflexivity].
  rewrite ed_get_notin; [reflexivity | apply (L a l E)].
Qed.

Theorem inv_map_lk g a b : wf_graph g ->
  lk (inv_map g) a (Some b) =
  match (if str_eqb b a then None else lk g b (Some a)) with
  | Some data => Some (mg (lk g a (Some b)) (DASHES ++ data))
  | None => lk g a (Some b)
  end.
Proof.
  intros W. rewrite inv_map_lk2 by exact W. rewrite inv_dict_setter.
  destruct (str_eqb b a) eqn:E.
  - apply str_eqb_spec in E. subst b.
    rewrite fold_setter_none; [reflexivity|]. intros s x Hs Hin. inversion Hs; subst s.
    apply (inv_edges_lk g a a x W) in Hin. destruct Hin as (_ & _ & Hne & _). apply Hne. reflexivity.
  - assert (Hne : b <> a) by (intros X; subst; rewrite str_eqb_refl in E; discriminate).
    destruct (lk g b (Some a)) as [data|] eqn:Lb.
    + rewrite (fold_setter_some (inv_edges g) [] a b (DASHES ++ data)); [reflexivity| |].
      * intros x' Hin. apply (inv_edges_lk g a b x' W) in Hin. destruct Hin as (d' & L' & _ & ->). congruence.
      * right. apply (inv_edges_lk g a b _ W). exists data. auto.
    + rewrite fold_setter_none; [reflexivity|]. intros s x Hs Hin. inversion Hs; subst s.
      apply (inv_edges_lk g a b x W) in Hin. destruct Hin as (d' & L' & _ & _). congruence.
Qed.

(* ---------------------------------------------------------------- decoding a closed edge *)

Definition SEP : str := [32; 45; 45]%N.

(* edge data of an isograph: never starting with two dashes, never containing blank-dash-dash *)
Definition nosep (d : str) : Prop := forall p q, d <> p ++ SEP ++ q.
Definition nodd (d : str) : Prop := forall q, d <> DASHES ++ q.
Definition clean (d : str) : Prop := nodd d /\ nosep d.
Definition clean_opt (o : option str) : Prop := match o with Some d => clean d | None => True end.

Lemma nosep_tl c d : nosep (c :: d) -> nosep d.
Proof. intros H p q E. apply (H (c :: p) q). rewrite E. reflexivity. Qed.

Lemma sep_head d e e' : nosep d -> d ++ SEP ++ e = SEP ++ e' -> d = [].
Proof.
  intros H E. destruct d as [|c1 [|c2 [|c3 d]]]; [reflexivity| | |]; unfold SEP in E; cbn [app] in E.
  - inversion E.
  - inversion E.
  - inversion E; subst. exfalso. apply (H [] d). reflexivity.
Qed.

Lemma unique_split d : forall d' e e', nosep d -> nosep d' ->
  d ++ SEP ++ e = d' ++ SEP ++ e' -> d = d' /\ e = e'.
Proof.
  induction d as [|c d IH]; intros d' e e' H H' E.
  - cbn [app] in E. symmetry in E. pose proof (sep_head d' e' e H' E) as X. subst d'.
    cbn [app] in E. split; [reflexivity|]. unfold SEP in E. cbn [app] in E. inversion E. reflexivity.
  - destruct d' as [|c' d'].
    + pose proof (sep_head (c :: d) e e' H E). discriminate.
    + cbn [app] in E. inversion E; subst c'.
      destruct (IH d' e e' (nosep_tl _ _ H) (nosep_tl _ _ H')) as [A B]; [assumption|]. subst. auto.
Qed.

(* the data of the closed edge a -> b from the two directed edges a -> b (x) and b -> a (y) *)
Definition F (x y : option str) : option str :=
  match y with Some e => Some (mg x (DASHES ++ e)) | None => x end.

Lemma mg_some d e : mg (Some d) (DASHES ++ e) = d ++ SEP ++ e.
Proof. reflexivity. Qed.

Lemma F_inj x y x' y' : clean_opt x -> clean_opt x' -> F x y = F x' y' -> x = x' /\ y = y'.
Proof.
  intros C C' E. destruct y as [e|], y' as [e'|]; cbn [F] in E.
  - destruct x as [d|], x' as [d'|]; injection E as E1.
    + change (d ++ SEP ++ e = d' ++ SEP ++ e') in E1.
      destruct (unique_split d d' e e' (proj2 C) (proj2 C') E1). subst. auto.
    + change (d ++ SEP ++ e = DASHES ++ e') in E1. exfalso.
      destruct d as [|c1 [|c2 d]]; unfold SEP, DASHES in E1; cbn [app] in E1; try (inversion E1; fail).
      inversion E1; subst. apply (proj1 C d). reflexivity.
    + change (DASHES ++ e = d' ++ SEP ++ e') in E1. exfalso.
      destruct d' as [|c1 [|c2 d']]; unfold SEP, DASHES in E1; cbn [app] in E1; try (inversion E1; fail).
      inversion E1; subst. apply (proj1 C' d'). reflexivity.
    + try (change (DASHES ++ e = DASHES ++ e') in E1; apply app_inv_head in E1). subst. auto.
  - exfalso. destruct x as [d|]; destruct x' as [d'|]; try discriminate; injection E as E1.
    + change (d ++ SEP ++ e = d') in E1. apply (proj2 C' d e). symmetry. exact E1.
    + change (DASHES ++ e = d') in E1. apply (proj1 C' e). symmetry. exact E1.
  - exfalso. destruct x as [d|]; destruct x' as [d'|]; try discriminate; injection E as E1.
    + change (d = d' ++ SEP ++ e') in E1. apply (proj2 C d' e'). exact E1.
    + change (d = DASHES ++ e') in E1. apply (proj1 C e'). exact E1.
  - subst. auto.
Qed.

(* all edge data of a graph are clean *)
Definition clean_graph (g : igraph) : Prop := forall a b d, lk g a (Some b) = Some d -> clean d.

Lemma inv_map_F g a b : wf_graph g -> a <> b ->
  lk (inv_map g) a (Some b) = F (lk g a (Some b)) (lk g b (Some a)).
Proof.
  intros W H. rewrite inv_map_lk by exact W. rewrite str_eqb_neq by (intros X; apply H; symmetry; exact X).
  destruct (lk g b (Some a)); reflexivity.
Qed.

Lemma inv_map_self g a : wf_graph g -> lk (inv_map g) a (Some a) = lk g a (Some a).
Proof. intros W. rewrite inv_map_lk by exact W. rewrite str_eqb_refl. reflexivity. Qed.
