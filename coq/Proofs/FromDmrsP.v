(* Proofs about Model/FromDmrs.v (C04): the structure of the MRS built from a DMRS. *)
From Coq Require Import List NArith ZArith Bool Arith Lia.
From PyD Require Import Base.Str Base.Dec Model.Hier Model.Mrs Model.Convert Model.FromDmrs
     Proofs.SimpleMrsP Proofs.ConvertP Proofs.ConvertP2.
Import ListNotations.

Definition roles_ok (d : dmrs) : bool :=
  forallb (fun l => negb (str_eqb (link_role l) ARG0) && negb (str_eqb (link_role l) CARG_ROLE)) (d_links d).

Definition all_qeq (hc : list cons3) : Prop := Forall (fun c => snd (fst c) = QEQ) hc.

Lemma str_neq_of_eqb a b : str_eqb a b = false -> a <> b.
Proof. intros E ->. rewrite str_eqb_refl in E. discriminate. Qed.

Lemma roles_ok_in d l : roles_ok d = true -> In l (d_links d) ->
  link_role l <> ARG0 /\ link_role l <> CARG_ROLE.
Proof.
  unfold roles_ok. intros H Hin. rewrite forallb_forall in H. specialize (H l Hin).
  apply andb_true_iff in H. destruct H as [A B]. apply negb_true_iff in A, B.
  split; apply str_neq_of_eqb; assumption.
Qed.

Lemma ARG0_neq_CARG : ARG0 <> CARG_ROLE. Proof. discriminate. Qed.
Lemma BODY_neq_ARG0 : BODY <> ARG0. Proof. discriminate. Qed.
Lemma BODY_neq_CARG : BODY <> CARG_ROLE. Proof. discriminate. Qed.

(* the arguments built for one node *)
Lemma node_args_spec d choice cs ivs n f a hc f' :
  node_args d choice cs ivs n f = Some (a, hc, f') ->
  all_qeq hc /\
  (roles_ok d = true -> dict_get ARG0 a = zget (dn_id n) ivs /\ dict_get CARG_ROLE a = dn_carg n).
Proof.
  unfold node_args. destruct (zget (dn_id n) ivs) as [iv|] eqn:Eiv; [|discriminate].
  match goal with |- context [fold_left ?F1 ?L1 (Some [(ARG0, iv)])] => set (F1' := F1); set (L1' := L1) end.
  set (P := fun a : list (str * str) => roles_ok d = true -> dict_get ARG0 a = Some iv /\ dict_get CARG_ROLE a = None).
  assert (G1 : match fold_left F1' L1' (Some [(ARG0, iv)]) with Some a1 => P a1 | None => True end).
  { apply fold_left_inv.
    - intros _. split; reflexivity.
    - intros [a1|] l Hl Ha; [|exact I]. unfold F1'.
      destruct (zget (link_end l) ivs) as [v|]; [|exact I].
      intros Hr. unfold L1' in Hl. apply filter_In in Hl. destruct Hl as [Hl _].
      destruct (roles_ok_in d l Hr Hl) as [N0 NC]. destruct (Ha Hr) as [A B].
      split; rewrite dict_get_set_other' by assumption; assumption. }
  destruct (fold_left F1' L1' (Some [(ARG0, iv)])) as [a1|].
  2:{ match goal with |- context [fold_left ?F2 ?L2 None] => set (F2' := F2); set (L2' := L2) end.
      assert (Hn : fold_left F2' L2' None = None).
      { clear. induction L2' as [|x l IH]; [reflexivity | exact IH]. }
      rewrite Hn. discriminate. }
  match goal with |- context [fold_left ?F2 ?L2 (Some (a1, [], f))] => set (F2' := F2); set (L2' := L2) end.
  assert (G2 : match fold_left F2' L2' (Some (a1, [], f)) with
               | Some (a2, hc2, _) => P a2 /\ all_qeq hc2 | None => True end).
  { apply fold_left_inv.
    - split; [exact G1 | constructor].
    - intros [[[a2 hc2] f2]|] l Hl Ha; [|exact I]. unfold F2'.
      destruct (scope_label d choice cs (link_end l)) as [tl|]; [|exact I].
      destruct Ha as [Pa Hq].
      unfold L2' in Hl. apply filter_In in Hl. destruct Hl as [Hl _].
      destruct (str_eqb (link_post l) POST_HEQ).
      + split; [|exact Hq]. intros Hr. destruct (roles_ok_in d l Hr Hl) as [N0 NC]. destruct (Pa Hr) as [A B].
        split; rewrite dict_get_set_other' by assumption; assumption.
      + destruct (vf_new f2 (Some HS) []) as [hole f3]. split.
        * intros Hr. destruct (roles_ok_in d l Hr Hl) as [N0 NC]. destruct (Pa Hr) as [A B].
          split; rewrite dict_get_set_other' by assumption; assumption.
        * apply Forall_app. split; [exact Hq | constructor; [reflexivity | constructor]]. }
  destruct (fold_left F2' L2' (Some (a1, [], f))) as [[[a2 hc2] f2]|]; [|discriminate].
  destruct G2 as [Pa Hq].
  set (a3 := match dn_carg n with Some c => dict_set CARG_ROLE c a2 | None => a2 end).
  assert (P3 : roles_ok d = true -> dict_get ARG0 a3 = Some iv /\ dict_get CARG_ROLE a3 = dn_carg n).
  { intros Hr. destruct (Pa Hr) as [A B]. unfold a3. destruct (dn_carg n) as [c|].
    - split; [rewrite dict_get_set_other' by (intros X; symmetry in X; exact (ARG0_neq_CARG X)); exact A
             | apply dict_get_set_same'].
    - split; assumption. }
  destruct (zmem (dn_id n) (q_starts d) && match dict_get BODY a3 with Some _ => false | None => true end).
  - destruct (vf_new f2 (Some HS) []) as [b f3]. intros H; inversion H; subst. split; [exact Hq|].
    intros Hr. destruct (P3 Hr) as [A B].
    split; [rewrite dict_get_set_other' by exact BODY_neq_ARG0 | rewrite dict_get_set_other' by exact BODY_neq_CARG];
      assumption.
  - intros H; inversion H; subst. split; [exact Hq | exact P3].
Qed.

Record ep_of_node (d : dmrs) (choice : list str) (cs : list (list str)) (ivs : list (Z * str))
       (n : dnode) (e : ep) : Prop := {
  eon_pred : e_pred e = dn_pred n;
  eon_label : scope_label d choice cs (dn_id n) = Some (e_label e);
  eon_iv : roles_ok d = true -> e_iv e = zget (dn_id n) ivs;
  eon_carg : roles_ok d = true -> e_carg e = dn_carg n }.

Section Loop.
Variables (d : dmrs) (choice : list str) (cs : list (list str)) (ivs : list (Z * str)).

Definition node_step (acc : option (list ep * list cons3 * vfac)) (n : dnode) :=
  match acc with
  | None => None
  | Some (rels, hc, f) =>
      match scope_label d choice cs (dn_id n), node_args d choice cs ivs n f with
      | Some lbl, Some (a, hc', f') =>
          Some (rels ++ [{| e_pred := dn_pred n; e_label := lbl; e_args := a |}], hc ++ hc', f')
      | _, _ => None
      end
  end.

Lemma node_loop_none nodes : fold_left node_step nodes None = None.
Proof. induction nodes as [|n l IH]; [reflexivity | exact IH]. Qed.

Lemma node_loop_spec nodes : forall rels0 hc0 f0 rels hc f,
  fold_left node_step nodes (Some (rels0, hc0, f0)) = Some (rels, hc, f) ->
  all_qeq hc0 ->
  exists new, rels = rels0 ++ new /\ Forall2 (ep_of_node d choice cs ivs) nodes new /\ all_qeq hc.
Proof.
  induction nodes as [|n l IH]; intros rels0 hc0 f0 rels hc f H Hq; cbn [fold_left] in H.
  - inversion H; subst. exists []. rewrite app_nil_r. split; [reflexivity|]. split; [constructor | exact Hq].
  - unfold node_step at 2 in H.
    destruct (scope_label d choice cs (dn_id n)) as [lbl|] eqn:El; [|rewrite node_loop_none in H; discriminate].
    destruct (node_args d choice cs ivs n f0) as [[[a hc'] f']|] eqn:Ea; [|rewrite node_loop_none in H; discriminate].
    destruct (node_args_spec _ _ _ _ _ _ _ _ _ Ea) as [Hq' Hr].
    destruct (IH _ _ _ _ _ _ H) as (new & E & F & Q).
    { apply Forall_app. split; assumption. }
    exists ({| e_pred := dn_pred n; e_label := lbl; e_args := a |} :: new).
    split; [rewrite E, <- app_assoc; reflexivity|]. split; [|exact Q].
    constructor; [|exact F]. constructor; cbn [e_pred e_label]; auto.
    + intros X. unfold e_iv. cbn [e_args]. apply Hr. exact X.
    + intros X. unfold e_carg. cbn [e_args]. apply Hr. exact X.
Qed.
End Loop.

(* one predication per node, in order, with the node's predicate and constant,
   the label of the node's scope and the intrinsic variable the node (or, for a
   quantifier, the node it binds) was given; all handle constraints are qeq,
   there are no individual constraints; a top handle exactly when the DMRS has
   a top *)
Theorem from_dmrs_spec d choice m : mrs_from_dmrs d choice = Some m ->
  exists lq ivs, leqs d = Some lq /\
    Forall2 (ep_of_node d choice (classes d lq) ivs) (d_nodes d) (m_rels m) /\
    all_qeq (m_hcons m) /\ m_icons m = [] /\
    (m_top m = None <-> d_top d = None) /\
    (forall t, d_top d = Some t -> exists h l, m_top m = Some h /\
        scope_label d choice (classes d lq) t = Some l /\ In (h, QEQ, l) (m_hcons m)).
Proof.
  unfold mrs_from_dmrs.
  destruct (negb (znodup (map dn_id (d_nodes d))) || negb (links_ok d)); [discriminate|].
  destruct (leqs d) as [lq|] eqn:Elq; [|discriminate].
  destruct (negb (choice_ok choice (classes d lq))); [discriminate|].
  set (f0 := {| vf_vid := 0%Z; vf_index := []; vf_store := [] |}).
  set (cs := classes d lq).
  destruct (d_top d) as [t|] eqn:Et.
  - destruct (vf_new f0 (Some HS) []) as [tv f1].
    destruct (scope_label d choice cs t) as [tl|] eqn:Etl; [|discriminate].
    destruct (seq_opt (map var_id choice)) as [cvids|]; [|discriminate].
    destruct (build_ivs d (fold_left vf_reserve cvids f1)) as [ivs f3].
    match goal with |- context [fold_left ?F (d_nodes d) ?A] =>
      change F with (node_step d choice cs ivs) end.
    destruct (match d_index d with
              | Some i => if (i =? 0)%Z then Some None else match zget i ivs with Some v => Some (Some v) | None => None end
              | None => Some None end) as [ix|]; [|discriminate].
    destruct (fold_left (node_step d choice cs ivs) (d_nodes d) (Some ([], [(tv, QEQ, tl)], f3)))
      as [[[rels hc] f]|] eqn:Er; [|intros X; discriminate X].
    intros H; inversion H; subst m; clear H. cbn [m_rels m_hcons m_icons m_top].
    destruct (node_loop_spec d choice cs ivs _ _ _ _ _ _ _ Er) as (new & E & F & Q).
    { constructor; [reflexivity | constructor]. }
    exists lq, ivs. split; [reflexivity|]. simpl in E. subst new.
    split; [exact F|]. split; [exact Q|]. split; [reflexivity|]. split; [split; intros X; discriminate X|].
    intros t' Ht'. inversion Ht'; subst t'. exists tv, tl. split; [reflexivity|]. split; [exact Etl|].
    (* the first constraint survives the loop *)
    assert (Hpre : forall nodes acc rels' hc' f', fold_left (node_step d choice cs ivs) nodes (Some acc) = Some (rels', hc', f') ->
                   forall c, In c (snd (fst acc)) -> In c hc').
    { induction nodes as [|n l IH]; intros [[r0 h0] g0] rels' hc' f' Hf c Hc; cbn [fold_left] in Hf.
      - inversion Hf; subst. exact Hc.
      - unfold node_step at 2 in Hf.
        destruct (scope_label d choice cs (dn_id n)); [|rewrite node_loop_none in Hf; discriminate].
        destruct (node_args d choice cs ivs n g0) as [[[a h1] g1]|]; [|rewrite node_loop_none in Hf; discriminate].
        apply (IH _ _ _ _ Hf). cbn [fst snd] in *. apply in_or_app. left. exact Hc. }
    apply (Hpre _ _ _ _ _ Er). left. reflexivity.
  - destruct (seq_opt (map var_id choice)) as [cvids|]; [|discriminate].
    destruct (build_ivs d (fold_left vf_reserve cvids f0)) as [ivs f3].
    match goal with |- context [fold_left ?F (d_nodes d) ?A] =>
      change F with (node_step d choice cs ivs) end.
    destruct (match d_index d with
              | Some i => if (i =? 0)%Z then Some None else match zget i ivs with Some v => Some (Some v) | None => None end
              | None => Some None end) as [ix|]; [|discriminate].
    match goal with |- context [fold_left (node_step d choice cs ivs) (d_nodes d) ?A] =>
      destruct (fold_left (node_step d choice cs ivs) (d_nodes d) A) as [[[rels hc] f]|] eqn:Er end; [|discriminate].
    intros H; inversion H; subst m; clear H. cbn [m_rels m_hcons m_icons m_top].
    destruct (node_loop_spec d choice cs ivs _ _ _ _ _ _ _ Er) as (new & E & F & Q); [constructor|].
    exists lq, ivs. split; [reflexivity|]. simpl in E. subst new.
    split; [exact F|]. split; [exact Q|]. split; [reflexivity|]. split; [split; reflexivity|].
    intros t' Ht'. discriminate.
Qed.

(* DMRS -> MRS -> DMRS keeps the nodes' predicates and constants, in order *)
Theorem roundtrip_nodes_basic d choice m d' : roles_ok d = true ->
  mrs_from_dmrs d choice = Some m ->
  dmrs_from_mrs m = COk d' ->
  map (fun n => (dn_pred n, dn_carg n)) (d_nodes d') = map (fun n => (dn_pred n, dn_carg n)) (d_nodes d).
Proof.
  intros Hr Hm Hd. rewrite (Proofs.ConvertP.dmrs_nodes_basic m d' Hd).
  destruct (from_dmrs_spec d choice m Hm) as (lq & ivs & _ & F & _).
  clear Hm Hd. induction F as [|n e ns es Hne F IH]; [reflexivity|].
  cbn [map]. rewrite IH. f_equal.
  rewrite (eon_pred _ _ _ _ _ _ Hne), (eon_carg _ _ _ _ _ _ Hne Hr). reflexivity.
Qed.

(* links produced from an MRS never carry the ARG0 or CARG role *)
Lemma from_mrs_roles_ok m d : dmrs_from_mrs m = COk d -> roles_ok d = true.
Proof.
  intros H. destruct (dmrs_nodes_spec m d H) as (ids & reps & _ & _ & _ & _ & Hl).
  unfold roles_ok. apply forallb_forall. intros l Hin. rewrite Hl in Hin. apply in_app_or in Hin.
  destruct Hin as [Hin|Hin].
  - apply in_flat_map in Hin. destruct Hin as ([ls w] & Hpa & Hl'). cbn [fst] in Hl'.
    unfold per_arg in Hpa. apply in_flat_map in Hpa. destruct Hpa as ([i e] & _ & Hm).
    apply in_map_iff in Hm. destruct Hm as ([role tgt] & E & Hrv). cbn [fst snd] in *.
    unfold ep_arguments in Hrv. apply filter_In in Hrv. destruct Hrv as [_ Hf]. cbn [fst] in Hf.
    apply andb_true_iff in Hf. destruct Hf as [Hf _]. apply negb_true_iff in Hf. apply orb_false_iff in Hf.
    destruct Hf as [F0 FC].
    assert (R : link_role l = role).
    { unfold arg_link in E.
      destruct (iv_to_nid m ids tgt); [inversion E; subst; destruct Hl' as [<-|[]]; reflexivity|].
      destruct (hc_get (m_hcons m) tgt) as [c|].
      - destruct (dict_get (snd c) reps) as [[|r rest]|]; inversion E; subst; try (destruct Hl'; fail).
        destruct Hl' as [<-|[]]. reflexivity.
      - destruct (dict_get tgt reps) as [[|r rest]|]; inversion E; subst; try (destruct Hl'; fail).
        destruct Hl' as [<-|[]]. reflexivity. }
    rewrite R, F0, FC. reflexivity.
  - apply in_app_or in Hin. destruct Hin as [Hin|Hin].
    + unfold mod_links in Hin. apply in_flat_map in Hin. destruct Hin as ([lbl rs] & _ & Hm). cbn [snd] in Hm.
      destruct rs as [|f rest]; [destruct Hm|]. apply in_map_iff in Hm. destruct Hm as (s & <- & _). reflexivity.
    + unfold extra_links in Hin. apply in_flat_map in Hin. destruct Hin as ([lbl es] & _ & Hm). cbn [fst] in Hm.
      destruct (members_of m ids lbl) as [|m1 [|m2 ms]]; try (destruct Hm; fail).
      destruct (dict_get lbl reps) as [[|f rest]|]; try (destruct Hm; fail).
      apply scope_extra_links in Hm. destruct Hm as (x & _ & ->). reflexivity.
Qed.

(* MRS -> DMRS -> MRS keeps the predications' predicates and constants, in order *)
Theorem roundtrip_rels_basic m d choice m' :
  dmrs_from_mrs m = COk d -> mrs_from_dmrs d choice = Some m' ->
  map (fun e => (e_pred e, e_carg e)) (m_rels m') = map (fun e => (e_pred e, e_carg e)) (m_rels m).
Proof.
  intros Hd Hm. rewrite <- (dmrs_nodes_basic m d Hd).
  pose proof (from_mrs_roles_ok m d Hd) as Hr.
  destruct (from_dmrs_spec d choice m' Hm) as (lq & ivs & _ & F & _).
  clear Hm Hd. induction F as [|n e ns es Hne F IH]; [reflexivity|].
  cbn [map]. rewrite IH. f_equal.
  rewrite (eon_pred _ _ _ _ _ _ Hne), (eon_carg _ _ _ _ _ _ Hne Hr). reflexivity.
Qed.
