(* Proofs about Model/Table.v (C10): a table refines the plain list of rows
   t_iter t through every operation. *)
From Coq Require Import List ZArith Bool Arith Lia.
From PyD Require Import Base.Str Base.PySlice Model.TsdbFiles Model.Table.
Import ListNotations.
Open Scope nat_scope.

(* materialise: memory rows over file lines, all positions wanted *)
Fixpoint mat (rows : list (option row)) (lines : list row) : list row :=
  match rows with
  | [] => []
  | Some x :: rows' => x :: mat rows' (tl lines)
  | None :: rows' => match lines with
                     | x :: _ => x :: mat rows' (tl lines)
                     | [] => mat rows' []
                     end
  end.

Lemma enum_all i rows lines : enum_go i rows lines (fun _ => true) = mat rows lines.
Proof.
  revert i lines. induction rows as [|r rows IH]; intros i lines; simpl; [reflexivity|].
  destruct r as [x|]; [rewrite IH; reflexivity|].
  destruct lines as [|l lines]; simpl; rewrite IH; reflexivity.
Qed.

(* every placeholder has its file line *)
Definition covered (rows : list (option row)) (lines : list row) : Prop :=
  forall i, nth_error rows i = Some None -> i < length lines.

Lemma covered_tl r rows lines : covered (r :: rows) lines -> covered rows (tl lines).
Proof.
  intros H i Hi. specialize (H (S i) Hi). destruct lines; simpl in *; lia.
Qed.

Lemma mat_length rows : forall lines, covered rows lines -> length (mat rows lines) = length rows.
Proof.
  induction rows as [|r rows IH]; intros lines Hc; simpl; [reflexivity|].
  pose proof (covered_tl _ _ _ Hc) as Hc'.
  destruct r as [x|]; simpl; [rewrite IH; auto|].
  destruct lines as [|l lines]; simpl.
  - specialize (Hc 0 eq_refl). simpl in Hc. lia.
  - rewrite IH; auto.
Qed.

Lemma mat_nth rows : forall lines k, covered rows lines ->
  nth_error (mat rows lines) k =
  match nth_error rows k with
  | Some (Some x) => Some x
  | Some None => nth_error lines k
  | None => None
  end.
Proof.
  induction rows as [|r rows IH]; intros lines k Hc; simpl.
  - destruct k; reflexivity.
  - pose proof (covered_tl _ _ _ Hc) as Hc'.
    destruct r as [x|].
    + destruct k; simpl; [reflexivity|]. rewrite IH by exact Hc'.
      destruct (nth_error rows k) as [[y|]|]; try reflexivity.
      destruct lines; simpl; [destruct k; reflexivity | reflexivity].
    + destruct lines as [|l lines].
      * specialize (Hc 0 eq_refl). simpl in Hc. lia.
      * destruct k; simpl; [reflexivity|]. rewrite IH by exact Hc'. reflexivity.
Qed.

Definition lines_of (t : table) : list row := content (t_file t).

Record Inv (t : table) : Prop := {
  inv_file : read_rel (t_file t) <> None;
  inv_pc : t_pc t = length (lines_of t);
  inv_vi_pc : t_vi t <= t_pc t;
  inv_vi_len : t_vi t <= length (t_rows t);
  inv_cov : covered (t_rows t) (lines_of t);
  inv_clean : forall i x, i < t_vi t -> nth_error (t_rows t) i = Some (Some x) ->
                          nth_error (lines_of t) i = Some x }.

Lemma t_iter_mat t : t_iter t = mat (t_rows t) (lines_of t).
Proof. apply enum_all. Qed.

(* ---- observations ---- *)
Theorem len_refines t : Inv t -> t_len t = length (t_iter t).
Proof. intros H. rewrite t_iter_mat, mat_length; [reflexivity | apply H]. Qed.

Theorem getitem_refines t i : Inv t ->
  t_getitem t i = match py_getitem (t_iter t) i with Some x => GOk x | None => GIndexError end.
Proof.
  intros H. unfold t_getitem, py_getitem. rewrite <- (len_refines t H). unfold t_len.
  destruct (py_index (length (t_rows t)) i) as [k|] eqn:E; [|reflexivity].
  apply py_index_lt in E. rewrite t_iter_mat, mat_nth by apply H.
  destruct (nth_error (t_rows t) k) as [[x|]|] eqn:Ek; try reflexivity.
  - pose proof (inv_cov t H k Ek) as Hk. fold (lines_of t).
    destruct (nth_error (lines_of t) k) eqn:El; [reflexivity|].
    apply nth_error_None in El. lia.
Qed.

(* ---- sync / open / reload ---- *)
Lemma nth_repeat_none {A} n i : nth_error (repeat (@None A) n) i = if i <? n then Some None else None.
Proof.
  revert i. induction n as [|n IH]; intros i; simpl.
  - destruct i; reflexivity.
  - destruct i; simpl; [reflexivity|]. rewrite IH. reflexivity.
Qed.

Lemma mat_repeat_none lines : mat (repeat None (length lines)) lines = lines.
Proof. induction lines as [|l lines IH]; simpl; [reflexivity|]. rewrite IH. reflexivity. Qed.

Theorem sync_inv f : read_rel f <> None -> Inv (sync f) /\ t_iter (sync f) = content f
  /\ in_transaction (sync f) = false.
Proof.
  intros Hf. split; [|split].
  - constructor; unfold sync, lines_of; simpl; auto.
    + rewrite repeat_length. lia.
    + intros i Hi. rewrite nth_repeat_none in Hi. destruct (i <? length (content f)) eqn:E;
        [apply Nat.ltb_lt in E; exact E | discriminate].
    + intros i x _ Hi. rewrite nth_repeat_none in Hi. destruct (i <? _); discriminate.
  - rewrite t_iter_mat. unfold sync, lines_of; simpl. apply mat_repeat_none.
  - unfold in_transaction, sync; simpl. rewrite repeat_length, Nat.ltb_irrefl. reflexivity.
Qed.

Theorem open_inv f : Inv (open_table f) /\ t_iter (open_table f) = content f.
Proof.
  unfold open_table. destruct (read_rel f) as [l|] eqn:E.
  - assert (Hf : read_rel f <> None) by congruence.
    destruct (sync_inv f Hf) as (A & B & _). split; [exact A | exact B].
  - set (f' := {| tx := Some []; gz := gz f; gz_newer := false |}).
    assert (Hr : read_rel f' = Some []).
    { unfold read_rel, use_gz in *. simpl. destruct (gz f) as [g|] eqn:G; [|reflexivity].
      destruct (tx f); [destruct (gz_newer f)|]; simpl in E; congruence. }
    destruct (sync_inv f') as (A & B & _); [congruence|]. split; [exact A|].
    rewrite B. unfold content. rewrite Hr, E. reflexivity.
Qed.

Theorem reload_spec t : Inv t ->
  Inv (t_reload t) /\ t_iter (t_reload t) = lines_of t /\ in_transaction (t_reload t) = false /\
  t_file (t_reload t) = t_file t.
Proof.
  intros H. unfold t_reload. destruct (sync_inv (t_file t) (inv_file t H)) as (A & B & C).
  split; [exact A | split; [exact B | split; [exact C | reflexivity]]].
Qed.

(* ---- extend / clear ---- *)
Lemma mat_app rows1 rows2 lines : covered rows1 lines ->
  mat (rows1 ++ rows2) lines = mat rows1 lines ++ mat rows2 (skipn (length rows1) lines).
Proof.
  revert lines. induction rows1 as [|r rows1 IH]; intros lines Hc; simpl; [reflexivity|].
  pose proof (covered_tl _ _ _ Hc) as Hc'.
  assert (S : skipn (length rows1) (tl lines) = match lines with [] => [] | _ :: l => skipn (length rows1) l end).
  { destruct lines; simpl; [destruct (length rows1); reflexivity | reflexivity]. }
  destruct r as [x|].
  - simpl. rewrite IH by exact Hc'. rewrite S. destruct lines; reflexivity.
  - destruct lines as [|l lines].
    + specialize (Hc 0 eq_refl). simpl in Hc. lia.
    + simpl. rewrite IH by exact Hc'. reflexivity.
Qed.

Lemma mat_all_some vals lines : mat (map Some vals) lines = vals.
Proof. revert lines. induction vals as [|v vals IH]; intros lines; simpl; [reflexivity|]. rewrite IH. reflexivity. Qed.

Theorem extend_spec t vals : Inv t ->
  Inv (t_extend t vals) /\ t_iter (t_extend t vals) = t_iter t ++ vals /\
  t_file (t_extend t vals) = t_file t.
Proof.
  intros H. split; [|split; [|reflexivity]].
  - constructor; unfold t_extend, lines_of in *; simpl; try apply H.
    + rewrite app_length. pose proof (inv_vi_len t H). lia.
    + intros i Hi. destruct (lt_dec i (length (t_rows t))) as [Hl|Hl].
      * rewrite nth_error_app1 in Hi by exact Hl. apply (inv_cov t H i Hi).
      * rewrite nth_error_app2 in Hi by lia. rewrite nth_error_map in Hi.
        destruct (nth_error vals _); discriminate.
    + intros i x Hi Hx. pose proof (inv_vi_len t H).
      rewrite nth_error_app1 in Hx by lia. apply (inv_clean t H i x Hi Hx).
  - rewrite !t_iter_mat. unfold t_extend, lines_of; simpl.
    rewrite mat_app by apply H. rewrite mat_all_some. reflexivity.
Qed.

Theorem clear_spec t : Inv t ->
  Inv (t_clear t) /\ t_iter (t_clear t) = [] /\ t_file (t_clear t) = t_file t.
Proof.
  intros H. split; [|split; reflexivity].
  constructor; unfold t_clear, lines_of in *; simpl; try apply H; try lia.
  all: try (intros i Hi; destruct i; discriminate).
  all: try (intros i x Hi; lia).
Qed.

(* ---- commit ---- *)
Lemma enum_ext rows : forall i lines w1 w2,
  (forall j, i <= j < i + length rows -> w1 j = w2 j) ->
  enum_go i rows lines w1 = enum_go i rows lines w2.
Proof.
  induction rows as [|r rows IH]; intros i lines w1 w2 H; simpl; [reflexivity|].
  rewrite (H i) by (simpl; lia).
  rewrite (IH (S i) (tl lines) w1 w2) by (intros j Hj; apply H; simpl; lia). reflexivity.
Qed.

Lemma enum_ge p rows : forall i lines, covered rows lines ->
  enum_go i rows lines (fun j => p <=? j) = skipn (p - i) (mat rows lines).
Proof.
  induction rows as [|r rows IH]; intros i lines Hc; simpl.
  - destruct (p - i); reflexivity.
  - pose proof (covered_tl _ _ _ Hc) as Hc'. rewrite (IH (S i) (tl lines) Hc').
    assert (Hl : r = None -> lines <> []).
    { intros -> ->. specialize (Hc 0 eq_refl). simpl in Hc. lia. }
    destruct (p <=? i) eqn:E.
    + apply Nat.leb_le in E. replace (p - i) with 0 by lia. replace (p - S i) with 0 by lia. simpl.
      destruct r as [x|]; [reflexivity|]. destruct lines; [exfalso; apply Hl; reflexivity | reflexivity].
    + apply Nat.leb_gt in E. replace (p - i) with (S (p - S i)) by lia.
      destruct r as [x|]; [reflexivity|]. destruct lines; [exfalso; apply Hl; reflexivity | reflexivity].
Qed.

Lemma mat_clean_prefix rows : forall lines n,
  n <= length rows -> n <= length lines -> covered rows lines ->
  (forall i x, i < n -> nth_error rows i = Some (Some x) -> nth_error lines i = Some x) ->
  firstn n (mat rows lines) = firstn n lines.
Proof.
  induction rows as [|r rows IH]; intros lines n Hn Hl Hc Hclean.
  - simpl in Hn. replace n with 0 by lia. reflexivity.
  - destruct n as [|n]; [reflexivity|].
    destruct lines as [|l lines]; [simpl in Hl; lia|].
    pose proof (covered_tl _ _ _ Hc) as Hc'. simpl in Hc'.
    assert (IH' : firstn n (mat rows lines) = firstn n lines).
    { apply IH; simpl in *; try lia; [exact Hc'|].
      intros i x Hi Hx. apply (Hclean (S i) x); [lia | exact Hx]. }
    destruct r as [x|]; simpl.
    + specialize (Hclean 0 x (Nat.lt_0_succ n) eq_refl). simpl in Hclean. inversion Hclean; subst.
      rewrite IH'. reflexivity.
    + rewrite IH'. reflexivity.
Qed.

Lemma in_range_step1 (p n i : nat) : p <= n ->
  in_range (py_range (Z.of_nat p) (Z.of_nat n) 1) i = (p <=? i) && (i <? n).
Proof.
  intros Hpn. unfold in_range.
  destruct ((p <=? i) && (i <? n)) eqn:E.
  - apply andb_true_iff in E. destruct E as [E1 E2]. apply Nat.leb_le in E1. apply Nat.ltb_lt in E2.
    apply existsb_exists. exists (Z.of_nat i). split; [|apply Z.eqb_refl].
    unfold py_range. apply in_map_iff. exists (i - p). split; [lia|].
    apply in_seq. unfold range_len. simpl.
    destruct (Z.of_nat p <? Z.of_nat n)%Z eqn:L; [|apply Z.ltb_ge in L; lia].
    rewrite Z.div_1_r. lia.
  - destruct (existsb _ _) eqn:X; [|reflexivity].
    apply existsb_exists in X. destruct X as [z [Hz Ez]]. apply Z.eqb_eq in Ez. subst z.
    apply range_in_bounds in Hz; [|lia]. destruct Hz as [Hz _]. specialize (Hz ltac:(lia)).
    apply andb_false_iff in E. destruct E as [E|E];
      [apply Nat.leb_gt in E | apply Nat.ltb_ge in E]; lia.
Qed.

Lemma slice_from (p n : nat) : p <= n ->
  slice_indices {| sl_start := Some (Z.of_nat p); sl_stop := None; sl_step := None |} n
  = Some (Z.of_nat p, Z.of_nat n, 1%Z).
Proof.
  intros H. unfold slice_indices. simpl.
  destruct (Z.of_nat p <? 0)%Z eqn:E; [apply Z.ltb_lt in E; lia|].
  rewrite Z.min_l by lia. reflexivity.
Qed.

Theorem commit_spec t : Inv t ->
  let t' := t_commit t in
  Inv t' /\ lines_of t' = t_iter t /\ t_iter t' = t_iter t /\ in_transaction t' = false /\
  (gz (t_file t') <> None -> t_file t' = t_file t).
Proof.
  intros H. unfold t_commit.
  pose proof (inv_file t H) as Hf. pose proof (inv_pc t H) as Hpc.
  pose proof (inv_vi_pc t H) as Hvp. pose proof (inv_vi_len t H) as Hvl.
  pose proof (inv_cov t H) as Hcov. pose proof (inv_clean t H) as Hclean.
  destruct (in_transaction t) eqn:Etx.
  - set (append := (t_pc t <=? t_vi t) && negb (use_gz (t_file t))).
    destruct append eqn:Eapp; subst append.
    + apply andb_true_iff in Eapp. destruct Eapp as [E1 E2]. apply Nat.leb_le in E1.
      apply negb_true_iff in E2.
      assert (Evi : t_vi t = t_pc t) by lia.
      unfold t_slice. rewrite slice_from by lia. simpl.
      rewrite (enum_ext (t_rows t) 0 (content (t_file t)) _ (fun j => t_pc t <=? j)).
      2:{ intros j Hj. rewrite in_range_step1 by lia.
          destruct (j <? length (t_rows t)) eqn:L; [apply andb_true_r|]. apply Nat.ltb_ge in L. lia. }
      fold (lines_of t). rewrite (enum_ge (t_pc t) (t_rows t) 0 (lines_of t) Hcov), Nat.sub_0_r.
      unfold write_rel. rewrite E2. simpl.
      assert (Htx : tx (t_file t) = Some (lines_of t)).
      { unfold lines_of, content, read_rel in *. rewrite E2 in *. destruct (tx (t_file t)); congruence. }
      rewrite Htx.
      set (f' := {| tx := Some (lines_of t ++ skipn (t_pc t) (mat (t_rows t) (lines_of t)));
                    gz := None; gz_newer := false |}).
      assert (Hc : content f' = t_iter t).
      { unfold f', content, read_rel, use_gz; simpl. rewrite t_iter_mat.
        rewrite <- (firstn_skipn (t_pc t) (mat (t_rows t) (lines_of t))) at 2. f_equal.
        rewrite (mat_clean_prefix (t_rows t) (lines_of t) (t_pc t)); try lia; auto.
        - rewrite Hpc. symmetry. apply firstn_all.
        - intros i x Hi. apply Hclean. lia. }
      assert (Hf' : read_rel f' <> None) by (unfold f', read_rel, use_gz; simpl; discriminate).
      destruct (sync_inv f' Hf') as (A & B & C).
      split; [exact A|]. split; [unfold lines_of; simpl; exact Hc|].
      split; [rewrite B; exact Hc|]. split; [exact C|]. simpl. congruence.
    + unfold write_rel. simpl.
      set (f' := {| tx := Some (t_iter t); gz := None; gz_newer := false |}).
      assert (Hc : content f' = t_iter t) by reflexivity.
      assert (Hf' : read_rel f' <> None) by (unfold f', read_rel, use_gz; simpl; discriminate).
      destruct (sync_inv f' Hf') as (A & B & C).
      split; [exact A|]. split; [exact Hc|]. split; [rewrite B; exact Hc|]. split; [exact C|].
      simpl. congruence.
  - unfold in_transaction in Etx. apply orb_false_iff in Etx. destruct Etx as [E1 E2].
    apply Nat.ltb_ge in E1, E2.
    destruct (sync_inv (t_file t) Hf) as (A & B & C).
    assert (Hit : t_iter t = lines_of t).
    { rewrite t_iter_mat.
      assert (Hlen : length (t_rows t) = t_pc t) by lia.
      rewrite <- (firstn_all (mat (t_rows t) (lines_of t))), mat_length, Hlen by exact Hcov.
      rewrite (mat_clean_prefix (t_rows t) (lines_of t) (t_pc t)); try lia; auto.
      - rewrite Hpc. apply firstn_all.
      - intros i x Hi. apply Hclean. lia. }
    split; [exact A|]. split; [unfold lines_of; simpl; fold (lines_of t); congruence|].
    split; [rewrite B; fold (lines_of t); congruence|]. split; [exact C|]. reflexivity.
Qed.

(* committing twice writes nothing new *)
Theorem commit_idempotent t : Inv t ->
  t_file (t_commit (t_commit t)) = t_file (t_commit t).
Proof.
  intros H. destruct (commit_spec t H) as (A & _ & _ & C & _).
  unfold t_commit at 1. rewrite C. reflexivity.
Qed.
