(* Proofs about the token-level SimpleMRS model (C01). *)
From Coq Require Import List NArith ZArith Bool Arith Lia.
From PyD Require Import Base.Str Base.Dec Model.Hier Model.Mrs Model.Iso Model.SimpleMrs.
Import ListNotations.

(* _unescape inverts _escape on every string *)
Lemma unescape_escape s : unescape (escape s) = s.
Proof.
  induction s as [|c s IH]; [reflexivity|].
  cbn [escape]. destruct (N.eqb c BSL) eqn:E1.
  - apply N.eqb_eq in E1. subst c. cbn [unescape]. rewrite N.eqb_refl. cbn. rewrite IH. reflexivity.
  - destruct (N.eqb c DQ) eqn:E2.
    + apply N.eqb_eq in E2. subst c. cbn [unescape]. rewrite N.eqb_refl. rewrite IH. reflexivity.
    + cbn [unescape]. rewrite E1, IH. reflexivity.
Qed.
