(* Proofs about the token-level SimpleMRS model (C01). *)
From Coq Require Import List NArith ZArith Bool Arith Lia Permutation.
From PyD Require Import Base.Str Base.Dec Model.Hier Model.Mrs Model.Iso Model.SimpleMrs.
Import ListNotations.

(* _unescape inverts _escape on every string *)
Lemma unescape_escape s : unescape (escape s) = s.
Proof.
  induction s as [|c s IH]; [reflexivity|].
  cbn [escape]. destruct (N.eqb c BSL) eqn:E1.
  - apply N.eqb_eq in E1. subst c. cbn [unescape]. rewrite N.eqb_refl. cbn. rewrite IH. reflexivity.
  - destruct (N.eqb c DQ) eqn:E2.
    + apply N.eqb_eq in E2. subst c. cbn [unescape]. rewrite N.eqb_refl. rewrite IH. reflexivity.
    + cbn [unescape]. rewrite E1, IH. reflexivity.
Qed.

(* ------------------------------------------------------------------ *)
(* dictionaries *)

Lemma str_eqb_neq a b : a <> b -> str_eqb a b = false.
Proof. intros H. destruct (str_eqb a b) eqn:E; [apply str_eqb_spec in E; contradiction | reflexivity]. Qed.

Lemma dict_set_notin {A} k (v : A) d : ~ In k (map fst d) -> dict_set k v d = d ++ [(k, v)].
Proof.
  induction d as [|[k' v'] d IH]; cbn [dict_set map fst In app]; intros H; [reflexivity|].
  rewrite str_eqb_neq by (intros E; apply H; left; exact E).
  rewrite IH by (intros E; apply H; right; exact E). reflexivity.
Qed.

Lemma dict_get_notin {A} k (d : list (str * A)) : ~ In k (map fst d) -> dict_get k d = None.
Proof.
  induction d as [|[k' v'] d IH]; cbn [dict_get map fst In]; intros H; [reflexivity|].
  rewrite str_eqb_neq by (intros E; apply H; left; exact E). apply IH. intros E; apply H; right; exact E.
Qed.

Lemma dict_get_In {A} k (v : A) d : NoDup (map fst d) -> (dict_get k d = Some v <-> In (k, v) d).
Proof.
  induction d as [|[k' v'] d IH]; cbn [dict_get map fst In]; intros Hnd.
  - split; [discriminate | tauto].
  - inversion Hnd as [|? ? Hn Hnd']; subst. destruct (str_eqb k' k) eqn:E.
    + apply str_eqb_spec in E. subst k'. split.
      * intros H; inversion H; subst; left; reflexivity.
      * intros [H|H]; [inversion H; reflexivity|]. exfalso. apply Hn. change k with (fst (k, v)). apply in_map. exact H.
    + rewrite IH by exact Hnd'. split; [tauto|]. intros [H|H]; [|exact H].
      inversion H; subst. rewrite str_eqb_refl in E. discriminate.
Qed.

Lemma dict_get_perm {A} k (d d' : list (str * A)) :
  NoDup (map fst d) -> Permutation d d' -> dict_get k d = dict_get k d'.
Proof.
  intros Hnd Hp.
  assert (Hnd' : NoDup (map fst d')) by (eapply Permutation_NoDup; [apply Permutation_map; exact Hp | exact Hnd]).
  destruct (dict_get k d) as [v|] eqn:E.
  - symmetry. apply dict_get_In; [exact Hnd'|]. eapply Permutation_in; [exact Hp|]. apply dict_get_In; assumption.
  - destruct (dict_get k d') as [v|] eqn:E'; [|reflexivity].
    apply dict_get_In in E'; [|exact Hnd']. apply Permutation_sym in Hp.
    eapply Permutation_in in E'; [|exact Hp]. apply dict_get_In in E'; [congruence | exact Hnd].
Qed.

Lemma dict_get_del_same {A} k (d : list (str * A)) : NoDup (map fst d) -> dict_get k (dict_del k d) = None.
Proof.
  induction d as [|[k' v'] d IH]; cbn [dict_del dict_get map fst]; intros Hnd; [reflexivity|].
  inversion Hnd as [|? ? Hn Hnd']; subst. destruct (str_eqb k k') eqn:E.
  - apply str_eqb_spec in E. subst. apply dict_get_notin. exact Hn.
  - cbn [dict_get]. rewrite str_eqb_neq; [apply IH; exact Hnd'|]. intros X; subst. rewrite str_eqb_refl in E. discriminate.
Qed.

Lemma dict_get_del_other {A} k k' (d : list (str * A)) : k <> k' -> dict_get k' (dict_del k d) = dict_get k' d.
Proof.
  intros Hne. induction d as [|[k2 v2] d IH]; cbn [dict_del dict_get]; [reflexivity|].
  destruct (str_eqb k k2) eqn:E.
  - apply str_eqb_spec in E. subst. rewrite str_eqb_neq by exact Hne. reflexivity.
  - cbn [dict_get]. rewrite IH. reflexivity.
Qed.

Lemma dict_del_keys_incl {A} k (d : list (str * A)) x : In x (map fst (dict_del k d)) -> In x (map fst d).
Proof.
  induction d as [|[k2 v2] d IH]; cbn [dict_del map fst In]; [tauto|].
  destruct (str_eqb k k2); cbn [map fst In]; [tauto|]. intros [H|H]; [left; exact H | right; apply IH; exact H].
Qed.

Lemma dict_del_nodup {A} k (d : list (str * A)) : NoDup (map fst d) -> NoDup (map fst (dict_del k d)).
Proof.
  induction d as [|[k2 v2] d IH]; cbn [dict_del map fst]; intros Hnd; [constructor|].
  inversion Hnd as [|? ? Hn Hnd']; subst. destruct (str_eqb k k2); [exact Hnd'|].
  cbn [map fst]. constructor; [|apply IH; exact Hnd']. intros H. apply Hn. eapply dict_del_keys_incl. exact H.
Qed.

Lemma dict_del_In {A} k (d : list (str * A)) x : In x (dict_del k d) -> In x d.
Proof.
  induction d as [|[k2 v2] d IH]; cbn [dict_del In]; [tauto|].
  destruct (str_eqb k k2); cbn [In]; [tauto|]. intros [H|H]; [left; exact H | right; apply IH; exact H].
Qed.

Lemma dict_get_set_same' {A} k (v : A) d : dict_get k (dict_set k v d) = Some v.
Proof.
  induction d as [|[k' v'] d IH]; cbn [dict_set dict_get]; [rewrite str_eqb_refl; reflexivity|].
  destruct (str_eqb k' k) eqn:E; cbn [dict_get]; rewrite E; [reflexivity | exact IH].
Qed.

Lemma dict_get_set_other' {A} k k' (v : A) d : k <> k' -> dict_get k' (dict_set k v d) = dict_get k' d.
Proof.
  intros Hne. induction d as [|[k2 v2] d IH]; cbn [dict_set dict_get].
  - rewrite str_eqb_neq by exact Hne. reflexivity.
  - destruct (str_eqb k2 k) eqn:E; cbn [dict_get].
    + apply str_eqb_spec in E. subst. rewrite str_eqb_neq by exact Hne. reflexivity.
    + rewrite IH. reflexivity.
Qed.

(* ------------------------------------------------------------------ *)
(* the two insertion sorts are permutations *)

Lemma insert_prop_perm x l : Permutation (insert_prop x l) (x :: l).
Proof.
  induction l as [|y l IH]; cbn [insert_prop]; [apply Permutation_refl|].
  destruct (_ || _).
  - eapply perm_trans; [apply perm_skip; exact IH | apply perm_swap].
  - apply Permutation_refl.
Qed.

Lemma sort_props_perm l : Permutation (sort_props l) l.
Proof.
  induction l as [|x l IH]; cbn; [constructor|].
  eapply perm_trans; [apply insert_prop_perm | apply perm_skip; exact IH].
Qed.

Lemma insert_role_perm x l : Permutation (insert_role x l) (x :: l).
Proof.
  induction l as [|y l IH]; cbn [insert_role]; [apply Permutation_refl|].
  destruct (role_ltb _ _).
  - eapply perm_trans; [apply perm_skip; exact IH | apply perm_swap].
  - apply Permutation_refl.
Qed.

Lemma sort_roles_perm l : Permutation (sort_roles l) l.
Proof.
  induction l as [|x l IH]; cbn; [constructor|].
  eapply perm_trans; [apply insert_role_perm | apply perm_skip; exact IH].
Qed.

(* ------------------------------------------------------------------ *)
(* variables and their properties *)

Definition getp (v : str) (d : vprops) : list (str * str) :=
  match dict_get v d with Some p => p | None => [] end.

Definition norm_kv (kv : str * str) : Prop := ascii_upper (fst kv) = fst kv /\ ascii_lower (snd kv) = snd kv.
Definition norm_props (ps : list (str * str)) : Prop := NoDup (map fst ps) /\ Forall norm_kv ps.
Definition vp_ok (vp : vprops) : Prop := NoDup (map fst vp) /\ Forall (fun kv => norm_props (snd kv)) vp.

Lemma norm_props_perm ps ps' : Permutation ps ps' -> norm_props ps -> norm_props ps'.
Proof.
  intros Hp [Hnd Hf]. split.
  - eapply Permutation_NoDup; [apply Permutation_map; exact Hp | exact Hnd].
  - rewrite Forall_forall in *. intros x Hx. apply Hf. eapply Permutation_in; [apply Permutation_sym; exact Hp | exact Hx].
Qed.

Lemma vp_ok_getp vp v : vp_ok vp -> norm_props (getp v vp).
Proof.
  intros [Hnd Hf]. unfold getp. destruct (dict_get v vp) as [ps|] eqn:E.
  - apply dict_get_In in E; [|exact Hnd]. rewrite Forall_forall in Hf. apply (Hf _ E).
  - split; constructor.
Qed.

Lemma vp_ok_del vp v : vp_ok vp -> vp_ok (dict_del v vp).
Proof.
  intros [Hnd Hf]. split; [apply dict_del_nodup; exact Hnd|].
  rewrite Forall_forall in *. intros x Hx. apply Hf. eapply dict_del_In. exact Hx.
Qed.

Definition ptoks (kv : str * str) : list stok := [TFEAT (fst kv); TSYM (snd kv)].

Lemma dec_props_enc L : forall acc rest,
  NoDup (map fst L) -> (forall k, In k (map fst L) -> ~ In k (map fst acc)) -> Forall norm_kv L ->
  dec_props (flat_map ptoks L ++ TRB :: rest) acc = Some (acc ++ L, rest).
Proof.
  induction L as [|[k v] L IH]; intros acc rest Hnd Hdis Hn.
  - cbn. rewrite app_nil_r. reflexivity.
  - cbn [flat_map ptoks fst snd app dec_props].
    inversion Hnd as [|? ? Hk Hnd']; subst. inversion Hn as [|? ? [Hu Hl] Hn']; subst. cbn [fst snd] in Hu, Hl.
    rewrite Hu, Hl. rewrite dict_set_notin by (apply Hdis; left; reflexivity).
    rewrite IH; [rewrite <- app_assoc; reflexivity | exact Hnd' | | exact Hn'].
    intros k' Hk'. rewrite map_app, in_app_iff. cbn. intros [H|[H|[]]].
    + apply (Hdis k'); [right; exact Hk' | exact H].
    + subst. contradiction.
Qed.

(* the encoder's remaining properties vp, the decoder's variables vars and the
   original properties vp0: each variable is either untouched (its
   properties still to be emitted, none decoded) or done (nothing left to
   emit, the decoded properties are the original ones in priority order) *)
Definition R (vp0 vp vars : vprops) : Prop :=
  forall v, (getp v vp = getp v vp0 /\ getp v vars = []) \/
            (getp v vp = [] /\ getp v vars = sort_props (getp v vp0)).

Lemma getp_set_same v ps d : getp v (dict_set v ps d) = ps.
Proof. unfold getp. rewrite dict_get_set_same'. reflexivity. Qed.
Lemma getp_set_other v w ps d : v <> w -> getp w (dict_set v ps d) = getp w d.
Proof. intros H. unfold getp. rewrite dict_get_set_other' by exact H. reflexivity. Qed.
Lemma getp_set_getp v w d : getp w (dict_set v (getp v d) d) = getp w d.
Proof.
  destruct (str_eqb v w) eqn:E.
  - apply str_eqb_spec in E. subst. apply getp_set_same.
  - apply getp_set_other. intros X; subst. rewrite str_eqb_refl in E. discriminate.
Qed.

Definition not_lb (ts : list stok) : Prop := match ts with TLB :: _ => False | _ => True end.

Lemma enc_dec_var vp0 v vp vars tv vp' rest :
  vp_ok vp -> R vp0 vp vars -> ascii_lower v = v -> enc_var v vp = Some (tv, vp') -> not_lb rest ->
  exists vars', dec_var (tv ++ rest) vars = Some (v, rest, vars') /\ R vp0 vp' vars' /\ vp_ok vp'.
Proof.
  intros Hok HR Hlow Henc Hrest. unfold enc_var in Henc.
  assert (Hnp := vp_ok_getp vp v Hok). unfold getp in Hnp.
  destruct (dict_get v vp) as [[|p ps]|] eqn:Eg.
  - (* empty property map *)
    inversion Henc; subst. cbn [app dec_var]. rewrite Hlow.
    exists (dict_set v (getp v vars) vars). split; [|split; [|exact Hok]].
    + unfold getp. destruct rest as [|[] rest]; try reflexivity. contradiction.
    + intros w. rewrite getp_set_getp. apply HR.
  - destruct (var_type v) as [t|]; [|discriminate]. inversion Henc; subst. clear Henc.
    cbn [app dec_var]. rewrite Hlow. unfold enc_props. rewrite <- app_assoc. cbn [app].
    assert (Hgv : getp v vp = p :: ps) by (unfold getp; rewrite Eg; reflexivity).
    destruct (HR v) as [[Hv0 Hvars]|[Hv0 _]]; [|rewrite Hgv in Hv0; discriminate]. rewrite Hgv in Hv0.
    fold (getp v vars). rewrite Hvars.
    pose proof (norm_props_perm _ _ (Permutation_sym (sort_props_perm (p :: ps))) Hnp) as [Hnd Hf].
    change (fun kv : str * str => [TFEAT (fst kv); TSYM (snd kv)]) with ptoks.
    rewrite dec_props_enc; [| exact Hnd | intros k _ [] | exact Hf]. cbn [app].
    eexists. split; [reflexivity|]. split; [|apply vp_ok_del; exact Hok].
    intros w. destruct (str_eqb v w) eqn:E.
    + apply str_eqb_spec in E. subst w. right. rewrite getp_set_same. unfold getp at 1.
      rewrite dict_get_del_same by apply Hok. split; [reflexivity|]. rewrite <- Hv0. reflexivity.
    + assert (v <> w) by (intros X; subst; rewrite str_eqb_refl in E; discriminate).
      rewrite getp_set_other by assumption. unfold getp at 1 4. rewrite dict_get_del_other by assumption.
      apply HR.
  - inversion Henc; subst. cbn [app dec_var]. rewrite Hlow.
    exists (dict_set v (getp v vars) vars). split; [|split; [|exact Hok]].
    + unfold getp. destruct rest as [|[] rest]; try reflexivity. contradiction.
    + intros w. rewrite getp_set_getp. apply HR.
Qed.

(* ------------------------------------------------------------------ *)
(* arguments *)

Definition norm_arg (kv : str * str) : Prop :=
  ascii_upper (fst kv) = fst kv /\ (fst kv <> CARG_ROLE -> ascii_lower (snd kv) = snd kv).

Lemma enc_args_head L vp ta vp' rest : enc_args L vp = Some (ta, vp') -> not_lb (ta ++ TRB :: rest).
Proof.
  destruct L as [|[r a] L]; cbn [enc_args]; intros H.
  - inversion H; subst. exact I.
  - destruct (str_eqb r CARG_ROLE).
    + destruct (enc_args L vp) as [[ts v2]|]; [|discriminate]. inversion H; subst. exact I.
    + destruct (enc_var a vp) as [[tv vp1]|]; [|discriminate].
      destruct (enc_args L vp1) as [[ts v2]|]; [|discriminate]. inversion H; subst. exact I.
Qed.

Lemma enc_dec_args vp0 L : forall acc vp vars ta vp' fuel rest,
  NoDup (map fst L) -> (forall k, In k (map fst L) -> ~ In k (map fst acc)) -> Forall norm_arg L ->
  vp_ok vp -> R vp0 vp vars -> enc_args L vp = Some (ta, vp') -> (length ta < fuel)%nat ->
  exists vars', dec_args fuel (ta ++ TRB :: rest) acc vars = Some (acc ++ L, TRB :: rest, vars')
                /\ R vp0 vp' vars' /\ vp_ok vp'.
Proof.
  induction L as [|[r a] L IH]; intros acc vp vars ta vp' fuel rest Hnd Hdis Hn Hok HR Henc Hfuel.
  - cbn in Henc. inversion Henc; subst. destruct fuel as [|fuel]; [cbn in Hfuel; lia|].
    cbn. rewrite app_nil_r. eexists; split; [reflexivity | split; assumption].
  - cbn [enc_args] in Henc. inversion Hnd as [|? ? Hk Hnd']; subst.
    inversion Hn as [|? ? [Hu Hl] Hn']; subst. cbn [fst snd] in Hu, Hl.
    assert (Hdis' : forall k, In k (map fst L) -> ~ In k (map fst (acc ++ [(r, a)]))).
    { intros k' Hk'. rewrite map_app, in_app_iff. cbn. intros [H|[H|[]]].
      - apply (Hdis k'); [right; exact Hk' | exact H].
      - subst. contradiction. }
    destruct (str_eqb r CARG_ROLE) eqn:Ec.
    + destruct (enc_args L vp) as [[ts v2]|] eqn:Ea; [|discriminate]. inversion Henc; subst. clear Henc.
      destruct fuel as [|fuel]; [cbn in Hfuel; lia|].
      cbn [app dec_args]. rewrite Hu, Ec. rewrite unescape_escape.
      rewrite dict_set_notin by (apply Hdis; left; reflexivity).
      destruct (IH (acc ++ [(r, a)]) vp vars ts vp' fuel rest Hnd' Hdis' Hn' Hok HR Ea) as [vars' [Hd [HR' Hok']]].
      { cbn in Hfuel. lia. }
      exists vars'. rewrite Hd. rewrite <- app_assoc. split; [reflexivity | split; assumption].
    + destruct (enc_var a vp) as [[tv vp1]|] eqn:Ev; [|discriminate].
      destruct (enc_args L vp1) as [[ts v2]|] eqn:Ea; [|discriminate]. inversion Henc; subst. clear Henc.
      destruct fuel as [|fuel]; [cbn in Hfuel; lia|].
      cbn [app dec_args]. rewrite Hu, Ec. rewrite <- app_assoc.
      assert (Hne : r <> CARG_ROLE) by (intros X; subst; rewrite str_eqb_refl in Ec; discriminate).
      destruct (enc_dec_var vp0 a vp vars tv vp1 (ts ++ TRB :: rest) Hok HR (Hl Hne) Ev
                  (enc_args_head _ _ _ _ _ Ea)) as [vars1 [Hd1 [HR1 Hok1]]].
      rewrite Hd1. rewrite dict_set_notin by (apply Hdis; left; reflexivity).
      destruct (IH (acc ++ [(r, a)]) vp1 vars1 ts vp' fuel rest Hnd' Hdis' Hn' Hok1 HR1 Ea) as [vars' [Hd [HR' Hok']]].
      { cbn in Hfuel. rewrite app_length in Hfuel. lia. }
      exists vars'. rewrite Hd. rewrite <- app_assoc. split; [reflexivity | split; assumption].
Qed.

(* ------------------------------------------------------------------ *)
(* predications *)

Definition proj_ep (l : bool) (e : xep) : xep :=
  {| x_pred := x_pred e; x_label := x_label e; x_args := sort_roles (x_args e);
     x_lnk := if l then x_lnk e else LNone; x_surface := if l then x_surface e else None |}.

Definition ep_wf (e : xep) : Prop :=
  normalize_pred (x_pred e) = x_pred e /\ ascii_lower (x_label e) = x_label e /\
  NoDup (map fst (x_args e)) /\ Forall norm_arg (x_args e).

Definition not_lnk (ts : list stok) : Prop := match ts with TLNK _ :: _ => False | _ => True end.
Definition not_dq (ts : list stok) : Prop := match ts with TDQ _ :: _ => False | _ => True end.

Lemma dec_pred_enc cls p r : normalize_pred p = p -> dec_pred (enc_pred cls p :: r) = Some (p, r).
Proof.
  intros H. unfold enc_pred. destruct (needs_quote p); [|destruct (cls p)]; cbn [dec_pred];
    rewrite ?unescape_escape, H; reflexivity.
Qed.

Lemma dec_lnk_enc k r : not_lnk r -> dec_lnk (enc_lnk_tok k ++ r) = (k, r).
Proof.
  intros H. destruct k; cbn; try reflexivity. destruct r as [|[] r]; try reflexivity. contradiction.
Qed.

Lemma dec_dq_enc s r : not_dq r -> dec_dq (enc_surface s ++ r) = (s, r).
Proof.
  intros H. destruct s as [s|]; cbn; [rewrite unescape_escape; reflexivity|].
  destruct r as [|[] r]; try reflexivity. contradiction.
Qed.

Lemma norm_arg_perm l l' : Permutation l l' -> Forall norm_arg l -> Forall norm_arg l'.
Proof.
  intros Hp Hf. rewrite Forall_forall in *. intros x Hx. apply Hf.
  eapply Permutation_in; [apply Permutation_sym; exact Hp | exact Hx].
Qed.

Lemma enc_dec_rel vp0 cls l e vp vars te vp' fuel rest :
  ep_wf e -> vp_ok vp -> R vp0 vp vars -> enc_rel cls l e vp = Some (te, vp') -> (length te <= fuel)%nat ->
  exists vars', dec_rel fuel (te ++ rest) vars = Some (proj_ep l e, rest, vars') /\ R vp0 vp' vars' /\ vp_ok vp'.
Proof.
  intros [Hp [Hlbl [Hnd Hn]]] Hok HR Henc Hfuel. unfold enc_rel in Henc.
  destruct (enc_args (sort_roles (x_args e)) vp) as [[ta vp1]|] eqn:Ea; [|discriminate].
  inversion Henc; subst. clear Henc.
  pose proof (sort_roles_perm (x_args e)) as Hperm.
  assert (Hnd' : NoDup (map fst (sort_roles (x_args e)))).
  { eapply Permutation_NoDup; [apply Permutation_map; apply Permutation_sym; exact Hperm | exact Hnd]. }
  assert (Hn' : Forall norm_arg (sort_roles (x_args e))) by (eapply norm_arg_perm; [apply Permutation_sym; exact Hperm | exact Hn]).
  assert (Hlen : (length ta < fuel)%nat).
  { cbn [length] in Hfuel. rewrite app_length in Hfuel. cbn [length] in Hfuel. rewrite app_length in Hfuel. lia. }
  destruct (enc_dec_args vp0 _ [] vp vars ta vp' fuel rest Hnd' (fun _ _ F => F) Hn' Hok HR Ea Hlen)
    as [vars' [Hd [HR' Hok']]].
  exists vars'. split; [|split; assumption].
  cbn [app dec_rel]. rewrite dec_pred_enc by exact Hp.
  assert (Htail : forall lk surf,
             dec_rel_tail fuel (x_pred e) lk surf
               (([TFEAT LBL; TSYM (x_label e)] ++ ta ++ [TRB]) ++ rest) vars =
             Some ({| x_pred := x_pred e; x_label := x_label e; x_args := sort_roles (x_args e);
                      x_lnk := lk; x_surface := surf |}, rest, vars')).
  { intros lk surf. cbn [app dec_rel_tail]. rewrite str_eqb_refl. rewrite <- app_assoc. cbn [app].
    rewrite Hd. rewrite Hlbl. reflexivity. }
  destruct l.
  - rewrite <- !app_assoc. rewrite dec_lnk_enc.
    2:{ destruct (x_surface e); exact I. }
    rewrite dec_dq_enc by exact I. exact (Htail _ _).
  - cbn [app]. cbn [dec_lnk dec_dq]. change (TFEAT LBL :: TSYM (x_label e) :: (ta ++ [TRB]) ++ rest)
      with (([TFEAT LBL; TSYM (x_label e)] ++ ta ++ [TRB]) ++ rest). apply Htail.
Qed.

Lemma enc_rel_head cls l e vp te vp' : enc_rel cls l e vp = Some (te, vp') -> exists t, te = TLB :: t.
Proof.
  unfold enc_rel. destruct (enc_args _ _) as [[ta v1]|]; [|discriminate]. intros H; inversion H; subst.
  eexists. reflexivity.
Qed.

Lemma enc_dec_rels vp0 cls l rels : forall acc vp vars tr vp' fuel rest,
  Forall ep_wf rels -> vp_ok vp -> R vp0 vp vars -> enc_rels cls l rels vp = Some (tr, vp') ->
  (length tr < fuel)%nat ->
  exists vars', dec_rels fuel (tr ++ TRA :: rest) acc vars = Some (acc ++ map (proj_ep l) rels, rest, vars')
                /\ R vp0 vp' vars' /\ vp_ok vp'.
Proof.
  induction rels as [|e rels IH]; intros acc vp vars tr vp' fuel rest Hwf Hok HR Henc Hfuel.
  - cbn in Henc. inversion Henc; subst. destruct fuel as [|fuel]; [cbn in Hfuel; lia|].
    cbn. rewrite app_nil_r. eexists; split; [reflexivity | split; assumption].
  - cbn [enc_rels] in Henc. inversion Hwf as [|? ? He Hwf']; subst.
    destruct (enc_rel cls l e vp) as [[te vp1]|] eqn:Ee; [|discriminate].
    destruct (enc_rels cls l rels vp1) as [[ts vp2]|] eqn:Er; [|discriminate].
    inversion Henc; subst. clear Henc.
    destruct fuel as [|fuel]; [cbn in Hfuel; lia|].
    rewrite app_length in Hfuel.
    destruct (enc_rel_head _ _ _ _ _ _ Ee) as [t Ht].
    destruct (enc_dec_rel vp0 cls l e vp vars te vp1 fuel (ts ++ TRA :: rest) He Hok HR Ee) as [vars1 [Hd1 [HR1 Hok1]]].
    { lia. }
    destruct (IH (acc ++ [proj_ep l e]) vp1 vars1 ts vp' fuel rest Hwf' Hok1 HR1 Er) as [vars' [Hd [HR' Hok']]].
    { subst te. cbn [length] in Hfuel. lia. }
    exists vars'. split; [|split; assumption].
    rewrite <- app_assoc. cbn [dec_rels]. subst te. cbn [app]. cbn [app] in Hd1. rewrite Hd1.
    rewrite Hd. cbn [map]. rewrite <- app_assoc. reflexivity.
Qed.

(* ------------------------------------------------------------------ *)
(* constraints *)

Lemma R_set_getp vp0 vp vars v : R vp0 vp vars -> R vp0 vp (dict_set v (getp v vars) vars).
Proof. intros HR w. rewrite getp_set_getp. apply HR. Qed.

Lemma dec_var_plain v rest vars : ascii_lower v = v -> not_lb rest ->
  dec_var (TSYM v :: rest) vars = Some (v, rest, dict_set v (getp v vars) vars).
Proof.
  intros Hl Hr. cbn [dec_var]. rewrite Hl. unfold getp.
  destruct rest as [|[] rest]; try reflexivity. contradiction.
Qed.

Definition c3_lower (c : cons3) : Prop :=
  let '(a, rel, b) := c in ascii_lower a = a /\ ascii_lower rel = rel /\ ascii_lower b = b.

Lemma enc_dec_hcons vp0 vp hs : forall acc vars fuel rest,
  Forall c3_lower hs -> R vp0 vp vars -> (length (enc_hcons hs) < fuel)%nat ->
  exists vars', dec_conses fuel (enc_hcons hs ++ TRA :: rest) acc vars = Some (acc ++ hs, rest, vars')
                /\ R vp0 vp vars'.
Proof.
  induction hs as [|[[hi rel] lo] hs IH]; intros acc vars fuel rest Hl HR Hfuel.
  - destruct fuel as [|fuel]; [cbn in Hfuel; lia|]. cbn. rewrite app_nil_r. eexists; split; [reflexivity | exact HR].
  - inversion Hl as [|? ? Hc Hl']; subst. cbn in Hc. destruct Hc as [H1 [H2 H3]].
    destruct fuel as [|fuel]; [cbn in Hfuel; lia|].
    cbn [enc_hcons flat_map app dec_conses]. unfold dec_cons1.
    rewrite dec_var_plain by (exact H1 || exact I).
    rewrite dec_var_plain; [| exact H3 |].
    2:{ fold (enc_hcons hs). destruct hs as [|[[a b] c] hs']; exact I. }
    rewrite H2. fold (enc_hcons hs).
    destruct (IH (acc ++ [(hi, rel, lo)]) (dict_set lo (getp lo (dict_set hi (getp hi vars) vars)) (dict_set hi (getp hi vars) vars))
                fuel rest Hl') as [vars' [Hd HR']].
    { apply R_set_getp. apply R_set_getp. exact HR. }
    { cbn [enc_hcons flat_map app length] in Hfuel. fold (enc_hcons hs) in Hfuel. lia. }
    exists vars'. split; [|exact HR']. etransitivity; [exact Hd|]. rewrite <- app_assoc. reflexivity.
Qed.

Lemma enc_var_head v vp tv vp' : enc_var v vp = Some (tv, vp') -> exists t, tv = TSYM v :: t.
Proof.
  unfold enc_var. destruct (dict_get v vp) as [[|p ps]|]; try (intros H; inversion H; subst; eexists; reflexivity).
  destruct (var_type v); [|discriminate]. intros H; inversion H; subst. eexists; reflexivity.
Qed.

Lemma enc_icons_head ics vp ti vp' rest : enc_icons ics vp = Some (ti, vp') -> not_lb (ti ++ TRA :: rest).
Proof.
  destruct ics as [|[[a rel] b] ics]; cbn [enc_icons]; intros H.
  - inversion H; subst. exact I.
  - destruct (enc_var a vp) as [[ta vp1]|] eqn:Ea; [|discriminate].
    destruct (enc_var b vp1) as [[tb vp2]|]; [|discriminate].
    destruct (enc_icons ics vp2) as [[ts vp3]|]; [|discriminate]. inversion H; subst.
    destruct (enc_var_head _ _ _ _ Ea) as [t ->]. exact I.
Qed.

Lemma enc_dec_icons vp0 ics : forall acc vp vars ti vp' fuel rest,
  Forall c3_lower ics -> vp_ok vp -> R vp0 vp vars -> enc_icons ics vp = Some (ti, vp') ->
  (length ti < fuel)%nat ->
  exists vars', dec_conses fuel (ti ++ TRA :: rest) acc vars = Some (acc ++ ics, rest, vars')
                /\ R vp0 vp' vars' /\ vp_ok vp'.
Proof.
  induction ics as [|[[a rel] b] ics IH]; intros acc vp vars ti vp' fuel rest Hl Hok HR Henc Hfuel.
  - cbn in Henc. inversion Henc; subst. destruct fuel as [|fuel]; [cbn in Hfuel; lia|].
    cbn. rewrite app_nil_r. eexists; split; [reflexivity | split; assumption].
  - cbn [enc_icons] in Henc. inversion Hl as [|? ? Hc Hl']; subst. cbn in Hc. destruct Hc as [H1 [H2 H3]].
    destruct (enc_var a vp) as [[ta vp1]|] eqn:Ea; [|discriminate].
    destruct (enc_var b vp1) as [[tb vp2]|] eqn:Eb; [|discriminate].
    destruct (enc_icons ics vp2) as [[ts vp3]|] eqn:Ei; [|discriminate].
    inversion Henc; subst. clear Henc.
    destruct fuel as [|fuel]; [cbn in Hfuel; lia|].
    destruct (enc_dec_var vp0 a vp vars ta vp1 (TSYM rel :: tb ++ ts ++ TRA :: rest) Hok HR H1 Ea I)
      as [vars1 [Hd1 [HR1 Hok1]]].
    destruct (enc_dec_var vp0 b vp1 vars1 tb vp2 (ts ++ TRA :: rest) Hok1 HR1 H3 Eb (enc_icons_head _ _ _ _ _ Ei))
      as [vars2 [Hd2 [HR2 Hok2]]].
    destruct (IH (acc ++ [(a, rel, b)]) vp2 vars2 ts vp' fuel rest Hl' Hok2 HR2 Ei) as [vars' [Hd [HR' Hok']]].
    { rewrite app_length in Hfuel. cbn [length] in Hfuel. rewrite app_length in Hfuel. lia. }
    exists vars'. split; [|split; assumption].
    destruct (enc_var_head _ _ _ _ Ea) as [t Ht].
    assert (Hshape : (ta ++ TSYM rel :: tb ++ ts) ++ TRA :: rest = ta ++ TSYM rel :: tb ++ ts ++ TRA :: rest).
    { rewrite <- app_assoc. cbn [app]. rewrite <- app_assoc. reflexivity. }
    rewrite Hshape. cbn [dec_conses].
    assert (Hhd : exists t', ta ++ TSYM rel :: tb ++ ts ++ TRA :: rest = TSYM a :: t').
    { subst ta. eexists. reflexivity. }
    destruct Hhd as [t' Ht']. rewrite Ht'. rewrite <- Ht'.
    unfold dec_cons1. rewrite Hd1. rewrite Hd2. rewrite H2. etransitivity; [exact Hd|]. rewrite <- app_assoc. reflexivity.
Qed.

(* ------------------------------------------------------------------ *)
(* the whole structure *)

Definition set_top (st : dstate) t := {| ds_top := Some t; ds_index := ds_index st; ds_rels := ds_rels st;
  ds_hcons := ds_hcons st; ds_icons := ds_icons st; ds_vars := ds_vars st |}.
Definition set_index (st : dstate) i vars := {| ds_top := ds_top st; ds_index := Some i; ds_rels := ds_rels st;
  ds_hcons := ds_hcons st; ds_icons := ds_icons st; ds_vars := vars |}.
Definition set_rels (st : dstate) r vars := {| ds_top := ds_top st; ds_index := ds_index st; ds_rels := r;
  ds_hcons := ds_hcons st; ds_icons := ds_icons st; ds_vars := vars |}.
Definition set_hcons (st : dstate) h vars := {| ds_top := ds_top st; ds_index := ds_index st; ds_rels := ds_rels st;
  ds_hcons := h; ds_icons := ds_icons st; ds_vars := vars |}.
Definition set_icons (st : dstate) i vars := {| ds_top := ds_top st; ds_index := ds_index st; ds_rels := ds_rels st;
  ds_hcons := ds_hcons st; ds_icons := i; ds_vars := vars |}.

Lemma feats_top fuel t more st : ascii_lower t = t ->
  dec_feats (S fuel) (TFEAT TOP_F :: TSYM t :: more) st = dec_feats fuel more (set_top st t).
Proof. intros H. cbn [dec_feats]. change (ascii_upper TOP_F) with TOP_F. cbn [str_eqb LTOP_F TOP_F]. 
  change (str_eqb TOP_F LTOP_F || str_eqb TOP_F TOP_F) with true. cbn iota. rewrite H. reflexivity. Qed.

Lemma feats_index fuel ti more st v vars' :
  dec_var (ti ++ more) (ds_vars st) = Some (v, more, vars') ->
  dec_feats (S fuel) (TFEAT INDEX_F :: ti ++ more) st = dec_feats fuel more (set_index st v vars').
Proof. intros H. cbn [dec_feats]. change (ascii_upper INDEX_F) with INDEX_F.
  change (str_eqb INDEX_F LTOP_F || str_eqb INDEX_F TOP_F) with false. change (str_eqb INDEX_F INDEX_F) with true.
  cbn iota. rewrite H. reflexivity. Qed.

Lemma feats_rels fuel tr more st rels vars' :
  dec_rels fuel (tr ++ TRA :: more) (ds_rels st) (ds_vars st) = Some (rels, more, vars') ->
  dec_feats (S fuel) (TFEAT RELS_F :: TLA :: tr ++ TRA :: more) st = dec_feats fuel more (set_rels st rels vars').
Proof. intros H. cbn [dec_feats]. change (ascii_upper RELS_F) with RELS_F.
  change (str_eqb RELS_F LTOP_F || str_eqb RELS_F TOP_F) with false. change (str_eqb RELS_F INDEX_F) with false.
  change (str_eqb RELS_F RELS_F) with true. cbn iota. rewrite H. reflexivity. Qed.

Lemma feats_hcons fuel th more st hs vars' :
  dec_conses fuel (th ++ TRA :: more) (ds_hcons st) (ds_vars st) = Some (hs, more, vars') ->
  dec_feats (S fuel) (TFEAT HCONS_F :: TLA :: th ++ TRA :: more) st = dec_feats fuel more (set_hcons st hs vars').
Proof. intros H. cbn [dec_feats]. change (ascii_upper HCONS_F) with HCONS_F.
  change (str_eqb HCONS_F LTOP_F || str_eqb HCONS_F TOP_F) with false. change (str_eqb HCONS_F INDEX_F) with false.
  change (str_eqb HCONS_F RELS_F) with false. change (str_eqb HCONS_F HCONS_F) with true. cbn iota.
  rewrite H. reflexivity. Qed.

Lemma feats_icons fuel ti more st ics vars' :
  dec_conses fuel (ti ++ TRA :: more) (ds_icons st) (ds_vars st) = Some (ics, more, vars') ->
  dec_feats (S fuel) (TFEAT ICONS_F :: TLA :: ti ++ TRA :: more) st = dec_feats fuel more (set_icons st ics vars').
Proof. intros H. cbn [dec_feats]. change (ascii_upper ICONS_F) with ICONS_F.
  change (str_eqb ICONS_F LTOP_F || str_eqb ICONS_F TOP_F) with false. change (str_eqb ICONS_F INDEX_F) with false.
  change (str_eqb ICONS_F RELS_F) with false. change (str_eqb ICONS_F HCONS_F) with false.
  change (str_eqb ICONS_F ICONS_F) with true. cbn iota. rewrite H. reflexivity. Qed.

Lemma feats_end fuel more st : dec_feats (S fuel) (TRB :: more) st = Some (st, TRB :: more).
Proof. reflexivity. Qed.

Lemma not_lb_wrap f b more : not_lb more -> not_lb (wrap f b ++ more).
Proof. intros H. destruct b; [exact H | exact I]. Qed.

Definition proj_lnk (l : bool) (k : lnk) : lnk := if l && lnk_truthy k then k else LNone.

Definition proj_mrs (l : bool) (m : xmrs) (vars : vprops) : xmrs :=
  {| xm_top := xm_top m; xm_index := xm_index m; xm_rels := map (proj_ep l) (xm_rels m);
     xm_hcons := xm_hcons m; xm_icons := xm_icons m; xm_vars := vars;
     xm_lnk := proj_lnk l (xm_lnk m); xm_surface := if l then xm_surface m else None |}.

Definition opt_lower (o : option str) : Prop := match o with Some s => ascii_lower s = s | None => True end.

Definition mrs_wf (m : xmrs) : Prop :=
  opt_lower (xm_top m) /\ opt_lower (xm_index m) /\ Forall ep_wf (xm_rels m) /\
  Forall c3_lower (xm_hcons m) /\ Forall c3_lower (xm_icons m) /\ vp_ok (xm_vars m) /\
  forallb xep_ok (xm_rels m) = true.

Lemma vp_ok_nil : vp_ok [].
Proof. split; constructor. Qed.

Lemma R_init vp0 : R vp0 vp0 [].
Proof. intros v. left. split; reflexivity. Qed.

Lemma xep_ok_proj l e : NoDup (map fst (x_args e)) -> xep_ok (proj_ep l e) = xep_ok e.
Proof.
  intros Hnd. unfold xep_ok. cbn [proj_ep x_args].
  rewrite (dict_get_perm ARG0 (x_args e) (sort_roles (x_args e)) Hnd (Permutation_sym (sort_roles_perm _))).
  reflexivity.
Qed.

Lemma length_wrap f b : (length (wrap f b) <= length b + 3)%nat /\ (length b <= length (wrap f b))%nat.
Proof. destruct b; cbn [wrap length]; [lia|]. rewrite app_length. cbn. lia. Qed.

(* the feature loop on the encoder's body *)
Lemma feats_all cls l m vp0 ttop tindex vp1 tr vp2 tic vp3 rest fuel :
  mrs_wf m -> vp_ok vp0 ->
  ttop = match xm_top m with Some t => [TFEAT TOP_F; TSYM t] | None => [] end ->
  match xm_index m with
  | Some i => match enc_var i vp0 with Some (ti, v1) => Some (TFEAT INDEX_F :: ti, v1) | None => None end
  | None => Some ([], vp0) end = Some (tindex, vp1) ->
  enc_rels cls l (xm_rels m) vp1 = Some (tr, vp2) ->
  enc_icons (xm_icons m) vp2 = Some (tic, vp3) ->
  let body := ttop ++ tindex ++ wrap RELS_F tr ++ wrap HCONS_F (enc_hcons (xm_hcons m)) ++ wrap ICONS_F tic
              ++ TRB :: rest in
  (length body < fuel)%nat ->
  exists vars',
    dec_feats fuel body {| ds_top := None; ds_index := None; ds_rels := []; ds_hcons := []; ds_icons := []; ds_vars := [] |}
    = Some ({| ds_top := xm_top m; ds_index := xm_index m; ds_rels := map (proj_ep l) (xm_rels m);
               ds_hcons := xm_hcons m; ds_icons := xm_icons m; ds_vars := vars' |}, TRB :: rest)
    /\ R vp0 vp3 vars'.
Proof.
  intros [Htop [Hidx [Hrels [Hhc [Hic [_ _]]]]]] Hok0 -> Hei Her Heic body Hfuel. subst body.
  set (st0 := {| ds_top := None; ds_index := None; ds_rels := []; ds_hcons := []; ds_icons := []; ds_vars := [] |}).
  (* top *)
  assert (Htopstep : exists fuel1,
    (length (tindex ++ wrap RELS_F tr ++ wrap HCONS_F (enc_hcons (xm_hcons m)) ++ wrap ICONS_F tic ++ TRB :: rest) < fuel1)%nat /\
    dec_feats fuel (match xm_top m with Some t => [TFEAT TOP_F; TSYM t] | None => [] end ++ tindex ++ wrap RELS_F tr ++
                    wrap HCONS_F (enc_hcons (xm_hcons m)) ++ wrap ICONS_F tic ++ TRB :: rest) st0 =
    dec_feats fuel1 (tindex ++ wrap RELS_F tr ++ wrap HCONS_F (enc_hcons (xm_hcons m)) ++ wrap ICONS_F tic ++ TRB :: rest)
      {| ds_top := xm_top m; ds_index := None; ds_rels := []; ds_hcons := []; ds_icons := []; ds_vars := [] |}).
  { destruct (xm_top m) as [t|].
    - destruct fuel as [|fuel]; [lia|]. exists fuel. split; [cbn [app length] in Hfuel; lia|].
      cbn [app]. rewrite feats_top by exact Htop. reflexivity.
    - exists fuel. split; [exact Hfuel | reflexivity]. }
  destruct Htopstep as [fuel1 [Hf1 ->]]. clear Hfuel fuel.
  (* index *)
  assert (Hidxstep : exists fuel2 vars1,
    (length (wrap RELS_F tr ++ wrap HCONS_F (enc_hcons (xm_hcons m)) ++ wrap ICONS_F tic ++ TRB :: rest) < fuel2)%nat /\
    dec_feats fuel1 (tindex ++ wrap RELS_F tr ++ wrap HCONS_F (enc_hcons (xm_hcons m)) ++ wrap ICONS_F tic ++ TRB :: rest)
      {| ds_top := xm_top m; ds_index := None; ds_rels := []; ds_hcons := []; ds_icons := []; ds_vars := [] |} =
    dec_feats fuel2 (wrap RELS_F tr ++ wrap HCONS_F (enc_hcons (xm_hcons m)) ++ wrap ICONS_F tic ++ TRB :: rest)
      {| ds_top := xm_top m; ds_index := xm_index m; ds_rels := []; ds_hcons := []; ds_icons := []; ds_vars := vars1 |}
    /\ R vp0 vp1 vars1 /\ vp_ok vp1).
  { destruct (xm_index m) as [i|].
    - destruct (enc_var i vp0) as [[ti v1]|] eqn:Ev; [|discriminate]. inversion Hei; subst. clear Hei.
      destruct fuel1 as [|fuel1]; [lia|].
      destruct (enc_dec_var vp0 i vp0 [] ti vp1
                  (wrap RELS_F tr ++ wrap HCONS_F (enc_hcons (xm_hcons m)) ++ wrap ICONS_F tic ++ TRB :: rest)
                  Hok0 (R_init vp0) Hidx Ev) as [vars1 [Hd [HR1 Hok1]]].
      { apply not_lb_wrap. apply not_lb_wrap. apply not_lb_wrap. exact I. }
      exists fuel1, vars1. split; [cbn [app length] in Hf1; rewrite app_length in Hf1; lia|].
      split; [|split; assumption]. cbn [app]. rewrite (feats_index fuel1 ti _ _ i vars1) by exact Hd. reflexivity.
    - inversion Hei; subst. exists fuel1, []. split; [exact Hf1|]. split; [reflexivity|]. split; [apply R_init | exact Hok0]. }
  destruct Hidxstep as [fuel2 [vars1 [Hf2 [-> [HR1 Hok1]]]]]. clear Hf1 fuel1.
  (* rels *)
  assert (Hrelstep : exists fuel3 vars2,
    (length (wrap HCONS_F (enc_hcons (xm_hcons m)) ++ wrap ICONS_F tic ++ TRB :: rest) < fuel3)%nat /\
    dec_feats fuel2 (wrap RELS_F tr ++ wrap HCONS_F (enc_hcons (xm_hcons m)) ++ wrap ICONS_F tic ++ TRB :: rest)
      {| ds_top := xm_top m; ds_index := xm_index m; ds_rels := []; ds_hcons := []; ds_icons := []; ds_vars := vars1 |} =
    dec_feats fuel3 (wrap HCONS_F (enc_hcons (xm_hcons m)) ++ wrap ICONS_F tic ++ TRB :: rest)
      {| ds_top := xm_top m; ds_index := xm_index m; ds_rels := map (proj_ep l) (xm_rels m); ds_hcons := [];
         ds_icons := []; ds_vars := vars2 |}
    /\ R vp0 vp2 vars2 /\ vp_ok vp2).
  { destruct tr as [|t0 tr0] eqn:Etr.
    - (* no predications *)
      destruct (xm_rels m) as [|e rels'] eqn:Erels.
      + cbn in Her. inversion Her; subst. exists fuel2, vars1. cbn [wrap app map]. split; [exact Hf2|].
        split; [reflexivity | split; assumption].
      + exfalso. cbn [enc_rels] in Her. destruct (enc_rel cls l e vp1) as [[te v1]|] eqn:Ee; [|discriminate].
        destruct (enc_rels cls l rels' v1) as [[ts v2]|]; [|discriminate]. inversion Her.
        destruct (enc_rel_head _ _ _ _ _ _ Ee) as [t ->]. discriminate.
    - clear Etr. assert (Hw : wrap RELS_F (t0 :: tr0) = TFEAT RELS_F :: TLA :: (t0 :: tr0) ++ [TRA]) by reflexivity.
      remember (t0 :: tr0) as trr eqn:Etr'. clear Etr' t0 tr0 tr. rename trr into tr.
      destruct fuel2 as [|fuel2]; [lia|].
      destruct (enc_dec_rels vp0 cls l (xm_rels m) [] vp1 vars1 tr vp2 fuel2
                  (wrap HCONS_F (enc_hcons (xm_hcons m)) ++ wrap ICONS_F tic ++ TRB :: rest) Hrels Hok1 HR1 Her)
        as [vars2 [Hd [HR2 Hok2]]].
      { rewrite Hw in Hf2. cbn [app length] in Hf2. rewrite !app_length in Hf2. lia. }
      exists fuel2, vars2. split.
      { rewrite Hw in Hf2. cbn [app length] in Hf2. rewrite !app_length in Hf2. cbn [length] in Hf2. rewrite !app_length. cbn [length]. lia. }
      split; [|split; assumption]. rewrite Hw. cbn [app]. rewrite <- app_assoc. cbn [app].
      rewrite (feats_rels fuel2 tr _ _ (map (proj_ep l) (xm_rels m)) vars2) by exact Hd. reflexivity. }
  destruct Hrelstep as [fuel3 [vars2 [Hf3 [-> [HR2 Hok2]]]]]. clear Hf2 fuel2.
  (* hcons *)
  assert (Hhcstep : exists fuel4 vars3,
    (length (wrap ICONS_F tic ++ TRB :: rest) < fuel4)%nat /\
    dec_feats fuel3 (wrap HCONS_F (enc_hcons (xm_hcons m)) ++ wrap ICONS_F tic ++ TRB :: rest)
      {| ds_top := xm_top m; ds_index := xm_index m; ds_rels := map (proj_ep l) (xm_rels m); ds_hcons := [];
         ds_icons := []; ds_vars := vars2 |} =
    dec_feats fuel4 (wrap ICONS_F tic ++ TRB :: rest)
      {| ds_top := xm_top m; ds_index := xm_index m; ds_rels := map (proj_ep l) (xm_rels m); ds_hcons := xm_hcons m;
         ds_icons := []; ds_vars := vars3 |}
    /\ R vp0 vp2 vars3).
  { destruct (xm_hcons m) as [|h hs] eqn:Eh.
    - exists fuel3, vars2. cbn [enc_hcons flat_map wrap app]. split; [exact Hf3|]. split; [reflexivity | exact HR2].
    - rewrite <- Eh in *.
      assert (Hw : wrap HCONS_F (enc_hcons (xm_hcons m)) = TFEAT HCONS_F :: TLA :: enc_hcons (xm_hcons m) ++ [TRA]).
      { rewrite Eh. destruct h as [[a b] c]. reflexivity. }
      destruct fuel3 as [|fuel3]; [lia|].
      destruct (enc_dec_hcons vp0 vp2 (xm_hcons m) [] vars2 fuel3 (wrap ICONS_F tic ++ TRB :: rest) Hhc HR2) as [vars3 [Hd HR3]].
      { rewrite Hw in Hf3. cbn [app length] in Hf3. rewrite !app_length in Hf3. lia. }
      exists fuel3, vars3. split.
      { rewrite Hw in Hf3. cbn [app length] in Hf3. rewrite !app_length in Hf3. cbn [length] in Hf3. rewrite !app_length. cbn [length]. lia. }
      split; [|exact HR3]. rewrite Hw. cbn [app]. rewrite <- app_assoc. cbn [app].
      rewrite (feats_hcons fuel3 _ _ _ (xm_hcons m) vars3) by exact Hd. reflexivity. }
  destruct Hhcstep as [fuel4 [vars3 [Hf4 [-> HR3]]]]. clear Hf3 fuel3.
  (* icons *)
  destruct tic as [|t0 tic0] eqn:Etic.
  - destruct (xm_icons m) as [|[[a rel] b] ics] eqn:Eics.
    + cbn in Heic. inversion Heic; subst. cbn [wrap app]. destruct fuel4 as [|fuel4]; [cbn in Hf4; lia|].
      exists vars3. split; [apply feats_end | exact HR3].
    + exfalso. cbn [enc_icons] in Heic.
      destruct (enc_var a vp2) as [[ta v1]|] eqn:Ea; [|discriminate].
      destruct (enc_var b v1) as [[tb v2]|]; [|discriminate].
      destruct (enc_icons ics v2) as [[ts v3]|]; [|discriminate]. inversion Heic.
      destruct (enc_var_head _ _ _ _ Ea) as [t ->]. discriminate.
  - clear Etic. assert (Hw : wrap ICONS_F (t0 :: tic0) = TFEAT ICONS_F :: TLA :: (t0 :: tic0) ++ [TRA]) by reflexivity.
    remember (t0 :: tic0) as ticc eqn:Etic'. clear Etic' t0 tic0 tic. rename ticc into tic.
    destruct fuel4 as [|fuel4]; [lia|].
    destruct (enc_dec_icons vp0 (xm_icons m) [] vp2 vars3 tic vp3 fuel4 (TRB :: rest) Hic Hok2 HR3 Heic) as [vars4 [Hd [HR4 Hok4]]].
    { rewrite Hw in Hf4. cbn [app length] in Hf4. rewrite !app_length in Hf4. lia. }
    exists vars4. split; [|exact HR4]. rewrite Hw. cbn [app]. rewrite <- app_assoc. cbn [app].
    rewrite (feats_icons fuel4 tic _ _ (xm_icons m) vars4) by exact Hd.
    destruct fuel4 as [|fuel4].
    { rewrite Hw in Hf4. cbn [app length] in Hf4. rewrite !app_length in Hf4. cbn [length] in Hf4. lia. }
    apply feats_end.
Qed.

Definition feat_or_rb (ts : list stok) : Prop :=
  match ts with TFEAT _ :: _ => True | TRB :: _ => True | _ => False end.

Lemma feat_or_rb_wrap f b more : feat_or_rb more -> feat_or_rb (wrap f b ++ more).
Proof. intros H. destruct b; [exact H | exact I]. Qed.

Lemma forallb_xep_ok_proj l rels :
  Forall ep_wf rels -> forallb xep_ok rels = true -> forallb xep_ok (map (proj_ep l) rels) = true.
Proof.
  induction rels as [|e rels IH]; intros Hwf Hok; [reflexivity|].
  inversion Hwf as [|? ? [_ [_ [Hnd _]]] Hwf']; subst. cbn [map forallb] in *.
  apply andb_true_iff in Hok. destruct Hok as [H1 H2]. rewrite xep_ok_proj by exact Hnd. rewrite H1. cbn.
  apply IH; assumption.
Qed.

(* decoding the encoder's token stream, whatever follows it *)
Theorem dec_enc_mrs cls p l m toks vp_left rest :
  mrs_wf m -> enc_mrs_full cls p l m = Some (toks, vp_left) ->
  exists vars', dec_mrs (toks ++ rest) = Some (proj_mrs l m vars', rest) /\
    forall v, getp v vp_left = [] -> getp v vars' = sort_props (getp v (if p then xm_vars m else [])).
Proof.
  intros Hwf Henc. unfold enc_mrs_full in Henc. cbv zeta in Henc.
  set (vp0 := if p then xm_vars m else @nil (str * list (str * str))) in *.
  assert (Hok0 : vp_ok vp0).
  { subst vp0. destruct p; [apply Hwf | apply vp_ok_nil]. }
  match type of Henc with match ?X with _ => _ end = _ => destruct X as [[tindex vp1]|] eqn:Hei; [|discriminate] end.
  destruct (enc_rels cls l (xm_rels m) vp1) as [[tr vp2]|] eqn:Her; [|discriminate].
  destruct (enc_icons (xm_icons m) vp2) as [[tic vp3]|] eqn:Heic; [|discriminate].
  inversion Henc; subst toks vp_left. clear Henc.
  set (ttop := match xm_top m with Some t => [TFEAT TOP_F; TSYM t] | None => [] end).
  set (body := ttop ++ tindex ++ wrap RELS_F tr ++ wrap HCONS_F (enc_hcons (xm_hcons m)) ++ wrap ICONS_F tic ++ TRB :: rest).
  destruct (feats_all cls l m vp0 ttop tindex vp1 tr vp2 tic vp3 rest (S (length body)) Hwf Hok0 eq_refl Hei Her Heic)
    as [vars' [Hd HR]].
  { fold body. lia. }
  fold body in Hd.
  assert (Hbody : feat_or_rb body).
  { subst body ttop. destruct (xm_top m); [exact I|]. cbn [app].
    assert (Hti : tindex = [] \/ exists t, tindex = TFEAT INDEX_F :: t).
    { destruct (xm_index m).
      - match type of Hei with match ?X with _ => _ end = _ => destruct X as [[ti v1]|]; [|discriminate] end.
        inversion Hei; subst. right. eexists; reflexivity.
      - inversion Hei; subst. left; reflexivity. }
    destruct Hti as [-> | [t ->]]; [|exact I]. cbn [app].
    apply feat_or_rb_wrap. apply feat_or_rb_wrap. apply feat_or_rb_wrap. exact I. }
  assert (Hnl : not_lnk body) by (destruct body as [|[] ?]; try exact I; contradiction).
  assert (Hnd : not_dq body) by (destruct body as [|[] ?]; try exact I; contradiction).
  exists vars'. split.
  2:{ intros v Hv. destruct (HR v) as [[H1 H2]|[H1 H2]]; [|exact H2].
      rewrite H2. change ([] = sort_props (getp v vp0)). rewrite <- H1, Hv. reflexivity. }
  assert (Hshape : (TLB :: (if l then (if lnk_truthy (xm_lnk m) then [TLNK (xm_lnk m)] else []) ++ enc_surface (xm_surface m) else [])
                     ++ ttop ++ tindex ++ wrap RELS_F tr ++ wrap HCONS_F (enc_hcons (xm_hcons m)) ++ wrap ICONS_F tic ++ [TRB]) ++ rest
                   = TLB :: (if l then (if lnk_truthy (xm_lnk m) then [TLNK (xm_lnk m)] else []) ++ enc_surface (xm_surface m) else [])
                     ++ body).
  { subst body. cbn [app]. rewrite <- !app_assoc. reflexivity. }
  rewrite Hshape. clear Hshape.
  assert (Hfin : forall lk surf,
            lk = proj_lnk l (xm_lnk m) -> surf = (if l then xm_surface m else None) ->
            match dec_feats (S (length body)) body
                    {| ds_top := None; ds_index := None; ds_rels := []; ds_hcons := []; ds_icons := []; ds_vars := [] |} with
            | Some (st, TRB :: ts4) =>
                if forallb xep_ok (ds_rels st) then
                  Some ({| xm_top := ds_top st; xm_index := ds_index st; xm_rels := ds_rels st;
                           xm_hcons := ds_hcons st; xm_icons := ds_icons st; xm_vars := ds_vars st;
                           xm_lnk := lk; xm_surface := surf |}, ts4)
                else None
            | _ => None
            end = Some (proj_mrs l m vars', rest)).
  { intros lk surf -> ->. rewrite Hd. cbn [ds_rels ds_top ds_index ds_hcons ds_icons ds_vars].
    rewrite forallb_xep_ok_proj by apply Hwf. reflexivity. }
  unfold dec_mrs. destruct l.
  - destruct (lnk_truthy (xm_lnk m)) eqn:Et.
    + cbn [app dec_lnk]. rewrite dec_dq_enc by exact Hnd. apply Hfin; [|reflexivity].
      unfold proj_lnk. rewrite Et. reflexivity.
    + cbn [app]. replace (dec_lnk (enc_surface (xm_surface m) ++ body)) with (LNone, enc_surface (xm_surface m) ++ body).
      2:{ destruct (xm_surface m); cbn; [reflexivity|]. destruct body as [|[] ?]; try reflexivity. contradiction. }
      rewrite dec_dq_enc by exact Hnd. apply Hfin; [|reflexivity]. unfold proj_lnk. rewrite Et. reflexivity.
  - cbn [app]. replace (dec_lnk body) with (LNone, body) by (destruct body as [|[] ?]; try reflexivity; contradiction).
    replace (dec_dq body) with (@None str, body) by (destruct body as [|[] ?]; try reflexivity; contradiction).
    apply Hfin; reflexivity.
Qed.

(* ------------------------------------------------------------------ *)
(* properties are emitted exactly once, on the first mention *)

Lemma getp_del_nil v w vp : vp_ok vp -> getp w vp = [] -> getp w (dict_del v vp) = [].
Proof.
  intros Hok H. destruct (str_eqb v w) eqn:E.
  - apply str_eqb_spec in E. subst. unfold getp. rewrite dict_get_del_same by apply Hok. reflexivity.
  - unfold getp. rewrite dict_get_del_other; [exact H|]. intros X; subst. rewrite str_eqb_refl in E. discriminate.
Qed.

Lemma enc_var_clears v vp tv vp' : vp_ok vp -> enc_var v vp = Some (tv, vp') ->
  getp v vp' = [] /\ (forall w, getp w vp = [] -> getp w vp' = []) /\ vp_ok vp'.
Proof.
  intros Hok H. unfold enc_var in H. destruct (dict_get v vp) as [[|q qs]|] eqn:E.
  - inversion H; subst. split; [unfold getp; rewrite E; reflexivity|]. split; [tauto | exact Hok].
  - destruct (var_type v); [|discriminate]. inversion H; subst. split.
    + unfold getp. rewrite dict_get_del_same by apply Hok. reflexivity.
    + split; [intros w; apply getp_del_nil; exact Hok | apply vp_ok_del; exact Hok].
  - inversion H; subst. split; [unfold getp; rewrite E; reflexivity|]. split; [tauto | exact Hok].
Qed.

(* a later mention of the same variable is written bare *)
Lemma enc_var_bare v vp : getp v vp = [] -> enc_var v vp = Some ([TSYM v], vp).
Proof. unfold getp, enc_var. destruct (dict_get v vp) as [[|q qs]|]; [reflexivity | discriminate | reflexivity]. Qed.

Lemma enc_args_clears L : forall vp ta vp', vp_ok vp -> enc_args L vp = Some (ta, vp') ->
  (forall r a, In (r, a) L -> r <> CARG_ROLE -> getp a vp' = []) /\
  (forall w, getp w vp = [] -> getp w vp' = []) /\ vp_ok vp'.
Proof.
  induction L as [|[r a] L IH]; intros vp ta vp' Hok H; cbn [enc_args] in H.
  - inversion H; subst. split; [intros ? ? []|]. split; [tauto | exact Hok].
  - destruct (str_eqb r CARG_ROLE) eqn:Ec.
    + destruct (enc_args L vp) as [[ts v2]|] eqn:Ea; [|discriminate]. inversion H; subst.
      destruct (IH _ _ _ Hok Ea) as [H1 [H2 H3]]. split; [|split; assumption].
      intros r' a' [Hin|Hin] Hne; [|eapply H1; eassumption]. inversion Hin; subst.
      apply str_eqb_spec in Ec. contradiction.
    + destruct (enc_var a vp) as [[tv vp1]|] eqn:Ev; [|discriminate].
      destruct (enc_args L vp1) as [[ts v2]|] eqn:Ea; [|discriminate]. inversion H; subst.
      destruct (enc_var_clears _ _ _ _ Hok Ev) as [Ha [Hm Hok1]].
      destruct (IH _ _ _ Hok1 Ea) as [H1 [H2 H3]]. split; [|split; [|exact H3]].
      * intros r' a' [Hin|Hin] Hne; [|eapply H1; eassumption]. inversion Hin; subst. apply H2. exact Ha.
      * intros w Hw. apply H2. apply Hm. exact Hw.
Qed.

Definition arg_vars (e : xep) : list str :=
  flat_map (fun kv => if str_eqb (fst kv) CARG_ROLE then [] else [snd kv]) (x_args e).

Definition mentioned (m : xmrs) : list str :=
  (match xm_index m with Some i => [i] | None => [] end) ++ flat_map arg_vars (xm_rels m) ++
  flat_map (fun c => let '(a, _, b) := c in [a; b]) (xm_icons m).

Lemma enc_rel_clears cls l e vp te vp' : vp_ok vp -> enc_rel cls l e vp = Some (te, vp') ->
  (forall a, In a (arg_vars e) -> getp a vp' = []) /\ (forall w, getp w vp = [] -> getp w vp' = []) /\ vp_ok vp'.
Proof.
  intros Hok H. unfold enc_rel in H. destruct (enc_args (sort_roles (x_args e)) vp) as [[ta v1]|] eqn:Ea; [|discriminate].
  inversion H; subst. destruct (enc_args_clears _ _ _ _ Hok Ea) as [H1 [H2 H3]]. split; [|split; assumption].
  intros a Ha. unfold arg_vars in Ha. apply in_flat_map in Ha. destruct Ha as [[r a'] [Hin Hx]]. cbn [fst snd] in Hx.
  destruct (str_eqb r CARG_ROLE) eqn:Ec; [destruct Hx|]. destruct Hx as [<-|[]].
  apply (H1 r a').
  - eapply Permutation_in; [apply Permutation_sym; apply sort_roles_perm | exact Hin].
  - intros X; subst. rewrite str_eqb_refl in Ec. discriminate.
Qed.

Lemma enc_rels_clears cls l rels : forall vp tr vp', vp_ok vp -> enc_rels cls l rels vp = Some (tr, vp') ->
  (forall a, In a (flat_map arg_vars rels) -> getp a vp' = []) /\ (forall w, getp w vp = [] -> getp w vp' = []) /\ vp_ok vp'.
Proof.
  induction rels as [|e rels IH]; intros vp tr vp' Hok H; cbn [enc_rels] in H.
  - inversion H; subst. split; [intros ? []|]. split; [tauto | exact Hok].
  - destruct (enc_rel cls l e vp) as [[te vp1]|] eqn:Ee; [|discriminate].
    destruct (enc_rels cls l rels vp1) as [[ts vp2]|] eqn:Er; [|discriminate]. inversion H; subst.
    destruct (enc_rel_clears _ _ _ _ _ _ Hok Ee) as [H1 [H2 H3]].
    destruct (IH _ _ _ H3 Er) as [K1 [K2 K3]]. split; [|split; [|exact K3]].
    + intros a Ha. cbn [flat_map] in Ha. apply in_app_iff in Ha. destruct Ha as [Ha|Ha]; [apply K2; apply H1; exact Ha | apply K1; exact Ha].
    + intros w Hw. apply K2. apply H2. exact Hw.
Qed.

Lemma enc_icons_clears ics : forall vp ti vp', vp_ok vp -> enc_icons ics vp = Some (ti, vp') ->
  (forall a, In a (flat_map (fun c : cons3 => let '(a, _, b) := c in [a; b]) ics) -> getp a vp' = []) /\
  (forall w, getp w vp = [] -> getp w vp' = []) /\ vp_ok vp'.
Proof.
  induction ics as [|[[a rel] b] ics IH]; intros vp ti vp' Hok H; cbn [enc_icons] in H.
  - inversion H; subst. split; [intros ? []|]. split; [tauto | exact Hok].
  - destruct (enc_var a vp) as [[ta vp1]|] eqn:Ea; [|discriminate].
    destruct (enc_var b vp1) as [[tb vp2]|] eqn:Eb; [|discriminate].
    destruct (enc_icons ics vp2) as [[ts vp3]|] eqn:Ei; [|discriminate]. inversion H; subst.
    destruct (enc_var_clears _ _ _ _ Hok Ea) as [Ha [Hma Hok1]].
    destruct (enc_var_clears _ _ _ _ Hok1 Eb) as [Hb [Hmb Hok2]].
    destruct (IH _ _ _ Hok2 Ei) as [K1 [K2 K3]]. split; [|split; [|exact K3]].
    + intros x Hx. cbn [flat_map app In] in Hx. destruct Hx as [<-|[<-|Hx]].
      * apply K2. apply Hmb. exact Ha.
      * apply K2. exact Hb.
      * apply K1. exact Hx.
    + intros w Hw. apply K2. apply Hmb. apply Hma. exact Hw.
Qed.

Theorem enc_mrs_clears cls l m toks vp_left :
  vp_ok (xm_vars m) -> enc_mrs_full cls true l m = Some (toks, vp_left) ->
  (forall v, In v (mentioned m) -> getp v vp_left = []) /\
  (forall v, getp v (xm_vars m) = [] -> getp v vp_left = []).
Proof.
  intros Hok Henc. unfold enc_mrs_full in Henc. cbv zeta in Henc.
  match type of Henc with match ?X with _ => _ end = _ => destruct X as [[tindex vp1]|] eqn:Hei; [|discriminate] end.
  destruct (enc_rels cls l (xm_rels m) vp1) as [[tr vp2]|] eqn:Her; [|discriminate].
  destruct (enc_icons (xm_icons m) vp2) as [[tic vp3]|] eqn:Heic; [|discriminate].
  inversion Henc; subst toks vp_left. clear Henc.
  assert (H1 : (forall v, In v (match xm_index m with Some i => [i] | None => [] end) -> getp v vp1 = []) /\
               (forall w, getp w (xm_vars m) = [] -> getp w vp1 = []) /\ vp_ok vp1).
  { destruct (xm_index m) as [i|].
    - destruct (enc_var i (xm_vars m)) as [[ti v1]|] eqn:Ev; [|discriminate]. inversion Hei; subst.
      destruct (enc_var_clears _ _ _ _ Hok Ev) as [Ha [Hm Hok1]]. split; [|split; assumption].
      intros v [<-|[]]. exact Ha.
    - inversion Hei; subst. split; [intros ? []|]. split; [tauto | exact Hok]. }
  destruct H1 as [I1 [I2 I3]].
  destruct (enc_rels_clears _ _ _ _ _ _ I3 Her) as [J1 [J2 J3]].
  destruct (enc_icons_clears _ _ _ _ J3 Heic) as [K1 [K2 K3]].
  split.
  - intros v Hv. unfold mentioned in Hv. rewrite !in_app_iff in Hv. destruct Hv as [Hv|[Hv|Hv]].
    + apply K2. apply J2. apply I1. exact Hv.
    + apply K2. apply J1. exact Hv.
    + apply K1. exact Hv.
  - intros v Hv. apply K2. apply J2. apply I2. exact Hv.
Qed.

(* lossless: when every variable that has properties is mentioned, every
   variable's decoded properties are the original ones in priority order *)
Theorem dec_enc_mrs_lossless cls l m toks vp_left rest :
  mrs_wf m -> enc_mrs_full cls true l m = Some (toks, vp_left) ->
  (forall v, getp v (xm_vars m) <> [] -> In v (mentioned m)) ->
  exists vars', dec_mrs (toks ++ rest) = Some (proj_mrs l m vars', rest) /\
    forall v, getp v vars' = sort_props (getp v (xm_vars m)).
Proof.
  intros Hwf Henc Hexpr.
  destruct (dec_enc_mrs cls true l m toks vp_left rest Hwf Henc) as [vars' [Hd Hv]].
  exists vars'. split; [exact Hd|]. intros v. apply Hv.
  destruct (enc_mrs_clears cls l m toks vp_left (proj1 (proj2 (proj2 (proj2 (proj2 (proj2 Hwf)))))) Henc) as [C1 C2].
  destruct (getp v (xm_vars m)) as [|q qs] eqn:E.
  - apply C2. exact E.
  - apply C1. apply Hexpr. rewrite E. discriminate.
Qed.

(* with properties suppressed no variable carries any *)
Theorem dec_enc_mrs_noprops cls l m toks vp_left rest :
  mrs_wf m -> enc_mrs_full cls false l m = Some (toks, vp_left) ->
  exists vars', dec_mrs (toks ++ rest) = Some (proj_mrs l m vars', rest) /\ forall v, getp v vars' = [].
Proof.
  intros Hwf Henc.
  destruct (dec_enc_mrs cls false l m toks vp_left rest Hwf Henc) as [vars' [Hd Hv]].
  exists vars'. split; [exact Hd|]. intros v. rewrite Hv; [reflexivity|].
  (* nothing is left to emit because nothing was there *)
  clear Hd Hv. unfold enc_mrs_full in Henc. cbv zeta in Henc.
  match type of Henc with match ?X with _ => _ end = _ => destruct X as [[tindex vp1]|] eqn:Hei; [|discriminate] end.
  destruct (enc_rels cls l (xm_rels m) vp1) as [[tr vp2]|] eqn:Her; [|discriminate].
  destruct (enc_icons (xm_icons m) vp2) as [[tic vp3]|] eqn:Heic; [|discriminate].
  inversion Henc; subst toks vp_left. clear Henc.
  assert (H1 : (forall w, getp w vp1 = []) /\ vp_ok vp1).
  { destruct (xm_index m) as [i|].
    - cbn [enc_var dict_get] in Hei. inversion Hei; subst. split; [reflexivity | apply vp_ok_nil].
    - inversion Hei; subst. split; [reflexivity | apply vp_ok_nil]. }
  destruct H1 as [I2 I3].
  destruct (enc_rels_clears _ _ _ _ _ _ I3 Her) as [J1 [J2 J3]].
  destruct (enc_icons_clears _ _ _ _ J3 Heic) as [K1 [K2 K3]].
  apply K2. apply J2. apply I2.
Qed.

(* ------------------------------------------------------------------ *)
(* the hypotheses are satisfiable: "Kim's dog barks" with properties on two
   variables, an alignment of every kind, a quoted predicate and an
   individual constraint *)

Definition s (l : list N) : str := l.
Definition ex_m : xmrs :=
  {| xm_top := Some [104;48]%N; xm_index := Some [101;50]%N;
     xm_rels :=
       [ {| x_pred := [110;97;109;101;100]%N; x_label := [104;52]%N;
            x_args := [([67;65;82;71]%N, [75;34;105;109]%N); ([65;82;71;48]%N, [120;51]%N)];
            x_lnk := LChar 0 3; x_surface := Some [75;105;109]%N |};
         {| x_pred := [95;97;32;98;95;110;95;49]%N; x_label := [104;54]%N;
            x_args := [([65;82;71;49]%N, [120;51]%N); ([65;82;71;48]%N, [120;53]%N)];
            x_lnk := LToks [1;2]%Z; x_surface := None |};
         {| x_pred := [95;98;97;114;107;95;118;95;49]%N; x_label := [104;49]%N;
            x_args := [([65;82;71;48]%N, [101;50]%N); ([65;82;71;49]%N, [120;53]%N)];
            x_lnk := LNone; x_surface := None |} ];
     xm_hcons := [([104;48]%N, [113;101;113]%N, [104;49]%N)];
     xm_icons := [([101;50]%N, [116;111;112;105;99]%N, [120;53]%N)];
     xm_vars := [([120;53]%N, [([78;85;77]%N, [115;103]%N); ([80;69;82;83]%N, [51]%N)]);
                 ([101;50]%N, [([84;69;78;83;69]%N, [112;114;101;115]%N)])];
     xm_lnk := LChart 0 2; xm_surface := Some [97;34;98]%N |}.

Ltac nodup := repeat (apply NoDup_cons; [cbn; intuition congruence|]); apply NoDup_nil.
Ltac allof tac := repeat (apply Forall_cons; [tac|]); apply Forall_nil.

Example ex_wf : mrs_wf ex_m.
Proof.
  unfold mrs_wf, ex_m. cbn [xm_top xm_index xm_rels xm_hcons xm_icons xm_vars].
  split; [reflexivity|]. split; [reflexivity|].
  split.
  { allof ltac:(unfold ep_wf; cbn [x_pred x_label x_args];
                split; [reflexivity|]; split; [reflexivity|]; split; [cbn [map fst]; nodup|];
                allof ltac:(split; [reflexivity | first [intros _; reflexivity | intros H; exfalso; apply H; reflexivity]])). }
  split; [allof ltac:(cbn; repeat split; reflexivity)|].
  split; [allof ltac:(cbn; repeat split; reflexivity)|].
  split; [|reflexivity].
  split; [cbn [map fst]; nodup|].
  allof ltac:(cbn [snd]; split; [cbn [map fst]; nodup | allof ltac:(split; reflexivity)]).
Qed.

Example ex_expressible : forall v, getp v (xm_vars ex_m) <> [] -> In v (mentioned ex_m).
Proof.
  intros v. unfold getp. cbn [xm_vars ex_m dict_get].
  destruct (str_eqb [120; 53]%N v) eqn:E1; [apply str_eqb_spec in E1; subst; intros _; cbn; tauto|].
  destruct (str_eqb [101; 50]%N v) eqn:E2; [apply str_eqb_spec in E2; subst; intros _; cbn; tauto|].
  intros H; contradiction H; reflexivity.
Qed.

Example ex_encodes : exists toks vp, enc_mrs_full (fun _ => false) true true ex_m = Some (toks, vp) /\ length toks = 65%nat.
Proof. eexists. eexists. split; vm_compute; reflexivity. Qed.

Lemma first_mention_only v vp tv vp' : vp_ok vp -> enc_var v vp = Some (tv, vp') ->
  getp v vp' = [] /\ enc_var v vp' = Some ([TSYM v], vp').
Proof.
  intros Hok H. destruct (enc_var_clears v vp tv vp' Hok H) as [H1 _].
  split; [exact H1 | exact (enc_var_bare v vp' H1)].
Qed.

Lemma sorts_are_permutations (ps args : list (str * str)) :
  Permutation (sort_props ps) ps /\ Permutation (sort_roles args) args.
Proof. split; [apply sort_props_perm | apply sort_roles_perm]. Qed.
