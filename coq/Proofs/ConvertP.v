(* Proofs about Model/Convert.v (C04, C05). *)
From Coq Require Import List NArith ZArith Bool Arith Lia.
From PyD Require Import Base.Str Base.Dec Model.Hier Model.Mrs Model.Convert Proofs.HierP.
Import ListNotations.

Lemma combine_map_snd {A B} (l1 : list A) (l2 : list B) :
  length l1 = length l2 -> map snd (combine l1 l2) = l2.
Proof.
  revert l2. induction l1 as [|a l1 IH]; intros [|b l2] H; simpl in *; try lia; try reflexivity.
  f_equal. apply IH. lia.
Qed.

Lemma uniquify_length ids : forall seen k, length (uniquify ids seen k) = length ids.
Proof.
  induction ids as [|i ids IH]; intros seen k; simpl; [reflexivity|].
  destruct (mem i seen); simpl; rewrite IH; reflexivity.
Qed.

Lemma seq_opt_length {A} (l : list (option A)) r : seq_opt l = Some r -> length r = length l.
Proof.
  revert r. induction l as [|x l IH]; intros r H; simpl in H.
  - inversion H; reflexivity.
  - destruct x as [a|]; [|discriminate]. destruct (seq_opt l) as [r'|]; [|discriminate].
    inversion H; subst. simpl. f_equal. apply IH. reflexivity.
Qed.

Lemma ep_ids_length rels ids : ep_ids rels = Some ids -> length ids = length rels.
Proof.
  unfold ep_ids. destruct (seq_opt (map raw_id rels)) as [r|] eqn:E; [|discriminate].
  intros H; inversion H; subst. rewrite uniquify_length.
  apply seq_opt_length in E. rewrite map_length in E. exact E.
Qed.

(* one node per predication, in order, with predicate and constant *)
Theorem dmrs_nodes_basic m d : dmrs_from_mrs m = COk d ->
  map (fun n => (dn_pred n, dn_carg n)) (d_nodes d) = map (fun e => (e_pred e, e_carg e)) (m_rels m).
Proof.
  unfold dmrs_from_mrs.
  destruct (ep_ids (m_rels m)) as [ids|] eqn:Ei; [|discriminate].
  destruct (representatives m) as [reps|]; [|discriminate].
  match goal with |- context [match ?T with COk _ => _ | CIndexError => _ | CInvalid => _ end] =>
    destruct T as [[top w1]| |]; try discriminate end.
  intros H. inversion H; subst; clear H. simpl.
  rewrite map_map.
  pose proof (ep_ids_length _ _ Ei) as L.
  rewrite <- (combine_map_snd ids (m_rels m) L) at 2. rewrite map_map.
  apply map_ext. intros [i e]. simpl. destruct (is_quant e); [reflexivity|]. destruct (e_iv e); reflexivity.
Qed.
