(* Proofs about Model/Convert.v (C04, C05). *)
From Coq Require Import List NArith ZArith Bool Arith Lia.
From PyD Require Import Base.Str Base.Dec Model.Hier Model.Mrs Model.Convert Proofs.HierP Proofs.MrsP.
Import ListNotations.

Lemma combine_map_snd {A B} (l1 : list A) (l2 : list B) :
  length l1 = length l2 -> map snd (combine l1 l2) = l2.
Proof.
  revert l2. induction l1 as [|a l1 IH]; intros [|b l2] H; simpl in *; try lia; try reflexivity.
  f_equal. apply IH. lia.
Qed.

Lemma uniquify_length ids : forall seen k, length (uniquify ids seen k) = length ids.
Proof.
  induction ids as [|i ids IH]; intros seen k; simpl; [reflexivity|].
  destruct (mem i seen); simpl; rewrite IH; reflexivity.
Qed.

Lemma seq_opt_length {A} (l : list (option A)) r : seq_opt l = Some r -> length r = length l.
Proof.
  revert r. induction l as [|x l IH]; intros r H; simpl in H.
  - inversion H; reflexivity.
  - destruct x as [a|]; [|discriminate]. destruct (seq_opt l) as [r'|]; [|discriminate].
    inversion H; subst. simpl. f_equal. apply IH. reflexivity.
Qed.

Lemma ep_ids_length rels ids : ep_ids rels = Some ids -> length ids = length rels.
Proof.
  unfold ep_ids. destruct (seq_opt (map raw_id rels)) as [r|] eqn:E; [|discriminate].
  intros H; inversion H; subst. rewrite uniquify_length.
  apply seq_opt_length in E. rewrite map_length in E. exact E.
Qed.

(* ---- C04: nodes ---- *)
Theorem dmrs_nodes_spec m d : dmrs_from_mrs m = COk d ->
  exists ids reps, ep_ids (m_rels m) = Some ids /\ representatives m = Some reps /\
    d_nodes d = map (node_of m ids) (eps m ids) /\
    map snd (eps m ids) = m_rels m /\
    d_links d = flat_map fst (per_arg m ids reps) ++ mod_links ids reps ++ extra_links m ids reps.
Proof.
  unfold dmrs_from_mrs.
  destruct (ep_ids (m_rels m)) as [ids|] eqn:Ei; [|discriminate].
  destruct (representatives m) as [reps|]; [|discriminate].
  unfold conv_result. destruct (top_of m ids reps) as [[top w1]| |]; try discriminate.
  intros H. inversion H; subst; clear H. simpl.
  exists ids, reps. repeat split; try reflexivity.
  unfold eps. apply combine_map_snd. apply (ep_ids_length _ _ Ei).
Qed.

(* a node carries the predicate and constant of its predication and the type
   and properties of its intrinsic variable *)
Theorem node_of_spec m ids i e :
  let n := node_of m ids (i, e) in
  dn_pred n = e_pred e /\ dn_carg n = e_carg e /\ dn_id n = nid_of ids i /\
  (is_quant e = false -> forall v, e_iv e = Some v ->
     dn_type n = var_type v /\
     dn_props n = match dict_get v (m_vars m) with Some p => p | None => [] end) /\
  (is_quant e = true -> dn_type n = None /\ dn_props n = []).
Proof.
  simpl. destruct (is_quant e) eqn:Q; simpl.
  - split; [reflexivity|]. split; [reflexivity|]. split; [reflexivity|].
    split; [intros X; discriminate | intros _; split; reflexivity].
  - destruct (e_iv e) as [v|] eqn:V; simpl.
    + split; [reflexivity|]. split; [reflexivity|]. split; [reflexivity|].
      split; [|intros X; discriminate].
      intros _ v' E. inversion E; subst. split; reflexivity.
    + split; [reflexivity|]. split; [reflexivity|]. split; [reflexivity|].
      split; [intros _ v' E; discriminate | intros X; discriminate].
Qed.

Theorem dmrs_nodes_basic m d : dmrs_from_mrs m = COk d ->
  map (fun n => (dn_pred n, dn_carg n)) (d_nodes d) = map (fun e => (e_pred e, e_carg e)) (m_rels m).
Proof.
  intros H. destruct (dmrs_nodes_spec m d H) as (ids & reps & _ & _ & Hn & Hs & _).
  rewrite Hn, <- Hs, !map_map. apply map_ext. intros [i e]. simpl.
  destruct (is_quant e); [reflexivity|]. destruct (e_iv e); reflexivity.
Qed.

(* ---- C04: every link is justified by the source ---- *)
Lemma iv_to_nid_some m ids v n : iv_to_nid m ids v = Some n ->
  exists p, In p (eps m ids) /\ is_quant (snd p) = false /\ e_iv (snd p) = Some v /\ n = nid_of ids (fst p).
Proof.
  unfold iv_to_nid.
  assert (G : forall l acc,
            fold_left (fun acc p => if negb (is_quant (snd p)) &&
                                       match e_iv (snd p) with Some x => str_eqb x v | None => false end
                                    then Some (nid_of ids (fst p)) else acc) l acc = Some n ->
            acc = Some n \/
            exists p, In p l /\ is_quant (snd p) = false /\ e_iv (snd p) = Some v /\ n = nid_of ids (fst p)).
  { induction l as [|p l IH]; intros acc H; simpl in H; [left; exact H|].
    destruct (IH _ H) as [E|(q & Hq & R)].
    - destruct (negb (is_quant (snd p)) && match e_iv (snd p) with Some x => str_eqb x v | None => false end) eqn:C.
      + right. exists p. apply andb_true_iff in C. destruct C as [C1 C2].
        apply negb_true_iff in C1. destruct (e_iv (snd p)) as [x|] eqn:Ex; [|discriminate].
        apply str_eqb_spec in C2. subst x. inversion E; subst.
        split; [left; reflexivity|]. auto.
      + left. exact E.
    - right. exists q. split; [right; exact Hq | exact R]. }
  intros H. destruct (G _ _ H) as [E|R]; [discriminate | exact R].
Qed.

Inductive link_justified (m : mrs) (ids : list str) (reps : list (str * list str))
  : Z * Z * str * str -> Prop :=
| lj_arg i e role tgt p post :
    (* the start predication has that role, its value is the intrinsic variable of the
       (non-quantifier) target predication; EQ/NEQ by label identity *)
    In (i, e) (eps m ids) -> In (role, tgt) (ep_arguments None e) ->
    In p (eps m ids) -> is_quant (snd p) = false -> e_iv (snd p) = Some tgt ->
    post = match label_of_id m ids tgt with
           | Some l => if str_eqb (e_label e) l then POST_EQ else POST_NEQ
           | None => POST_NEQ end ->
    link_justified m ids reps (nid_of ids i, nid_of ids (fst p), role, post)
| lj_h i e role tgt c r rest :
    (* the value is the hole of a handle constraint; the target is the first
       representative of the scope it selects - for a quantifier, the member of that
       scope it binds, if there is one (scopal_target_spec) *)
    In (i, e) (eps m ids) -> In (role, tgt) (ep_arguments None e) ->
    hc_get (m_hcons m) tgt = Some c -> dict_get (snd c) reps = Some (r :: rest) ->
    link_justified m ids reps (nid_of ids i, nid_of ids (scopal_target m ids e (snd c) r), role, POST_H)
| lj_heq i e role tgt r rest :
    (* the value is a label; the target is the first representative of that scope *)
    In (i, e) (eps m ids) -> In (role, tgt) (ep_arguments None e) ->
    hc_get (m_hcons m) tgt = None -> dict_get tgt reps = Some (r :: rest) ->
    link_justified m ids reps (nid_of ids i, nid_of ids (scopal_target m ids e tgt r), role, POST_HEQ)
| lj_mod lbl f rest s :
    (* MOD/EQ from a later to the first representative of one scope *)
    In (lbl, f :: rest) reps -> In s rest ->
    link_justified m ids reps (nid_of ids s, nid_of ids f, MOD_ROLE, POST_EQ)
| lj_mod2 lbl f rest s e :
    (* MOD/EQ from another member of the scope (one not tied to the first representative
       by /EQ links) to its first representative *)
    dict_get lbl reps = Some (f :: rest) -> In (s, e) (eps m ids) -> e_label e = lbl ->
    link_justified m ids reps (nid_of ids s, nid_of ids f, MOD_ROLE, POST_EQ).

Lemma scope_extra_links edges first members l : In l (scope_extra edges first members) ->
  exists x, In x members /\ l = (x, first, MOD_ROLE, POST_EQ).
Proof.
  unfold scope_extra.
  assert (G : forall mem acc, (forall l, In l (snd acc) -> exists x, In x members /\ l = (x, first, MOD_ROLE, POST_EQ)) ->
              incl mem members ->
              forall l, In l (snd (fold_left (fun acc x =>
                    let '(seen, out) := acc in
                    if existsb (Z.eqb x) seen then acc
                    else (seen ++ component edges x, out ++ [(x, first, MOD_ROLE, POST_EQ)])) mem acc)) ->
              exists x, In x members /\ l = (x, first, MOD_ROLE, POST_EQ)).
  { induction mem as [|y mem IH]; intros [seen out] Hacc Hinc l0 Hl; cbn [fold_left] in Hl; [apply Hacc; exact Hl|].
    destruct (existsb (Z.eqb y) seen).
    - apply (IH (seen, out)); [exact Hacc | intros z Hz; apply Hinc; right; exact Hz | exact Hl].
    - apply (IH (seen ++ component edges y, out ++ [(y, first, MOD_ROLE, POST_EQ)])); [| intros z Hz; apply Hinc; right; exact Hz | exact Hl].
      cbn [snd]. intros l1 H1. apply in_app_or in H1. destruct H1 as [H1|[<-|[]]]; [apply Hacc; exact H1|].
      exists y. split; [apply Hinc; left; reflexivity | reflexivity]. }
  apply G; [intros l0 [] | apply incl_refl].
Qed.

(* the end of a scopal link: the first representative, or - for a quantifier - a
   non-quantifier member of the selected scope with the quantifier's own variable *)
Lemma scopal_target_spec m ids e lbl r :
  scopal_target m ids e lbl r = r \/
  (is_quant e = true /\ exists p, In p (eps m ids) /\ fst p = scopal_target m ids e lbl r /\
     e_label (snd p) = lbl /\ is_quant (snd p) = false /\ e_iv (snd p) = e_iv e).
Proof.
  unfold scopal_target. destruct (is_quant e) eqn:Q; [|left; reflexivity].
  match goal with |- context [find ?f ?l] => destruct (find f l) as [p|] eqn:F end; [|left; reflexivity].
  right. split; [reflexivity|]. apply find_some in F. destruct F as [Hin Hf].
  apply andb_prop in Hf. destruct Hf as [Hf Hiv]. apply andb_prop in Hf. destruct Hf as [Hl Hq].
  exists p. split; [exact Hin|]. split; [reflexivity|]. split; [apply str_eqb_spec; exact Hl|].
  split; [apply negb_true_iff; exact Hq|].
  destruct (e_iv (snd p)) as [a|], (e_iv e) as [b|]; try discriminate; [|reflexivity].
  apply str_eqb_spec in Hiv. subst. reflexivity.
Qed.

Theorem dmrs_links_justified m d : dmrs_from_mrs m = COk d ->
  exists ids reps, ep_ids (m_rels m) = Some ids /\ representatives m = Some reps /\
    forall l, In l (d_links d) -> link_justified m ids reps l.
Proof.
  intros H. destruct (dmrs_nodes_spec m d H) as (ids & reps & Hi & Hr & _ & _ & Hl).
  exists ids, reps. split; [exact Hi|]. split; [exact Hr|].
  intros l Hin. rewrite Hl in Hin. apply in_app_or in Hin. destruct Hin as [Hin|Hin].
  - apply in_flat_map in Hin. destruct Hin as ([ls w] & Hpa & Hl'). simpl in Hl'.
    unfold per_arg in Hpa. apply in_flat_map in Hpa. destruct Hpa as ([i e] & Hp & Hm).
    apply in_map_iff in Hm. destruct Hm as ([role tgt] & E & Hrv). simpl in *.
    unfold arg_link in E.
    destruct (iv_to_nid m ids tgt) as [endn|] eqn:Eiv.
    + inversion E; subst ls w. destruct Hl' as [<-|[]].
      destruct (iv_to_nid_some _ _ _ _ Eiv) as (p & Hp' & Q & V & ->).
      eapply lj_arg; eauto.
    + destruct (hc_get (m_hcons m) tgt) as [c|] eqn:Ehc.
      * destruct (dict_get (snd c) reps) as [[|r rest]|] eqn:Er; inversion E; subst ls w;
          try (destruct Hl'; fail).
        destruct Hl' as [<-|[]]. eapply lj_h; eauto.
      * destruct (dict_get tgt reps) as [[|r rest]|] eqn:Er; inversion E; subst ls w;
          try (destruct Hl'; fail).
        destruct Hl' as [<-|[]]. eapply lj_heq; eauto.
  - apply in_app_or in Hin. destruct Hin as [Hin|Hin].
    + unfold mod_links in Hin. apply in_flat_map in Hin. destruct Hin as ([lbl rs] & Hlr & Hm). simpl in Hm.
      destruct rs as [|f rest]; [destruct Hm|].
      apply in_map_iff in Hm. destruct Hm as (s & <- & Hs). eapply lj_mod; eauto.
    + unfold extra_links in Hin. apply in_flat_map in Hin. destruct Hin as ([lbl es] & _ & Hm). cbn [fst] in Hm.
      destruct (members_of m ids lbl) as [|m1 [|m2 ms]] eqn:Em; try (destruct Hm; fail).
      destruct (dict_get lbl reps) as [[|f rest]|] eqn:Er; try (destruct Hm; fail).
      apply scope_extra_links in Hm. destruct Hm as (x & Hx & ->).
      apply in_map_iff in Hx. destruct Hx as (s & <- & Hs). rewrite <- Em in Hs.
      unfold members_of in Hs. apply in_map_iff in Hs. destruct Hs as ([s' e] & <- & Hf).
      apply filter_In in Hf. destruct Hf as [Hin' Hl']. cbn [fst snd] in *. apply str_eqb_spec in Hl'.
      eapply lj_mod2; eauto.
Qed.

(* ---- C05 ---- *)
Lemma rename_nodes_ids new_ids nodes :
  map en_id (rename_nodes new_ids nodes) = map (rename_id new_ids) (map en_id nodes).
Proof. unfold rename_nodes. rewrite !map_map. reflexivity. Qed.

Lemma rename_nodes_attrs new_ids nodes :
  map (fun n => (en_pred n, en_type n, en_props n, en_carg n)) (rename_nodes new_ids nodes) =
  map (fun n => (en_pred n, en_type n, en_props n, en_carg n)) nodes.
Proof. unfold rename_nodes. rewrite map_map. reflexivity. Qed.

Lemma add_pm_edge_attrs addl nodes :
  map (fun n => (en_id n, en_pred n, en_type n, en_props n, en_carg n)) (map (add_pm_edge addl) nodes) =
  map (fun n => (en_id n, en_pred n, en_type n, en_props n, en_carg n)) nodes.
Proof.
  rewrite map_map. apply map_ext. intros n. unfold add_pm_edge.
  destruct (dict_get (en_id n) addl); reflexivity.
Qed.

Lemma base_node_attrs m deps p :
  let n := base_node m deps p in
  en_id n = fst p /\ en_pred n = e_pred (snd p) /\ en_carg n = e_carg (snd p) /\
  (is_quant (snd p) = false -> forall v, e_iv (snd p) = Some v ->
     en_type n = var_type v /\
     en_props n = match dict_get v (m_vars m) with Some pr => pr | None => [] end).
Proof.
  destruct p as [i e]. simpl. destruct (is_quant e) eqn:Q; simpl.
  - split; [reflexivity|]. split; [reflexivity|]. split; [reflexivity|]. intros X; discriminate.
  - destruct (e_iv e) as [v|]; simpl.
    + split; [reflexivity|]. split; [reflexivity|]. split; [reflexivity|].
      intros _ v' E. inversion E; subst. split; reflexivity.
    + split; [reflexivity|]. split; [reflexivity|]. split; [reflexivity|]. intros _ v' E. discriminate.
Qed.

(* the keys of the renaming table are the predication ids, in order *)
Lemma new_ids_keys eps : map fst (new_ids_of eps) = map fst eps.
Proof.
  unfold new_ids_of.
  assert (G : forall (l : list (str * ep)) (out : list (str * str)) (k : Z),
            map fst (fst (fold_left (fun (acc : list (str * str) * Z) (p : str * ep) =>
               let '(out, k) := acc in
               let '(i, e) := p in
               match e_iv e with
               | Some v => if is_quant e then (out ++ [(i, 95%N :: Z_to_dec k)], (k + 1)%Z)
                           else (out ++ [(i, v)], k)
               | None => (out ++ [(i, 95%N :: Z_to_dec k)], (k + 1)%Z)
               end) l (out, k))) = map fst out ++ map fst l).
  { induction l as [|[i e] l IH]; intros out k; simpl; [rewrite app_nil_r; reflexivity|].
    destruct (e_iv e) as [v|]; [destruct (is_quant e)|]; rewrite IH, map_app, <- app_assoc; reflexivity. }
  rewrite G. reflexivity.
Qed.

Lemma dict_get_nodup_nth {A} (l : list (str * A)) : NoDup (map fst l) ->
  forall k v, In (k, v) l -> dict_get k l = Some v.
Proof.
  induction l as [|[k0 v0] l IH]; intros Hnd k v Hin; [destruct Hin|].
  inversion Hnd as [|? ? Hn Hnd']; subst. simpl.
  destruct Hin as [E|Hin].
  - inversion E; subst. rewrite str_eqb_refl. reflexivity.
  - destruct (str_eqb k0 k) eqn:E.
    + apply str_eqb_spec in E. subst k0. exfalso. apply Hn. apply in_map_iff. exists (k, v). auto.
    + apply IH; assumption.
Qed.

Lemma map_rename_keys (l : list (str * str)) : NoDup (map fst l) ->
  map (rename_id l) (map fst l) = map snd l.
Proof.
  intros Hnd. rewrite map_map. apply map_ext_in. intros [k v] Hin. unfold rename_id. simpl.
  rewrite (dict_get_nodup_nth l Hnd k v Hin). reflexivity.
Qed.

(* C05: with unique_ids the node identifiers of the result are pairwise distinct *)
Theorem renamed_ids_unique eps nodes :
  NoDup (map fst eps) -> map en_id nodes = map fst eps ->
  nodupb (map snd (new_ids_of eps)) = true ->
  NoDup (map en_id (rename_nodes (new_ids_of eps) nodes)).
Proof.
  intros Hnd Hids Hb. rewrite rename_nodes_ids, Hids, <- (new_ids_keys eps).
  rewrite map_rename_keys by (rewrite new_ids_keys; exact Hnd).
  apply Proofs.MrsP.nodupb_spec. exact Hb.
Qed.

(* C05: the nodes of the converted EDS *)
Theorem eds_nodes_spec m pm uniq e : eds_from_mrs m pm uniq = COk e ->
  exists ids, ep_ids (m_rels m) = Some ids /\
    (* one node per predication, in order, with predicate, constant, type and properties *)
    map (fun n => (en_pred n, en_carg n)) (e_nodes e) = map (fun x => (e_pred x, e_carg x)) (m_rels m) /\
    (forall k n x, nth_error (e_nodes e) k = Some n -> nth_error (m_rels m) k = Some x ->
       is_quant x = false -> forall v, e_iv x = Some v ->
       en_type n = var_type v /\ en_props n = match dict_get v (m_vars m) with Some pr => pr | None => [] end) /\
    (* unique identifiers *)
    (NoDup ids -> NoDup (map en_id (e_nodes e))).
Proof.
  unfold eds_from_mrs.
  destruct (ep_ids (m_rels m)) as [ids|] eqn:Ei; [|discriminate].
  destruct (representatives m) as [reps|]; [|discriminate].
  set (eps := combine ids (m_rels m)).
  destruct (eds_top m ids reps) as [[top w1]| |]; try (intros H; discriminate).
  2:{ destruct (eds_deps m ids reps) as [[d| |] w]; intros H; discriminate. }
  destruct (eds_deps m ids reps) as [[deps| |] w2]; try (intros H; discriminate).
  set (nodes0 := map (base_node m deps) eps).
  match goal with |- context [map (add_pm_edge ?A) nodes0] => set (addl := A) end.
  set (nodes1 := map (add_pm_edge addl) nodes0).
  assert (L : length ids = length (m_rels m)) by (apply ep_ids_length; exact Ei).
  assert (Hsnd : map snd eps = m_rels m) by (apply combine_map_snd; exact L).
  assert (Hfst : map fst eps = ids).
  { unfold eps. clear -L. revert L. generalize (m_rels m). induction ids as [|i ids IH]; intros [|r rs] L;
      simpl in *; try lia; try reflexivity. f_equal. apply IH. lia. }
  assert (A1 : map (fun n => (en_id n, en_pred n, en_type n, en_props n, en_carg n)) nodes1 =
               map (fun n => (en_id n, en_pred n, en_type n, en_props n, en_carg n)) nodes0)
    by apply add_pm_edge_attrs.
  assert (Hid1 : map en_id nodes1 = ids).
  { transitivity (map (fun t => fst (fst (fst (fst t)))) (map (fun n => (en_id n, en_pred n, en_type n, en_props n, en_carg n)) nodes1)).
    - rewrite map_map. reflexivity.
    - rewrite A1, map_map. unfold nodes0. rewrite map_map. rewrite <- Hfst. apply map_ext.
      intros p. simpl. apply (base_node_attrs m deps p). }
  assert (Hattr : forall nodes, map (fun n => (en_pred n, en_type n, en_props n, en_carg n)) nodes =
                                map (fun n => (en_pred n, en_type n, en_props n, en_carg n)) nodes1 ->
            map (fun n => (en_pred n, en_carg n)) nodes = map (fun x => (e_pred x, e_carg x)) (m_rels m) /\
            (forall k n x, nth_error nodes k = Some n -> nth_error (m_rels m) k = Some x ->
               is_quant x = false -> forall v, e_iv x = Some v ->
               en_type n = var_type v /\ en_props n = match dict_get v (m_vars m) with Some pr => pr | None => [] end)).
  { intros nodes Hn.
    assert (B : map (fun n => (en_pred n, en_type n, en_props n, en_carg n)) nodes =
                map (fun p => let n := base_node m deps p in (en_pred n, en_type n, en_props n, en_carg n)) eps).
    { rewrite Hn.
      transitivity (map (fun t => let '(_, a, b, c, d) := t in (a, b, c, d))
                        (map (fun n => (en_id n, en_pred n, en_type n, en_props n, en_carg n)) nodes1)).
      - rewrite map_map. reflexivity.
      - rewrite A1, map_map. unfold nodes0. rewrite map_map. reflexivity. }
    split.
    - transitivity (map (fun t => let '(a, _, _, d) := t in (a, d))
                        (map (fun n => (en_pred n, en_type n, en_props n, en_carg n)) nodes)).
      + rewrite map_map. reflexivity.
      + rewrite B, map_map. rewrite <- Hsnd, map_map. apply map_ext. intros p.
        destruct (base_node_attrs m deps p) as (_ & P & C & _). simpl. rewrite P, C. reflexivity.
    - intros k n x Hk Hx Q v V.
      assert (Hk' : nth_error (map (fun n => (en_pred n, en_type n, en_props n, en_carg n)) nodes) k =
                    Some (en_pred n, en_type n, en_props n, en_carg n)) by (rewrite nth_error_map, Hk; reflexivity).
      rewrite B, nth_error_map in Hk'.
      destruct (nth_error eps k) as [p|] eqn:Ep; [|discriminate]. simpl in Hk'.
      assert (Hpx : snd p = x).
      { assert (Hq : nth_error (map snd eps) k = Some (snd p)) by (rewrite nth_error_map, Ep; reflexivity).
        rewrite Hsnd in Hq. congruence. }
      rewrite <- Hpx in Q, V. destruct (base_node_attrs m deps p) as (_ & _ & _ & T). specialize (T Q v V).
      inversion Hk'. destruct T as [T1 T2]. rewrite <- T1, <- T2. split; congruence. }
  destruct uniq.
  - destruct (nodupb (map snd (new_ids_of eps))) eqn:Enb; [|intros H; discriminate].
    intros H. injection H as He. subst e. simpl. exists ids. split; [reflexivity|].
    destruct (Hattr (rename_nodes (new_ids_of eps) nodes1) (rename_nodes_attrs _ _)) as [X Y].
    split; [exact X|]. split; [exact Y|].
    intros Hnd. apply renamed_ids_unique; [rewrite Hfst; exact Hnd | rewrite Hfst; exact Hid1 | exact Enb].
  - intros H. injection H as He. subst e. simpl. exists ids. split; [reflexivity|].
    destruct (Hattr nodes1 eq_refl) as [X Y]. split; [exact X|]. split; [exact Y|].
    intros Hnd. rewrite Hid1. exact Hnd.
Qed.
