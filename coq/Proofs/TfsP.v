(* Proofs about the FeatureStructure model (C15): dotted-path access. *)
From Coq Require Import List NArith ZArith Bool Arith Lia.
From PyD Require Import Base.Str Model.Hier Model.Mrs Model.Iso Model.Tfs Proofs.SimpleMrsP.
Import ListNotations.

Lemma setitem_cons2 f k k2 rest v :
  setitem f (k :: k2 :: rest) v =
  match dict_get (ascii_upper k) f with
  | Some (FSub g) => option_map (fun g' => dict_set (ascii_upper k) (FSub g') f) (setitem g (k2 :: rest) v)
  | Some (FLeaf _) => None
  | None => option_map (fun g' => dict_set (ascii_upper k) (FSub g') f) (setitem [] (k2 :: rest) v)
  end.
Proof. reflexivity. Qed.

Lemma getitem_cons2 f k k2 rest :
  getitem f (k :: k2 :: rest) = match dict_get (ascii_upper k) f with Some (FSub g) => getitem g (k2 :: rest) | _ => None end.
Proof. reflexivity. Qed.

(* a value stored under a dotted path is retrieved by that path in any
   letter case *)
Theorem get_set_same path : forall f v f' path',
  setitem f path v = Some f' -> map ascii_upper path' = map ascii_upper path ->
  getitem f' path' = Some (val_of v).
Proof.
  induction path as [|k rest IH]; intros f v f' path' Hs Hp; [discriminate|].
  destruct path' as [|k' rest']; [discriminate|]. cbn [map] in Hp. inversion Hp as [[Hk Hr]].
  destruct rest as [|k2 rest2].
  - destruct rest' as [|? ?]; [|cbn in Hr; discriminate Hr]. cbn [setitem] in Hs. inversion Hs; subst. cbn [getitem].
    rewrite Hk. apply dict_get_set_same'.
  - destruct rest' as [|k2' rest2']; [cbn in Hr; discriminate Hr|].
    rewrite setitem_cons2 in Hs. rewrite getitem_cons2. rewrite Hk.
    destruct (dict_get (ascii_upper k) f) as [[w|g]|] eqn:Eg.
    + discriminate.
    + destruct (setitem g (k2 :: rest2) v) as [g'|] eqn:Es; [|cbn in Hs; discriminate Hs]. cbn in Hs. inversion Hs; subst.
      rewrite dict_get_set_same'. apply (IH g v g' (k2' :: rest2') Es Hr).
    + destruct (setitem [] (k2 :: rest2) v) as [g'|] eqn:Es; [|cbn in Hs; discriminate Hs]. cbn in Hs. inversion Hs; subst.
      rewrite dict_get_set_same'. apply (IH [] v g' (k2' :: rest2') Es Hr).
Qed.

(* assignment under one first feature does not disturb another *)
Theorem get_set_other_first f k rest v f' q qs :
  setitem f (k :: rest) v = Some f' -> ascii_upper q <> ascii_upper k ->
  getitem f' (q :: qs) = getitem f (q :: qs).
Proof.
  intros Hs Hne.
  assert (Hg : dict_get (ascii_upper q) f' = dict_get (ascii_upper q) f).
  { destruct rest as [|k2 rest2]; [cbn [setitem] in Hs | rewrite setitem_cons2 in Hs].
    - inversion Hs; subst. apply dict_get_set_other'. congruence.
    - destruct (dict_get (ascii_upper k) f) as [[w|g]|]; try discriminate.
      + destruct (setitem g (k2 :: rest2) v); [|cbn in Hs; discriminate Hs]. cbn in Hs. inversion Hs; subst. apply dict_get_set_other'. congruence.
      + destruct (setitem [] (k2 :: rest2) v); [|cbn in Hs; discriminate Hs]. cbn in Hs. inversion Hs; subst. apply dict_get_set_other'. congruence. }
  destruct qs; cbn [getitem]; rewrite Hg; reflexivity.
Qed.

(* more generally: a path that leaves the assigned path at some position is undisturbed *)
Theorem get_set_diverge path : forall f v f' pre q qs k rest,
  path = pre ++ k :: rest -> setitem f path v = Some f' -> ascii_upper q <> ascii_upper k ->
  getitem f' (pre ++ q :: qs) = getitem f (pre ++ q :: qs).
Proof.
  intros f v f' pre. revert path f v f'.
  induction pre as [|p0 pre IH]; intros path f v f' q qs k rest Hp Hs Hne; subst path.
  - cbn [app] in *. eapply get_set_other_first; eassumption.
  - cbn [app] in *.
    assert (Hne0 : pre ++ k :: rest <> []) by (destruct pre; discriminate).
    assert (Hne1 : pre ++ q :: qs <> []) by (destruct pre; discriminate).
    destruct (pre ++ k :: rest) as [|a1 r1] eqn:E1; [contradiction Hne0; reflexivity|].
    destruct (pre ++ q :: qs) as [|b1 s1] eqn:E2; [contradiction Hne1; reflexivity|].
    rewrite setitem_cons2 in Hs. rewrite !getitem_cons2.
    destruct (dict_get (ascii_upper p0) f) as [[w|g]|] eqn:Eg.
    + discriminate.
    + destruct (setitem g (a1 :: r1) v) as [g'|] eqn:Es; [|cbn in Hs; discriminate Hs]. cbn in Hs. inversion Hs; subst.
      rewrite dict_get_set_same'. rewrite <- E2. rewrite <- E1 in Es. eapply IH; [reflexivity | exact Es | exact Hne].
    + destruct (setitem [] (a1 :: r1) v) as [g'|] eqn:Es; [|cbn in Hs; discriminate Hs]. cbn in Hs. inversion Hs; subst.
      rewrite dict_get_set_same'. rewrite <- E2. rewrite <- E1 in Es.
      rewrite (IH _ [] v g' q qs k rest eq_refl Es Hne).
      destruct (pre ++ q :: qs) as [|x [|y z]]; reflexivity.
Qed.
